// Package refcose holds the reference models the oracles compare go-cose
// against. They are written from RFC 9052 / RFC 9338 / the hash-envelope
// draft and the property texts, on top of refcbor only; nothing here imports
// go-cose or fxamacker/cbor.
package refcose

import (
	"bytes"
	"errors"
	"fmt"
	"math"
	"reflect"
	"sort"
	"strings"

	"verif/harness/refcbor"
)

type Node = refcbor.Node

// Kind names the shape a decoder expects.
type Kind int

const (
	KSign1Tagged Kind = iota
	KSign1Untagged
	KSignTagged
	KSignature // COSE_Signature and COSE_Countersignature share one shape
	KProtected
	KUnprotected
)

func (k Kind) String() string {
	return [...]string{"Sign1Tagged", "Sign1Untagged", "SignTagged", "Signature", "ProtectedHeader", "UnprotectedHeader"}[k]
}

// ------------------------------------------------------- Sig_structure ----

// Structure builds the deterministic encoding of a Sig_structure /
// Countersign_structure. bodyProt and signProt are the *contents* of the
// protected bstr (serialized map or empty); signProt == nil means "no
// sign_protected element"; others == nil means "no other_fields element".
func Structure(context string, bodyProt []byte, signProt []byte, hasSign bool, external, payload []byte, others [][]byte) []byte {
	kids := []*Node{refcbor.NTstr(context), refcbor.NBstr(bodyProt)}
	if hasSign {
		kids = append(kids, refcbor.NBstr(signProt))
	}
	kids = append(kids, refcbor.NBstr(external), refcbor.NBstr(payload))
	if others != nil {
		var o []*Node
		for _, b := range others {
			o = append(o, refcbor.NBstr(b))
		}
		kids = append(kids, refcbor.NArr(o...))
	}
	return refcbor.Canon(refcbor.NArr(kids...))
}

func Sign1Structure(bodyProt, external, payload []byte) []byte {
	return Structure("Signature1", bodyProt, nil, false, external, payload, nil)
}

func SignatureStructure(bodyProt, signProt, external, payload []byte) []byte {
	return Structure("Signature", bodyProt, signProt, true, external, payload, nil)
}

// ParentKind for countersignatures.
type ParentKind int

const (
	PSign1 ParentKind = iota
	PSign
	PSignature
	PCountersignature
)

func (p ParentKind) String() string {
	return [...]string{"Sign1", "Sign", "Signature", "Countersignature"}[p]
}

// CountersignStructure builds the RFC 9338 Countersign_structure.
//   - parentProt: content of the parent's protected bstr
//   - parentPayload: payload of a Sign1/Sign parent, or the *signature* of a
//     Signature/Countersignature parent
//   - parentSig: signature of a Sign1 parent (goes to other_fields)
//   - abbreviated with withSignProt=false gives the RFC 9338 layout without
//     sign_protected; withSignProt=true the layout with an empty one.
func CountersignStructure(pk ParentKind, abbreviated, withSignProt bool, parentProt, signProt, external, parentPayload, parentSig []byte) []byte {
	ctx := "CounterSignature"
	var others [][]byte
	if pk == PSign1 {
		ctx = "CounterSignatureV2"
		others = [][]byte{parentSig}
	}
	if abbreviated {
		if pk == PSign1 {
			ctx = "CounterSignature0V2"
		} else {
			ctx = "CounterSignature0"
		}
	}
	return Structure(ctx, parentProt, signProt, withSignProt, external, parentPayload, others)
}

// ------------------------------------------------------- well-formedness --

// WellFormed implements DESIGN.md appendix A.1: nil iff b is a well-formed
// encoding of the given kind.
func WellFormed(kind Kind, b []byte) error {
	n, err := refcbor.Parse(b)
	if err != nil {
		return err
	}
	if refcbor.AnyIndef(n) {
		return errors.New("indefinite-length item")
	}
	switch kind {
	case KSign1Tagged:
		if n.Major != refcbor.Tag || n.Arg != 18 {
			return errors.New("not tag 18")
		}
		return sign1Body(n.Kids[0])
	case KSign1Untagged:
		return sign1Body(n)
	case KSignTagged:
		if n.Major != refcbor.Tag || n.Arg != 98 {
			return errors.New("not tag 98")
		}
		return signBody(n.Kids[0])
	case KSignature:
		if refcbor.AnyTag(n) {
			return errors.New("tag inside envelope")
		}
		return signatureBody(n)
	case KProtected:
		_, err := protectedMap(n)
		if err != nil {
			return err
		}
		m, _ := protectedMap(n)
		return HeaderRulesWire(m, nil, true, false)
	case KUnprotected:
		// The stand-alone bucket decoder is not an envelope: it runs in a mode that
		// tolerates tags, and the CBOR library looks through tags when it decodes
		// into typed values. The property only forbids tags inside envelopes, so the
		// rules are applied to the tree with every tag wrapper removed.
		// (duplicates are judged on the tree as written: a tagged key is a different key)
		if refcbor.AnyDupKeys(n) {
			return errors.New("duplicate key in unprotected header")
		}
		n = StripTags(n)
		if err := unprotectedMapNoDup(n); err != nil {
			return err
		}
		if err := HeaderRulesWire(nil, n, false, true); err != nil {
			return err
		}
		return nestedCountersignatures(n)
	}
	return errors.New("unknown kind")
}

// stripTags returns a copy of the tree without tag wrappers.
func StripTags(n *Node) *Node {
	for n.Major == refcbor.Tag && len(n.Kids) == 1 {
		n = n.Kids[0]
	}
	c := *n
	if n.Kids != nil {
		c.Kids = make([]*Node, len(n.Kids))
		for i, k := range n.Kids {
			c.Kids[i] = StripTags(k)
		}
	}
	return &c
}

func sign1Body(a *Node) error {
	if refcbor.AnyTag(a) {
		return errors.New("tag inside envelope")
	}
	if a.Major != refcbor.Array || len(a.Kids) != 4 {
		return errors.New("not a 4-array")
	}
	if err := layer(a.Kids[0], a.Kids[1]); err != nil {
		return err
	}
	if err := payloadItem(a.Kids[2]); err != nil {
		return err
	}
	return sigItem(a.Kids[3])
}

func signBody(a *Node) error {
	if refcbor.AnyTag(a) {
		return errors.New("tag inside envelope")
	}
	if a.Major != refcbor.Array || len(a.Kids) != 4 {
		return errors.New("not a 4-array")
	}
	if err := layer(a.Kids[0], a.Kids[1]); err != nil {
		return err
	}
	if err := payloadItem(a.Kids[2]); err != nil {
		return err
	}
	s := a.Kids[3]
	if s.Major != refcbor.Array || len(s.Kids) == 0 {
		return errors.New("signatures is not a non-empty array")
	}
	for i, g := range s.Kids {
		if err := signatureBody(g); err != nil {
			return fmt.Errorf("signature %d: %w", i, err)
		}
	}
	return nil
}

func signatureBody(g *Node) error {
	if g.Major != refcbor.Array || len(g.Kids) != 3 {
		return errors.New("not a 3-array")
	}
	if err := layer(g.Kids[0], g.Kids[1]); err != nil {
		return err
	}
	return sigItem(g.Kids[2])
}

func payloadItem(p *Node) error {
	if p.Major == refcbor.Bstr || p.IsNull() {
		return nil
	}
	return errors.New("payload is neither bstr nor nil")
}

func sigItem(s *Node) error {
	if s.Major != refcbor.Bstr {
		return errors.New("signature is not a bstr")
	}
	if len(s.Str) == 0 {
		return errors.New("empty signature")
	}
	return nil
}

// protectedMap checks P and returns the wrapped map (nil for an empty header).
func protectedMap(p *Node) (*Node, error) {
	if p.Major != refcbor.Bstr {
		return nil, errors.New("protected is not a bstr")
	}
	if len(p.Str) == 0 {
		return nil, nil
	}
	m, err := refcbor.Parse(p.Str)
	if err != nil {
		return nil, fmt.Errorf("protected content: %w", err)
	}
	if m.Major != refcbor.Map {
		return nil, errors.New("protected content is not a map")
	}
	if refcbor.AnyIndef(m) {
		return nil, errors.New("protected content has an indefinite-length item")
	}
	if err := labels(m); err != nil {
		return nil, err
	}
	if refcbor.AnyDupKeys(m) {
		return nil, errors.New("duplicate key in protected header")
	}
	return m, nil
}

func unprotectedMap(u *Node) error {
	if err := unprotectedMapNoDup(u); err != nil {
		return err
	}
	if refcbor.AnyDupKeys(u) {
		return errors.New("duplicate key in unprotected header")
	}
	return nil
}

func unprotectedMapNoDup(u *Node) error {
	if u.Major != refcbor.Map {
		return errors.New("unprotected is not a map")
	}
	return labels(u)
}

func labels(m *Node) error {
	for i := 0; i+1 < len(m.Kids); i += 2 {
		k := Untag(m.Kids[i])
		if k.Major == refcbor.Tstr {
			continue
		}
		if _, ok := k.Int64(); ok {
			continue
		}
		return errors.New("label is neither an int within int64 nor a tstr")
	}
	return nil
}

func layer(p, u *Node) error {
	m, err := protectedMap(p)
	if err != nil {
		return err
	}
	if err := unprotectedMap(u); err != nil {
		return err
	}
	if err := HeaderRulesWire(m, u, true, true); err != nil {
		return err
	}
	return nestedCountersignatures(u)
}

// nestedCountersignatures recurses into labels 7 and 11 of an unprotected map.
func nestedCountersignatures(u *Node) error {
	for i := 0; i+1 < len(u.Kids); i += 2 {
		l, ok := Untag(u.Kids[i]).Int64()
		if !ok || (l != 7 && l != 11) {
			continue
		}
		v := u.Kids[i+1]
		if v.Major == refcbor.Array && len(v.Kids) == 3 && v.Kids[0].Major == refcbor.Bstr {
			// a single COSE_Countersignature
			if err := signatureBody(v); err != nil {
				return fmt.Errorf("countersignature: %w", err)
			}
			continue
		}
		if v.Major != refcbor.Array || len(v.Kids) == 0 {
			return errors.New("countersignature value is neither an object nor a non-empty list")
		}
		for _, g := range v.Kids {
			if err := signatureBody(g); err != nil {
				return fmt.Errorf("countersignature list entry: %w", err)
			}
		}
	}
	return nil
}

// Untag strips tag 55799 ("self-described CBOR", RFC 8949 section 3.4.6: it
// does not change the semantics of the tagged item; the CBOR library drops
// it while decoding). The rules below look through it so that they never
// demand more than the property states.
func Untag(n *Node) *Node {
	for n != nil && n.Major == refcbor.Tag && n.Arg == 55799 && len(n.Kids) == 1 {
		n = n.Kids[0]
	}
	return n
}

// Lookup returns the value of integer label l in map m (nil if absent or m nil).
func Lookup(m *Node, l int64) *Node {
	if m == nil {
		return nil
	}
	for i := 0; i+1 < len(m.Kids); i += 2 {
		if v, ok := Untag(m.Kids[i]).Int64(); ok && v == l {
			return Untag(m.Kids[i+1])
		}
	}
	return nil
}

func okContentType(s string) bool {
	if len(s) == 0 || s[0] == ' ' || s[len(s)-1] == ' ' || !strings.Contains(s, "/") {
		return false
	}
	// "<type-name>/<subtype-name>" (RFC 6838 section 4.2): neither name can hold a slash, so a text without
	// parameters has exactly one. (Texts with a ';' are left alone: a quoted parameter value may hold one.)
	if !strings.Contains(s, ";") && strings.Count(s, "/") != 1 {
		return false
	}
	return true
}

// HeaderRulesWire implements DESIGN.md appendix A.2 on wire trees. prot/unprot
// may be nil (empty or absent bucket). haveProt/haveUnprot say which buckets
// are being judged (a stand-alone bucket decoder only sees one).
func HeaderRulesWire(prot, unprot *Node, haveProt, haveUnprot bool) error {
	bucket := func(m *Node, protected bool) error {
		if m == nil {
			return nil
		}
		for i := 0; i+1 < len(m.Kids); i += 2 {
			l, ok := Untag(m.Kids[i]).Int64()
			if !ok {
				continue
			}
			v := Untag(m.Kids[i+1])
			switch l {
			case 1:
				if !v.IsInt() && v.Major != refcbor.Tstr {
					return errors.New("alg: not int/tstr")
				}
			case 2:
				if !protected {
					return errors.New("crit in unprotected bucket")
				}
				if v.Major != refcbor.Array || len(v.Kids) == 0 {
					return errors.New("crit: not a non-empty array")
				}
				for _, e := range v.Kids {
					e = Untag(e)
					if !e.IsInt() && e.Major != refcbor.Tstr {
						return errors.New("crit: entry is not a label")
					}
					found := false
					ce := refcbor.Canon(e)
					for j := 0; j+1 < len(m.Kids); j += 2 {
						if bytes.Equal(refcbor.Canon(Untag(m.Kids[j])), ce) {
							found = true
						}
					}
					if !found {
						return errors.New("crit: names an absent label")
					}
				}
			case 3, 16:
				if v.Major == refcbor.Uint {
					break
				}
				if v.Major != refcbor.Tstr || !okContentType(string(v.Str)) {
					return fmt.Errorf("label %d: not uint / type-subtype text", l)
				}
			case 4, 5, 6:
				if v.Major != refcbor.Bstr {
					return fmt.Errorf("label %d: not bstr", l)
				}
			case 7, 11:
				if protected {
					return errors.New("countersignature in protected bucket")
				}
				if v.Major != refcbor.Array || len(v.Kids) == 0 {
					return errors.New("countersignature: not an object or non-empty list")
				}
			case 9, 12:
				if protected {
					return errors.New("countersignature0 in protected bucket")
				}
				if v.Major != refcbor.Bstr {
					return errors.New("countersignature0: not bstr")
				}
			}
		}
		return nil
	}
	if haveProt {
		if err := bucket(prot, true); err != nil {
			return err
		}
	}
	if haveUnprot {
		if err := bucket(unprot, false); err != nil {
			return err
		}
	}
	has := func(m *Node, l int64) bool { return Lookup(m, l) != nil }
	iv := (haveProt && has(prot, 5)) || (haveUnprot && has(unprot, 5))
	piv := (haveProt && has(prot, 6)) || (haveUnprot && has(unprot, 6))
	if iv && piv {
		return errors.New("IV and Partial IV in one layer")
	}
	return nil
}

// -------------------------------------------------------- Go-side rules ---

// NormLabel normalises a Go label: any Go integer type -> int64, string stays.
func NormLabel(l any) (any, bool) {
	if s, ok := l.(string); ok {
		return s, true
	}
	rv := reflect.ValueOf(l)
	switch rv.Kind() {
	case reflect.Int, reflect.Int8, reflect.Int16, reflect.Int32, reflect.Int64:
		return rv.Int(), true
	case reflect.Uint, reflect.Uint8, reflect.Uint16, reflect.Uint32, reflect.Uint64:
		if rv.Uint() > math.MaxInt64 {
			return nil, false
		}
		return int64(rv.Uint()), true
	}
	return nil, false
}

// builtinInt reports whether v's dynamic type is one of Go's predeclared integer types or the
// library's Algorithm type; a named integer type of another package (a CBOR simple value, for
// instance) is not an integer of the data model.
func builtinInt(v any) bool {
	rv := reflect.ValueOf(v)
	if !rv.IsValid() {
		return false
	}
	t := rv.Type()
	return t.PkgPath() == "" || t.Name() == "Algorithm"
}

func goIsInt(v any) bool {
	if !builtinInt(v) {
		return false
	}
	switch reflect.ValueOf(v).Kind() {
	case reflect.Int, reflect.Int8, reflect.Int16, reflect.Int32, reflect.Int64,
		reflect.Uint, reflect.Uint8, reflect.Uint16, reflect.Uint32, reflect.Uint64:
		return true
	}
	return false
}

func goIsUint(v any) bool {
	if !builtinInt(v) {
		return false
	}
	rv := reflect.ValueOf(v)
	switch rv.Kind() {
	case reflect.Uint, reflect.Uint8, reflect.Uint16, reflect.Uint32, reflect.Uint64:
		return true
	case reflect.Int, reflect.Int8, reflect.Int16, reflect.Int32, reflect.Int64:
		return rv.Int() >= 0
	}
	return false
}

// IsCountersig / IsCountersigList are supplied by the checks package (they
// need go-cose types); defaults say "no".
var (
	IsCountersig     = func(v any) bool { return false }
	IsCountersigList = func(v any) bool { return false }
)

// HeaderRulesGo is the Go-value variant of A.2. nil maps are empty buckets.
func HeaderRulesGo(prot, unprot map[any]any, haveProt, haveUnprot bool) error {
	bucket := func(m map[any]any, protected bool) error {
		seen := map[any]bool{}
		for l := range m {
			nl, ok := NormLabel(l)
			if !ok {
				return errors.New("label is not int/tstr")
			}
			if seen[nl] {
				return errors.New("duplicate label")
			}
			seen[nl] = true
		}
		for l, v := range m {
			nl, _ := NormLabel(l)
			il, ok := nl.(int64)
			if !ok {
				continue
			}
			switch il {
			case 1:
				if _, isStr := v.(string); !isStr && !goIsInt(v) {
					return errors.New("alg: not int/tstr")
				}
			case 2:
				if !protected {
					return errors.New("crit in unprotected bucket")
				}
				arr, ok := v.([]any)
				if !ok || len(arr) == 0 {
					return errors.New("crit: not a non-empty array")
				}
				for _, e := range arr {
					ne, ok := NormLabel(e)
					if !ok {
						return errors.New("crit: entry is not a label")
					}
					if !seen[ne] {
						return errors.New("crit: names an absent label")
					}
				}
			case 3, 16:
				if goIsUint(v) {
					break
				}
				s, ok := v.(string)
				if !ok || !okContentType(s) {
					return fmt.Errorf("label %d: not uint / type-subtype text", il)
				}
			case 4, 5, 6:
				if b, ok := v.([]byte); !ok || b == nil {
					return fmt.Errorf("label %d: not bstr", il)
				}
			case 7, 11:
				if protected {
					return errors.New("countersignature in protected bucket")
				}
				if !IsCountersig(v) && !IsCountersigList(v) {
					return errors.New("countersignature: not an object or non-empty list")
				}
			case 9, 12:
				if protected {
					return errors.New("countersignature0 in protected bucket")
				}
				if b, ok := v.([]byte); !ok || b == nil {
					return errors.New("countersignature0: not bstr")
				}
			}
		}
		return nil
	}
	if haveProt {
		if err := bucket(prot, true); err != nil {
			return err
		}
	}
	if haveUnprot {
		if err := bucket(unprot, false); err != nil {
			return err
		}
	}
	has := func(m map[any]any, want int64) bool {
		for l := range m {
			if nl, ok := NormLabel(l); ok && nl == any(want) {
				return true
			}
		}
		return false
	}
	iv := (haveProt && has(prot, 5)) || (haveUnprot && has(unprot, 5))
	piv := (haveProt && has(prot, 6)) || (haveUnprot && has(unprot, 6))
	if iv && piv {
		return errors.New("IV and Partial IV in one layer")
	}
	return nil
}

// ------------------------------------------------------------ Go -> tree --

// Custom lets the caller translate values refcose does not know (go-cose
// countersignature objects). It returns nil when it does not apply.
type Custom func(v any) (*Node, error)

// GoToNode translates a Go header value into the CBOR data model exactly as
// a generic encoder is expected to: Go integers -> int, string -> tstr,
// []byte -> bstr, []any -> array, map[any]any -> map, bool, nil, float64.
func GoToNode(v any, custom Custom) (*Node, error) {
	if custom != nil {
		if n, err := custom(v); n != nil || err != nil {
			return n, err
		}
	}
	switch x := v.(type) {
	case nil:
		return refcbor.NNull(), nil
	case bool:
		return refcbor.NBool(x), nil
	case string:
		return refcbor.NTstr(x), nil
	case []byte:
		if x == nil {
			return refcbor.NNull(), nil
		}
		return refcbor.NBstr(x), nil
	case float64:
		return refcbor.NFloat64(x), nil
	case float32:
		return refcbor.NFloat32(x), nil
	case []any:
		kids := make([]*Node, 0, len(x))
		for _, e := range x {
			k, err := GoToNode(e, custom)
			if err != nil {
				return nil, err
			}
			kids = append(kids, k)
		}
		return refcbor.NArr(kids...), nil
	}
	rv := reflect.ValueOf(v)
	switch rv.Kind() {
	case reflect.Int, reflect.Int8, reflect.Int16, reflect.Int32, reflect.Int64:
		return refcbor.NInt(rv.Int()), nil
	case reflect.Uint, reflect.Uint8, reflect.Uint16, reflect.Uint32, reflect.Uint64:
		return refcbor.NUint(rv.Uint()), nil
	case reflect.Map:
		type kv struct {
			k  *Node
			ck []byte
			v  *Node
		}
		var pairs []kv
		it := rv.MapRange()
		for it.Next() {
			k, err := GoToNode(it.Key().Interface(), custom)
			if err != nil {
				return nil, err
			}
			val, err := GoToNode(it.Value().Interface(), custom)
			if err != nil {
				return nil, err
			}
			pairs = append(pairs, kv{k, refcbor.Canon(k), val})
		}
		sort.Slice(pairs, func(i, j int) bool { return bytes.Compare(pairs[i].ck, pairs[j].ck) < 0 })
		kids := make([]*Node, 0, 2*len(pairs))
		for _, p := range pairs {
			kids = append(kids, p.k, p.v)
		}
		return refcbor.NMap(kids...), nil
	case reflect.Slice:
		if rv.Type().Elem().Kind() == reflect.Uint8 {
			return refcbor.NBstr(rv.Bytes()), nil
		}
		kids := make([]*Node, 0, rv.Len())
		for i := 0; i < rv.Len(); i++ {
			k, err := GoToNode(rv.Index(i).Interface(), custom)
			if err != nil {
				return nil, err
			}
			kids = append(kids, k)
		}
		return refcbor.NArr(kids...), nil
	case reflect.String:
		return refcbor.NTstr(rv.String()), nil
	case reflect.Bool:
		return refcbor.NBool(rv.Bool()), nil
	}
	return nil, fmt.Errorf("refcose: cannot translate %T", v)
}

// ProtectedContent returns the expected content of the protected bstr for a
// constructed (in-memory) protected header map: empty for an empty map, else
// the deterministic encoding of the map.
func ProtectedContent(m map[any]any, custom Custom) ([]byte, error) {
	if len(m) == 0 {
		return []byte{}, nil
	}
	n, err := GoToNode(m, custom)
	if err != nil {
		return nil, err
	}
	return refcbor.Canon(n), nil
}

// ------------------------------------------------------- hash envelopes ---

// HashEnvelopeRules implements A.5 on wire bytes (verifier side rules).
func HashEnvelopeRules(b []byte) error {
	if err := WellFormed(KSign1Tagged, b); err != nil {
		return err
	}
	n, _ := refcbor.Parse(b)
	a := n.Kids[0]
	prot, _ := protectedMap(a.Kids[0])
	unprot := a.Kids[1]
	if a.Kids[2].Major != refcbor.Bstr {
		return errors.New("hash envelope: payload is not a bstr")
	}
	h := Lookup(prot, 258)
	if h == nil {
		return errors.New("hash envelope: 258 missing from protected")
	}
	if _, ok := h.Int64(); !ok {
		return errors.New("hash envelope: 258 not an int")
	}
	for _, l := range []int64{258, 259, 260} {
		if Lookup(unprot, l) != nil {
			return fmt.Errorf("hash envelope: %d in unprotected", l)
		}
	}
	if Lookup(prot, 3) != nil || Lookup(unprot, 3) != nil {
		return errors.New("hash envelope: content type present")
	}
	if v := Lookup(prot, 259); v != nil && v.Major != refcbor.Uint && v.Major != refcbor.Tstr {
		return errors.New("hash envelope: 259 not uint/tstr")
	}
	if v := Lookup(prot, 260); v != nil && v.Major != refcbor.Tstr {
		return errors.New("hash envelope: 260 not tstr")
	}
	hv, _ := h.Int64()
	want := map[int64]int{-16: 32, -43: 48, -44: 64}[hv]
	if want != 0 && len(a.Kids[2].Str) != want {
		return errors.New("hash envelope: digest length")
	}
	return nil
}

// ------------------------------------------------------------ COSE_Key ----

// KeyRules implements A.6 (structural part) on wire bytes.
func KeyRules(b []byte) error {
	n, err := refcbor.Parse(b)
	if err != nil {
		return err
	}
	// the key decoder runs in a tag-tolerant mode and the property says nothing
	// about tags: the rules are applied with tag wrappers looked through
	n = StripTags(n)
	if n.Major != refcbor.Map {
		return errors.New("key: not a map")
	}
	if refcbor.AnyIndef(n) {
		return errors.New("key: indefinite length")
	}
	if err := labels(n); err != nil {
		return err
	}
	if len(refcbor.DupKeys(n)) > 0 {
		return errors.New("key: duplicate label")
	}
	ktyN := Lookup(n, 1)
	if ktyN == nil {
		return errors.New("key: kty missing")
	}
	kty, ok := ktyN.Int64()
	if !ok {
		return errors.New("key: kty not int")
	}
	if kty == 0 {
		return errors.New("key: kty reserved")
	}
	if kty != 1 && kty != 2 {
		return nil
	}
	crvN := Lookup(n, -1)
	if crvN == nil {
		return errors.New("key: crv missing")
	}
	crv, ok := crvN.Int64()
	if !ok {
		return errors.New("key: crv not int")
	}
	if crv == 0 {
		return errors.New("key: crv reserved")
	}
	if kty == 2 && crv >= 4 && crv <= 7 {
		return errors.New("key: OKP curve on EC2 key")
	}
	if kty == 1 && crv >= 1 && crv <= 3 {
		return errors.New("key: EC2 curve on OKP key")
	}
	size := map[int64]int{1: 32, 2: 48, 3: 66}
	if kty == 2 {
		if sz, ok := size[crv]; ok {
			for _, l := range []int64{-2, -3, -4} {
				if v := Lookup(n, l); v != nil && v.Major == refcbor.Bstr && len(v.Str) > sz {
					return errors.New("key: EC2 coordinate longer than the field")
				}
			}
		}
	}
	if kty == 1 {
		lim := 0
		switch crv {
		case 4, 6:
			lim = 32
		case 5, 7:
			lim = 57
		}
		if lim > 0 {
			for _, l := range []int64{-2, -4} {
				if v := Lookup(n, l); v != nil && v.Major == refcbor.Bstr && len(v.Str) > lim {
					return errors.New("key: OKP value longer than the curve size")
				}
			}
		}
	}
	if algN := Lookup(n, 3); algN != nil {
		if alg, ok := algN.Int64(); ok && alg != 0 {
			table := map[int64]int64{1: -7, 2: -35, 3: -36, 6: -8}
			known := alg == -7 || alg == -35 || alg == -36 || alg == -8
			if want, crvKnown := table[crv]; crvKnown || known {
				// EC2 key with crv 6 / OKP key with crv 1..3 were refused above
				if !crvKnown || want != alg {
					return errors.New("key: alg does not match curve")
				}
			}
		} else if !ok {
			// an algorithm that is not an integer cannot be the one the curve fixes
			if _, crvKnown := map[int64]int64{1: -7, 2: -35, 3: -36, 6: -8}[crv]; crvKnown {
				return errors.New("key: alg is not the (integer) algorithm fixed by the curve")
			}
		}
	}
	return nil
}
