// Package mon is the monitoring runtime shared by all checks: deterministic
// PRNG, recorder (events, coverage classes, samples, violations), known
// findings, evidence and replay writers, panic guard.
package mon

import (
	"crypto/sha256"
	"encoding/hex"
	"encoding/json"
	"fmt"
	"os"
	"path/filepath"
	"runtime/debug"
	"sort"
	"strings"
	"sync"
	"time"
)

// ------------------------------------------------------------------ PRNG --

// Rand is a splitmix64 generator; every case list is a function of the seed.
type Rand struct{ s uint64 }

func NewRand(seed uint64) *Rand { return &Rand{s: seed*0x9e3779b97f4a7c15 + 0x1234567} }

func (r *Rand) U64() uint64 {
	r.s += 0x9e3779b97f4a7c15
	z := r.s
	z = (z ^ (z >> 30)) * 0xbf58476d1ce4e5b9
	z = (z ^ (z >> 27)) * 0x94d049bb133111eb
	return z ^ (z >> 31)
}

// Sub derives an independent stream.
func (r *Rand) Sub(id uint64) *Rand {
	return &Rand{s: r.U64() ^ (id+1)*0xd6e8feb86659fd93}
}
func (r *Rand) Intn(n int) int {
	if n <= 0 {
		return 0
	}
	return int(r.U64() % uint64(n))
}
func (r *Rand) Bool() bool        { return r.U64()&1 == 1 }
func (r *Rand) Chance(p int) bool { return r.Intn(100) < p }
func (r *Rand) Bytes(n int) []byte {
	b := make([]byte, n)
	for i := 0; i < n; i += 8 {
		v := r.U64()
		for j := 0; j < 8 && i+j < n; j++ {
			b[i+j] = byte(v >> (8 * j))
		}
	}
	return b
}

// Read implements io.Reader (deterministic entropy for tests that want it).
func (r *Rand) Read(p []byte) (int, error) {
	copy(p, r.Bytes(len(p)))
	return len(p), nil
}

// Pick returns one of the choices.
func Pick[T any](r *Rand, xs ...T) T { return xs[r.Intn(len(xs))] }

// Perm returns a permutation of 0..n-1.
func (r *Rand) Perm(n int) []int {
	p := make([]int, n)
	for i := range p {
		p[i] = i
	}
	for i := n - 1; i > 0; i-- {
		j := r.Intn(i + 1)
		p[i], p[j] = p[j], p[i]
	}
	return p
}

// -------------------------------------------------------------- recorder --

// Violation is one refuting observation.
type Violation struct {
	Oracle string `json:"oracle"` // which oracle fired
	Key    string `json:"key"`    // normalised witness class (dedup + known-finding matching)
	Detail string `json:"detail"` // human readable explanation
	Input  any    `json:"input"`  // concrete input (hex bytes, description, fault vector)
}

// Recorder accumulates what the monitors observed during one check run.
type Recorder struct {
	Property string
	Tier     string
	Seed     int64
	Level    string
	Rule     string
	Assume   []string

	mu           sync.Mutex
	evals        int64
	classes      map[string]int64
	events       map[string]int64
	samples      []any
	sampleSeen   map[string]bool
	violations   []Violation
	violSeen     map[string]bool
	violCount    int64
	extra        map[string]any
	inconclusive []string
	harnessErrs  []string
	start        time.Time
	MaxSamples   int
	Exhaustive   bool
	replayWant   *Violation // set in replay mode
}

func NewRecorder(property, tier string, seed int64, level string) *Recorder {
	return &Recorder{
		Property: property, Tier: tier, Seed: seed, Level: level,
		classes: map[string]int64{}, events: map[string]int64{}, sampleSeen: map[string]bool{},
		violSeen: map[string]bool{}, extra: map[string]any{}, start: time.Now(), MaxSamples: 10,
	}
}

// Eval counts oracle evaluations.
func (r *Recorder) Eval(n int) {
	r.mu.Lock()
	r.evals += int64(n)
	r.mu.Unlock()
}

// Class notes that a non-trivial case of the given coverage class was decided.
func (r *Recorder) Class(c string) {
	r.mu.Lock()
	r.classes[c]++
	r.mu.Unlock()
}

// Event counts an API operation (or any named observation).
func (r *Recorder) Event(e string) {
	r.mu.Lock()
	r.events[e]++
	r.mu.Unlock()
}

func (r *Recorder) EventN(e string, n int) {
	r.mu.Lock()
	r.events[e] += int64(n)
	r.mu.Unlock()
}

// Sample keeps up to MaxSamples actual cases, at most one per kind.
func (r *Recorder) Sample(kind string, s any) {
	r.mu.Lock()
	defer r.mu.Unlock()
	if r.sampleSeen[kind] || len(r.samples) >= r.MaxSamples {
		return
	}
	r.sampleSeen[kind] = true
	r.samples = append(r.samples, map[string]any{"kind": kind, "case": s})
}

// Extra stores an additional coverage key.
func (r *Recorder) Extra(k string, v any) {
	r.mu.Lock()
	r.extra[k] = v
	r.mu.Unlock()
}

// Violate records a violation; the first witness per (oracle, key) is kept.
func (r *Recorder) Violate(oracle, key, detail string, input any) {
	r.mu.Lock()
	defer r.mu.Unlock()
	r.violCount++
	id := oracle + "|" + key
	if r.violSeen[id] {
		return
	}
	r.violSeen[id] = true
	if len(r.violations) < 200 {
		r.violations = append(r.violations, Violation{oracle, key, detail, input})
	}
}

// Inconclusive marks the run as not deciding (too few events, watchdog...).
func (r *Recorder) Inconclusive(why string) {
	r.mu.Lock()
	r.inconclusive = append(r.inconclusive, why)
	r.mu.Unlock()
}

// HarnessError reports a fault inside the harness itself (never a violation).
func (r *Recorder) HarnessError(why string) {
	r.mu.Lock()
	if len(r.harnessErrs) < 20 {
		r.harnessErrs = append(r.harnessErrs, why)
	}
	r.mu.Unlock()
}

func (r *Recorder) NumClasses() int {
	r.mu.Lock()
	defer r.mu.Unlock()
	return len(r.classes)
}

func (r *Recorder) Events(e string) int64 {
	r.mu.Lock()
	defer r.mu.Unlock()
	return r.events[e]
}

// Require marks the run inconclusive unless event e was seen at least n times.
func (r *Recorder) Require(e string, n int64) {
	if got := r.Events(e); got < n {
		r.Inconclusive(fmt.Sprintf("event %q observed %d times, need >= %d", e, got, n))
	}
}

// RequireClasses marks the run inconclusive with fewer than n classes.
func (r *Recorder) RequireClasses(n int) {
	if got := r.NumClasses(); got < n {
		r.Inconclusive(fmt.Sprintf("only %d distinct non-trivial classes, need >= %d", got, n))
	}
}

// ------------------------------------------------------- known findings ---

type OpenFinding struct {
	Property string `json:"property"`
	Oracle   string `json:"oracle"`
	Key      string `json:"key"` // exact key, or prefix when ending in '*'
	What     string `json:"what"`
}

type KnownFindings struct {
	Open  []OpenFinding `json:"open"`
	Fixed []string      `json:"fixed"`
}

func verifDir() string {
	if d := os.Getenv("VERIF_DIR"); d != "" {
		return d
	}
	return "/verif"
}

// outDir is where evidence and replay files go (VERIF_OUT overrides, used
// for mutant runs so they never touch the committed evidence).
func outDir() string {
	if d := os.Getenv("VERIF_OUT"); d != "" {
		return d
	}
	return verifDir()
}

func loadKnown() KnownFindings {
	var k KnownFindings
	b, err := os.ReadFile(filepath.Join(verifDir(), "known_findings.json"))
	if err != nil {
		return k
	}
	_ = json.Unmarshal(b, &k)
	return k
}

func (k KnownFindings) match(prop string, v Violation) *OpenFinding {
	for i, f := range k.Open {
		if f.Property != prop || f.Oracle != v.Oracle {
			continue
		}
		if f.Key == v.Key || (strings.HasSuffix(f.Key, "*") && strings.HasPrefix(v.Key, strings.TrimSuffix(f.Key, "*"))) {
			return &k.Open[i]
		}
	}
	return nil
}

// ---------------------------------------------------------------- finish --

// SetReplay puts the recorder in replay mode: Finish reports whether the
// recorded violation reappeared.
func (r *Recorder) SetReplay(v *Violation) { r.replayWant = v }

// Finish writes evidence and replay files, prints the verdict lines and
// returns the process exit code (0 held, 1 violation, 3 inconclusive).
func (r *Recorder) Finish() int {
	r.mu.Lock()
	defer r.mu.Unlock()
	wall := time.Since(r.start).Seconds()
	known := loadKnown()

	var fresh []Violation
	var knownHits []string
	for _, v := range r.violations {
		if f := known.match(r.Property, v); f != nil {
			knownHits = append(knownHits, fmt.Sprintf("KNOWN-FINDING: property=%s %s [%s %s]", r.Property, f.What, v.Oracle, v.Key))
			continue
		}
		fresh = append(fresh, v)
	}
	sort.Strings(knownHits)

	// class / event summaries
	classNames := make([]string, 0, len(r.classes))
	for c := range r.classes {
		classNames = append(classNames, c)
	}
	sort.Strings(classNames)
	shown := classNames
	if len(shown) > 40 {
		shown = shown[:40]
	}
	cov := map[string]any{
		"evaluations":         r.evals,
		"distinct_nontrivial": len(r.classes),
		"rule":                r.Rule,
		"samples":             r.samples,
		"events":              r.events,
		"classes_seen_sample": shown,
		"exhaustive":          r.Exhaustive,
		"violations_observed": r.violCount,
		"known_findings_hit":  len(knownHits),
	}
	if len(r.samples) == 0 {
		cov["samples"] = []any{"(no sample recorded)"}
	}
	for k, v := range r.extra {
		cov[k] = v
	}
	if len(r.inconclusive) > 0 {
		cov["inconclusive"] = r.inconclusive
	}
	if len(r.harnessErrs) > 0 {
		cov["harness_errors"] = r.harnessErrs
	}
	ev := map[string]any{
		"property_id": r.Property,
		"tier":        r.Tier,
		"seed":        r.Seed,
		"level":       r.Level,
		"coverage":    cov,
		"assumptions": r.Assume,
		"wall_s":      wall,
		"violations":  len(fresh),
	}
	if r.replayWant == nil {
		dir := filepath.Join(outDir(), "evidence")
		_ = os.MkdirAll(dir, 0o755)
		b, _ := json.MarshalIndent(ev, "", " ")
		if err := os.WriteFile(filepath.Join(dir, r.Property+".json"), append(b, '\n'), 0o644); err != nil {
			fmt.Printf("HARNESS-ERROR property=%s cannot write evidence: %v\n", r.Property, err)
			return 3
		}
	}

	fmt.Printf("== %s tier=%s seed=%d: %d evaluations, %d distinct non-trivial classes, %d violation(s), %.1fs\n",
		r.Property, r.Tier, r.Seed, r.evals, len(r.classes), len(fresh), wall)
	evNames := make([]string, 0, len(r.events))
	for e := range r.events {
		evNames = append(evNames, e)
	}
	sort.Strings(evNames)
	for _, e := range evNames {
		fmt.Printf("   event %-48s %d\n", e, r.events[e])
	}
	for _, h := range knownHits {
		fmt.Println(h)
	}

	if r.replayWant != nil {
		for _, v := range r.violations {
			if v.Oracle == r.replayWant.Oracle && v.Key == r.replayWant.Key {
				fmt.Printf("REPLAY: reproduced %s %s: %s\n", v.Oracle, v.Key, v.Detail)
				fmt.Printf("VIOLATION property=%s replay=(replayed)\n", r.Property)
				return 1
			}
		}
		fmt.Printf("REPLAY: %s %s did not reproduce\n", r.replayWant.Oracle, r.replayWant.Key)
		return 0
	}

	for _, h := range r.harnessErrs {
		fmt.Printf("HARNESS-ERROR property=%s %s\n", r.Property, h)
	}
	if len(fresh) > 0 {
		dir := filepath.Join(outDir(), "replays")
		_ = os.MkdirAll(dir, 0o755)
		for _, v := range fresh {
			h := sha256.Sum256([]byte(v.Oracle + "|" + v.Key))
			path := filepath.Join(dir, fmt.Sprintf("%s-%s.json", r.Property, hex.EncodeToString(h[:6])))
			rp := map[string]any{"property": r.Property, "tier": r.Tier, "seed": r.Seed, "violation": v}
			b, _ := json.MarshalIndent(rp, "", " ")
			_ = os.WriteFile(path, append(b, '\n'), 0o644)
			fmt.Printf("   %s: %s -- %s\n", v.Oracle, v.Key, v.Detail)
			fmt.Printf("VIOLATION property=%s replay=%s\n", r.Property, path)
		}
		return 1
	}
	if len(r.harnessErrs) > 0 {
		return 3
	}
	if len(r.inconclusive) > 0 {
		for _, w := range r.inconclusive {
			fmt.Printf("INCONCLUSIVE property=%s %s\n", r.Property, w)
		}
		return 3
	}
	fmt.Printf("HELD property=%s on everything explored\n", r.Property)
	return 0
}

// LoadReplay reads a replay file.
func LoadReplay(path string) (tier string, seed int64, v Violation, err error) {
	var rp struct {
		Property  string
		Tier      string
		Seed      int64
		Violation Violation
	}
	b, err := os.ReadFile(path)
	if err != nil {
		return "", 0, v, err
	}
	if err := json.Unmarshal(b, &rp); err != nil {
		return "", 0, v, err
	}
	return rp.Tier, rp.Seed, rp.Violation, nil
}

// ------------------------------------------------------------ panic guard --

// Try runs f and reports a recovered panic with its stack.
func Try(f func()) (panicked bool, val any, stack string) {
	defer func() {
		if r := recover(); r != nil {
			panicked, val, stack = true, r, string(debug.Stack())
		}
	}()
	f()
	return
}

// Hex renders bytes for evidence, truncated.
func Hex(b []byte) string {
	if len(b) > 96 {
		return fmt.Sprintf("%x...(%d bytes)", b[:96], len(b))
	}
	return hex.EncodeToString(b)
}

// FullHex renders bytes completely (for replay inputs), with a sane cap.
func FullHex(b []byte) string {
	if len(b) > 1<<16 {
		h := sha256.Sum256(b)
		return fmt.Sprintf("%x...(%d bytes, sha256 %x)", b[:256], len(b), h[:8])
	}
	return hex.EncodeToString(b)
}

// OnWorkerPanic, when set, receives panics of workload goroutines (harness
// faults: library calls are guarded separately).
var OnWorkerPanic func(v any, stack string)

// Parallel runs f(worker, index) for index in [0,n) on `workers` goroutines.
func Parallel(workers, n int, f func(w, i int)) {
	if workers < 1 {
		workers = 1
	}
	var wg sync.WaitGroup
	next := make(chan int, 256)
	for w := 0; w < workers; w++ {
		wg.Add(1)
		go func(w int) {
			defer wg.Done()
			for i := range next {
				func() {
					defer func() {
						if r := recover(); r != nil {
							if OnWorkerPanic != nil {
								OnWorkerPanic(r, string(debug.Stack()))
							} else {
								panic(r)
							}
						}
					}()
					f(w, i)
				}()
			}
		}(w)
	}
	for i := 0; i < n; i++ {
		next <- i
	}
	close(next)
	wg.Wait()
}
