package mon

import (
	"errors"
	"io"
	"sync"

	cose "github.com/veraison/go-cose"
)

// SpySigner is a caller-supplied cose.Signer that records everything it is
// handed (the library must treat it like any HSM/KMS-backed signer).
type SpySigner struct {
	Alg    cose.Algorithm
	Out    []byte // signature to return (default: fixed 64 bytes)
	Err    error  // error to return
	ReadN  int    // bytes to read from rand before answering (0 = none)
	Panic  any    // when non-nil, Sign panics with this value
	// BestEffortRand: a failed entropy read is ignored (the signer carries on with what it has)
	BestEffortRand bool
	mu     sync.Mutex
	Calls  int
	Got    [][]byte // copies of every content seen
	AlgAsk int      // how often Algorithm() was asked
	RandOK []bool   // per call: did reading entropy succeed
}

var FixedSig = func() []byte {
	b := make([]byte, 64)
	for i := range b {
		b[i] = byte(0xA0 + i%16)
	}
	return b
}()

func (s *SpySigner) Algorithm() cose.Algorithm {
	s.mu.Lock()
	s.AlgAsk++
	s.mu.Unlock()
	return s.Alg
}

func (s *SpySigner) Sign(rand io.Reader, content []byte) ([]byte, error) {
	s.mu.Lock()
	defer s.mu.Unlock()
	s.Calls++
	s.Got = append(s.Got, append([]byte{}, content...))
	if s.ReadN > 0 && rand != nil {
		buf := make([]byte, s.ReadN)
		_, err := io.ReadFull(rand, buf)
		s.RandOK = append(s.RandOK, err == nil)
		if err != nil && !s.BestEffortRand {
			return nil, err
		}
	}
	if s.Panic != nil {
		panic(s.Panic)
	}
	if s.Err != nil {
		return s.Out, s.Err
	}
	if s.Out == nil {
		return append([]byte{}, FixedSig...), nil
	}
	return s.Out, nil
}

func (s *SpySigner) Last() []byte {
	s.mu.Lock()
	defer s.mu.Unlock()
	if len(s.Got) == 0 {
		return nil
	}
	return s.Got[len(s.Got)-1]
}

// SpyVerifier records content and signature and answers as configured.
type SpyVerifier struct {
	Alg    cose.Algorithm
	Err    error
	Index  int // position given by the test (for positional checks)
	Panic  any // when non-nil, Verify panics with this value (a key backend that crashes)
	Log    *[]VerifyCall
	mu     sync.Mutex
	Calls  int
	Got    [][]byte
	GotSig [][]byte
}

type VerifyCall struct {
	Index   int
	Content []byte
	Sig     []byte
}

func (v *SpyVerifier) Algorithm() cose.Algorithm { return v.Alg }

func (v *SpyVerifier) Verify(content, signature []byte) error {
	v.mu.Lock()
	defer v.mu.Unlock()
	v.Calls++
	v.Got = append(v.Got, append([]byte{}, content...))
	v.GotSig = append(v.GotSig, append([]byte{}, signature...))
	if v.Log != nil {
		*v.Log = append(*v.Log, VerifyCall{v.Index, append([]byte{}, content...), append([]byte{}, signature...)})
	}
	if v.Panic != nil {
		panic(v.Panic)
	}
	return v.Err
}

func (v *SpyVerifier) Last() []byte {
	v.mu.Lock()
	defer v.mu.Unlock()
	if len(v.Got) == 0 {
		return nil
	}
	return v.Got[len(v.Got)-1]
}

// ErrInjected is the error fault-injecting keys return.
var ErrInjected = errors.New("injected key failure")

// FaultReader is an entropy source that fails after N bytes.
type FaultReader struct {
	Src     io.Reader
	After   int   // fail once this many bytes were delivered (-1: never)
	Err     error // error to return (default ErrInjected)
	OneByte bool  // deliver at most one byte per call
	Read_   int   // bytes delivered so far
	Calls   int
	Once    bool // the failure happens once; later reads succeed again (a transient entropy failure)
	Partial bool // the failing call delivers the bytes up to After TOGETHER with the error (n > 0, err != nil)
	failed  bool
	// FailedLen is the length of the buffer of the call that was answered with the error (0: none yet)
	FailedLen int
}

func (f *FaultReader) Read(p []byte) (int, error) {
	f.Calls++
	if len(p) == 0 {
		return 0, nil
	}
	if f.Partial && f.After >= 0 && f.Read_ < f.After && f.Read_+len(p) > f.After && !(f.Once && f.failed) {
		n := f.After - f.Read_
		if f.OneByte && n > 1 {
			n = 1
		}
		m, _ := f.Src.Read(p[:n])
		f.Read_ += m
		if f.Read_ >= f.After {
			f.failed = true
			f.FailedLen = len(p)
			if f.Err != nil {
				return m, f.Err
			}
			return m, ErrInjected
		}
		return m, nil
	}
	if f.After >= 0 && f.Read_ >= f.After && !(f.Once && f.failed) {
		f.failed = true
		f.FailedLen = len(p)
		if f.Err != nil {
			return 0, f.Err
		}
		return 0, ErrInjected
	}
	n := len(p)
	if f.OneByte {
		n = 1
	}
	if f.After >= 0 && f.Read_+n > f.After && !(f.Once && f.failed) {
		n = f.After - f.Read_
	}
	m, err := f.Src.Read(p[:n])
	f.Read_ += m
	return m, err
}

// SpyDigestVerifier is a SpyVerifier that also offers the digest entry point (as the built-in
// RSA and ECDSA verifiers do); both entry points answer alike.
type SpyDigestVerifier struct{ SpyVerifier }

func (v *SpyDigestVerifier) VerifyDigest(digest, signature []byte) error {
	return v.Verify(digest, signature)
}
