package mon

import (
	"crypto/sha256"
	"encoding/binary"
	"encoding/hex"
	"fmt"
	"hash"
	"math"
	"reflect"
	"sort"
	"unsafe"
)

// DeepHash returns a digest of everything reachable from v: exported and
// unexported fields, through pointers and interfaces, maps in sorted key
// order, slices including the spare capacity behind len (so a hidden append
// into a caller's buffer is seen), nil-vs-empty distinctions and dynamic Go
// types (int vs int64 labels differ). Two values have equal hashes iff no
// observable part of them differs.
func DeepHash(vs ...any) string { return deepHash(true, vs...) }

// DeepHashValue is DeepHash without the spare capacity behind slice lengths:
// it compares two independently built values for equality of everything a
// caller can observe without re-slicing.
func DeepHashValue(vs ...any) string { return deepHash(false, vs...) }

func deepHash(tails bool, vs ...any) string {
	h := sha256.New()
	d := &deepHasher{h: h, seen: map[visit]bool{}, tails: tails}
	for _, v := range vs {
		if v == nil {
			d.str("<nil-iface>")
			continue
		}
		d.walk(reflect.ValueOf(v), 0)
	}
	return hex.EncodeToString(h.Sum(nil)[:16])
}

type visit struct {
	p unsafe.Pointer
	t reflect.Type
}

type deepHasher struct {
	h     hash.Hash
	seen  map[visit]bool
	tails bool
}

func (d *deepHasher) str(s string) {
	var l [4]byte
	binary.LittleEndian.PutUint32(l[:], uint32(len(s)))
	d.h.Write(l[:])
	d.h.Write([]byte(s))
}

func (d *deepHasher) u64(x uint64) {
	var b [8]byte
	binary.LittleEndian.PutUint64(b[:], x)
	d.h.Write(b[:])
}

func (d *deepHasher) walk(v reflect.Value, depth int) {
	if depth > 200 {
		d.str("<deep>")
		return
	}
	if !v.IsValid() {
		d.str("<invalid>")
		return
	}
	d.str(v.Type().String())
	switch v.Kind() {
	case reflect.Bool:
		if v.Bool() {
			d.u64(1)
		} else {
			d.u64(0)
		}
	case reflect.Int, reflect.Int8, reflect.Int16, reflect.Int32, reflect.Int64:
		d.u64(uint64(v.Int()))
	case reflect.Uint, reflect.Uint8, reflect.Uint16, reflect.Uint32, reflect.Uint64, reflect.Uintptr:
		d.u64(v.Uint())
	case reflect.Float32, reflect.Float64:
		d.u64(math.Float64bits(v.Float()))
	case reflect.Complex64, reflect.Complex128:
		c := v.Complex()
		d.u64(math.Float64bits(real(c)))
		d.u64(math.Float64bits(imag(c)))
	case reflect.String:
		d.str(v.String())
	case reflect.Slice:
		if v.IsNil() {
			d.str("<nil-slice>")
			return
		}
		d.u64(uint64(v.Len()))
		full := v
		if d.tails {
			full = v.Slice(0, v.Cap()) // include the capacity tail
		}
		if v.Type().Elem().Kind() == reflect.Uint8 {
			d.u64(uint64(full.Len()))
			d.h.Write(full.Bytes())
			return
		}
		// tails of non-byte slices: only the length part is walked, plus cap
		if d.tails {
			d.u64(uint64(v.Cap()))
		}
		for i := 0; i < v.Len(); i++ {
			d.walk(v.Index(i), depth+1)
		}
	case reflect.Array:
		for i := 0; i < v.Len(); i++ {
			d.walk(v.Index(i), depth+1)
		}
	case reflect.Map:
		if v.IsNil() {
			d.str("<nil-map>")
			return
		}
		d.u64(uint64(v.Len()))
		type ent struct {
			k string
			v string
		}
		var ents []ent
		it := v.MapRange()
		for it.Next() {
			hk := sha256.New()
			dk := &deepHasher{h: hk, seen: d.seen, tails: d.tails}
			dk.walk(it.Key(), depth+1)
			hv := sha256.New()
			dv := &deepHasher{h: hv, seen: d.seen, tails: d.tails}
			dv.walk(it.Value(), depth+1)
			ents = append(ents, ent{string(hk.Sum(nil)), string(hv.Sum(nil))})
		}
		sort.Slice(ents, func(i, j int) bool {
			if ents[i].k != ents[j].k {
				return ents[i].k < ents[j].k
			}
			return ents[i].v < ents[j].v
		})
		for _, e := range ents {
			d.h.Write([]byte(e.k))
			d.h.Write([]byte(e.v))
		}
	case reflect.Pointer:
		if v.IsNil() {
			d.str("<nil-ptr>")
			return
		}
		key := visit{v.UnsafePointer(), v.Type()}
		if d.seen[key] {
			d.str("<cycle>")
			return
		}
		d.seen[key] = true
		d.walk(v.Elem(), depth+1)
		delete(d.seen, key)
	case reflect.Interface:
		if v.IsNil() {
			d.str("<nil-iface>")
			return
		}
		d.walk(v.Elem(), depth+1)
	case reflect.Struct:
		for i := 0; i < v.NumField(); i++ {
			d.str(v.Type().Field(i).Name)
			d.walk(v.Field(i), depth+1)
		}
	case reflect.Func:
		if v.IsNil() {
			d.str("<nil-func>")
		} else {
			d.str("<func>")
		}
	case reflect.Chan, reflect.UnsafePointer:
		d.str(fmt.Sprintf("<%s>", v.Kind()))
	default:
		d.str("<?>")
	}
}
