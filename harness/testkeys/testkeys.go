// Package testkeys holds fixed RSA keys (RSA key generation is too slow to
// repeat on every run). They are test material, generated once for this
// harness, and protect nothing.
package testkeys

import (
	"crypto/rsa"
	"crypto/x509"
	"embed"
	"encoding/pem"
	"fmt"
	"math/big"
	"sync"
)

//go:embed *.pem
var files embed.FS

var (
	mu    sync.Mutex
	cache = map[int]*rsa.PrivateKey{}
)

// RSA returns the fixed key of the given modulus size (1024, 2047, 2048, 3072, 4096).
func RSA(bits int) *rsa.PrivateKey {
	mu.Lock()
	defer mu.Unlock()
	if k, ok := cache[bits]; ok {
		return k
	}
	b, err := files.ReadFile(fmt.Sprintf("rsa%d.pem", bits))
	if err != nil {
		panic(err)
	}
	blk, _ := pem.Decode(b)
	k, err := x509.ParsePKCS1PrivateKey(blk.Bytes)
	if err != nil {
		panic(err)
	}
	k.Precompute()
	cache[bits] = k
	return k
}

// RSAWithExponent returns a 2048-bit key on the fixed primes of rsa2048e3.pem
// with public exponent e (3, 5, 17, 257, 65537 and 2^31-1 are all coprime to
// (p-1)(q-1) for these primes).
func RSAWithExponent(e int) *rsa.PrivateKey {
	mu.Lock()
	defer mu.Unlock()
	if k, ok := cache[-e]; ok {
		return k
	}
	b, err := files.ReadFile("rsa2048e3.pem")
	if err != nil {
		panic(err)
	}
	blk, _ := pem.Decode(b)
	base, err := x509.ParsePKCS1PrivateKey(blk.Bytes)
	if err != nil {
		panic(err)
	}
	p, q := base.Primes[0], base.Primes[1]
	one := big.NewInt(1)
	phi := new(big.Int).Mul(new(big.Int).Sub(p, one), new(big.Int).Sub(q, one))
	d := new(big.Int).ModInverse(big.NewInt(int64(e)), phi)
	if d == nil {
		panic(fmt.Sprintf("testkeys: exponent %d not invertible", e))
	}
	k := &rsa.PrivateKey{PublicKey: rsa.PublicKey{N: new(big.Int).Set(base.N), E: e}, D: d, Primes: []*big.Int{new(big.Int).Set(p), new(big.Int).Set(q)}}
	if err := k.Validate(); err != nil {
		panic(err)
	}
	k.Precompute()
	cache[-e] = k
	return k
}

// RSAMultiPrime returns the fixed 2048-bit RSA key with three prime factors.
func RSAMultiPrime() *rsa.PrivateKey {
	mu.Lock()
	defer mu.Unlock()
	if k, ok := cache[-1]; ok {
		return k
	}
	b, err := files.ReadFile("rsa2048mp3.pem")
	if err != nil {
		panic(err)
	}
	blk, _ := pem.Decode(b)
	k, err := x509.ParsePKCS1PrivateKey(blk.Bytes)
	if err != nil {
		panic(err)
	}
	if len(k.Primes) != 3 {
		panic("testkeys: rsa2048mp3.pem is not a three-prime key")
	}
	k.Precompute()
	cache[-1] = k
	return k
}
