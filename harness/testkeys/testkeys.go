// Package testkeys holds fixed RSA keys (RSA key generation is too slow to
// repeat on every run). They are test material, generated once for this
// harness, and protect nothing.
package testkeys

import (
	"crypto/rsa"
	"crypto/x509"
	"embed"
	"encoding/pem"
	"fmt"
	"sync"
)

//go:embed *.pem
var files embed.FS

var (
	mu    sync.Mutex
	cache = map[int]*rsa.PrivateKey{}
)

// RSA returns the fixed key of the given modulus size (1024, 2047, 2048, 3072, 4096).
func RSA(bits int) *rsa.PrivateKey {
	mu.Lock()
	defer mu.Unlock()
	if k, ok := cache[bits]; ok {
		return k
	}
	b, err := files.ReadFile(fmt.Sprintf("rsa%d.pem", bits))
	if err != nil {
		panic(err)
	}
	blk, _ := pem.Decode(b)
	k, err := x509.ParsePKCS1PrivateKey(blk.Bytes)
	if err != nil {
		panic(err)
	}
	k.Precompute()
	cache[bits] = k
	return k
}
