// vcheck dispatches one property check:
//
//	vcheck <ID> [--tier quick|thorough] [--seed N] [--replay file]
//	vcheck selftest
//	vcheck child <mode> ...   (internal: isolated child processes of C06/C08/C18)
package main

import (
	"flag"
	"fmt"
	"os"
	"strconv"

	"verif/harness/checks"
)

func main() {
	if len(os.Args) < 2 {
		fmt.Println("usage: vcheck <ID>|selftest|list [--tier t] [--seed n] [--replay f]")
		os.Exit(3)
	}
	cmd := os.Args[1]
	switch cmd {
	case "list":
		for _, id := range checks.IDs() {
			fmt.Println(id)
		}
		return
	case "selftest":
		errs := checks.SelfTest()
		for _, e := range errs {
			fmt.Println("HARNESS-ERROR reference self-test:", e)
		}
		if len(errs) > 0 {
			os.Exit(3)
		}
		fmt.Println("reference self-test passed")
		return
	case "child":
		os.Exit(checks.ChildMain(os.Args[2:]))
	}
	fs := flag.NewFlagSet(cmd, flag.ExitOnError)
	tier := fs.String("tier", envOr("VERIF_TIER", "quick"), "quick or thorough")
	seedDefault := int64(1)
	if s, err := strconv.ParseInt(os.Getenv("VERIF_SEED"), 10, 64); err == nil {
		seedDefault = s
	}
	seed := fs.Int64("seed", seedDefault, "seed")
	replay := fs.String("replay", "", "replay file")
	_ = fs.Parse(os.Args[2:])
	if *tier != "quick" && *tier != "thorough" {
		fmt.Println("HARNESS-ERROR bad tier", *tier)
		os.Exit(3)
	}
	os.Exit(checks.Main(cmd, *tier, *seed, *replay))
}

func envOr(k, d string) string {
	if v := os.Getenv(k); v != "" {
		return v
	}
	return d
}
