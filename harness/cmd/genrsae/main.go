// genrsae generates the fixed 2048-bit RSA test key whose primes admit the
// small public exponents 3, 5, 17, 257 as well as 65537 and 2^31-1
// (testkeys/rsa2048e3.pem; the stored exponent is 3).
package main

import (
	"crypto/rand"
	"crypto/rsa"
	"crypto/x509"
	"encoding/pem"
	"fmt"
	"math/big"
	"os"
)

func good(p *big.Int) bool {
	pm1 := new(big.Int).Sub(p, big.NewInt(1))
	for _, e := range []int64{3, 5, 17, 257, 65537, 2147483647} {
		if new(big.Int).Mod(pm1, big.NewInt(e)).Sign() == 0 {
			return false
		}
	}
	return true
}

func main() {
	var p, q *big.Int
	for {
		c, _ := rand.Prime(rand.Reader, 1024)
		if !good(c) {
			continue
		}
		if p == nil {
			p = c
			continue
		}
		q = c
		if new(big.Int).Mul(p, q).BitLen() == 2048 && p.Cmp(q) != 0 {
			break
		}
	}
	n := new(big.Int).Mul(p, q)
	phi := new(big.Int).Mul(new(big.Int).Sub(p, big.NewInt(1)), new(big.Int).Sub(q, big.NewInt(1)))
	d := new(big.Int).ModInverse(big.NewInt(3), phi)
	k := &rsa.PrivateKey{PublicKey: rsa.PublicKey{N: n, E: 3}, D: d, Primes: []*big.Int{p, q}}
	if err := k.Validate(); err != nil {
		panic(err)
	}
	k.Precompute()
	fmt.Fprintln(os.Stderr, "bits", n.BitLen())
	pem.Encode(os.Stdout, &pem.Block{Type: "RSA PRIVATE KEY", Bytes: x509.MarshalPKCS1PrivateKey(k)})
}
