// genmp generates the fixed 2048-bit three-prime RSA test key (testkeys/rsa2048mp3.pem).
package main

import (
	"crypto/rand"
	"crypto/rsa"
	"crypto/x509"
	"encoding/pem"
	"os"
)

func main() {
	k, err := rsa.GenerateMultiPrimeKey(rand.Reader, 3, 2048)
	if err != nil {
		panic(err)
	}
	if err := k.Validate(); err != nil {
		panic(err)
	}
	pem.Encode(os.Stdout, &pem.Block{Type: "RSA PRIVATE KEY", Bytes: x509.MarshalPKCS1PrivateKey(k)})
}
