// Package fuzz holds the native coverage-guided fuzz target used as an extra
// workload generator by the thorough tiers of C05 and C06. The oracles are
// the same runtime monitors as in checks/c05.go and checks/c06.go: a decoder
// that accepts must have accepted a well-formed item (reference grammar), and
// no decoder or follow-up operation may panic (a panic is reported by the
// fuzzing engine itself, with the input saved as a crasher).
package fuzz

import (
	"testing"

	cose "github.com/veraison/go-cose"

	"verif/harness/gen"
	"verif/harness/mon"
	"verif/harness/refcbor"
	"verif/harness/refcose"
)

var (
	keys, _ = gen.NewKeyRing(mon.NewRand(1).Sub(1))
	parent  = &cose.Sign1Message{Headers: cose.Headers{Protected: cose.ProtectedHeader{int64(1): cose.AlgorithmES256}}, Payload: []byte("p"), Signature: []byte{1}}
)

func verifierFor(h cose.ProtectedHeader) cose.Verifier {
	if a, err := h.Algorithm(); err == nil {
		if k, ok := keys.By[a]; ok {
			return k.Verifier
		}
	}
	return keys.Keys[0].Verifier
}

func nested(u cose.UnprotectedHeader, p any) {
	for _, l := range []int64{7, 11} {
		switch v := u[l].(type) {
		case *cose.Countersignature:
			_, _ = v.MarshalCBOR()
			_ = v.Verify(keys.Keys[0].Verifier, p, nil)
		case []*cose.Countersignature:
			for _, c := range v {
				_, _ = c.MarshalCBOR()
				_ = c.Verify(keys.Keys[0].Verifier, p, nil)
			}
		}
	}
}

func FuzzDecoders(f *testing.F) {
	r := mon.NewRand(7)
	for _, it := range gen.ValidCorpus(r, 150, 30) {
		f.Add(it.Bytes)
	}
	for _, k := range gen.ValidKeys(r) {
		f.Add(refcbor.Encode(gen.KeyMap(k)))
	}
	f.Add([]byte{0xa2, 0x01, 0x02, 0x20, 0x61, 0x61})
	f.Fuzz(func(t *testing.T, b []byte) {
		check := func(name string, kind refcose.Kind, err error) bool {
			if err != nil {
				return false
			}
			if werr := refcose.WellFormed(kind, b); werr != nil {
				t.Fatalf("VIOLATION-C05 %s accepted an ill-formed input (%v): %x", name, werr, b)
			}
			return true
		}
		var m1 cose.Sign1Message
		if check("Sign1Message", refcose.KSign1Tagged, m1.UnmarshalCBOR(b)) {
			_, _ = m1.MarshalCBOR()
			_ = m1.Verify(nil, verifierFor(m1.Headers.Protected))
			_ = m1.Verify([]byte("x"), keys.Keys[3].Verifier)
			_, _ = cose.Countersign0(gen.Entropy, keys.Keys[3].Signer, &m1, nil)
			nested(m1.Headers.Unprotected, &m1)
			_, _ = m1.Headers.Protected.Critical()
			_, _ = m1.Headers.Protected.PayloadHashAlgorithm()
		}
		var m2 cose.UntaggedSign1Message
		if check("UntaggedSign1Message", refcose.KSign1Untagged, m2.UnmarshalCBOR(b)) {
			_, _ = m2.MarshalCBOR()
			_ = m2.Verify(nil, verifierFor(m2.Headers.Protected))
		}
		var m3 cose.SignMessage
		if check("SignMessage", refcose.KSignTagged, m3.UnmarshalCBOR(b)) {
			_, _ = m3.MarshalCBOR()
			vs := make([]cose.Verifier, len(m3.Signatures))
			for i, s := range m3.Signatures {
				vs[i] = verifierFor(s.Headers.Protected)
				nested(s.Headers.Unprotected, s)
			}
			_ = m3.Verify(nil, vs...)
			nested(m3.Headers.Unprotected, &m3)
		}
		var s4 cose.Signature
		if check("Signature", refcose.KSignature, s4.UnmarshalCBOR(b)) {
			_, _ = s4.MarshalCBOR()
			_ = s4.Verify(verifierFor(s4.Headers.Protected), []byte{0x40}, []byte("p"), nil)
			nested(s4.Headers.Unprotected, &s4)
		}
		var s5 cose.Countersignature
		if check("Countersignature", refcose.KSignature, s5.UnmarshalCBOR(b)) {
			_, _ = s5.MarshalCBOR()
			_ = s5.Verify(verifierFor(s5.Headers.Protected), parent, nil)
		}
		var h6 cose.ProtectedHeader
		if check("ProtectedHeader", refcose.KProtected, h6.UnmarshalCBOR(b)) {
			_, _ = h6.MarshalCBOR()
			_, _ = h6.Algorithm()
			_, _ = h6.Critical()
		}
		var h7 cose.UnprotectedHeader
		if check("UnprotectedHeader", refcose.KUnprotected, h7.UnmarshalCBOR(b)) {
			_, _ = h7.MarshalCBOR()
			nested(h7, parent)
		}
		var k cose.Key
		if k.UnmarshalCBOR(b) == nil {
			if rerr := refcose.KeyRules(b); rerr != nil {
				t.Fatalf("VIOLATION-C15 Key.UnmarshalCBOR accepted an inconsistent key (%v): %x", rerr, b)
			}
			_, _ = k.MarshalCBOR()
			_, _ = k.PublicKey()
			_, _ = k.PrivateKey()
			_, _ = k.AlgorithmOrDefault()
			if s, err := k.Signer(); err == nil {
				_, _ = s.Sign(gen.Entropy, []byte("m"))
			}
			if v, err := k.Verifier(); err == nil {
				_ = v.Verify([]byte("m"), make([]byte, 64))
			}
		}
		_, _ = cose.VerifyHashEnvelope(keys.Keys[0].Verifier, b)
		_, _ = cose.VerifyHashEnvelope(keys.Keys[3].Verifier, b)
	})
}
