// Package refcbor is an independent CBOR (RFC 8949) reader and writer used as
// the trusted base of the oracles. It shares no code with fxamacker/cbor or
// with go-cose. The reader keeps, for every item, how it was written (head
// width, indefinite length, raw span); the writer can reproduce any such
// choice or emit the deterministic (canonical) form.
package refcbor

import (
	"bytes"
	"encoding/binary"
	"errors"
	"fmt"
	"math"
	"sort"
	"unicode/utf8"
)

// Major types.
const (
	Uint  = 0
	Nint  = 1
	Bstr  = 2
	Tstr  = 3
	Array = 4
	Map   = 5
	Tag   = 6
	Prim  = 7
)

// Node is one CBOR data item.
type Node struct {
	Major byte
	Arg   uint64 // argument (value, length, tag number, simple value or float bits)
	Width int    // number of bytes of the head as written / to write: 0 = shortest, else 1,2,3,5,9
	Indef bool   // indefinite length (strings, arrays, maps)
	Str   []byte // content of a definite bstr/tstr (or concatenated chunks)
	Kids  []*Node
	// filled by the reader
	Start, End int // span in the source buffer
	// writer escape hatch: when non-nil these bytes are emitted verbatim
	Raw []byte
}

// ---------------------------------------------------------------- reader --

var (
	ErrTruncated = errors.New("refcbor: truncated")
	ErrReserved  = errors.New("refcbor: reserved additional information")
	ErrBreak     = errors.New("refcbor: unexpected break")
	ErrDepth     = errors.New("refcbor: nesting too deep")
	ErrChunk     = errors.New("refcbor: bad chunk in indefinite string")
	ErrSimple    = errors.New("refcbor: two-byte simple value below 32")
	ErrTrailing  = errors.New("refcbor: trailing bytes")
)

const maxDepth = 512

type reader struct {
	b   []byte
	pos int
}

// ReadOne parses the first item of b and returns it together with the offset
// at which it ends. Only well-formedness (RFC 8949 appendix C) is enforced.
func ReadOne(b []byte) (*Node, int, error) {
	r := &reader{b: b}
	n, err := r.item(0)
	if err != nil {
		return nil, r.pos, err
	}
	return n, r.pos, nil
}

// Parse parses b as exactly one item.
func Parse(b []byte) (*Node, error) {
	n, end, err := ReadOne(b)
	if err != nil {
		return nil, err
	}
	if end != len(b) {
		return nil, ErrTrailing
	}
	return n, nil
}

func (r *reader) head() (major, ai byte, arg uint64, width int, err error) {
	if r.pos >= len(r.b) {
		return 0, 0, 0, 0, ErrTruncated
	}
	ib := r.b[r.pos]
	major, ai = ib>>5, ib&0x1f
	switch {
	case ai < 24:
		arg, width = uint64(ai), 1
	case ai == 24:
		width = 2
	case ai == 25:
		width = 3
	case ai == 26:
		width = 5
	case ai == 27:
		width = 9
	case ai == 31:
		width = 1
	default:
		return 0, 0, 0, 0, ErrReserved
	}
	if r.pos+width > len(r.b) {
		return 0, 0, 0, 0, ErrTruncated
	}
	switch width {
	case 2:
		arg = uint64(r.b[r.pos+1])
	case 3:
		arg = uint64(binary.BigEndian.Uint16(r.b[r.pos+1:]))
	case 5:
		arg = uint64(binary.BigEndian.Uint32(r.b[r.pos+1:]))
	case 9:
		arg = binary.BigEndian.Uint64(r.b[r.pos+1:])
	}
	r.pos += width
	return
}

func (r *reader) item(depth int) (*Node, error) {
	if depth > maxDepth {
		return nil, ErrDepth
	}
	start := r.pos
	major, ai, arg, width, err := r.head()
	if err != nil {
		return nil, err
	}
	n := &Node{Major: major, Arg: arg, Width: width, Start: start}
	indef := ai == 31
	switch major {
	case Uint, Nint:
		if indef {
			return nil, ErrReserved
		}
	case Bstr, Tstr:
		if indef {
			n.Indef = true
			n.Str = []byte{}
			for {
				if r.pos >= len(r.b) {
					return nil, ErrTruncated
				}
				if r.b[r.pos] == 0xff {
					r.pos++
					break
				}
				c, err := r.item(depth + 1)
				if err != nil {
					return nil, err
				}
				if c.Major != major || c.Indef {
					return nil, ErrChunk
				}
				n.Kids = append(n.Kids, c)
				n.Str = append(n.Str, c.Str...)
			}
		} else {
			if arg > uint64(len(r.b)-r.pos) {
				return nil, ErrTruncated
			}
			n.Str = r.b[r.pos : r.pos+int(arg) : r.pos+int(arg)]
			r.pos += int(arg)
		}
	case Array, Map:
		if indef {
			n.Indef = true
			for {
				if r.pos >= len(r.b) {
					return nil, ErrTruncated
				}
				if r.b[r.pos] == 0xff {
					r.pos++
					break
				}
				c, err := r.item(depth + 1)
				if err != nil {
					return nil, err
				}
				n.Kids = append(n.Kids, c)
			}
			if major == Map && len(n.Kids)%2 != 0 {
				return nil, ErrBreak
			}
		} else {
			cnt := arg
			if major == Map {
				if cnt > math.MaxUint64/2 {
					return nil, ErrTruncated
				}
				cnt *= 2
			}
			if cnt > uint64(len(r.b)-r.pos) {
				return nil, ErrTruncated
			}
			for i := uint64(0); i < cnt; i++ {
				c, err := r.item(depth + 1)
				if err != nil {
					return nil, err
				}
				n.Kids = append(n.Kids, c)
			}
		}
	case Tag:
		if indef {
			return nil, ErrReserved
		}
		c, err := r.item(depth + 1)
		if err != nil {
			return nil, err
		}
		n.Kids = []*Node{c}
	case Prim:
		if indef {
			return nil, ErrBreak
		}
		if ai == 24 && arg < 32 {
			return nil, ErrSimple
		}
	}
	n.End = r.pos
	return n, nil
}

// ---------------------------------------------------------------- writer --

// AppendHead appends a head with the given width (0 = shortest).
func AppendHead(dst []byte, major byte, arg uint64, width int) []byte {
	if major != Prim {
		width = FitWidth(arg, width) // a chosen width that cannot hold arg falls back to the shortest
	}
	if width == 0 {
		switch {
		case arg < 24:
			width = 1
		case arg <= 0xff:
			width = 2
		case arg <= 0xffff:
			width = 3
		case arg <= 0xffffffff:
			width = 5
		default:
			width = 9
		}
	}
	m := major << 5
	switch width {
	case 1:
		if arg >= 24 {
			panic(fmt.Sprintf("refcbor: arg %d does not fit in 1-byte head", arg))
		}
		return append(dst, m|byte(arg))
	case 2:
		return append(dst, m|24, byte(arg))
	case 3:
		return append(dst, m|25, byte(arg>>8), byte(arg))
	case 5:
		return append(dst, m|26, byte(arg>>24), byte(arg>>16), byte(arg>>8), byte(arg))
	case 9:
		return append(dst, m|27, byte(arg>>56), byte(arg>>48), byte(arg>>40), byte(arg>>32), byte(arg>>24), byte(arg>>16), byte(arg>>8), byte(arg))
	}
	panic("refcbor: bad width")
}

// FitWidth returns w if arg fits a head of width w, else the shortest width.
func FitWidth(arg uint64, w int) int {
	switch w {
	case 1:
		if arg < 24 {
			return 1
		}
	case 2:
		if arg <= 0xff {
			return 2
		}
	case 3:
		if arg <= 0xffff {
			return 3
		}
	case 5:
		if arg <= 0xffffffff {
			return 5
		}
	case 9:
		return 9
	}
	return 0
}

// Encode serialises n honouring every encoder choice stored in the tree
// (Width, Indef, child order, Raw).
func Encode(n *Node) []byte { return appendNode(nil, n, false) }

// Canon serialises n deterministically: shortest heads, definite lengths, map
// keys sorted bytewise on their deterministic encodings. Floats and simple
// values keep their width.
func Canon(n *Node) []byte { return appendNode(nil, n, true) }

func appendNode(dst []byte, n *Node, canon bool) []byte {
	if n.Raw != nil {
		if canon {
			// canonicalise the item the raw bytes hold (verbatim if they do not parse)
			if p, err := Parse(n.Raw); err == nil {
				return appendNode(dst, p, true)
			}
		}
		return append(dst, n.Raw...)
	}
	w := n.Width
	if canon {
		w = 0
	}
	switch n.Major {
	case Uint, Nint:
		return AppendHead(dst, n.Major, n.Arg, w)
	case Bstr, Tstr:
		if n.Indef && !canon {
			dst = append(dst, n.Major<<5|31)
			for _, c := range n.Kids {
				dst = appendNode(dst, c, false)
			}
			return append(dst, 0xff)
		}
		dst = AppendHead(dst, n.Major, uint64(len(n.Str)), w)
		return append(dst, n.Str...)
	case Array:
		if n.Indef && !canon {
			dst = append(dst, n.Major<<5|31)
			for _, c := range n.Kids {
				dst = appendNode(dst, c, false)
			}
			return append(dst, 0xff)
		}
		dst = AppendHead(dst, Array, uint64(len(n.Kids)), w)
		for _, c := range n.Kids {
			dst = appendNode(dst, c, canon)
		}
		return dst
	case Map:
		if !canon {
			if n.Indef {
				dst = append(dst, Map<<5|31)
			} else {
				dst = AppendHead(dst, Map, uint64(len(n.Kids)/2), w)
			}
			for _, c := range n.Kids {
				dst = appendNode(dst, c, false)
			}
			if n.Indef {
				dst = append(dst, 0xff)
			}
			return dst
		}
		type kv struct{ k, v []byte }
		pairs := make([]kv, 0, len(n.Kids)/2)
		for i := 0; i+1 < len(n.Kids); i += 2 {
			pairs = append(pairs, kv{Canon(n.Kids[i]), Canon(n.Kids[i+1])})
		}
		sort.SliceStable(pairs, func(i, j int) bool { return bytes.Compare(pairs[i].k, pairs[j].k) < 0 })
		dst = AppendHead(dst, Map, uint64(len(pairs)), 0)
		for _, p := range pairs {
			dst = append(dst, p.k...)
			dst = append(dst, p.v...)
		}
		return dst
	case Tag:
		dst = AppendHead(dst, Tag, n.Arg, w)
		return appendNode(dst, n.Kids[0], canon)
	case Prim:
		// simple values and floats: width is part of the value's identity
		pw := n.Width
		if pw == 0 {
			pw = 1
			if n.Arg >= 24 {
				pw = 2
			}
		}
		return AppendHead(dst, Prim, n.Arg, pw)
	}
	panic("refcbor: bad major")
}

// ---------------------------------------------------------- constructors --

func NUint(v uint64) *Node { return &Node{Major: Uint, Arg: v} }

// NInt builds the integer v.
func NInt(v int64) *Node {
	if v >= 0 {
		return &Node{Major: Uint, Arg: uint64(v)}
	}
	return &Node{Major: Nint, Arg: uint64(-1 - v)}
}
func NBstr(b []byte) *Node  { return &Node{Major: Bstr, Str: append([]byte{}, b...)} }
func NTstr(s string) *Node  { return &Node{Major: Tstr, Str: []byte(s)} }
func NArr(k ...*Node) *Node { return &Node{Major: Array, Kids: k} }

// NMap builds a map from alternating key, value nodes.
func NMap(kv ...*Node) *Node {
	if len(kv)%2 != 0 {
		panic("refcbor: odd map")
	}
	return &Node{Major: Map, Kids: kv}
}
func NTag(num uint64, c *Node) *Node { return &Node{Major: Tag, Arg: num, Kids: []*Node{c}} }
func NSimple(v byte) *Node           { return &Node{Major: Prim, Arg: uint64(v)} }
func NNull() *Node                   { return NSimple(22) }
func NUndef() *Node                  { return NSimple(23) }
func NBool(b bool) *Node {
	if b {
		return NSimple(21)
	}
	return NSimple(20)
}
func NFloat64(f float64) *Node { return &Node{Major: Prim, Arg: math.Float64bits(f), Width: 9} }
func NFloat32(f float32) *Node { return &Node{Major: Prim, Arg: uint64(math.Float32bits(f)), Width: 5} }
func NFloat16Bits(b uint16) *Node {
	return &Node{Major: Prim, Arg: uint64(b), Width: 3}
}
func NRaw(b []byte) *Node { return &Node{Raw: append([]byte{}, b...)} }

// Clone deep-copies a tree.
func Clone(n *Node) *Node {
	if n == nil {
		return nil
	}
	c := *n
	if n.Str != nil {
		c.Str = append([]byte{}, n.Str...)
	}
	if n.Raw != nil {
		c.Raw = append([]byte{}, n.Raw...)
	}
	if n.Kids != nil {
		c.Kids = make([]*Node, len(n.Kids))
		for i, k := range n.Kids {
			c.Kids[i] = Clone(k)
		}
	}
	return &c
}

// ------------------------------------------------------------ predicates --

// IsInt reports whether n is an integer item and returns its value when it
// fits int64.
func (n *Node) IsInt() bool { return n.Major == Uint || n.Major == Nint }

// Int64 returns the value of an integer node and whether it fits int64.
func (n *Node) Int64() (int64, bool) {
	switch n.Major {
	case Uint:
		if n.Arg > math.MaxInt64 {
			return 0, false
		}
		return int64(n.Arg), true
	case Nint:
		if n.Arg > math.MaxInt64 {
			return 0, false
		}
		return -1 - int64(n.Arg), true
	}
	return 0, false
}

func (n *Node) IsNull() bool  { return n.Major == Prim && n.Width <= 2 && n.Arg == 22 }
func (n *Node) IsFloat() bool { return n.Major == Prim && n.Width >= 3 }
func (n *Node) IsNaN() bool {
	if !n.IsFloat() {
		return false
	}
	switch n.Width {
	case 3:
		return n.Arg&0x7c00 == 0x7c00 && n.Arg&0x03ff != 0
	case 5:
		return math.IsNaN(float64(math.Float32frombits(uint32(n.Arg))))
	case 9:
		return math.IsNaN(math.Float64frombits(n.Arg))
	}
	return false
}

// Walk calls f for n and all its descendants (pre-order); f returning false
// prunes the subtree.
func Walk(n *Node, f func(*Node) bool) {
	if !f(n) {
		return
	}
	for _, k := range n.Kids {
		Walk(k, f)
	}
}

// AnyIndef reports whether any item of the tree has indefinite length.
func AnyIndef(n *Node) bool {
	found := false
	Walk(n, func(x *Node) bool {
		if x.Indef {
			found = true
		}
		return !found
	})
	return found
}

// AnyTag reports whether the tree contains a tag.
func AnyTag(n *Node) bool {
	found := false
	Walk(n, func(x *Node) bool {
		if x.Major == Tag {
			found = true
		}
		return !found
	})
	return found
}

func containsNaN(n *Node) bool {
	found := false
	Walk(n, func(x *Node) bool {
		if x.IsNaN() {
			found = true
		}
		return !found
	})
	return found
}

// DupKeys returns, for map m only (not nested maps), one entry per pair of
// keys whose deterministic encodings are equal and which contain no NaN.
func DupKeys(m *Node) [][2]int {
	var out [][2]int
	seen := map[string]int{}
	for i := 0; i+1 < len(m.Kids); i += 2 {
		k := m.Kids[i]
		if containsNaN(k) {
			continue
		}
		c := string(Canon(k))
		if j, ok := seen[c]; ok {
			out = append(out, [2]int{j, i / 2})
		} else {
			seen[c] = i / 2
		}
	}
	return out
}

// AnyDupKeys reports whether any map in the tree (at any depth, without
// descending into byte strings) has duplicate keys.
func AnyDupKeys(n *Node) bool {
	found := false
	Walk(n, func(x *Node) bool {
		if x.Major == Map && len(DupKeys(x)) > 0 {
			found = true
		}
		return !found
	})
	return found
}

func shortestWidth(arg uint64) int {
	switch {
	case arg < 24:
		return 1
	case arg <= 0xff:
		return 2
	case arg <= 0xffff:
		return 3
	case arg <= 0xffffffff:
		return 5
	}
	return 9
}

// IsCanonicalNode reports whether the parsed tree was written in
// deterministic form: shortest integer/length heads, definite lengths, map
// keys strictly ascending bytewise. Floats and simple values are not
// constrained. why describes the first deviation.
func IsCanonicalNode(n *Node) (ok bool, why string) {
	ok = true
	Walk(n, func(x *Node) bool {
		if !ok {
			return false
		}
		if x.Indef {
			ok, why = false, fmt.Sprintf("indefinite length at %d", x.Start)
			return false
		}
		if x.Major != Prim && x.Width != shortestWidth(x.Arg) {
			ok, why = false, fmt.Sprintf("non-shortest head at %d", x.Start)
			return false
		}
		if x.Major == Map {
			var prev []byte
			for i := 0; i+1 < len(x.Kids); i += 2 {
				k := Encode(x.Kids[i])
				if prev != nil && bytes.Compare(prev, k) >= 0 {
					ok, why = false, fmt.Sprintf("map keys not strictly ascending at %d", x.Kids[i].Start)
					return false
				}
				prev = k
			}
		}
		return true
	})
	return
}

// IsCanonical parses b as one item and applies IsCanonicalNode.
func IsCanonical(b []byte) (bool, string) {
	n, err := Parse(b)
	if err != nil {
		return false, err.Error()
	}
	return IsCanonicalNode(n)
}

// ValidUTF8 reports whether all text strings of the tree are valid UTF-8.
func ValidUTF8(n *Node) bool {
	ok := true
	Walk(n, func(x *Node) bool {
		if x.Major == Tstr && !utf8.Valid(x.Str) {
			ok = false
		}
		return ok
	})
	return ok
}

// Depth returns the nesting depth of the tree (a scalar has depth 1).
func Depth(n *Node) int {
	d := 0
	for _, k := range n.Kids {
		if x := Depth(k); x > d {
			d = x
		}
	}
	return d + 1
}

// Diag renders a short diagnostic notation (for evidence samples).
func Diag(n *Node) string {
	var b bytes.Buffer
	diag(&b, n, 0)
	return b.String()
}

func diag(b *bytes.Buffer, n *Node, depth int) {
	if b.Len() > 400 {
		return
	}
	if n.Raw != nil {
		fmt.Fprintf(b, "raw'%x'", n.Raw)
		return
	}
	switch n.Major {
	case Uint:
		fmt.Fprintf(b, "%d", n.Arg)
	case Nint:
		if v, ok := n.Int64(); ok {
			fmt.Fprintf(b, "%d", v)
		} else {
			fmt.Fprintf(b, "-1-%d", n.Arg)
		}
	case Bstr:
		if len(n.Str) > 24 {
			fmt.Fprintf(b, "h'%x..'(%d)", n.Str[:8], len(n.Str))
		} else {
			fmt.Fprintf(b, "h'%x'", n.Str)
		}
	case Tstr:
		if len(n.Str) > 24 {
			fmt.Fprintf(b, "%q..(%d)", n.Str[:8], len(n.Str))
		} else {
			fmt.Fprintf(b, "%q", n.Str)
		}
	case Array:
		b.WriteString("[")
		if n.Indef {
			b.WriteString("_ ")
		}
		for i, k := range n.Kids {
			if i > 0 {
				b.WriteString(", ")
			}
			diag(b, k, depth+1)
		}
		b.WriteString("]")
	case Map:
		b.WriteString("{")
		if n.Indef {
			b.WriteString("_ ")
		}
		for i := 0; i+1 < len(n.Kids); i += 2 {
			if i > 0 {
				b.WriteString(", ")
			}
			diag(b, n.Kids[i], depth+1)
			b.WriteString(": ")
			diag(b, n.Kids[i+1], depth+1)
		}
		b.WriteString("}")
	case Tag:
		fmt.Fprintf(b, "%d(", n.Arg)
		diag(b, n.Kids[0], depth+1)
		b.WriteString(")")
	case Prim:
		switch {
		case n.Width >= 3:
			fmt.Fprintf(b, "float%d(%x)", (n.Width-1)*8, n.Arg)
		case n.Arg == 20:
			b.WriteString("false")
		case n.Arg == 21:
			b.WriteString("true")
		case n.Arg == 22:
			b.WriteString("null")
		case n.Arg == 23:
			b.WriteString("undefined")
		default:
			fmt.Fprintf(b, "simple(%d)", n.Arg)
		}
	}
	if n.Width != 0 && n.Major != Prim && n.Width != shortestWidth(argOf(n)) {
		fmt.Fprintf(b, "_w%d", n.Width)
	}
}

func argOf(n *Node) uint64 {
	switch n.Major {
	case Bstr, Tstr:
		return uint64(len(n.Str))
	case Array:
		return uint64(len(n.Kids))
	case Map:
		return uint64(len(n.Kids) / 2)
	}
	return n.Arg
}
