// Package refcrypto decides "cryptographically valid" for the oracles using
// only the Go standard library primitives, and provides a textbook ECDSA
// signer with a caller-chosen nonce (to manufacture signatures whose r or s
// have leading zero bytes). Nothing here imports go-cose.
package refcrypto

import (
	"crypto"
	"crypto/ecdsa"
	"crypto/ed25519"
	"crypto/elliptic"
	"crypto/rsa"
	"crypto/sha256"
	"crypto/sha512"
	"encoding/asn1"
	"errors"
	"io"
	"math/big"
)

// COSE algorithm identifiers (RFC 9053 / RFC 8230), restated here.
const (
	ES256 = -7
	ES384 = -35
	ES512 = -36
	EdDSA = -8
	PS256 = -37
	PS384 = -38
	PS512 = -39
)

// HashOf returns the hash an algorithm uses (0 for EdDSA / unknown).
func HashOf(alg int64) crypto.Hash {
	switch alg {
	case ES256, PS256:
		return crypto.SHA256
	case ES384, PS384:
		return crypto.SHA384
	case ES512, PS512:
		return crypto.SHA512
	}
	return 0
}

// Digest hashes msg with h.
func Digest(h crypto.Hash, msg []byte) []byte {
	switch h {
	case crypto.SHA256:
		d := sha256.Sum256(msg)
		return d[:]
	case crypto.SHA384:
		d := sha512.Sum384(msg)
		return d[:]
	case crypto.SHA512:
		d := sha512.Sum512(msg)
		return d[:]
	}
	return nil
}

// OrderSize is ceil(bitlen(n)/8) for the curve.
func OrderSize(c elliptic.Curve) int { return (c.Params().N.BitLen() + 7) / 8 }

// Verify reports whether sig is a valid COSE signature by pub over tbs under alg.
func Verify(alg int64, pub crypto.PublicKey, tbs, sig []byte) bool {
	switch alg {
	case ES256, ES384, ES512:
		k, ok := pub.(*ecdsa.PublicKey)
		if !ok {
			return false
		}
		return VerifyECDSADigest(k, Digest(HashOf(alg), tbs), sig)
	case PS256, PS384, PS512:
		k, ok := pub.(*rsa.PublicKey)
		if !ok {
			return false
		}
		h := HashOf(alg)
		return rsa.VerifyPSS(k, h, Digest(h, tbs), sig, &rsa.PSSOptions{SaltLength: rsa.PSSSaltLengthEqualsHash}) == nil
	case EdDSA:
		k, ok := pub.(ed25519.PublicKey)
		if !ok || len(k) != ed25519.PublicKeySize {
			return false
		}
		return ed25519.Verify(k, tbs, sig)
	}
	return false
}

// VerifyECDSADigest checks the fixed-width r||s form.
func VerifyECDSADigest(k *ecdsa.PublicKey, digest, sig []byte) bool {
	n := OrderSize(k.Curve)
	if len(sig) != 2*n {
		return false
	}
	r := new(big.Int).SetBytes(sig[:n])
	s := new(big.Int).SetBytes(sig[n:])
	return ecdsa.Verify(k, digest, r, s)
}

// Sign produces a reference signature with stdlib primitives.
func Sign(rand io.Reader, alg int64, priv crypto.Signer, tbs []byte) ([]byte, error) {
	switch alg {
	case ES256, ES384, ES512:
		k, ok := priv.(*ecdsa.PrivateKey)
		if !ok {
			return nil, errors.New("refcrypto: not an ECDSA key")
		}
		r, s, err := ecdsa.Sign(rand, k, Digest(HashOf(alg), tbs))
		if err != nil {
			return nil, err
		}
		return EncodeRS(k.Curve, r, s), nil
	case PS256, PS384, PS512:
		k, ok := priv.(*rsa.PrivateKey)
		if !ok {
			return nil, errors.New("refcrypto: not an RSA key")
		}
		h := HashOf(alg)
		return rsa.SignPSS(rand, k, h, Digest(h, tbs), &rsa.PSSOptions{SaltLength: rsa.PSSSaltLengthEqualsHash})
	case EdDSA:
		k, ok := priv.(ed25519.PrivateKey)
		if !ok {
			return nil, errors.New("refcrypto: not an Ed25519 key")
		}
		return ed25519.Sign(k, tbs), nil
	}
	return nil, errors.New("refcrypto: unknown algorithm")
}

// EncodeRS is the independent fixed-width encoder (RFC 9053 section 2.1).
func EncodeRS(c elliptic.Curve, r, s *big.Int) []byte {
	n := OrderSize(c)
	out := make([]byte, 2*n)
	r.FillBytes(out[:n])
	s.FillBytes(out[n:])
	return out
}

// bits2int per SEC1 / FIPS 186: leftmost bitlen(n) bits of the digest.
func bits2int(c elliptic.Curve, digest []byte) *big.Int {
	nbits := c.Params().N.BitLen()
	nbytes := (nbits + 7) / 8
	if len(digest) > nbytes {
		digest = digest[:nbytes]
	}
	e := new(big.Int).SetBytes(digest)
	if excess := len(digest)*8 - nbits; excess > 0 {
		e.Rsh(e, uint(excess))
	}
	return e
}

// RFromNonce returns r = (k*G).x mod n.
func RFromNonce(c elliptic.Curve, k *big.Int) *big.Int {
	x, _ := c.ScalarBaseMult(k.Bytes())
	return new(big.Int).Mod(x, c.Params().N)
}

// SignWithNonce is textbook ECDSA with a caller-chosen nonce k; ok is false
// when r or s would be zero.
func SignWithNonce(c elliptic.Curve, d, k *big.Int, digest []byte) (r, s *big.Int, ok bool) {
	n := c.Params().N
	r = RFromNonce(c, k)
	if r.Sign() == 0 {
		return nil, nil, false
	}
	e := bits2int(c, digest)
	s = new(big.Int).Mul(r, d)
	s.Add(s, e)
	s.Mod(s, n)
	kinv := new(big.Int).ModInverse(k, n)
	if kinv == nil {
		return nil, nil, false
	}
	s.Mul(s, kinv)
	s.Mod(s, n)
	if s.Sign() == 0 {
		return nil, nil, false
	}
	return r, s, true
}

// SFromNonce computes s for a nonce whose r and inverse are already known
// (pure modular arithmetic, no scalar multiplication).
func SFromNonce(c elliptic.Curve, d, kinv, r *big.Int, digest []byte) *big.Int {
	n := c.Params().N
	s := new(big.Int).Mul(r, d)
	s.Add(s, bits2int(c, digest))
	s.Mul(s, kinv)
	return s.Mod(s, n)
}

// DigestForS returns the integer e (as a digest of the curve's order size)
// for which the signature with nonce k has the chosen s: e = s*k - r*d mod n.
// Only usable through digest-level APIs when e fits the hash length; ok says so.
func DigestForS(c elliptic.Curve, d, k, s *big.Int, hashLen int) (digest []byte, r *big.Int, ok bool) {
	n := c.Params().N
	r = RFromNonce(c, k)
	if r.Sign() == 0 {
		return nil, nil, false
	}
	e := new(big.Int).Mul(s, k)
	e.Sub(e, new(big.Int).Mul(r, d))
	e.Mod(e, n)
	nbits := n.BitLen()
	if hashLen*8 >= nbits {
		// digest is truncated to nbits: place e in the top nbits of hashLen bytes
		shift := uint(hashLen*8 - nbits)
		v := new(big.Int).Lsh(e, shift)
		if v.BitLen() > hashLen*8 {
			return nil, nil, false
		}
		return v.FillBytes(make([]byte, hashLen)), r, true
	}
	// hash shorter than the order: e must fit in hashLen bytes
	if e.BitLen() > hashLen*8 {
		return nil, nil, false
	}
	return e.FillBytes(make([]byte, hashLen)), r, true
}

// LeadingZeroBytes counts leading zero bytes of v written on size bytes.
func LeadingZeroBytes(v *big.Int, size int) int {
	b := v.FillBytes(make([]byte, size))
	z := 0
	for z < len(b) && b[z] == 0 {
		z++
	}
	return z
}

// DER encodes (r, s) as an ASN.1 ECDSA-Sig-Value.
func DER(r, s *big.Int) []byte {
	b, err := asn1.Marshal(struct{ R, S *big.Int }{r, s})
	if err != nil {
		panic(err)
	}
	return b
}

// StubECDSASigner is a crypto.Signer that is not *ecdsa.PrivateKey and
// returns the ASN.1 encoding of a caller-chosen (r, s) (or an error).
type StubECDSASigner struct {
	Pub   *ecdsa.PublicKey
	R, S  *big.Int
	Err   error
	Calls int
	Last  []byte
	// Form varies the DER the stub returns: "" plain SEQUENCE{r,s}; "trailing" the same followed by
	// bytes after the SEQUENCE; "extra-element" SEQUENCE{r,s,INTEGER 7}; "long-length" the SEQUENCE
	// length in long form (81 xx), which is BER rather than DER.
	Form string
}

func (s *StubECDSASigner) Public() crypto.PublicKey { return s.Pub }
func (s *StubECDSASigner) Sign(_ io.Reader, digest []byte, _ crypto.SignerOpts) ([]byte, error) {
	s.Calls++
	s.Last = append([]byte{}, digest...)
	if s.Err != nil {
		return nil, s.Err
	}
	switch s.Form {
	case "trailing":
		return append(DER(s.R, s.S), 0x00, 0x01, 0x02), nil
	case "extra-element":
		b, err := asn1.Marshal(struct {
			R, S *big.Int
			X    int
		}{s.R, s.S, 7})
		if err != nil {
			panic(err)
		}
		return b, nil
	case "no-sign-octet":
		// some tokens omit the 0x00 that DER needs in front of an INTEGER whose first octet is >= 0x80
		// (read strictly, such an INTEGER is negative)
		enc := func(x *big.Int) []byte {
			b := x.Bytes()
			return append([]byte{0x02, byte(len(b))}, b...)
		}
		body := append(enc(s.R), enc(s.S)...)
		if len(body) < 0x80 {
			return append([]byte{0x30, byte(len(body))}, body...), nil
		}
		return append([]byte{0x30, 0x81, byte(len(body))}, body...), nil
	case "long-length":
		d := DER(s.R, s.S)
		if len(d) >= 2 && d[1] < 0x80 {
			return append([]byte{d[0], 0x81, d[1]}, d[2:]...), nil
		}
		return d, nil
	}
	return DER(s.R, s.S), nil
}

// WrapSigner hides the concrete type of a real key behind crypto.Signer so
// go-cose takes its generic (ASN.1) path.
type WrapSigner struct{ K crypto.Signer }

func (w WrapSigner) Public() crypto.PublicKey { return w.K.Public() }
func (w WrapSigner) Sign(r io.Reader, d []byte, o crypto.SignerOpts) ([]byte, error) {
	return w.K.Sign(r, d, o)
}

// StubECDSAMessageSigner is a StubECDSASigner whose type also offers SignMessage (the shape of
// Go 1.25's crypto.MessageSigner): whichever entry point a caller uses, it answers with the DER of (R, S).
type StubECDSAMessageSigner struct{ StubECDSASigner }

func (s *StubECDSAMessageSigner) SignMessage(rand io.Reader, msg []byte, opts crypto.SignerOpts) ([]byte, error) {
	return s.Sign(rand, msg, opts)
}
