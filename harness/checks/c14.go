package checks

import (
	"crypto"
	"crypto/ecdsa"
	"crypto/ed25519"
	"crypto/elliptic"
	"fmt"
	"math/big"
	"sync"

	cose "github.com/veraison/go-cose"

	"verif/harness/gen"
	"verif/harness/mon"
	"verif/harness/refcbor"
	"verif/harness/refcose"
	"verif/harness/refcrypto"
)

// C14 - COSE_Key conversion round-trips every key and keeps coordinates full
// length. Monitors: Equal on stdlib keys after the full conversion chain,
// coordinate lengths read from the serialised key by the reference parser,
// real sign/verify through Key.Signer / Key.Verifier.

func init() {
	register(&Check{
		ID:    "C14",
		Level: "exploration",
		Rule: "ECDSA keys on P-256/P-384/P-521 derived from the seed with FORCED boundary classes - x, y or d with 1, 2 (3 in thorough) leading zero bytes found by scalar-multiplication search, d in {1, 2, 3, n-1, n-2}, the P-521 top-byte split, the public points with x = 0 where the curve has them - and Ed25519 keys (incl. all-zero and all-ones seeds), each with/without kid, key_ops (permitting), base IV and extra int/tstr parameters: " +
			"private and public halves through NewKeyFrom* -> (in memory | MarshalCBOR -> UnmarshalCBOR) -> PrivateKey/PublicKey must Equal the source; serialised x and y must have exactly the field size; a signature by Key.Signer must verify under the public counterpart's Key.Verifier and under the stdlib. Distinct = (curve, leading-zero class of x/y/d, decoration set, path).",
		Assume: []string{"crypto/elliptic scalar multiplication and ecdsa.PrivateKey.Equal are correct"},
		Run:    runC14,
	})
}

type c14key struct {
	priv  *ecdsa.PrivateKey // nil for public-only points
	pub   *ecdsa.PublicKey
	class string
}

func lzClass(v *big.Int, size int) int {
	z := refcrypto.LeadingZeroBytes(v, size)
	if z > 4 {
		z = 4
	}
	return z
}

func c14classOf(k *ecdsa.PublicKey, d *big.Int) string {
	size := (k.Curve.Params().BitSize + 7) / 8
	tz := func(v *big.Int) string {
		if v.FillBytes(make([]byte, size))[size-1] == 0 {
			return "t"
		}
		return ""
	}
	s := fmt.Sprintf("x%d%s/y%d%s", lzClass(k.X, size), tz(k.X), lzClass(k.Y, size), tz(k.Y))
	if d != nil {
		s += fmt.Sprintf("/d%d", lzClass(d, size))
	}
	return s
}

// c14search finds private scalars whose public point has the wanted number of
// leading zero bytes in x (coord 0) or y (coord 1).
func c14search(c elliptic.Curve, r *mon.Rand, coord, zeros, maxTries, workers int) *ecdsa.PrivateKey {
	return c14searchPred(c, r, coord, maxTries, workers, func(v *big.Int, size int) bool {
		return refcrypto.LeadingZeroBytes(v, size) >= zeros
	})
}

// c14searchPred finds a private scalar whose public coordinate satisfies pred.
func c14searchPred(c elliptic.Curve, r *mon.Rand, coord, maxTries, workers int, pred func(v *big.Int, size int) bool) *ecdsa.PrivateKey {
	size := (c.Params().BitSize + 7) / 8
	var found *ecdsa.PrivateKey
	var mu sync.Mutex
	start := new(big.Int).SetBytes(r.Bytes(size - 1))
	start.Mod(start, c.Params().N)
	per := maxTries/workers + 1
	var wg sync.WaitGroup
	for w := 0; w < workers; w++ {
		wg.Add(1)
		go func(w int) {
			defer wg.Done()
			d := new(big.Int).Add(start, big.NewInt(int64(w*per+1)))
			one := big.NewInt(1)
			for i := 0; i < per; i++ {
				if i%64 == 0 {
					mu.Lock()
					done := found != nil
					mu.Unlock()
					if done {
						return
					}
				}
				d.Add(d, one)
				d.Mod(d, c.Params().N)
				if d.Sign() == 0 {
					continue
				}
				x, y := c.ScalarBaseMult(d.Bytes())
				v := x
				if coord == 1 {
					v = y
				}
				if pred(v, size) {
					mu.Lock()
					if found == nil {
						found = &ecdsa.PrivateKey{PublicKey: ecdsa.PublicKey{Curve: c, X: x, Y: y}, D: new(big.Int).Set(d)}
					}
					mu.Unlock()
					return
				}
			}
		}(w)
	}
	wg.Wait()
	return found
}

func runC14(c *Ctx) {
	rec := c.Rec
	r := mon.NewRand(uint64(c.Seed)).Sub(151000)
	curves := []elliptic.Curve{elliptic.P256(), elliptic.P384(), elliptic.P521()}
	var keys []c14key
	add := func(p *ecdsa.PrivateKey, forced string) {
		if p == nil {
			rec.Event("forced-class-not-found:" + forced)
			return
		}
		rec.Event("forced-class:" + forced)
		keys = append(keys, c14key{p, &p.PublicKey, c14classOf(&p.PublicKey, p.D)})
	}
	for _, cv := range curves {
		name := cv.Params().Name
		n := cv.Params().N
		size := (cv.Params().BitSize + 7) / 8
		// random keys
		for i := 0; i < c.N(300, 20000); i++ {
			add(gen.ECKey(cv, r), name+"/random")
		}
		// tiny and huge d
		for _, d := range []*big.Int{big.NewInt(1), big.NewInt(2), big.NewInt(3), new(big.Int).Sub(n, big.NewInt(1)), new(big.Int).Sub(n, big.NewInt(2))} {
			add(gen.ECKeyFromD(cv, d), name+"/extreme-d")
		}
		// d with 1..3 leading zero bytes
		for z := 1; z <= 3; z++ {
			for i := 0; i < 3; i++ {
				b := r.Bytes(size)
				for j := 0; j < z; j++ {
					b[j] = 0
				}
				if name == "P-521" {
					b[0] = 0
					for j := 1; j <= z; j++ {
						b[j] = 0
					}
				}
				d := new(big.Int).SetBytes(b)
				d.Mod(d, n)
				if d.Sign() > 0 {
					add(gen.ECKeyFromD(cv, d), fmt.Sprintf("%s/d-zeros-%d", name, z))
				}
			}
		}
		// x / y with leading zero bytes (searched)
		for coord := 0; coord < 2; coord++ {
			cn := []string{"x", "y"}[coord]
			for i := 0; i < c.N(12, 200); i++ {
				add(c14search(cv, r, coord, 1, 40000, c.Workers), fmt.Sprintf("%s/%s-zeros-1", name, cn))
			}
			for i := 0; i < c.N(1, 6); i++ {
				add(c14search(cv, r, coord, 2, 1500000, c.Workers), fmt.Sprintf("%s/%s-zeros-2", name, cn))
			}
			// trailing zero octet, and leading + trailing zero octets at once
			trailing := func(v *big.Int, size int) bool { return v.FillBytes(make([]byte, size))[size-1] == 0 }
			for i := 0; i < c.N(3, 30); i++ {
				add(c14searchPred(cv, r, coord, 40000, c.Workers, trailing), fmt.Sprintf("%s/%s-trailing-zero", name, cn))
			}
			for i := 0; i < c.N(1, 6); i++ {
				add(c14searchPred(cv, r, coord, 1500000, c.Workers, func(v *big.Int, size int) bool {
					return refcrypto.LeadingZeroBytes(v, size) >= 1 && trailing(v, size)
				}), fmt.Sprintf("%s/%s-leading+trailing-zero", name, cn))
			}
			if c.Thorough && name != "P-521" {
				add(c14search(cv, r, coord, 3, 80000000, c.Workers), fmt.Sprintf("%s/%s-zeros-3", name, cn))
			}
		}
		// the points with x = 0 (public only)
		p := cv.Params()
		if y := new(big.Int).ModSqrt(p.B, p.P); y != nil {
			for _, yy := range []*big.Int{y, new(big.Int).Sub(p.P, y)} {
				pub := &ecdsa.PublicKey{Curve: cv, X: new(big.Int), Y: yy}
				if cv.IsOnCurve(pub.X, pub.Y) {
					rec.Event("forced-class:" + name + "/x=0")
					keys = append(keys, c14key{nil, pub, "x=0/" + c14classOf(pub, nil)})
				}
			}
		}
		// public points whose x is not below the group order n (n < p on all three curves, so the values
		// n, n+1, ... and p-1, p-2, ... are field elements like any other; about half of them are the x of
		// two points). No private key is known for them: public half only.
		for _, start := range []struct {
			from *big.Int
			step int64
			tag  string
		}{{new(big.Int).Set(n), 1, "x>=n"}, {new(big.Int).Sub(p.P, big.NewInt(1)), -1, "x-near-p"}} {
			x := start.from
			for found := 0; found < 3; x = new(big.Int).Add(x, big.NewInt(start.step)) {
				if x.Cmp(n) < 0 || x.Cmp(p.P) >= 0 {
					break
				}
				y2 := new(big.Int).Exp(x, big.NewInt(3), p.P)
				y2.Sub(y2, new(big.Int).Mul(x, big.NewInt(3)))
				y2.Add(y2, p.B).Mod(y2, p.P)
				y := new(big.Int).ModSqrt(y2, p.P)
				if y == nil {
					continue
				}
				for _, yy := range []*big.Int{y, new(big.Int).Sub(p.P, y)} {
					pub := &ecdsa.PublicKey{Curve: cv, X: new(big.Int).Set(x), Y: yy}
					if cv.IsOnCurve(pub.X, pub.Y) {
						rec.Event("forced-class:" + name + "/" + start.tag)
						keys = append(keys, c14key{nil, pub, start.tag + "/" + c14classOf(pub, nil)})
					}
				}
				found++
			}
		}
	}
	rec.Extra("ec_keys", len(keys))

	mon.Parallel(c.Workers, len(keys), func(w, i int) {
		k := keys[i]
		rr := mon.NewRand(uint64(c.Seed)).Sub(uint64(152000 + i))
		c14chain(rec, rr, k, i)
	})

	// Ed25519
	seeds := [][]byte{make([]byte, 32), bytesOf(0xff, 32)}
	for i := 0; i < c.N(400, 20000); i++ {
		seeds = append(seeds, r.Bytes(32))
	}
	mon.Parallel(c.Workers, len(seeds), func(w, i int) {
		rr := mon.NewRand(uint64(c.Seed)).Sub(uint64(153000 + i))
		c14ed(rec, rr, ed25519.NewKeyFromSeed(seeds[i]), i)
	})
	rec.Require("chain-complete", 200)
	for _, cv := range curves {
		rec.Require("forced-class:"+cv.Params().Name+"/x-zeros-1", 1)
		rec.Require("forced-class:"+cv.Params().Name+"/y-zeros-1", 1)
		rec.Require("forced-class:"+cv.Params().Name+"/x>=n", 1)
	}
	rec.RequireClasses(40)
}

func bytesOf(b byte, n int) []byte {
	out := make([]byte, n)
	for i := range out {
		out[i] = b
	}
	return out
}

// decorate adds optional common parameters; returns a name for the set.
func c14decorate(r *mon.Rand, k *cose.Key, permitOps bool) string {
	name := ""
	if r.Bool() {
		k.ID = gen.BytesValue(r)
		name += "kid,"
	}
	if permitOps && r.Bool() {
		// key_ops that permit what this half of the key is used for (and, half of the time, nothing else)
		_, _, _, d := k.EC2()
		_, _, od := k.OKP()
		private := len(d) > 0 || len(od) > 0
		switch {
		case r.Bool():
			k.Ops = []cose.KeyOp{cose.KeyOpVerify, cose.KeyOpSign}
			name += "ops=both,"
		case private:
			k.Ops = []cose.KeyOp{cose.KeyOpSign}
			name += "ops=sign-only,"
		default:
			k.Ops = []cose.KeyOp{cose.KeyOpVerify}
			name += "ops=verify-only,"
		}
	}
	if r.Bool() {
		k.BaseIV = r.Bytes(8)
		name += "baseiv,"
	}
	if r.Bool() {
		k.Params[int64(-70000-r.Intn(100))] = gen.BytesValue(r)
		k.Params["note"] = "extra"
		name += "extra,"
	}
	if r.Intn(4) == 0 {
		// an application parameter under a small negative label that means nothing for this key type (-3 is
		// y for EC2 keys only, -5/-6 nothing at all), of any length: extra parameters are carried along
		if k.Type == cose.KeyTypeOKP {
			k.Params[int64(-3)] = r.Bytes(mon.Pick(r, 1, 31, 33, 40, 66, 100))
			name += "extra-under-label-minus-3,"
		}
		k.Params[int64(-5-r.Intn(3))] = r.Bytes(mon.Pick(r, 1, 33, 67, 200))
		name += "extra-small-negative-label,"
	}
	if r.Intn(3) == 0 {
		// text labels and values of any well-formed UTF-8 content
		k.Params[gen.TextValue(r)+"-label"] = gen.TextValue(r)
		k.Params[gen.TextValue(r)] = int64(r.Intn(1000))
		name += "extra-text,"
	}
	return name
}

func c14chain(rec *mon.Recorder, r *mon.Rand, k c14key, idx int) {
	curve := k.pub.Curve.Params().Name
	size := (k.pub.Curve.Params().BitSize + 7) / 8
	in := map[string]any{"curve": curve, "class": k.class, "x": fmt.Sprintf("%x", k.pub.X), "y": fmt.Sprintf("%x", k.pub.Y)}
	if k.priv != nil {
		in["d"] = fmt.Sprintf("%x", k.priv.D)
	}
	fail := func(step string, err error) {
		rec.Violate("chain:"+step, curve+"/"+k.class, fmt.Sprintf("step %q failed: %v", step, err), in)
	}
	checkWire := func(b []byte, half string) bool {
		n, err := refcbor.Parse(b)
		if err != nil || n.Major != refcbor.Map {
			fail("serialised-key-unreadable/"+half, err)
			return false
		}
		for _, l := range []int64{-2, -3} {
			v := refcose.Lookup(n, l)
			if v == nil || v.Major != refcbor.Bstr {
				fail(fmt.Sprintf("coordinate-%d-missing/%s", l, half), nil)
				return false
			}
			if len(v.Str) != size {
				rec.Violate("coordinate-length", fmt.Sprintf("%s/label=%d/len=%d", curve, l, len(v.Str)),
					fmt.Sprintf("serialised coordinate %d has %d bytes, the field size is %d: %s", l, len(v.Str), size, hexs(b)), in)
				return false
			}
		}
		return true
	}
	var err error
	// ---- public half ----
	var pk *cose.Key
	if guard(rec, "NewKeyFromPublic", in, func() { pk, err = cose.NewKeyFromPublic(k.pub) }) {
		return
	}
	rec.Eval(1)
	rec.Event("NewKeyFromPublic")
	if err != nil {
		fail("NewKeyFromPublic", err)
		return
	}
	deco := c14decorate(r, pk, true)
	// in memory
	var got any
	if guard(rec, "Key.PublicKey", in, func() { got, err = pk.PublicKey() }) {
		return
	}
	if err != nil || !k.pub.Equal(got) {
		fail("public-in-memory", fmt.Errorf("err=%v equal=%v", err, err == nil && k.pub.Equal(got)))
		return
	}
	var pb []byte
	if guard(rec, "Key.MarshalCBOR", in, func() { pb, err = pk.MarshalCBOR() }) {
		return
	}
	if err != nil {
		fail("public-marshal", err)
		return
	}
	in["public_key_cbor"] = mon.FullHex(pb)
	if !checkWire(pb, "public") {
		return
	}
	var pk2 cose.Key
	if guard(rec, "Key.UnmarshalCBOR", in, func() { err = pk2.UnmarshalCBOR(pb) }) {
		return
	}
	if err != nil {
		fail("public-unmarshal", err)
		return
	}
	if guard(rec, "Key.PublicKey", in, func() { got, err = pk2.PublicKey() }) {
		return
	}
	if err != nil || !k.pub.Equal(got) {
		fail("public-after-wire", fmt.Errorf("err=%v equal=%v", err, err == nil && k.pub.Equal(got)))
		return
	}
	var ver, ver2 cose.Verifier
	if guard(rec, "Key.Verifier", in, func() {
		ver, err = pk.Verifier()
		if err == nil {
			ver2, err = pk2.Verifier()
		}
	}) {
		return
	}
	if err != nil {
		fail("verifier-from-key", err)
		return
	}
	if k.priv == nil {
		// public-only point: the verifier must at least reject garbage without panicking
		_ = ver.Verify([]byte("m"), make([]byte, 2*refcrypto.OrderSize(k.pub.Curve)))
		rec.Event("chain-complete")
		rec.Class(fmt.Sprintf("%s/%s/public-only/%s", curve, k.class, deco))
		rec.Sample("x=0/"+curve, map[string]any{"key": hexs(pb)})
		return
	}
	// ---- private half ----
	var sk *cose.Key
	if guard(rec, "NewKeyFromPrivate", in, func() { sk, err = cose.NewKeyFromPrivate(k.priv) }) {
		return
	}
	rec.Event("NewKeyFromPrivate")
	if err != nil {
		fail("NewKeyFromPrivate", err)
		return
	}
	deco2 := c14decorate(r, sk, true)
	if guard(rec, "Key.PrivateKey", in, func() { got, err = sk.PrivateKey() }) {
		return
	}
	if err != nil || !k.priv.Equal(got) {
		fail("private-in-memory", fmt.Errorf("err=%v equal=%v", err, err == nil && k.priv.Equal(got)))
		return
	}
	var sb []byte
	if guard(rec, "Key.MarshalCBOR", in, func() { sb, err = sk.MarshalCBOR() }) {
		return
	}
	if err != nil {
		fail("private-marshal", err)
		return
	}
	in["private_key_cbor"] = mon.FullHex(sb)
	if !checkWire(sb, "private") {
		return
	}
	var sk2 cose.Key
	if guard(rec, "Key.UnmarshalCBOR", in, func() { err = sk2.UnmarshalCBOR(sb) }) {
		return
	}
	if err != nil {
		fail("private-unmarshal", err)
		return
	}
	if guard(rec, "Key.PrivateKey", in, func() { got, err = sk2.PrivateKey() }) {
		return
	}
	if err != nil || !k.priv.Equal(got) {
		fail("private-after-wire", fmt.Errorf("err=%v equal=%v", err, err == nil && k.priv.Equal(got)))
		return
	}
	if guard(rec, "Key.PublicKey", in, func() { got, err = sk2.PublicKey() }) {
		return
	}
	if err != nil || !k.pub.Equal(got) {
		fail("public-from-private-after-wire", fmt.Errorf("err=%v", err))
		return
	}
	// the same bytes decoded into a Key variable that already held another key (public-only, verify-only)
	used, _ := cose.NewKeyFromPublic(&gen.ECKeyFromD(elliptic.P256(), big.NewInt(77)).PublicKey)
	used.Ops = []cose.KeyOp{cose.KeyOpVerify}
	used.ID = []byte("previous")
	earlier := *used // a by-value copy taken before the variable is reused keeps the previous key
	earlierHash := mon.DeepHashValue(earlier)
	if guard(rec, "Key.UnmarshalCBOR(reused)", in, func() { err = used.UnmarshalCBOR(sb) }) {
		return
	}
	if mon.DeepHashValue(earlier) != earlierHash {
		fail("by-value-copy-of-a-key-changed-when-the-variable-was-decoded-into-again", nil)
		return
	}
	// the compressed-point form of the same public key (y given as its sign bit): the x coordinate keeps
	// its full length on the wire and the key survives a round trip unchanged
	{
		size := (k.pub.Curve.Params().BitSize + 7) / 8
		crv := map[string]cose.Curve{"P-256": cose.CurveP256, "P-384": cose.CurveP384, "P-521": cose.CurveP521}[curve]
		for _, xform := range []string{"trimmed", "full"} {
			x := k.pub.X.Bytes()
			if xform == "full" {
				x = k.pub.X.FillBytes(make([]byte, size))
			}
			ck := &cose.Key{Type: cose.KeyTypeEC2, Params: map[any]any{cose.KeyLabelEC2Curve: crv, cose.KeyLabelEC2X: x, cose.KeyLabelEC2Y: k.pub.Y.Bit(0) == 1}}
			var cb []byte
			if guard(rec, "Key.MarshalCBOR(compressed point)", in, func() { cb, err = ck.MarshalCBOR() }) {
				return
			}
			rec.Event("compressed-point-keys")
			if err != nil {
				rec.Event("compressed-point-keys:encoder-refused")
				continue
			}
			n, perr := refcbor.Parse(cb)
			if perr != nil || n.Major != refcbor.Map {
				fail("compressed-point-key-unreadable", perr)
				return
			}
			if xv := refcose.Lookup(n, -2); xv == nil || xv.Major != refcbor.Bstr || len(xv.Str) != size || new(big.Int).SetBytes(xv.Str).Cmp(k.pub.X) != 0 {
				fail("compressed-point-key-x-not-full-length/"+xform, fmt.Errorf("x on the wire: %s, want %d octets", diagOr(xv), size))
				return
			}
			if yv := refcose.Lookup(n, -3); yv == nil || yv.Major != refcbor.Prim || (yv.Arg != 20 && yv.Arg != 21) {
				fail("compressed-point-key-y-not-a-bool/"+xform, nil)
				return
			}
			var back cose.Key
			if e := back.UnmarshalCBOR(cb); e != nil {
				fail("compressed-point-key-own-encoding-refused/"+xform, e)
				return
			}
			if cb2, e := back.MarshalCBOR(); e != nil || !eqBytes(cb2, cb) {
				fail("compressed-point-key-second-encoding-differs/"+xform, e)
				return
			}
		}
	}
	if err != nil {
		fail("private-unmarshal-into-used-variable", err)
		return
	}
	if got, e := used.PrivateKey(); e != nil || !k.priv.Equal(got) {
		fail("private-after-wire-into-used-variable", e)
		return
	}
	if _, e := used.Signer(); (e != nil) != func() bool { _, e2 := sk2.Signer(); return e2 != nil }() {
		fail("signer-differs-for-used-variable", e)
		return
	}
	// second cycle is a fixed point
	if sb2, e := sk2.MarshalCBOR(); e != nil || !eqBytes(sb2, sb) {
		fail("private-second-encoding-differs", e)
		return
	}
	// ---- sign with the key-derived signer, verify with the key-derived verifier ----
	for vi, skx := range []*cose.Key{sk, &sk2} {
		var signer cose.Signer
		if guard(rec, "Key.Signer", in, func() { signer, err = skx.Signer() }) {
			return
		}
		if err != nil {
			fail("signer-from-key", err)
			return
		}
		msg := r.Bytes(40)
		var sig []byte
		if guard(rec, "Signer.Sign", in, func() { sig, err = signer.Sign(gen.Entropy, msg) }) {
			return
		}
		if err != nil {
			fail("sign", err)
			return
		}
		for _, v := range []cose.Verifier{ver, ver2} {
			if v.Algorithm() != signer.Algorithm() {
				fail("algorithm-of-key-derived-signer-and-verifier-differ", nil)
				return
			}
			if e := v.Verify(msg, sig); e != nil {
				fail(fmt.Sprintf("verify-with-key-derived-verifier/signer-variant=%d", vi), e)
				return
			}
		}
		if !refcrypto.Verify(int64(signer.Algorithm()), k.pub, msg, sig) {
			fail("stdlib-verify-of-key-derived-signature", nil)
			return
		}
	}
	// ---- the signer and the verifier are the key they were built from: what the Key variable is used for
	// afterwards (another key decoded into it, its d wiped, the variable cleared) has no bearing on them ----
	if c14keptSignerStep(rec, r, &sk2, &pk2, ver, k.pub, idx, in, fail) {
		return
	}
	rec.Event("chain-complete")
	rec.Class(fmt.Sprintf("%s/%s/%s|%s", curve, k.class, deco, deco2))
	if idx%40 == 0 {
		rec.Sample(curve+"/"+k.class, map[string]any{"private_key_cbor": hexs(sb)})
	}
}

func c14ed(rec *mon.Recorder, r *mon.Rand, priv ed25519.PrivateKey, idx int) {
	// the caller's memory around the key material: d handed over as a slice with spare capacity (the first
	// half of a larger buffer); converting the Key back must neither write into that buffer nor hand out a
	// key that shares memory with it
	{
		buf := make([]byte, 96)
		copy(buf, priv.Seed())
		for i := 32; i < 96; i++ {
			buf[i] = 0xEE
		}
		pub := append([]byte{}, priv.Public().(ed25519.PublicKey)...)
		in0 := map[string]any{"family": "ed25519 d with spare capacity", "seed": fmt.Sprintf("%x", priv.Seed())}
		if ck, err := cose.NewKeyOKP(cose.AlgorithmEdDSA, pub, buf[:32]); err == nil {
			var got any
			var perr error
			if !guard(rec, "Key.PrivateKey(d with spare capacity)", in0, func() { got, perr = ck.PrivateKey() }) && perr == nil {
				rec.Event("ed25519-spare-capacity")
				for i := 32; i < 96; i++ {
					if buf[i] != 0xEE {
						rec.Violate("chain:private-key-conversion-wrote-into-caller-memory", "ed25519", fmt.Sprintf("PrivateKey() changed byte %d of the buffer the caller's d is a prefix of", i), in0)
						break
					}
				}
				if pk, ok := got.(ed25519.PrivateKey); ok && len(pk) == 64 {
					before := append([]byte{}, pk...)
					for i := range buf {
						buf[i] = 0x55 // the caller wipes / re-uses its buffer
					}
					if !eqBytes(pk, before) {
						rec.Violate("chain:private-key-aliases-caller-memory", "ed25519", "the private key returned by PrivateKey() changed when the caller overwrote the buffer its d came from", in0)
					}
					copy(buf, priv.Seed())
				}
			}
		}
	}
	// Ed25519 is deterministic: a signer obtained through COSE_Key signs without any entropy source
	if ck, err := cose.NewKeyFromPrivate(priv); err == nil {
		if sg, err := ck.Signer(); err == nil {
			var sig []byte
			var serr error
			in0 := map[string]any{"family": "ed25519 without entropy source", "seed": fmt.Sprintf("%x", priv.Seed())}
			if !guard(rec, "Ed25519 Sign(nil rand)", in0, func() { sig, serr = sg.Sign(nil, []byte("no entropy needed")) }) {
				rec.Event("ed25519-nil-entropy")
				if serr != nil || !ed25519.Verify(priv.Public().(ed25519.PublicKey), []byte("no entropy needed"), sig) {
					rec.Violate("chain:ed25519-sign-without-entropy", "ed25519", fmt.Sprintf("a key-derived Ed25519 signer does not sign with a nil entropy source: %v", serr), in0)
				}
				var out []byte
				if !guard(rec, "Sign1(nil rand, Ed25519)", in0, func() {
					out, serr = cose.Sign1(nil, sg, cose.Headers{Protected: cose.ProtectedHeader{int64(1): cose.AlgorithmEdDSA}}, []byte("p"), nil)
				}) && (serr != nil || len(out) == 0) {
					rec.Violate("chain:ed25519-sign1-without-entropy", "ed25519", fmt.Sprintf("Sign1 with an Ed25519 signer and a nil entropy source failed: %v", serr), in0)
				}
			}
		}
	}
	pub := priv.Public().(ed25519.PublicKey)
	in := map[string]any{"curve": "Ed25519", "seed": fmt.Sprintf("%x", priv.Seed())}
	fail := func(step string, err error) {
		rec.Violate("chain:"+step, "Ed25519", fmt.Sprintf("step %q failed: %v", step, err), in)
	}
	var err error
	var sk, pk *cose.Key
	if guard(rec, "NewKeyFrom*", in, func() {
		sk, err = cose.NewKeyFromPrivate(priv)
		if err == nil {
			pk, err = cose.NewKeyFromPublic(pub)
		}
	}) {
		return
	}
	rec.Eval(1)
	if err != nil {
		fail("NewKeyFrom*", err)
		return
	}
	deco := c14decorate(r, sk, true) + "|" + c14decorate(r, pk, true)
	sb, e1 := sk.MarshalCBOR()
	pb, e2 := pk.MarshalCBOR()
	if e1 != nil || e2 != nil {
		fail("marshal", fmt.Errorf("%v %v", e1, e2))
		return
	}
	in["private_key_cbor"] = mon.FullHex(sb)
	var sk2, pk2 cose.Key
	if guard(rec, "Key.UnmarshalCBOR", in, func() {
		err = sk2.UnmarshalCBOR(sb)
		if err == nil {
			err = pk2.UnmarshalCBOR(pb)
		}
	}) {
		return
	}
	if err != nil {
		fail("unmarshal", err)
		return
	}
	gp, e1 := sk2.PrivateKey()
	gq, e2 := pk2.PublicKey()
	gq2, e3 := sk2.PublicKey()
	if e1 != nil || e2 != nil || e3 != nil || !priv.Equal(gp) || !pub.Equal(gq) || !pub.Equal(gq2) {
		fail("keys-after-wire-not-equal", fmt.Errorf("%v %v %v", e1, e2, e3))
		return
	}
	signer, e1 := sk2.Signer()
	verifier, e2 := pk2.Verifier()
	if e1 != nil || e2 != nil {
		fail("signer/verifier-from-key", fmt.Errorf("%v %v", e1, e2))
		return
	}
	msg := r.Bytes(33)
	sig, err := signer.Sign(gen.Entropy, msg)
	if err != nil || verifier.Verify(msg, sig) != nil || !ed25519.Verify(pub, msg, sig) {
		fail("sign-verify-through-key", err)
		return
	}
	if c14keptSignerStep(rec, r, &sk2, &pk2, verifier, pub, idx, in, fail) {
		return
	}
	rec.Event("chain-complete")
	rec.Class("Ed25519/" + deco)
}

// c14keptSignerStep builds a signer from the (decoded) private Key, then re-uses the Key variable in one
// of several ways, and signs: the signature must still verify under the verifier of the original public
// half and under the standard library. Returns true when the chain was failed.
func c14keptSignerStep(rec *mon.Recorder, r *mon.Rand, sk *cose.Key, pk *cose.Key, ver cose.Verifier, pub crypto.PublicKey, idx int, in map[string]any, fail func(string, error)) bool {
	var signer cose.Signer
	var err error
	if guard(rec, "Key.Signer", in, func() { signer, err = sk.Signer() }) {
		return true
	}
	if err != nil {
		fail("signer-from-key", err)
		return true
	}
	how := idx % 4
	names := []string{"another-key-decoded-into-the-variable", "d-wiped-in-place", "variable-cleared", "params-entry-removed"}
	if guard(rec, "re-use of the Key variable", in, func() {
		switch how {
		case 0:
			var other cose.Key
			switch p := pub.(type) {
			case *ecdsa.PublicKey:
				o, e := cose.NewKeyFromPrivate(gen.ECKey(p.Curve, r))
				if e != nil {
					return
				}
				other = *o
			default:
				o, e := cose.NewKeyFromPrivate(gen.EdKey(r))
				if e != nil {
					return
				}
				other = *o
			}
			if b, e := other.MarshalCBOR(); e == nil {
				_ = sk.UnmarshalCBOR(b)
			}
		case 1:
			for _, lbl := range []any{int64(-4), int64(-2), int64(-3)} {
				if d, ok := sk.Params[lbl].([]byte); ok && lbl == int64(-4) {
					for i := range d {
						d[i] = 0
					}
				}
			}
		case 2:
			*sk = cose.Key{}
		case 3:
			delete(sk.Params, int64(-4))
		}
	}) {
		return true
	}
	msg := r.Bytes(21)
	var sig []byte
	if guard(rec, "Signer.Sign(after the Key variable was re-used)", in, func() { sig, err = signer.Sign(gen.Entropy, msg) }) {
		return true
	}
	rec.Event("signer-outlives-key-variable:" + names[how])
	if err != nil {
		fail("signer-broken-by-reuse-of-key-variable/"+names[how], err)
		return true
	}
	if e := ver.Verify(msg, sig); e != nil || !refcrypto.Verify(int64(signer.Algorithm()), pub, msg, sig) {
		fail("signer-follows-reuse-of-key-variable/"+names[how], e)
		return true
	}
	_ = pk
	return false
}
