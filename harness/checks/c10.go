package checks

import (
	"fmt"

	cose "github.com/veraison/go-cose"

	"verif/harness/gen"
	"verif/harness/mon"
	"verif/harness/refcbor"
	"verif/harness/refcose"
)

// C10 - countersignatures sign the RFC 9338 Countersign_structure and bind
// to their exact parent. Monitors: recording spy Signer/Verifier (structure
// bytes) and real-key Verify verdicts on mutated parents.

func init() {
	register(&Check{
		ID:    "C10",
		Level: "exploration",
		Rule: "4 parent kinds (Sign1Message, SignMessage, Signature, Countersignature) x pointer/value x full/abbreviated x constructed / library-encoded+decoded / reference-encoded non-canonical parents x header, payload and external classes: " +
			"(a) ToBeSigned recorded by a spy signer and spy verifier compared with the reference Countersign_structure; (b) real-key countersignatures verified against the untouched parent (must pass), the parent with changed unprotected headers (must pass) and parents changed in protected bytes, payload, signature, external data, or replayed as message signature / other countersignature form (must fail); " +
			"(c) unsigned, payload-less, signature-less and unsupported parents must be refused. Distinct = (parent kind, by-value, form, decoded class, monitor / mutation class).",
		Assume: []string{"RFC 9338 omits sign_protected for CounterSignature0; the library emits h''; both layouts are accepted by the oracle (DESIGN.md section 3)", "typed-nil parents are a caller error outside the grid"},
		Run:    runC10,
	})
}

// c10parent builds a signed parent and, independently of the library object,
// the fields a countersignature must cover.
type c10parent struct {
	ptr     any
	name    string
	fields  ParentFields
	decoded int // 0 constructed, 1 library-encoded and decoded, 2 reference-encoded (non-canonical)
}

func c10buildParent(c *Ctx, r *mon.Rand, kind, decoded int, rec *mon.Recorder) *c10parent {
	k := c.Keys.Keys[r.Intn(4)]
	payload := gen.Payload(r, false)
	h := c01headers(r, k.Alg, 0, mon.Pick(r, 0, 2, 5), mon.Pick(r, 0, 0, 15, 240))
	p := &c10parent{decoded: decoded}
	fromGo := func(hh *cose.Headers) []byte {
		b, err := refcose.ProtectedContent(hh.Protected, gen.Custom)
		if err != nil {
			rec.HarnessError("C10: " + err.Error())
		}
		return b
	}
	switch kind {
	case 0:
		p.name = "Sign1Message"
		if decoded == 2 {
			a := int64(k.Alg)
			wm := &gen.WSign1{L: gen.RandLayer(r, gen.LayerOpts{Alg: &a, MaxProt: 4, MaxUnprot: 2, ScramblePct: 60}), Payload: payload, Tagged: true}
			wm.L.ProtWidth = mon.Pick(r, 1, 2, 3, 5, 9)
			wm.Sig = gen.RefSign(k.Ref(), wm.TBS(nil, payload))
			var m cose.Sign1Message
			if err := m.UnmarshalCBOR(wm.Bytes()); err != nil {
				rec.Event("parent-refused")
				return nil
			}
			p.ptr = &m
			p.fields = ParentFields{Kind: refcose.PSign1, Prot: wm.L.Content(), Payload: payload, Sig: wm.Sig}
			return p
		}
		m := &cose.Sign1Message{Headers: h, Payload: payload}
		if err := m.Sign(gen.Entropy, nil, k.Signer); err != nil {
			rec.Event("parent-refused")
			return nil
		}
		p.fields = ParentFields{Kind: refcose.PSign1, Prot: fromGo(&m.Headers), Payload: payload, Sig: m.Signature}
		p.ptr = m
		if decoded == 1 {
			b, err := m.MarshalCBOR()
			if err != nil {
				return nil
			}
			var d cose.Sign1Message
			if err := d.UnmarshalCBOR(b); err != nil {
				return nil
			}
			f, ok := sign1Fields(b, true)
			if !ok {
				return nil
			}
			p.fields = ParentFields{Kind: refcose.PSign1, Prot: f.Layer.protContent, Payload: f.Payload, Sig: f.Sig}
			p.ptr = &d
		}
	case 1, 2:
		var sm *cose.SignMessage
		var pick int
		if decoded == 2 {
			wm := &gen.WSign{L: gen.RandLayer(r, gen.LayerOpts{MaxProt: 3, MaxUnprot: 1, ScramblePct: 60}), Payload: payload}
			wm.L.ProtWidth = mon.Pick(r, 1, 2, 3, 5, 9)
			a := int64(k.Alg)
			for j := 0; j < 2; j++ {
				s := &gen.WSignature{L: gen.RandLayer(r, gen.LayerOpts{Alg: &a, MaxProt: 2, MaxUnprot: 1, ScramblePct: 60})}
				s.L.ProtWidth = mon.Pick(r, 1, 2, 3)
				wm.Sigs = append(wm.Sigs, s)
			}
			for j := range wm.Sigs {
				wm.Sigs[j].Sig = gen.RefSign(k.Ref(), wm.TBS(j, nil, payload))
			}
			var m cose.SignMessage
			if err := m.UnmarshalCBOR(wm.Bytes()); err != nil {
				rec.Event("parent-refused")
				return nil
			}
			sm = &m
			pick = r.Intn(2)
			if kind == 1 {
				p.name, p.ptr = "SignMessage", sm
				p.fields = ParentFields{Kind: refcose.PSign, Prot: wm.L.Content(), Payload: payload}
			} else {
				p.name, p.ptr = "Signature", sm.Signatures[pick]
				p.fields = ParentFields{Kind: refcose.PSignature, Prot: wm.Sigs[pick].L.Content(), Payload: wm.Sigs[pick].Sig}
			}
			return p
		}
		sm = &cose.SignMessage{Headers: cose.Headers{Protected: cose.ProtectedHeader{int64(3): "a/b"}, Unprotected: cose.UnprotectedHeader{}}, Payload: payload}
		if r.Bool() {
			sm.Headers.Protected = cose.ProtectedHeader{}
		}
		k2 := c.Keys.Keys[r.Intn(4)]
		sm.Signatures = []*cose.Signature{{Headers: h}, {Headers: c01headers(r, k2.Alg, 0, 2, 0)}}
		if err := sm.Sign(gen.Entropy, nil, k.Signer, k2.Signer); err != nil {
			rec.Event("parent-refused")
			return nil
		}
		pick = r.Intn(2)
		if decoded == 1 {
			b, err := sm.MarshalCBOR()
			if err != nil {
				return nil
			}
			var d cose.SignMessage
			if err := d.UnmarshalCBOR(b); err != nil {
				return nil
			}
			f, ok := signFields(b)
			if !ok {
				return nil
			}
			if kind == 1 {
				p.name, p.ptr = "SignMessage", &d
				p.fields = ParentFields{Kind: refcose.PSign, Prot: f.Layer.protContent, Payload: f.Payload}
			} else {
				p.name, p.ptr = "Signature", d.Signatures[pick]
				p.fields = ParentFields{Kind: refcose.PSignature, Prot: f.Sigs[pick].Layer.protContent, Payload: f.Sigs[pick].Sig}
			}
			return p
		}
		if kind == 1 {
			p.name, p.ptr = "SignMessage", sm
			p.fields = ParentFields{Kind: refcose.PSign, Prot: fromGo(&sm.Headers), Payload: payload}
		} else {
			p.name, p.ptr = "Signature", sm.Signatures[pick]
			p.fields = ParentFields{Kind: refcose.PSignature, Prot: fromGo(&sm.Signatures[pick].Headers), Payload: sm.Signatures[pick].Signature}
		}
	default:
		p.name = "Countersignature"
		inner := &cose.Sign1Message{Headers: c01headers(r, k.Alg, 0, 2, 0), Payload: payload}
		if err := inner.Sign(gen.Entropy, nil, k.Signer); err != nil {
			return nil
		}
		cs := &cose.Countersignature{Headers: h}
		if err := cs.Sign(gen.Entropy, k.Signer, inner, nil); err != nil {
			rec.Event("parent-refused")
			return nil
		}
		p.ptr = cs
		p.fields = ParentFields{Kind: refcose.PCountersignature, Prot: fromGo(&cs.Headers), Payload: cs.Signature}
		if decoded >= 1 {
			b, err := cs.MarshalCBOR()
			if err != nil {
				return nil
			}
			if decoded == 2 {
				// re-write the countersignature non-canonically (same data model) with refcbor
				if t, err := gen.ParseTree(b); err == nil {
					if m := t.Emb[t.Root.Kids[0]]; m != nil {
						gen.Scramble(r, m, 80)
					}
					t.Root.Kids[0].Width = mon.Pick(r, 2, 3, 5)
					b = t.Seal()
				}
			}
			var d cose.Countersignature
			if err := d.UnmarshalCBOR(b); err != nil {
				rec.Event("parent-refused")
				return nil
			}
			l, sig, ok := signatureFields(b)
			if !ok {
				return nil
			}
			p.ptr = &d
			p.fields = ParentFields{Kind: refcose.PCountersignature, Prot: l.protContent, Payload: sig}
		}
	}
	if decoded == 0 && r.Intn(4) == 0 {
		// a constructed parent that went through a deep-copy helper: its raw header fields are empty but
		// not nil (append([]byte{}, nil...)); such fields mean "not set"
		emptyRaw := func(h *cose.Headers) { h.RawProtected, h.RawUnprotected = []byte{}, []byte{} }
		switch x := p.ptr.(type) {
		case *cose.Sign1Message:
			emptyRaw(&x.Headers)
		case *cose.SignMessage:
			emptyRaw(&x.Headers)
		case *cose.Signature:
			emptyRaw(&x.Headers)
		case *cose.Countersignature:
			emptyRaw(&x.Headers)
		}
		p.name += "+empty-raw-fields"
	}
	return p
}

func runC10(c *Ctx) {
	rec := c.Rec
	n := c.N(4800, 240000)
	mon.Parallel(c.Workers, n, func(w, i int) {
		r := mon.NewRand(uint64(c.Seed)).Sub(uint64(41000 + i))
		kind := i % 4
		decoded := (i / 4) % 3
		val := (i/12)%2 == 1
		abbreviated := (i/24)%3 == 2
		p := c10buildParent(c, r, kind, decoded, rec)
		if p == nil {
			return
		}
		if decoded == 0 && i%5 == 0 {
			// countersignatures are indifferent to the parent's unprotected headers - even to
			// contents that could not be encoded (an unsigned countersignature holder attached
			// before it is signed, a wrongly typed parameter)
			hostile := func(h *cose.Headers) {
				if h.Unprotected == nil {
					h.Unprotected = cose.UnprotectedHeader{}
				}
				switch (i / 5) % 3 {
				case 0:
					h.Unprotected[int64(11)] = &cose.Countersignature{Headers: cose.Headers{Protected: cose.ProtectedHeader{int64(1): cose.AlgorithmES256}}}
				case 1:
					h.Unprotected[int64(4)] = int64(7)
				default:
					h.Unprotected[int64(2)] = []any{int64(4)}
				}
			}
			switch x := p.ptr.(type) {
			case *cose.Sign1Message:
				hostile(&x.Headers)
			case *cose.SignMessage:
				hostile(&x.Headers)
			case *cose.Signature:
				hostile(&x.Headers)
			case *cose.Countersignature:
				hostile(&x.Headers)
			}
			p.name += "+unencodable-unprotected"
		}
		parent := p.ptr
		if val {
			parent = byValue(p.ptr)
		}
		ext := gen.External(r)
		base := fmt.Sprintf("parent=%s/byvalue=%v/decoded=%d/abbr=%v", p.name, val, decoded, abbreviated)
		in := map[string]any{"case": i, "structure": base, "external": ext, "parent_protected": hexs(p.fields.Prot), "parent_payload_len": len(p.fields.Payload)}

		// the parent is an input: countersigning or verifying must not modify it
		parentSnap := mon.DeepHash(p.ptr)
		defer func() {
			if mon.DeepHash(p.ptr) != parentSnap {
				rec.Violate("parent-modified", base, "countersigning / verifying modified the parent object", in)
			}
		}()
		// ---- (a) structure bytes through spies ----
		spyAlg := mon.Pick(r, cose.AlgorithmES256, cose.Algorithm(-65537))
		var err error
		if abbreviated {
			spy := &mon.SpySigner{Alg: spyAlg}
			if guard(rec, "Countersign0", in, func() { _, err = cose.Countersign0(gen.Entropy, spy, parent, ext) }) {
				return
			}
			rec.Eval(1)
			rec.Event("Countersign0(spy)")
			if err != nil || spy.Calls != 1 {
				rec.Violate("sign-path", base, fmt.Sprintf("Countersign0 over a signed parent: err=%v calls=%d", err, spy.Calls), in)
				return
			}
			withP := refcose.CountersignStructure(p.fields.Kind, true, true, p.fields.Prot, []byte{}, ext, p.fields.Payload, p.fields.Sig)
			without := refcose.CountersignStructure(p.fields.Kind, true, false, p.fields.Prot, nil, ext, p.fields.Payload, p.fields.Sig)
			rec.Class(base + "/spy-sign/ext=" + gen.ExternalClass(ext))
			if !eqBytes(spy.Last(), withP) && !eqBytes(spy.Last(), without) {
				rec.Violate("tbs-mismatch", base+"/sign", fmt.Sprintf("signer got %s\nreference (with empty sign_protected) %s\nreference (RFC 9338 layout) %s", hexs(spy.Last()), hexs(withP), hexs(without)), in)
				return
			}
			vspy := &mon.SpyVerifier{Alg: spyAlg}
			if guard(rec, "VerifyCountersign0", in, func() { err = cose.VerifyCountersign0(vspy, parent, ext, mon.FixedSig) }) {
				return
			}
			rec.Event("VerifyCountersign0(spy)")
			if err != nil || vspy.Calls != 1 || !eqBytes(vspy.Last(), spy.Last()) {
				rec.Violate("tbs-mismatch", base+"/verify", fmt.Sprintf("verify path differs from sign path: err=%v got %s", err, hexs(vspy.Last())), in)
				return
			}
			rec.Sample("abbr-"+p.name, map[string]any{"tbs": hexs(spy.Last()), "structure": base})
		} else {
			mode := r.Intn(2)
			if len(ext) > 0 {
				mode = r.Intn(3)
			}
			cs := &cose.Countersignature{Headers: c01headers(r, spyAlg, mode, mon.Pick(r, 0, 2, 4), mon.Pick(r, 0, 0, 15, 240))}
			spy := &mon.SpySigner{Alg: spyAlg}
			if guard(rec, "Countersignature.Sign", in, func() { err = cs.Sign(gen.Entropy, spy, parent, ext) }) {
				return
			}
			rec.Eval(1)
			rec.Event("Countersignature.Sign(spy)")
			if err != nil || spy.Calls != 1 {
				rec.Violate("sign-path", base, fmt.Sprintf("Countersignature.Sign over a signed parent: err=%v calls=%d", err, spy.Calls), in)
				return
			}
			sc, e2 := refcose.ProtectedContent(cs.Headers.Protected, gen.Custom)
			if e2 != nil {
				rec.HarnessError("C10: " + e2.Error())
				return
			}
			want := refcose.CountersignStructure(p.fields.Kind, false, true, p.fields.Prot, sc, ext, p.fields.Payload, p.fields.Sig)
			rec.Class(base + "/spy-sign/ext=" + gen.ExternalClass(ext) + "/signprot=" + gen.SizeClass(len(sc)))
			if !eqBytes(spy.Last(), want) {
				rec.Violate("tbs-mismatch", base+"/sign", fmt.Sprintf("signer got %s\nreference  %s", hexs(spy.Last()), hexs(want)), in)
				return
			}
			vspy := &mon.SpyVerifier{Alg: spyAlg}
			if guard(rec, "Countersignature.Verify", in, func() { err = cs.Verify(vspy, parent, ext) }) {
				return
			}
			rec.Event("Countersignature.Verify(spy)")
			if err != nil || vspy.Calls != 1 || !eqBytes(vspy.Last(), want) {
				rec.Violate("tbs-mismatch", base+"/verify", fmt.Sprintf("err=%v verifier got %s\nreference %s", err, hexs(vspy.Last()), hexs(want)), in)
				return
			}
			rec.Sample("full-"+p.name, map[string]any{"tbs": hexs(want), "structure": base})
		}

		// ---- (b) binding with real keys ----
		k := c.Keys.Keys[r.Intn(4)]
		mustFail := func(what string, f func() error) {
			var e error
			if guard(rec, what, in, func() { e = f() }) {
				return
			}
			rec.Eval(1)
			rec.Class(base + "/binding/" + what)
			if e == nil {
				rec.Violate("binding", base+"/"+what, "countersignature verified although "+what, in)
			}
		}
		mustPass := func(what string, f func() error) bool {
			var e error
			if guard(rec, what, in, func() { e = f() }) {
				return false
			}
			rec.Eval(1)
			rec.Class(base + "/binding/" + what)
			if e != nil {
				rec.Violate("binding", base+"/"+what, "countersignature refused although "+what+": "+e.Error(), in)
				return false
			}
			return true
		}
		ext2 := append(append([]byte{}, ext...), 7)
		var verify func(parent any, ext []byte) error
		var sigBytes []byte
		if abbreviated {
			sig, e := cose.Countersign0(gen.Entropy, k.Signer, parent, ext)
			if e != nil {
				rec.Violate("sign-path", base+"/real", "Countersign0 with a real key failed: "+e.Error(), in)
				return
			}
			sigBytes = sig
			verify = func(pp any, ee []byte) error { return cose.VerifyCountersign0(k.Verifier, pp, ee, sig) }
		} else {
			cs := &cose.Countersignature{Headers: c01headers(r, k.Alg, 0, 2, 0)}
			if r.Intn(3) == 0 && len(ext) > 0 {
				cs.Headers = cose.Headers{} // empty protected, external supplied
			}
			if e := cs.Sign(gen.Entropy, k.Signer, parent, ext); e != nil {
				rec.Violate("sign-path", base+"/real", "Countersignature.Sign with a real key failed: "+e.Error(), in)
				return
			}
			sigBytes = cs.Signature
			verify = func(pp any, ee []byte) error { return cs.Verify(k.Verifier, pp, ee) }
			// the other form must not accept it (and vice versa below)
			mustFail("replayed as abbreviated countersignature", func() error { return cose.VerifyCountersign0(k.Verifier, parent, ext, cs.Signature) })
		}
		if !mustPass("untouched parent", func() error { return verify(parent, ext) }) {
			return
		}
		rec.Event("binding-base-ok")
		if abbreviated && len(ext) > 0 {
			full := &cose.Countersignature{Signature: sigBytes}
			mustFail("abbreviated signature replayed as full countersignature with empty protected header", func() error { return full.Verify(k.Verifier, parent, ext) })
		}
		mustFail("external data changed", func() error { return verify(parent, ext2) })
		// mutated copies of the parent
		for _, mu := range c10mutations(r, p.ptr) {
			pp := mu.parent
			if val {
				pp = byValue(pp)
			}
			if mu.mustPass {
				mustPass(mu.what, func() error { return verify(pp, ext) })
			} else {
				mustFail(mu.what, func() error { return verify(pp, ext) })
			}
		}
		// the verdict must not depend on what the parent's unprotected header holds: a countersignature
		// made (by a peer, with the reference signer) over the OTHER structure version - for a COSE_Sign1
		// parent the version-1 structure without the parent's signature, for the other parents the V2
		// structure with an other_fields entry - is refused, also when that very object is stored in the
		// parent's unprotected header under label 7 or 11
		if !abbreviated {
			otherKind := refcose.PSign
			otherSig := []byte(nil)
			if p.fields.Kind != refcose.PSign1 {
				otherKind, otherSig = refcose.PSign1, []byte{1, 2, 3}
			}
			forged := &cose.Countersignature{Headers: cose.Headers{Protected: cose.ProtectedHeader{int64(1): k.Alg}, Unprotected: cose.UnprotectedHeader{}}}
			fsc, _ := refcose.ProtectedContent(forged.Headers.Protected, gen.Custom)
			forged.Signature = gen.RefSign(k.Ref(), refcose.CountersignStructure(otherKind, false, true, p.fields.Prot, fsc, ext, p.fields.Payload, otherSig))
			mustFail("made over the other structure version", func() error { return forged.Verify(k.Verifier, parent, ext) })
			for _, label := range []int64{7, 11} {
				for _, asList := range []bool{false, true} {
					holder := c10withUnprotected(p.ptr, label, forged, asList)
					if holder == nil {
						continue
					}
					hp := holder
					if val {
						hp = byValue(holder)
					}
					mustFail(fmt.Sprintf("made over the other structure version and stored under label %d of the parent (list=%v)", label, asList), func() error { return forged.Verify(k.Verifier, hp, ext) })
				}
			}
		}
		// an abbreviated countersignature is verified from the signature argument alone: with none
		// handed in, a valid one sitting in the parent's unprotected header (label 12 or 9) is not
		// picked up in its place
		if abbreviated {
			for _, label := range []int64{12, 9} {
				holder := c10withUnprotectedValue(p.ptr, label, append([]byte{}, sigBytes...))
				if holder == nil {
					continue
				}
				hp := holder
				if val {
					hp = byValue(holder)
				}
				mustPass(fmt.Sprintf("the parent also carries it under label %d", label), func() error { return cose.VerifyCountersign0(k.Verifier, hp, ext, sigBytes) })
				mustFail(fmt.Sprintf("no signature handed in, a valid one stored under label %d of the parent", label), func() error { return cose.VerifyCountersign0(k.Verifier, hp, ext, nil) })
				mustFail(fmt.Sprintf("empty signature handed in, a valid one stored under label %d of the parent", label), func() error { return cose.VerifyCountersign0(k.Verifier, hp, ext, []byte{}) })
				rec.Event("abbreviated-not-taken-from-header")
			}
		}
		// replay as a message signature over the same fields
		switch pt := p.ptr.(type) {
		case *cose.Sign1Message:
			m := &cose.Sign1Message{Headers: pt.Headers, Payload: pt.Payload, Signature: sigBytes}
			mustFail("replayed as COSE_Sign1 signature", func() error { return m.Verify(ext, k.Verifier) })
		case *cose.SignMessage:
			s := &cose.Signature{Headers: cose.Headers{Protected: cose.ProtectedHeader{int64(1): k.Alg}}, Signature: sigBytes}
			bp, _ := pt.Headers.MarshalProtected()
			mustFail("replayed as COSE_Signature", func() error { return s.Verify(k.Verifier, bp, pt.Payload, ext) })
		}
	})

	// ---- (b') a countersigner that was itself decoded (raw protected bytes retained, possibly not
	// deterministically encoded) signs again: what it signs is what it will emit ----
	nRe := c.N(400, 20000)
	mon.Parallel(c.Workers, nRe, func(w, i int) {
		r := mon.NewRand(uint64(c.Seed)).Sub(uint64(47000 + i))
		k := c.Keys.Keys[r.Intn(4)]
		p := c10buildParent(c, r, i%4, (i/4)%3, rec)
		if p == nil {
			return
		}
		a := int64(k.Alg)
		l := gen.RandLayer(r, gen.LayerOpts{Alg: &a, MaxProt: 4, MaxUnprot: 2, ScramblePct: 70})
		l.ProtWidth = gen.HeadWidths[i%5]
		ws := &gen.WSignature{L: l, Sig: mon.FixedSig}
		var cs cose.Countersignature
		in := map[string]any{"case": i, "family": "decoded countersigner signs again", "countersigner_wire": mon.FullHex(ws.Bytes())}
		if err := cs.UnmarshalCBOR(ws.Bytes()); err != nil {
			rec.Event("resign:countersigner-refused")
			return
		}
		ext := gen.External(r)
		cs.Signature = nil
		spy := &mon.SpySigner{Alg: k.Alg}
		var err error
		if guard(rec, "Countersignature.Sign(decoded countersigner)", in, func() { err = cs.Sign(gen.Entropy, spy, p.ptr, ext) }) {
			return
		}
		rec.Eval(1)
		rec.Event("resign-cases")
		canon, _ := refcbor.IsCanonical(l.Content())
		rec.Class(fmt.Sprintf("resign/parent=%s/decoded=%d/protw=%d/canonical=%v", p.name, p.decoded, l.ProtWidth, canon || len(l.Content()) == 0))
		if err != nil || spy.Calls != 1 {
			rec.Violate("sign-path", "resign", fmt.Sprintf("decoded countersigner cannot sign: err=%v calls=%d", err, spy.Calls), in)
			return
		}
		want := refcose.CountersignStructure(p.fields.Kind, false, true, p.fields.Prot, l.Content(), ext, p.fields.Payload, p.fields.Sig)
		if !eqBytes(spy.Last(), want) {
			rec.Violate("tbs-mismatch", "resign/sign", fmt.Sprintf("signer got %s\nreference  %s", hexs(spy.Last()), hexs(want)), in)
			return
		}
		// with a real key: what was signed is what is emitted, so the emitted countersignature verifies
		cs.Signature = nil
		if err = cs.Sign(gen.Entropy, k.Signer, p.ptr, ext); err != nil {
			rec.Violate("sign-path", "resign/real", "decoded countersigner cannot sign with a real key: "+err.Error(), in)
			return
		}
		out, merr := cs.MarshalCBOR()
		var back cose.Countersignature
		if merr != nil || back.UnmarshalCBOR(out) != nil {
			rec.Violate("sign-path", "resign/emit", fmt.Sprintf("re-signed countersignature cannot be emitted and read back: %v", merr), in)
			return
		}
		if err = back.Verify(k.Verifier, p.ptr, ext); err != nil {
			rec.Violate("binding", "resign/verify", "a countersignature re-signed by a decoded countersigner does not verify once emitted: "+err.Error(), in)
		}
	})

	// ---- (b'') an untagged COSE_Sign1 as parent: refused, or treated exactly like a COSE_Sign1 ----
	for i := 0; i < c.N(40, 400); i++ {
		r := mon.NewRand(uint64(c.Seed)).Sub(uint64(48000 + i))
		p := c10buildParent(c, r, 0, i%3, rec)
		if p == nil {
			continue
		}
		s1 := p.ptr.(*cose.Sign1Message)
		un := (*cose.UntaggedSign1Message)(s1)
		for vi, parent := range []any{un, *un} {
			for _, abbreviated := range []bool{false, true} {
				ext := gen.External(r)
				in := map[string]any{"case": i, "family": "untagged parent", "by_value": vi == 1, "abbreviated": abbreviated}
				spy := &mon.SpySigner{Alg: cose.AlgorithmES256}
				cs := &cose.Countersignature{Headers: cose.Headers{Protected: cose.ProtectedHeader{int64(1): cose.AlgorithmES256}}}
				var err error
				if guard(rec, "countersign(untagged parent)", in, func() {
					if abbreviated {
						_, err = cose.Countersign0(gen.Entropy, spy, parent, ext)
					} else {
						err = cs.Sign(gen.Entropy, spy, parent, ext)
					}
				}) {
					continue
				}
				rec.Eval(1)
				rec.Class(fmt.Sprintf("untagged-parent/byvalue=%v/abbr=%v/accepted=%v", vi == 1, abbreviated, err == nil))
				if err != nil {
					rec.Event("untagged-parent:refused")
					if spy.Calls != 0 {
						rec.Violate("not-refused", "untagged-parent", "the signer was invoked although the call failed", in)
					}
					continue
				}
				rec.Event("untagged-parent:accepted")
				sc := []byte{0xa1, 0x01, 0x26}
				want := refcose.CountersignStructure(refcose.PSign1, abbreviated, true, p.fields.Prot, sc, ext, p.fields.Payload, p.fields.Sig)
				if abbreviated {
					want = refcose.CountersignStructure(refcose.PSign1, true, true, p.fields.Prot, []byte{}, ext, p.fields.Payload, p.fields.Sig)
				}
				alt := refcose.CountersignStructure(refcose.PSign1, true, false, p.fields.Prot, nil, ext, p.fields.Payload, p.fields.Sig)
				if spy.Calls != 1 || (!eqBytes(spy.Last(), want) && !(abbreviated && eqBytes(spy.Last(), alt))) {
					rec.Violate("tbs-mismatch", "untagged-parent", fmt.Sprintf("an untagged COSE_Sign1 parent was accepted but the signer got %s\nreference (COSE_Sign1 parent, with its signature) %s", hexs(spy.Last()), hexs(want)), in)
				}
			}
		}
	}

	// ---- parent signatures whose bytes happen to read as CBOR themselves (a byte-string head followed by
	// exactly that many bytes, an empty byte string, an array head): they are signature bytes like any others,
	// wrapped once in the structure, and X is another parent than head||X ----
	{
		k0 := c.Keys.Keys[3] // Ed25519: deterministic, fast
		rr := mon.NewRand(uint64(c.Seed)).Sub(48500)
		x62, x30 := rr.Bytes(62), rr.Bytes(30)
		shapes := []struct {
			name       string
			sig, inner []byte
		}{
			{"58-3e-then-62-bytes", append([]byte{0x58, 0x3e}, x62...), x62},
			{"5e-then-30-bytes", append([]byte{0x5e}, x30...), x30},
			{"41-then-1-byte", []byte{0x41, 0x07}, []byte{0x07}},
			{"59-003e-then-62-bytes", append([]byte{0x59, 0x00, 0x3e}, x62...), x62},
			{"empty-bstr-head", []byte{0x40}, nil},
			{"array-of-two-ints", []byte{0x82, 0x01, 0x02}, nil},
			{"tagged-bstr", append([]byte{0xc2, 0x58, 0x3e}, x62...), x62},
		}
		protP := cose.ProtectedHeader{int64(1): cose.AlgorithmES256}
		pc, _ := refcose.ProtectedContent(protP, gen.Custom)
		for _, sh := range shapes {
			for kind := 0; kind < 3; kind++ {
				mk := func(sig []byte) (any, refcose.ParentKind, []byte) {
					switch kind {
					case 0:
						return &cose.Sign1Message{Headers: cose.Headers{Protected: protP}, Payload: []byte("payload"), Signature: sig}, refcose.PSign1, []byte("payload")
					case 1:
						return &cose.Signature{Headers: cose.Headers{Protected: protP}, Signature: sig}, refcose.PSignature, sig
					default:
						return &cose.Countersignature{Headers: cose.Headers{Protected: protP}, Signature: sig}, refcose.PSignature, sig
					}
				}
				for _, ext := range [][]byte{nil, []byte("ext")} {
					parent, pk, payloadPos := mk(sh.sig)
					cell := fmt.Sprintf("cbor-shaped-parent-signature/%s/kind=%d/ext=%s", sh.name, kind, gen.ExternalClass(ext))
					in := map[string]any{"cell": cell, "parent_signature": hexs(sh.sig)}
					cs := &cose.Countersignature{Headers: cose.Headers{Protected: cose.ProtectedHeader{int64(1): cose.AlgorithmES256}}}
					spy, spy0 := &mon.SpySigner{Alg: cose.AlgorithmES256}, &mon.SpySigner{Alg: cose.AlgorithmES256}
					var e1, e2 error
					if guard(rec, "countersigning a parent with a CBOR-shaped signature", in, func() {
						e1 = cs.Sign(gen.Entropy, spy, parent, ext)
						_, e2 = cose.Countersign0(gen.Entropy, spy0, parent, ext)
					}) {
						continue
					}
					rec.Eval(2)
					rec.Event("cbor-shaped-parent-signature")
					rec.Class(cell)
					sc := []byte{0xa1, 0x01, 0x26}
					want := refcose.CountersignStructure(pk, false, true, pc, sc, ext, payloadPos, sh.sig)
					if e1 != nil || spy.Calls != 1 || !eqBytes(spy.Last(), want) {
						rec.Violate("tbs-mismatch", cell+"/full", fmt.Sprintf("err=%v signer got %s\nreference %s", e1, hexs(spy.Last()), hexs(want)), in)
						continue
					}
					w0a := refcose.CountersignStructure(pk, true, true, pc, []byte{}, ext, payloadPos, sh.sig)
					w0b := refcose.CountersignStructure(pk, true, false, pc, nil, ext, payloadPos, sh.sig)
					if e2 != nil || spy0.Calls != 1 || (!eqBytes(spy0.Last(), w0a) && !eqBytes(spy0.Last(), w0b)) {
						rec.Violate("tbs-mismatch", cell+"/abbreviated", fmt.Sprintf("err=%v signer got %s\nreference %s", e2, hexs(spy0.Last()), hexs(w0a)), in)
						continue
					}
					// binding with a real key: made over head||X, not valid for X (and the reverse)
					if len(sh.inner) == 0 {
						continue
					}
					other, _, _ := mk(sh.inner)
					real := &cose.Countersignature{Headers: cose.Headers{Protected: cose.ProtectedHeader{int64(1): k0.Alg}}}
					if real.Sign(gen.Entropy, k0.Signer, parent, ext) != nil {
						continue
					}
					sig0, e0 := cose.Countersign0(gen.Entropy, k0.Signer, parent, ext)
					var v1, v2, v3, v4 error
					if guard(rec, "verifying against the unwrapped parent", in, func() {
						v1 = real.Verify(k0.Verifier, parent, ext)
						v2 = real.Verify(k0.Verifier, other, ext)
						if e0 == nil {
							v3 = cose.VerifyCountersign0(k0.Verifier, parent, ext, sig0)
							v4 = cose.VerifyCountersign0(k0.Verifier, other, ext, sig0)
						} else {
							v4 = e0
						}
					}) {
						continue
					}
					if v1 != nil || v3 != nil {
						rec.Violate("binding", cell+"/own-parent", fmt.Sprintf("does not verify against its own parent: %v / %v", v1, v3), in)
					}
					if v2 == nil || v4 == nil {
						rec.Violate("binding", cell+"/unwrapped-parent", "a countersignature over a parent with signature head||X verifies against the parent with signature X", in)
					}
				}
			}
		}
		rec.Require("cbor-shaped-parent-signature", 40)
	}
	// ---- (c) refusals ----
	k := c.Keys.Keys[0]
	signed := &cose.Sign1Message{Headers: cose.Headers{Protected: cose.ProtectedHeader{int64(1): k.Alg}}, Payload: []byte("p")}
	_ = signed.Sign(gen.Entropy, nil, k.Signer)
	type refusal struct {
		name   string
		parent any
	}
	sigOK := []byte{1, 2, 3}
	refusals := []refusal{
		{"Sign1Message without signature", &cose.Sign1Message{Payload: []byte("p")}},
		{"Sign1Message value without signature", cose.Sign1Message{Payload: []byte("p")}},
		{"Sign1Message with empty signature", &cose.Sign1Message{Payload: []byte("p"), Signature: []byte{}}},
		{"Sign1Message with nil payload", &cose.Sign1Message{Signature: sigOK}},
		{"Sign1Message value with nil payload", cose.Sign1Message{Signature: sigOK}},
		{"SignMessage without signatures", &cose.SignMessage{Payload: []byte("p")}},
		{"SignMessage value without signatures", cose.SignMessage{Payload: []byte("p")}},
		{"SignMessage with nil payload", &cose.SignMessage{Signatures: []*cose.Signature{{Signature: sigOK}}}},
		{"Signature without signature", &cose.Signature{}},
		{"Signature value with empty signature", cose.Signature{Signature: []byte{}}},
		{"Countersignature without signature", &cose.Countersignature{}},
		{"Countersignature value without signature", cose.Countersignature{}},
		// the same with retained raw header bytes, as a received object has them: a received message whose
		// signatures (or payload) were removed afterwards is as unsigned as one under construction
		{"decoded SignMessage, signatures removed (nil)", &cose.SignMessage{Headers: c10rawHeaders(), Payload: []byte("p")}},
		{"decoded SignMessage, signatures removed (empty)", &cose.SignMessage{Headers: c10rawHeaders(), Payload: []byte("p"), Signatures: []*cose.Signature{}}},
		{"decoded SignMessage value, signatures removed", cose.SignMessage{Headers: c10rawHeaders(), Payload: []byte("p")}},
		{"decoded SignMessage, payload removed", &cose.SignMessage{Headers: c10rawHeaders(), Signatures: []*cose.Signature{{Signature: sigOK}}}},
		{"decoded Sign1Message, signature removed (nil)", &cose.Sign1Message{Headers: c10rawHeaders(), Payload: []byte("p")}},
		{"decoded Sign1Message, signature removed (empty)", &cose.Sign1Message{Headers: c10rawHeaders(), Payload: []byte("p"), Signature: []byte{}}},
		{"decoded Sign1Message, payload removed", &cose.Sign1Message{Headers: c10rawHeaders(), Signature: sigOK}},
		{"decoded Signature, signature removed (nil)", &cose.Signature{Headers: c10rawHeaders()}},
		{"decoded Signature value, signature removed (empty)", cose.Signature{Headers: c10rawHeaders(), Signature: []byte{}}},
		{"decoded Countersignature, signature removed (nil)", &cose.Countersignature{Headers: c10rawHeaders()}},
		{"decoded Countersignature value, signature removed (empty)", cose.Countersignature{Headers: c10rawHeaders(), Signature: []byte{}}},
		{"int parent", 42},
		{"untyped nil parent", nil},
		{"string parent", "parent"},
		{"*Key parent", &cose.Key{}},
		{"[]byte parent", []byte{0x84}},
		{"Headers parent", cose.Headers{}},
	}
	// properly signed objects handed over as something that is none of the four parent types (or a pointer
	// to one): a struct of the application that embeds one, a pointer to a pointer, a pointer to an
	// interface value, a defined type with the same underlying struct
	{
		sm := &cose.SignMessage{Headers: cose.Headers{Protected: cose.ProtectedHeader{}}, Payload: []byte("p"), Signatures: []*cose.Signature{{Headers: cose.Headers{Protected: cose.ProtectedHeader{int64(1): k.Alg}}, Signature: sigOK}}}
		sg := sm.Signatures[0]
		cp := &cose.Countersignature{Headers: cose.Headers{Protected: cose.ProtectedHeader{int64(1): k.Alg}}, Signature: sigOK}
		p2 := &signed
		p3 := &p2
		sm2 := &sm
		sm3 := &sm2
		var asAny any = signed
		var asAnyV any = *signed
		type definedSign1 cose.Sign1Message
		type definedSignature cose.Signature
		refusals = append(refusals,
			refusal{"struct embedding Sign1Message", c10embedsSign1{Sign1Message: *signed, Note: "n"}},
			refusal{"pointer to struct embedding Sign1Message", &c10embedsSign1{Sign1Message: *signed}},
			refusal{"struct embedding *Sign1Message", c10embedsSign1Ptr{Sign1Message: signed}},
			refusal{"pointer to struct embedding *Sign1Message", &c10embedsSign1Ptr{Sign1Message: signed}},
			refusal{"struct embedding SignMessage", c10embedsSign{SignMessage: *sm}},
			refusal{"pointer to struct embedding *SignMessage", &c10embedsSignPtr{SignMessage: sm}},
			refusal{"struct embedding Signature", c10embedsSignature{Signature: *sg}},
			refusal{"pointer to struct embedding *Signature", &c10embedsSignaturePtr{Signature: sg}},
			refusal{"struct embedding Countersignature", c10embedsCountersignature{Countersignature: *cp}},
			refusal{"pointer to struct embedding *Countersignature", &c10embedsCountersignaturePtr{Countersignature: cp}},
			refusal{"**Sign1Message", p2},
			refusal{"***Sign1Message", p3},
			refusal{"**SignMessage", sm2},
			refusal{"***SignMessage", sm3},
			refusal{"**Signature", &sg},
			refusal{"**Countersignature", &cp},
			refusal{"*interface holding *Sign1Message", &asAny},
			refusal{"*interface holding Sign1Message", &asAnyV},
			refusal{"defined type over Sign1Message", definedSign1(*signed)},
			refusal{"pointer to defined type over Sign1Message", (*definedSign1)(signed)},
			refusal{"pointer to defined type over Signature", (*definedSignature)(sg)},
			refusal{"slice of *Sign1Message", []*cose.Sign1Message{signed}},
			refusal{"array of Sign1Message", [1]cose.Sign1Message{*signed}},
			refusal{"map holding *Sign1Message", map[string]any{"parent": signed}},
			refusal{"func returning *Sign1Message", func() *cose.Sign1Message { return signed }},
		)
	}
	for _, rf := range refusals {
		for _, ext := range [][]byte{nil, []byte("x")} {
			in := map[string]any{"refusal": rf.name, "external": ext}
			var e1, e2, e3, e4 error
			spy := &mon.SpySigner{Alg: k.Alg}
			vspy := &mon.SpyVerifier{Alg: k.Alg}
			cs := &cose.Countersignature{Headers: cose.Headers{Protected: cose.ProtectedHeader{int64(1): k.Alg}}}
			cs2 := &cose.Countersignature{Headers: cose.Headers{Protected: cose.ProtectedHeader{int64(1): k.Alg}}, Signature: sigOK}
			holderBefore := mon.DeepHashValue(cs.Headers)
			defer func(csx *cose.Countersignature, name string) {
				if mon.DeepHashValue(csx.Headers) != holderBefore {
					rec.Violate("holder-modified", name, "a refused countersigning attempt changed the countersignature holder's headers", in)
				}
			}(cs, rf.name)
			if guard(rec, "refusal", in, func() {
				e1 = cs.Sign(gen.Entropy, spy, rf.parent, ext)
				e2 = cs2.Verify(vspy, rf.parent, ext)
				_, e3 = cose.Countersign0(gen.Entropy, spy, rf.parent, ext)
				e4 = cose.VerifyCountersign0(vspy, rf.parent, ext, sigOK)
			}) {
				continue
			}
			rec.Eval(4)
			rec.Event("refusal-cases")
			rec.Class("refusal/" + rf.name)
			if e1 == nil || e2 == nil || e3 == nil || e4 == nil || spy.Calls != 0 || vspy.Calls != 0 {
				rec.Violate("not-refused", rf.name, fmt.Sprintf("Sign err=%v Verify err=%v Countersign0 err=%v VerifyCountersign0 err=%v signer calls=%d verifier calls=%d", e1, e2, e3, e4, spy.Calls, vspy.Calls), in)
			}
		}
	}
	rec.Require("binding-base-ok", int64(n/3))
	rec.Require("refusal-cases", 30)
	rec.RequireClasses(150)
}

type c10mut struct {
	what     string
	parent   any
	mustPass bool
}

func cloneHeaders(h cose.Headers) cose.Headers {
	out := cose.Headers{RawProtected: append([]byte(nil), h.RawProtected...), RawUnprotected: append([]byte(nil), h.RawUnprotected...)}
	if h.Protected != nil {
		out.Protected = cose.ProtectedHeader{}
		for k, v := range h.Protected {
			out.Protected[k] = v
		}
	}
	if h.Unprotected != nil {
		out.Unprotected = cose.UnprotectedHeader{}
		for k, v := range h.Unprotected {
			out.Unprotected[k] = v
		}
	}
	return out
}

func flipBit(b []byte, r *mon.Rand) []byte {
	out := append([]byte{}, b...)
	if len(out) == 0 {
		return []byte{1}
	}
	out[r.Intn(len(out))] ^= 1 << r.Intn(8)
	return out
}

// mutateProtected changes the protected bytes of a header set: for decoded
// headers the raw bstr is re-written (another valid encoding of the same or a
// different map), for constructed ones an entry is added.
func mutateProtected(r *mon.Rand, h cose.Headers) (cose.Headers, bool) {
	out := cloneHeaders(h)
	if len(h.RawProtected) > 0 {
		n, err := refcbor.Parse(h.RawProtected)
		if err != nil || n.Major != refcbor.Bstr {
			return out, false
		}
		var m *Node
		if len(n.Str) > 0 {
			if m, err = refcbor.Parse(n.Str); err != nil {
				return out, false
			}
		} else {
			m = refcbor.NMap()
		}
		before := append([]byte{}, n.Str...)
		switch r.Intn(3) {
		case 0: // same data model, different bytes
			gen.Scramble(r, m, 100)
			if len(m.Kids) == 0 {
				m.Width = 2
			}
		case 1:
			m.Kids = append(m.Kids, refcbor.NInt(int64(90000+r.Intn(1000))), refcbor.NInt(1))
		default:
			if len(m.Kids) >= 2 {
				m.Kids = m.Kids[2:]
			} else {
				m.Kids = append(m.Kids, refcbor.NTstr("x"), refcbor.NInt(1))
			}
		}
		content := refcbor.Encode(m)
		if eqBytes(content, before) {
			return out, false
		}
		out.RawProtected = refcbor.Encode(refcbor.NBstr(content))
		return out, true
	}
	if out.Protected == nil {
		out.Protected = cose.ProtectedHeader{}
	}
	out.Protected[int64(90000+r.Intn(1000))] = int64(1)
	return out, true
}

func c10mutations(r *mon.Rand, ptr any) []c10mut {
	var out []c10mut
	unprotChange := func(h cose.Headers) cose.Headers {
		o := cloneHeaders(h)
		o.RawUnprotected = nil
		if o.Unprotected == nil {
			o.Unprotected = cose.UnprotectedHeader{}
		}
		o.Unprotected[int64(95000+r.Intn(100))] = "changed"
		return o
	}
	switch p := ptr.(type) {
	case *cose.Sign1Message:
		if h, ok := mutateProtected(r, p.Headers); ok {
			out = append(out, c10mut{"parent protected bytes changed", &cose.Sign1Message{Headers: h, Payload: p.Payload, Signature: p.Signature}, false})
		}
		out = append(out,
			c10mut{"parent payload changed", &cose.Sign1Message{Headers: p.Headers, Payload: flipBit(p.Payload, r), Signature: p.Signature}, false},
			c10mut{"parent payload extended", &cose.Sign1Message{Headers: p.Headers, Payload: append(append([]byte{}, p.Payload...), 0), Signature: p.Signature}, false},
			c10mut{"parent signature changed", &cose.Sign1Message{Headers: p.Headers, Payload: p.Payload, Signature: flipBit(p.Signature, r)}, false},
			c10mut{"parent unprotected headers changed", &cose.Sign1Message{Headers: unprotChange(p.Headers), Payload: p.Payload, Signature: p.Signature}, true},
		)
	case *cose.SignMessage:
		if h, ok := mutateProtected(r, p.Headers); ok {
			out = append(out, c10mut{"parent protected bytes changed", &cose.SignMessage{Headers: h, Payload: p.Payload, Signatures: p.Signatures}, false})
		}
		out = append(out,
			c10mut{"parent payload changed", &cose.SignMessage{Headers: p.Headers, Payload: flipBit(p.Payload, r), Signatures: p.Signatures}, false},
			c10mut{"parent unprotected headers changed", &cose.SignMessage{Headers: unprotChange(p.Headers), Payload: p.Payload, Signatures: p.Signatures}, true},
			// a countersignature over a COSE_Sign body covers the body's protected bytes and the payload, not the
			// signers: another (still pending) co-signer slot, or the signers in another order, change nothing
			c10mut{"a pending co-signer slot appended to the COSE_Sign parent", &cose.SignMessage{Headers: p.Headers, Payload: p.Payload, Signatures: append(append([]*cose.Signature{}, p.Signatures...), &cose.Signature{Headers: cose.Headers{Protected: cose.ProtectedHeader{int64(1): cose.AlgorithmES256}}})}, true},
			c10mut{"the COSE_Sign parent's signers reversed", &cose.SignMessage{Headers: p.Headers, Payload: p.Payload, Signatures: func() []*cose.Signature {
				o := append([]*cose.Signature{}, p.Signatures...)
				for a, b := 0, len(o)-1; a < b; a, b = a+1, b-1 {
					o[a], o[b] = o[b], o[a]
				}
				return o
			}()}, true},
		)
	case *cose.Signature:
		if h, ok := mutateProtected(r, p.Headers); ok {
			out = append(out, c10mut{"parent protected bytes changed", &cose.Signature{Headers: h, Signature: p.Signature}, false})
		}
		out = append(out,
			c10mut{"parent signature changed", &cose.Signature{Headers: p.Headers, Signature: flipBit(p.Signature, r)}, false},
			c10mut{"parent unprotected headers changed", &cose.Signature{Headers: unprotChange(p.Headers), Signature: p.Signature}, true},
			// same fields presented as the other 3-array type: same context, must still verify
			c10mut{"parent presented as Countersignature type", &cose.Countersignature{Headers: p.Headers, Signature: p.Signature}, true},
		)
	case *cose.Countersignature:
		if h, ok := mutateProtected(r, p.Headers); ok {
			out = append(out, c10mut{"parent protected bytes changed", &cose.Countersignature{Headers: h, Signature: p.Signature}, false})
		}
		out = append(out,
			c10mut{"parent signature changed", &cose.Countersignature{Headers: p.Headers, Signature: flipBit(p.Signature, r)}, false},
			c10mut{"parent unprotected headers changed", &cose.Countersignature{Headers: unprotChange(p.Headers), Signature: p.Signature}, true},
		)
	}
	return out
}

// c10withUnprotected returns a shallow copy of the parent whose unprotected header additionally holds
// cs under label (as a single value or a one-element list); the protected bytes, payload and
// signature are those of the original.
func c10withUnprotected(ptr any, label int64, cs *cose.Countersignature, asList bool) any {
	var v any = cs
	if asList {
		v = []*cose.Countersignature{cs}
	}
	return c10withUnprotectedValue(ptr, label, v)
}

// c10withUnprotectedValue is c10withUnprotected for any header value.
func c10withUnprotectedValue(ptr any, label int64, v any) any {
	with := func(h cose.Headers) cose.Headers {
		out := cloneHeaders(h)
		if out.Unprotected == nil {
			out.Unprotected = cose.UnprotectedHeader{}
		}
		out.Unprotected[label] = v
		out.RawUnprotected = nil
		return out
	}
	switch x := ptr.(type) {
	case *cose.Sign1Message:
		c := *x
		c.Headers = with(x.Headers)
		return &c
	case *cose.SignMessage:
		c := *x
		c.Headers = with(x.Headers)
		return &c
	case *cose.Signature:
		c := *x
		c.Headers = with(x.Headers)
		return &c
	case *cose.Countersignature:
		c := *x
		c.Headers = with(x.Headers)
		return &c
	}
	return nil
}

// application structs that embed a parent type (the methods of the embedded type are promoted)
type c10embedsSign1 struct {
	cose.Sign1Message
	Note string
}
type c10embedsSign1Ptr struct{ *cose.Sign1Message }
type c10embedsSign struct{ cose.SignMessage }
type c10embedsSignPtr struct{ *cose.SignMessage }
type c10embedsSignature struct{ cose.Signature }
type c10embedsSignaturePtr struct{ *cose.Signature }
type c10embedsCountersignature struct{ cose.Countersignature }
type c10embedsCountersignaturePtr struct{ *cose.Countersignature }

// c10rawHeaders are the headers of a received object: parsed maps together with the retained bytes.
func c10rawHeaders() cose.Headers {
	return cose.Headers{
		RawProtected:   []byte{0x43, 0xa1, 0x01, 0x26},
		Protected:      cose.ProtectedHeader{int64(1): cose.AlgorithmES256},
		RawUnprotected: []byte{0xa1, 0x04, 0x41, 0x31},
		Unprotected:    cose.UnprotectedHeader{int64(4): []byte("1")},
	}
}
