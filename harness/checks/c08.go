package checks

import (
	"bytes"
	"crypto/ecdsa"
	"crypto/elliptic"
	"crypto/sha256"
	"encoding/hex"
	"fmt"
	"math"
	"math/big"
	"os"
	"os/exec"
	"strconv"
	"strings"

	cose "github.com/veraison/go-cose"

	"verif/harness/gen"
	"verif/harness/mon"
	"verif/harness/refcbor"
	"verif/harness/refcose"
)

// C08 - encoding is deterministic, canonical and always decodable.
// Monitors: bytes returned by every encoder and Sign helper, compared across
// repetitions (in-process x16 and across freshly started processes), checked
// with refcbor.IsCanonical (envelope and every protected-header content),
// compared with the protected bytes inside the recorded ToBeSigned, and fed
// back to the decoders.

func init() {
	register(&Check{
		ID:    "C08",
		Level: "exploration",
		Rule: "values of the Go-side data model (labels of every Go integer type and strings chosen so that length-first and bytewise orders differ, >= 2 keys, nested containers, countersignature values single/list) through Sign1Message, UntaggedSign1Message, SignMessage, Signature, Countersignature, ProtectedHeader, UnprotectedHeader, Key MarshalCBOR and the Sign1/Sign1Untagged/SignHashEnvelope helpers (spy signer with fixed output): " +
			"16 in-process repetitions byte-equal; 2 freshly started child processes produce the same SHA-256 over all outputs; outputs canonical (shortest heads, definite, keys bytewise sorted, no duplicates) including protected contents at every layer; signed protected bytes = emitted protected bytes; earlier outputs unchanged by later encodes; every output accepted by its decoder and equivalent to the source. " +
			"Distinct = (type, #keys class, label-type mix, nesting) with >= 2 map keys.",
		Assume: []string{"header values are the Go-side model of DESIGN.md section 3 (integers within int64, no NaN, no typed containers)", "Key.Params labels exclude the common parameters 1..5"},
		Run:    runC08,
	})
	childModes["c08"] = c08child
}

var c08labels = []int64{10, 100, -1, 1000, 24, 23, -24, -25, 255, 256, 65535, 65536, -256, -257, 8, 13, 14, 17, 31, 99}
var c08texts = []string{"a", "aa", "b", "ab", "z", "", "aaa", "kid", "Z", "1", "4", "-1", "10", "100"}

// c08header draws a header bucket with >= 2 keys whose orders disagree.
func c08header(r *mon.Rand, protected bool, forbidIV bool) (map[any]any, int64) {
	m, iv := gen.GoHeader(r, gen.HeaderOpts{Protected: protected, MaxEntries: mon.Pick(r, 2, 4, 8, 20), NoCrit: r.Bool()}, forbidIV)
	n := 2 + r.Intn(4)
	for i := 0; i < n; i++ {
		if r.Intn(3) == 0 {
			s := c08texts[r.Intn(len(c08texts))]
			if _, ok := m[s]; !ok {
				m[s] = gen.Value(r, 2)
			}
			continue
		}
		l := c08labels[r.Intn(len(c08labels))]
		dup := false
		for k := range m {
			if nl, ok := refNorm(k); ok && nl == l {
				dup = true
			}
		}
		if !dup {
			m[gen.SpellInt(r, l)] = gen.Value(r, 2)
		}
	}
	return m, iv
}

type c08case struct {
	typ    string
	encode func() ([]byte, error)
	check  func(out []byte) string // closure / equivalence; "" = fine
	class  string
}

func mapClass(ms ...map[any]any) string {
	keys, ints, strs, nested := 0, false, false, false
	for _, m := range ms {
		keys += len(m)
		for k, v := range m {
			switch k.(type) {
			case string:
				strs = true
			default:
				ints = true
			}
			switch v.(type) {
			case map[any]any, []any:
				nested = true
			}
		}
	}
	kc := "2-3"
	switch {
	case keys < 2:
		kc = "<2"
	case keys > 12:
		kc = ">12"
	case keys > 3:
		kc = "4-12"
	}
	return fmt.Sprintf("keys=%s/int=%v/text=%v/nested=%v", kc, ints, strs, nested)
}

var eqHeaderDebug = os.Getenv("VERIF_DEBUG") != ""

func eqHeader(src, dec map[any]any) bool {
	if len(src) == 0 && len(dec) == 0 {
		return true
	}
	a, e1 := refcose.GoToNode(src, gen.Custom)
	b, e2 := refcose.GoToNode(dec, gen.Custom)
	widenFloats(a)
	widenFloats(b)
	ok := e1 == nil && e2 == nil && bytes.Equal(refcbor.Canon(a), refcbor.Canon(b))
	if !ok && eqHeaderDebug {
		fmt.Printf("eqHeader: e1=%v e2=%v\n", e1, e2)
		if a != nil && b != nil {
			fmt.Printf(" src %x\n dec %x\n", refcbor.Canon(a), refcbor.Canon(b))
		}
	}
	return ok
}

// protectedContents lists the protected-header contents of every layer of a
// message encoding (body, signatures, nested countersignatures).
func protectedContents(n *Node) [][]byte {
	var out [][]byte
	var layer func(p, u *Node)
	var sigArr func(g *Node)
	sigArr = func(g *Node) {
		if g.Major == refcbor.Array && len(g.Kids) == 3 {
			layer(g.Kids[0], g.Kids[1])
		}
	}
	layer = func(p, u *Node) {
		if p.Major == refcbor.Bstr {
			out = append(out, p.Str)
		}
		if u.Major != refcbor.Map {
			return
		}
		for i := 0; i+1 < len(u.Kids); i += 2 {
			l, ok := u.Kids[i].Int64()
			if !ok || (l != 7 && l != 11) {
				continue
			}
			v := u.Kids[i+1]
			if v.Major == refcbor.Array && len(v.Kids) == 3 && v.Kids[0].Major == refcbor.Bstr {
				sigArr(v)
			} else if v.Major == refcbor.Array {
				for _, g := range v.Kids {
					sigArr(g)
				}
			}
		}
	}
	if n.Major == refcbor.Tag {
		n = n.Kids[0]
	}
	if n.Major == refcbor.Array && len(n.Kids) == 4 {
		layer(n.Kids[0], n.Kids[1])
		if n.Kids[3].Major == refcbor.Array {
			for _, g := range n.Kids[3].Kids {
				sigArr(g)
			}
		}
	} else if n.Major == refcbor.Array && len(n.Kids) == 3 {
		sigArr(n)
	}
	return out
}

// c08canonical checks an encoder output: canonical envelope and canonical
// protected contents at every layer.
func c08canonical(out []byte, message bool) string {
	n, err := refcbor.Parse(out)
	if err != nil {
		return "output is not a single CBOR item: " + err.Error()
	}
	if ok, why := refcbor.IsCanonicalNode(n); !ok {
		return "output not deterministic CBOR: " + why
	}
	if message {
		for _, pc := range protectedContents(n) {
			if len(pc) == 0 {
				continue
			}
			if ok, why := refcbor.IsCanonical(pc); !ok {
				return "protected header content not deterministic CBOR: " + why
			}
		}
	}
	return ""
}

// c08cases draws the encode cases of one index (deterministic in (seed, i)).
func c08cases(seed int64, i int, keys *gen.KeyRing) []c08case {
	r := mon.NewRand(uint64(seed)).Sub(uint64(121000 + i))
	var cases []c08case
	alg := cose.AlgorithmES256
	spy := func() *mon.SpySigner { return &mon.SpySigner{Alg: alg} }
	prot, iv := c08header(r, true, false)
	unprot, _ := c08header(r, false, iv != 0)
	if r.Bool() {
		prot[gen.SpellIntAs(1, r.Intn(5))] = alg
	}
	if i%4 == 1 {
		// steer the encoded protected map to sit exactly on / next to a length-prefix boundary
		target := []int{22, 23, 24, 25, 254, 255, 256, 257}[(i/4)%8]
		small := map[any]any{}
		if r.Bool() {
			small[int64(1)] = alg
		}
		small[gen.SpellInt(r, 4)] = []byte("k")
		if c0, err := refcose.ProtectedContent(small, gen.Custom); err == nil {
			// one more entry {label 99: bstr(n)} costs 2 (label) + head + n bytes
			need := target - len(c0) - 2
			for _, hl := range []int{1, 2, 3} {
				n := need - hl
				if n >= 0 && len(refcbor.AppendHead(nil, refcbor.Bstr, uint64(n), 0)) == hl {
					small[int64(99)] = r.Bytes(n)
					if n == 0 {
						small[int64(99)] = []byte{}
					}
					break
				}
			}
			if c1, err := refcose.ProtectedContent(small, gen.Custom); err == nil && len(c1) == target {
				prot = small
			}
		}
	}
	// countersignature values in the unprotected bucket
	mkCS := func() *cose.Countersignature {
		p, civ := c08header(r, true, false)
		u, _ := c08header(r, false, civ != 0)
		return &cose.Countersignature{Headers: cose.Headers{Protected: p, Unprotected: u}, Signature: r.Bytes(8 + r.Intn(60))}
	}
	if r.Intn(3) == 0 {
		label := mon.Pick(r, int64(7), int64(11))
		if r.Bool() {
			unprot[label] = mkCS()
		} else {
			unprot[label] = []*cose.Countersignature{mkCS(), mkCS(), mkCS()}[:1+r.Intn(3)]
		}
	}
	payload := gen.Payload(r, false)
	ext := gen.External(r)
	cls := mapClass(prot, unprot)
	if pc, err := refcose.ProtectedContent(prot, gen.Custom); err == nil {
		cls += "/protlen=" + boundaryClass2(len(pc))
	}
	hdr := func() cose.Headers {
		h := cose.Headers{Protected: cose.ProtectedHeader{}, Unprotected: cose.UnprotectedHeader{}}
		for k, v := range prot {
			h.Protected[k] = v
		}
		for k, v := range unprot {
			h.Unprotected[k] = v
		}
		return h
	}
	sig := r.Bytes(64)

	checkSign1 := func(tagged bool) func(out []byte) string {
		return func(out []byte) string {
			var d cose.Sign1Message
			var err error
			if tagged {
				err = d.UnmarshalCBOR(out)
			} else {
				err = (*cose.UntaggedSign1Message)(&d).UnmarshalCBOR(out)
			}
			if err != nil {
				return "own output refused by the decoder: " + err.Error()
			}
			if !bytes.Equal(d.Payload, payload) || (d.Payload == nil) != (payload == nil) {
				return "payload changed by the round trip"
			}
			h := hdr()
			if _, has := h.Protected[int64(1)]; !has {
				// alg may have been injected by a Sign helper
				delete(d.Headers.Protected, int64(1))
				for k := range h.Protected {
					if nl, ok := refNorm(k); ok && nl == 1 {
						delete(h.Protected, k)
					}
				}
			}
			if !eqHeader(h.Protected, d.Headers.Protected) && len(d.Headers.Protected) == len(h.Protected) {
				return "protected header not equivalent after the round trip"
			}
			if !eqHeader(h.Unprotected, d.Headers.Unprotected) {
				return "unprotected header not equivalent after the round trip"
			}
			return ""
		}
	}
	cases = append(cases,
		c08case{"Sign1Message.MarshalCBOR", func() ([]byte, error) {
			return (&cose.Sign1Message{Headers: hdr(), Payload: payload, Signature: sig}).MarshalCBOR()
		}, func(out []byte) string {
			var d cose.Sign1Message
			if err := d.UnmarshalCBOR(out); err != nil {
				return "own output refused by the decoder: " + err.Error()
			}
			if !bytes.Equal(d.Signature, sig) || !bytes.Equal(d.Payload, payload) || !eqHeader(prot, d.Headers.Protected) || !eqHeader(unprot, d.Headers.Unprotected) {
				return "decoded value not equivalent to the source"
			}
			return ""
		}, cls},
		c08case{"Sign1Message.MarshalCBOR(raw fields emptied, not nil)", func() ([]byte, error) {
			h := hdr()
			h.RawProtected, h.RawUnprotected = []byte{}, make([]byte, 0, 8)
			return (&cose.Sign1Message{Headers: h, Payload: payload, Signature: sig}).MarshalCBOR()
		}, func(out []byte) string {
			var d cose.Sign1Message
			if err := d.UnmarshalCBOR(out); err != nil {
				return "own output refused by the decoder: " + err.Error()
			}
			if !eqHeader(prot, d.Headers.Protected) || !eqHeader(unprot, d.Headers.Unprotected) {
				return "decoded value not equivalent to the source"
			}
			return ""
		}, cls},
		c08case{"UntaggedSign1Message.MarshalCBOR", func() ([]byte, error) {
			return (&cose.UntaggedSign1Message{Headers: hdr(), Payload: payload, Signature: sig}).MarshalCBOR()
		}, func(out []byte) string {
			var d cose.UntaggedSign1Message
			if err := d.UnmarshalCBOR(out); err != nil {
				return "own output refused by the decoder: " + err.Error()
			}
			if !bytes.Equal(d.Signature, sig) || !eqHeader(prot, d.Headers.Protected) || !eqHeader(unprot, d.Headers.Unprotected) {
				return "decoded value not equivalent to the source"
			}
			return ""
		}, cls},
		c08case{"Signature.MarshalCBOR", func() ([]byte, error) {
			return (&cose.Signature{Headers: hdr(), Signature: sig}).MarshalCBOR()
		}, func(out []byte) string {
			var d cose.Signature
			if err := d.UnmarshalCBOR(out); err != nil {
				return "own output refused by the decoder: " + err.Error()
			}
			if !bytes.Equal(d.Signature, sig) || !eqHeader(prot, d.Headers.Protected) || !eqHeader(unprot, d.Headers.Unprotected) {
				return "decoded value not equivalent to the source"
			}
			return ""
		}, cls},
		c08case{"Countersignature.MarshalCBOR", func() ([]byte, error) {
			return (&cose.Countersignature{Headers: hdr(), Signature: sig}).MarshalCBOR()
		}, func(out []byte) string {
			var d cose.Countersignature
			if err := d.UnmarshalCBOR(out); err != nil {
				return "own output refused by the decoder: " + err.Error()
			}
			if !bytes.Equal(d.Signature, sig) || !eqHeader(prot, d.Headers.Protected) || !eqHeader(unprot, d.Headers.Unprotected) {
				return "decoded value not equivalent to the source"
			}
			return ""
		}, cls},
		c08case{"ProtectedHeader.MarshalCBOR", func() ([]byte, error) { return cose.ProtectedHeader(hdr().Protected).MarshalCBOR() },
			func(out []byte) string {
				var d cose.ProtectedHeader
				if err := d.UnmarshalCBOR(out); err != nil {
					return "own output refused by the decoder: " + err.Error()
				}
				if !eqHeader(prot, d) {
					return "decoded value not equivalent to the source"
				}
				n, _ := refcbor.Parse(out)
				if n != nil && n.Major == refcbor.Bstr && len(n.Str) > 0 {
					if ok, why := refcbor.IsCanonical(n.Str); !ok {
						return "protected header content not deterministic CBOR: " + why
					}
				}
				return ""
			}, mapClass(prot)},
		c08case{"UnprotectedHeader.MarshalCBOR", func() ([]byte, error) { return cose.UnprotectedHeader(hdr().Unprotected).MarshalCBOR() },
			func(out []byte) string {
				var d cose.UnprotectedHeader
				if err := d.UnmarshalCBOR(out); err != nil {
					return "own output refused by the decoder: " + err.Error()
				}
				if !eqHeader(unprot, d) {
					return "decoded value not equivalent to the source"
				}
				return ""
			}, mapClass(unprot)},
		c08case{"Headers.MarshalProtected", func() ([]byte, error) { h := hdr(); return h.MarshalProtected() },
			func(out []byte) string {
				var d cose.ProtectedHeader
				if err := d.UnmarshalCBOR(out); err != nil {
					return "own output refused by the decoder: " + err.Error()
				}
				if !eqHeader(prot, d) {
					return "decoded value not equivalent to the source"
				}
				if direct, err := cose.ProtectedHeader(hdr().Protected).MarshalCBOR(); err != nil || !bytes.Equal(direct, out) {
					return "Headers.MarshalProtected differs from ProtectedHeader.MarshalCBOR of the same map"
				}
				return ""
			}, mapClass(prot)},
		c08case{"Headers.MarshalUnprotected", func() ([]byte, error) { h := hdr(); return h.MarshalUnprotected() },
			func(out []byte) string {
				var d cose.UnprotectedHeader
				if err := d.UnmarshalCBOR(out); err != nil {
					return "own output refused by the decoder: " + err.Error()
				}
				if !eqHeader(unprot, d) {
					return "decoded value not equivalent to the source"
				}
				if direct, err := cose.UnprotectedHeader(hdr().Unprotected).MarshalCBOR(); err != nil || !bytes.Equal(direct, out) {
					return "Headers.MarshalUnprotected differs from UnprotectedHeader.MarshalCBOR of the same map"
				}
				return ""
			}, mapClass(unprot)},
		c08case{"Sign1(helper)", func() ([]byte, error) { return cose.Sign1(gen.Entropy, spy(), hdr(), payload, ext) }, checkSign1(true), cls},
		c08case{"Sign1Untagged(helper)", func() ([]byte, error) { return cose.Sign1Untagged(gen.Entropy, spy(), hdr(), payload, ext) }, checkSign1(false), cls},
	)
	// COSE_Sign
	ns := 1 + r.Intn(3)
	var sigHs []cose.Headers
	for j := 0; j < ns; j++ {
		p, siv := c08header(r, true, false)
		u, _ := c08header(r, false, siv != 0)
		sigHs = append(sigHs, cose.Headers{Protected: p, Unprotected: u})
	}
	cases = append(cases, c08case{"SignMessage.MarshalCBOR", func() ([]byte, error) {
		m := &cose.SignMessage{Headers: hdr(), Payload: payload}
		for j := 0; j < ns; j++ {
			m.Signatures = append(m.Signatures, &cose.Signature{Headers: cloneHeaders(sigHs[j]), Signature: sig[:32+j]})
		}
		return m.MarshalCBOR()
	}, func(out []byte) string {
		var d cose.SignMessage
		if err := d.UnmarshalCBOR(out); err != nil {
			return "own output refused by the decoder: " + err.Error()
		}
		if len(d.Signatures) != ns || !eqHeader(prot, d.Headers.Protected) || !eqHeader(unprot, d.Headers.Unprotected) {
			return "decoded value not equivalent to the source"
		}
		for j, s := range d.Signatures {
			if !bytes.Equal(s.Signature, sig[:32+j]) || !eqHeader(sigHs[j].Protected, s.Headers.Protected) || !eqHeader(sigHs[j].Unprotected, s.Headers.Unprotected) {
				return fmt.Sprintf("signature %d not equivalent to the source", j)
			}
		}
		return ""
	}, cls})
	// hash envelope helper
	heH := hdr()
	for _, m := range []map[any]any{heH.Protected, heH.Unprotected} {
		for k := range m {
			if nl, ok := refNorm(k); ok && (nl == 3 || nl == 2) {
				delete(m, k)
			}
		}
	}
	hp := cose.HashEnvelopePayload{HashAlgorithm: cose.AlgorithmSHA256, HashValue: r.Bytes(32), PreimageContentType: mon.Pick[any](r, nil, "text/plain", uint64(42)), Location: mon.Pick(r, "", "loc")}
	cases = append(cases, c08case{"SignHashEnvelope(helper)", func() ([]byte, error) {
		h := cose.Headers{Protected: cose.ProtectedHeader{}, Unprotected: cose.UnprotectedHeader{}}
		for k, v := range heH.Protected {
			h.Protected[k] = v
		}
		for k, v := range heH.Unprotected {
			h.Unprotected[k] = v
		}
		return cose.SignHashEnvelope(gen.Entropy, spy(), h, hp)
	}, func(out []byte) string {
		if _, err := cose.VerifyHashEnvelope(&mon.SpyVerifier{Alg: alg}, out); err != nil {
			return "own envelope refused by VerifyHashEnvelope: " + err.Error()
		}
		return ""
	}, mapClass(heH.Protected, heH.Unprotected)})
	// COSE_Key
	var key cose.Key
	switch r.Intn(4) {
	case 0:
		k, _ := cose.NewKeyFromPrivate(keys.Keys[r.Intn(4)].Priv)
		key = *k
	case 1:
		k, _ := cose.NewKeyFromPublic(keys.Keys[r.Intn(4)].Pub)
		key = *k
	case 2:
		key = *cose.NewKeySymmetric(r.Bytes(16))
		if i%3 == 0 {
			// public points with x = 0 and keys found with a leading zero coordinate
			curves := []elliptic.Curve{elliptic.P256(), elliptic.P384(), elliptic.P521()}
			cv := curves[(i/3)%3]
			p := cv.Params()
			if y := new(big.Int).ModSqrt(p.B, p.P); y != nil {
				if k, err := cose.NewKeyFromPublic(&ecdsa.PublicKey{Curve: cv, X: new(big.Int), Y: y}); err == nil {
					key = *k
				}
			}
		} else if i%3 == 1 {
			cv := []elliptic.Curve{elliptic.P256(), elliptic.P384(), elliptic.P521()}[(i/3)%3]
			for d := int64(2 + i%1000); d < int64(40000+i%1000); d++ {
				kk := gen.ECKeyFromD(cv, big.NewInt(d))
				size := (cv.Params().BitSize + 7) / 8
				if kk.X.BitLen() <= 8*(size-1) || kk.Y.BitLen() <= 8*(size-1) {
					if k, err := cose.NewKeyFromPrivate(kk); err == nil {
						key = *k
					}
					break
				}
			}
		}
	default:
		key = cose.Key{Type: cose.KeyType(70 + r.Intn(5)), Params: map[any]any{}}
		if i%5 == 0 {
			// an EC2 key with a compressed point (y given as a bool, RFC 9053 section 7.1.1)
			ci := r.Intn(3)
			ec := keys.Keys[ci].Priv.(*ecdsa.PrivateKey) // ES256/P-256, ES384/P-384, ES512/P-521
			size := (ec.Curve.Params().BitSize + 7) / 8
			key = cose.Key{Type: cose.KeyTypeEC2, Params: map[any]any{int64(-1): cose.Curve(1 + ci), int64(-2): ec.X.FillBytes(make([]byte, size)), int64(-3): r.Bool()}}
		}
	}
	if key.Params == nil {
		key.Params = map[any]any{}
	}
	if r.Bool() {
		key.ID = gen.BytesValue(r)
	}
	if r.Bool() {
		key.Ops = []cose.KeyOp{cose.KeyOpSign, cose.KeyOpVerify, cose.KeyOpMACCreate}[:1+r.Intn(3)]
	}
	if r.Bool() {
		key.BaseIV = r.Bytes(8)
	}
	switch r.Intn(12) {
	case 0:
		key.ID = []byte{} // a kid that is present and empty (2: h'') is not an absent kid
	case 1:
		key.BaseIV = []byte{}
	}
	for j := 0; j < r.Intn(5); j++ {
		if r.Intn(3) == 0 {
			key.Params[c08texts[r.Intn(len(c08texts))]] = gen.Value(r, 2)
		} else {
			l := int64(-70 - r.Intn(200))
			if r.Bool() {
				l = int64(100 + r.Intn(70000))
			}
			dup := false
			for k := range key.Params {
				if nl, ok := refNorm(k); ok && nl == l {
					dup = true
				}
			}
			if !dup {
				key.Params[gen.SpellInt(r, l)] = gen.Value(r, 2)
			}
		}
	}
	cases = append(cases, c08case{"Key.MarshalCBOR", func() ([]byte, error) { k := key; return k.MarshalCBOR() }, func(out []byte) string {
		var d cose.Key
		if err := d.UnmarshalCBOR(out); err != nil {
			return "own output refused by the decoder: " + err.Error()
		}
		if d.Type != key.Type || d.Algorithm != key.Algorithm || !bytes.Equal(d.ID, key.ID) || !bytes.Equal(d.BaseIV, key.BaseIV) || len(d.Ops) != len(key.Ops) {
			return "decoded key's common parameters differ from the source"
		}
		if (d.ID == nil) != (key.ID == nil) || (d.BaseIV == nil) != (key.BaseIV == nil) {
			return fmt.Sprintf("a kid / Base IV that is present (possibly empty) in the source is absent after the round trip, or the reverse: kid %v -> %v, Base IV %v -> %v", key.ID != nil, d.ID != nil, key.BaseIV != nil, d.BaseIV != nil)
		}
		again, err := d.MarshalCBOR()
		if err != nil || !bytes.Equal(again, out) {
			// (the one legitimate difference: a Go float32 parameter is written with single precision and
			//  comes back from the decoder as a float64, which is written with double precision)
			n1, e1 := refcbor.Parse(out)
			n2, e2 := refcbor.Parse(again)
			if err == nil && e1 == nil && e2 == nil {
				widenFloats(n1)
				widenFloats(n2)
				if bytes.Equal(refcbor.Encode(n1), refcbor.Encode(n2)) {
					return ""
				}
			}
			return "decoded key does not re-encode to the same bytes"
		}
		return ""
	}, "key/" + mapClass(key.Params)})
	// a text algorithm in the protected header (private-use algorithms are named by text): the encoders
	// take it, so their output must decode again
	{
		tprot := map[any]any{}
		for k, v := range prot {
			if nl, ok := refNorm(k); ok && nl == int64(1) {
				continue
			}
			tprot[k] = v
		}
		tprot[int64(1)] = mon.Pick(r, "ES256", "private-alg", "x")
		th := func() cose.Headers {
			return cose.Headers{Protected: cose.ProtectedHeader(tprot), Unprotected: cose.UnprotectedHeader(unprot)}
		}
		tsig := r.Bytes(64)
		cases = append(cases,
			c08case{"Sign1Message.MarshalCBOR(text alg)", func() ([]byte, error) {
				return (&cose.Sign1Message{Headers: th(), Payload: []byte("p"), Signature: tsig}).MarshalCBOR()
			}, func(out []byte) string {
				var d cose.Sign1Message
				if err := d.UnmarshalCBOR(out); err != nil {
					return "own output refused by the decoder: " + err.Error()
				}
				if !eqHeader(tprot, d.Headers.Protected) {
					return "decoded value not equivalent to the source"
				}
				return ""
			}, "text-alg"},
			c08case{"Signature.MarshalCBOR(text alg)", func() ([]byte, error) {
				return (&cose.Signature{Headers: th(), Signature: tsig}).MarshalCBOR()
			}, func(out []byte) string {
				var d cose.Signature
				if err := d.UnmarshalCBOR(out); err != nil {
					return "own output refused by the decoder: " + err.Error()
				}
				return ""
			}, "text-alg"},
			c08case{"SignMessage.MarshalCBOR(text alg)", func() ([]byte, error) {
				return (&cose.SignMessage{Headers: cose.Headers{Protected: cose.ProtectedHeader{}, Unprotected: cose.UnprotectedHeader{}}, Payload: []byte("p"), Signatures: []*cose.Signature{{Headers: th(), Signature: tsig}}}).MarshalCBOR()
			}, func(out []byte) string {
				var d cose.SignMessage
				if err := d.UnmarshalCBOR(out); err != nil {
					return "own output refused by the decoder: " + err.Error()
				}
				return ""
			}, "text-alg"},
		)
	}
	return cases
}

func runC08(c *Ctx) {
	rec := c.Rec
	n := c.N(2500, 150000)
	digests := make([][]byte, n)
	mon.Parallel(c.Workers, n, func(w, i int) {
		h := sha256.New()
		var prev []byte     // an earlier output ...
		var prevCopy []byte // ... and what it looked like when it was returned
		for _, cs := range c08cases(c.Seed, i, c.Keys) {
			in := map[string]any{"case": i, "type": cs.typ, "class": cs.class}
			var first []byte
			var ferr error
			stable := true
			for rep := 0; rep < 16; rep++ {
				var out []byte
				var err error
				if guard(rec, cs.typ, in, func() { out, err = cs.encode() }) {
					return
				}
				if rep == 0 {
					first, ferr = append([]byte(nil), out...), err
					if err == nil {
						// aliasing monitor: the previous output must not change when something else is encoded
						if prev != nil && !bytes.Equal(prev, prevCopy) {
							rec.Violate("output-aliased", cs.typ, "bytes returned by an earlier encoder call changed after a later call", in)
						}
						prev, prevCopy = out, append([]byte(nil), out...)
					}
					continue
				}
				if (err == nil) != (ferr == nil) || !bytes.Equal(out, first) {
					stable = false
					in["first"], in["other"] = mon.FullHex(first), mon.FullHex(out)
					rec.Violate("nondeterministic", cs.typ, fmt.Sprintf("repetition %d differs from the first encoding (err %v vs %v)", rep, err, ferr), in)
					break
				}
			}
			rec.Eval(1)
			rec.Event(cs.typ)
			if ferr != nil {
				// the generator only builds values of the supported model: a refusal is reported
				rec.Violate("encode-refused", cs.typ, "encoder refused a value of the supported data model: "+ferr.Error(), in)
				continue
			}
			h.Write(first)
			if !stable {
				continue
			}
			in["output"] = mon.FullHex(first)
			if !strings.HasPrefix(cs.class, "keys=<2") {
				rec.Class(cs.typ + "/" + cs.class)
			}
			isMsg := cs.typ != "Key.MarshalCBOR" && cs.typ != "ProtectedHeader.MarshalCBOR" && cs.typ != "UnprotectedHeader.MarshalCBOR"
			if why := c08canonical(first, isMsg); why != "" {
				rec.Violate("not-canonical", cs.typ, why, in)
				continue
			}
			if why := cs.check(first); why != "" {
				rec.Violate("closure", cs.typ, why, in)
				continue
			}
			if i%500 == 0 {
				rec.Sample(cs.typ, map[string]any{"output": hexs(first), "class": cs.class})
			}
		}
		// signed protected bytes = emitted protected bytes
		r := mon.NewRand(uint64(c.Seed)).Sub(uint64(125000 + i))
		prot, iv := c08header(r, true, false)
		unprot, _ := c08header(r, false, iv != 0)
		spy := &mon.SpySigner{Alg: cose.AlgorithmES384}
		m := &cose.Sign1Message{Headers: cose.Headers{Protected: prot, Unprotected: unprot}, Payload: []byte("p")}
		in := map[string]any{"case": i, "type": "signed-vs-emitted", "protected": describeHeader(prot)}
		var err error
		if guard(rec, "Sign1Message.Sign", in, func() { err = m.Sign(gen.Entropy, nil, spy) }) {
			return
		}
		if err == nil {
			out, merr := m.MarshalCBOR()
			rec.Eval(1)
			rec.Event("signed-vs-emitted")
			if merr != nil {
				rec.Violate("closure", "Sign1Message", "signed message cannot be encoded: "+merr.Error(), in)
			} else if f, ok := sign1Fields(out, true); ok {
				tbs, perr := refcbor.Parse(spy.Last())
				if perr != nil || tbs.Major != refcbor.Array || len(tbs.Kids) != 4 || !bytes.Equal(tbs.Kids[1].Str, f.Layer.protContent) {
					rec.Violate("signed-not-emitted", "Sign1Message", "protected bytes inside ToBeSigned differ from the protected bytes emitted on the wire", in)
				}
			}
		}
		digests[i] = h.Sum(nil)
	})
	// two Go spellings of one label: the encoders must refuse (otherwise the output holds a duplicate key)
	for _, l := range []int64{1, 4, 33, 99, 300} {
		for t1 := 0; t1 < gen.IntSpellings; t1++ {
			for t2 := t1 + 1; t2 < gen.IntSpellings; t2++ {
				if !gen.Fits(l, t1) || !gen.Fits(l, t2) || !gen.Fits(l+100, t1) || !gen.Fits(l+100, t2) {
					continue
				}
				var v1, v2 any = []byte{1}, []byte{2}
				if l == 1 {
					v1, v2 = cose.AlgorithmES256, cose.AlgorithmES256
				}
				m := map[any]any{gen.SpellIntAs(l, t1): v1, gen.SpellIntAs(l, t2): v2, int64(77): int64(1)}
				encs := map[string]func() ([]byte, error){
					"ProtectedHeader.MarshalCBOR":   func() ([]byte, error) { return cose.ProtectedHeader(m).MarshalCBOR() },
					"UnprotectedHeader.MarshalCBOR": func() ([]byte, error) { return cose.UnprotectedHeader(m).MarshalCBOR() },
					"Sign1Message.MarshalCBOR(protected)": func() ([]byte, error) {
						return (&cose.Sign1Message{Headers: cose.Headers{Protected: m}, Payload: []byte("p"), Signature: []byte{1}}).MarshalCBOR()
					},
					"Signature.MarshalCBOR(unprotected)": func() ([]byte, error) {
						return (&cose.Signature{Headers: cose.Headers{Unprotected: m}, Signature: []byte{1}}).MarshalCBOR()
					},
					"Key.MarshalCBOR(params)": func() ([]byte, error) {
						return (&cose.Key{Type: 77, Params: map[any]any{gen.SpellIntAs(l+100, t1): v1, gen.SpellIntAs(l+100, t2): v2}}).MarshalCBOR()
					},
				}
				for name, enc := range encs {
					in := map[string]any{"type": name, "label": l, "spellings": gen.SpellNames[t1] + "+" + gen.SpellNames[t2]}
					var out []byte
					var err error
					if guard(rec, name, in, func() { out, err = enc() }) {
						continue
					}
					rec.Eval(1)
					rec.Event("duplicate-spelling-cases")
					rec.Class("duplicate-spellings/" + name)
					if err == nil {
						in["output"] = mon.FullHex(out)
						rec.Violate("duplicate-key-emitted", name, "two Go spellings of one label were both encoded: the output holds a duplicate map key", in)
					}
				}
			}
		}
	}
	// cross-process determinism: two freshly started children recompute the digest over a slice of the cases
	all := sha256.New()
	sub := n
	if sub > 4000 {
		sub = 4000
	}
	for i := 0; i < sub; i++ {
		all.Write(digests[i])
	}
	want := hex.EncodeToString(all.Sum(nil))
	self, _ := os.Executable()
	for child := 0; child < 2; child++ {
		cmd := exec.Command(self, "child", "c08", strconv.FormatInt(c.Seed, 10), strconv.Itoa(sub))
		out, err := cmd.Output()
		got := strings.TrimSpace(string(out))
		rec.Eval(1)
		rec.Event("cross-process-digest")
		if err != nil {
			rec.HarnessError("C08: child failed: " + err.Error())
			continue
		}
		rec.Class(fmt.Sprintf("cross-process/child=%d", child))
		if got != want {
			rec.Violate("nondeterministic-across-processes", "digest", fmt.Sprintf("a freshly started process produced different encodings (digest %s vs %s over %d cases)", got, want, sub), map[string]any{"seed": c.Seed, "cases": sub})
		}
	}
	rec.Extra("cross_process_digest", want)
	// ---- an object signed, edited and signed again: what is emitted is what the LAST signing call signed ----
	for i := 0; i < c.N(300, 6000); i++ {
		r := mon.NewRand(uint64(c.Seed)).Sub(uint64(127000 + i))
		kind := []string{"Sign1Message", "UntaggedSign1Message", "Signature", "Countersignature", "SignMessage"}[i%5]
		alg := cose.AlgorithmES256
		prot, iv := c08header(r, true, false)
		unprot, _ := c08header(r, false, iv != 0)
		prot[int64(1)] = alg
		for k := range prot { // one spelling of label 1 only
			if nl, ok := refNorm(k); ok && nl == int64(1) && k != any(int64(1)) {
				delete(prot, k)
			}
		}
		h := cose.Headers{Protected: cose.ProtectedHeader(prot), Unprotected: cose.UnprotectedHeader(unprot)}
		parent := &cose.Sign1Message{Headers: cose.Headers{Protected: cose.ProtectedHeader{int64(1): alg}}, Payload: []byte("parent"), Signature: mon.FixedSig}
		payload := []byte("payload")
		var s1 cose.Sign1Message
		var sg cose.Signature
		var cs cose.Countersignature
		var sm cose.SignMessage
		sign := func(spy cose.Signer) error {
			switch kind {
			case "Sign1Message":
				return s1.Sign(gen.Entropy, nil, spy)
			case "UntaggedSign1Message":
				return (*cose.UntaggedSign1Message)(&s1).Sign(gen.Entropy, nil, spy)
			case "Signature":
				return sg.Sign(gen.Entropy, spy, []byte{0x40}, payload, nil)
			case "Countersignature":
				return cs.Sign(gen.Entropy, spy, parent, nil)
			}
			return sm.Sign(gen.Entropy, nil, spy)
		}
		var hp *cose.Headers
		var sigp *[]byte
		switch kind {
		case "Sign1Message", "UntaggedSign1Message":
			s1 = cose.Sign1Message{Headers: h, Payload: payload}
			hp, sigp = &s1.Headers, &s1.Signature
		case "Signature":
			sg = cose.Signature{Headers: h}
			hp, sigp = &sg.Headers, &sg.Signature
		case "Countersignature":
			cs = cose.Countersignature{Headers: h}
			hp, sigp = &cs.Headers, &cs.Signature
		default:
			sm = cose.SignMessage{Headers: cose.Headers{Protected: cose.ProtectedHeader{}, Unprotected: cose.UnprotectedHeader{}}, Payload: payload, Signatures: []*cose.Signature{{Headers: h}}}
			hp, sigp = &sm.Signatures[0].Headers, &sm.Signatures[0].Signature
		}
		in := map[string]any{"case": i, "family": "sign, edit, sign again", "kind": kind}
		spy1, spy2 := &mon.SpySigner{Alg: alg}, &mon.SpySigner{Alg: alg, Out: []byte("second-signature")}
		var e1, e2 error
		var out []byte
		var merr error
		if guard(rec, kind+" signed twice", in, func() {
			e1 = sign(spy1)
			// the application changes its mind about a header and signs again
			hp.Protected[int64(70001)] = []byte("edited")
			*sigp = nil
			e2 = sign(spy2)
			switch kind {
			case "Sign1Message":
				out, merr = s1.MarshalCBOR()
			case "UntaggedSign1Message":
				out, merr = (*cose.UntaggedSign1Message)(&s1).MarshalCBOR()
			case "Signature":
				out, merr = sg.MarshalCBOR()
			case "Countersignature":
				out, merr = cs.MarshalCBOR()
			default:
				out, merr = sm.MarshalCBOR()
			}
		}) {
			continue
		}
		rec.Eval(1)
		rec.Event("signed-edited-signed-again")
		rec.Class("resign/" + kind)
		if e1 != nil || e2 != nil || merr != nil || spy2.Calls != 1 {
			rec.Violate("closure", "resign/"+kind, fmt.Sprintf("sign=%v, sign again=%v (calls %d), marshal=%v", e1, e2, spy2.Calls, merr), in)
			continue
		}
		wantProt, perr := refcose.ProtectedContent(map[any]any(hp.Protected), gen.Custom)
		if perr != nil {
			continue
		}
		idx := map[string]int{"Sign1Message": 1, "UntaggedSign1Message": 1, "Signature": 2, "Countersignature": 2, "SignMessage": 2}[kind]
		tbs, terr := refcbor.Parse(spy2.Last())
		if terr != nil || tbs.Major != refcbor.Array || len(tbs.Kids) <= idx || !bytes.Equal(tbs.Kids[idx].Str, wantProt) {
			rec.Violate("signed-not-emitted", "resign/"+kind+"/signed", "the second signing call did not sign the edited protected header", in)
			continue
		}
		found := false
		for _, pc := range protectedContents(func() *Node { n, _ := refcbor.Parse(out); return n }()) {
			if bytes.Equal(pc, wantProt) {
				found = true
			}
		}
		if !found {
			rec.Violate("signed-not-emitted", "resign/"+kind+"/emitted", "the emitted object does not carry the protected header that was signed last: "+hexs(out), in)
		}
	}
	// ---- a received (decoded) message signed again as it is: the bytes emitted are the bytes signed ----
	for i := 0; i < c.N(300, 6000); i++ {
		r := mon.NewRand(uint64(c.Seed)).Sub(uint64(128500 + i))
		a := int64(-7)
		l := gen.RandLayer(r, gen.LayerOpts{Alg: &a, MaxProt: 4, MaxUnprot: 2, ScramblePct: 70})
		l.ProtWidth = gen.HeadWidths[i%5]
		in := map[string]any{"case": i, "family": "received message signed again"}
		spy := &mon.SpySigner{Alg: cose.AlgorithmES256, Out: []byte("fresh-signature")}
		var out []byte
		var err error
		idx := 1
		switch i % 3 {
		case 0:
			wm := &gen.WSign1{L: l, Payload: []byte("p"), Sig: mon.FixedSig, Tagged: true}
			var m cose.Sign1Message
			if m.UnmarshalCBOR(wm.Bytes()) != nil {
				continue
			}
			m.Signature = nil
			if guard(rec, "Sign1Message.Sign(received)", in, func() {
				if err = m.Sign(gen.Entropy, nil, spy); err == nil {
					out, err = m.MarshalCBOR()
				}
			}) {
				continue
			}
		case 1:
			ws := &gen.WSignature{L: l, Sig: mon.FixedSig}
			var sg cose.Signature
			if sg.UnmarshalCBOR(ws.Bytes()) != nil {
				continue
			}
			sg.Signature = nil
			idx = 2
			if guard(rec, "Signature.Sign(received)", in, func() {
				if err = sg.Sign(gen.Entropy, spy, []byte{0x40}, []byte("p"), nil); err == nil {
					out, err = sg.MarshalCBOR()
				}
			}) {
				continue
			}
		default:
			ws := &gen.WSignature{L: l, Sig: mon.FixedSig}
			var cs cose.Countersignature
			if cs.UnmarshalCBOR(ws.Bytes()) != nil {
				continue
			}
			cs.Signature = nil
			idx = 2
			parent := &cose.Sign1Message{Headers: cose.Headers{Protected: cose.ProtectedHeader{int64(1): cose.AlgorithmES256}}, Payload: []byte("parent"), Signature: mon.FixedSig}
			if guard(rec, "Countersignature.Sign(received)", in, func() {
				if err = cs.Sign(gen.Entropy, spy, parent, nil); err == nil {
					out, err = cs.MarshalCBOR()
				}
			}) {
				continue
			}
		}
		rec.Eval(1)
		rec.Event("received-signed-again")
		rec.Class(fmt.Sprintf("received-signed-again/kind=%d/protw=%d", i%3, l.ProtWidth))
		if err != nil || spy.Calls != 1 {
			rec.Violate("closure", "received-signed-again", fmt.Sprintf("a received message cannot be signed again and emitted: %v (signer calls %d)", err, spy.Calls), in)
			continue
		}
		tbs, terr := refcbor.Parse(spy.Last())
		on, oerr := refcbor.Parse(out)
		if terr != nil || oerr != nil || len(tbs.Kids) <= idx {
			continue
		}
		for on.Major == refcbor.Tag {
			on = on.Kids[0]
		}
		if on.Major != refcbor.Array || len(on.Kids) < 3 || !bytes.Equal(on.Kids[0].Str, tbs.Kids[idx].Str) || !bytes.Equal(on.Kids[0].Str, l.Content()) {
			rec.Violate("signed-not-emitted", "received-signed-again", fmt.Sprintf("signed protected content %s, emitted %s, received %s", hexs(tbs.Kids[idx].Str), hexs(on.Kids[0].Str), hexs(l.Content())), in)
		}
	}
	// ---- the objects inside a received message encode the same way every time the message is received ----
	for i := 0; i < c.N(120, 3000); i++ {
		r := mon.NewRand(uint64(c.Seed)).Sub(uint64(129500 + i))
		a := int64(-7)
		inner := gen.RandLayer(r, gen.LayerOpts{Alg: &a, MaxProt: 2, MaxUnprot: 2, ScramblePct: 60})
		// an unprotected header of several entries in an order of the sender's own
		for j, n := 0, 2+r.Intn(5); j < n; j++ {
			inner.Unprot.Kids = append([]*Node{refcbor.NInt(int64(7000 - 13*j)), refcbor.NTstr(fmt.Sprintf("v%d", j))}, inner.Unprot.Kids...)
		}
		item := refcbor.NArr(refcbor.NBstr(inner.Content()), inner.Unprot, refcbor.NBstr([]byte("countersignature")))
		var val *Node = item
		if i%3 == 1 {
			val = refcbor.NArr(item, refcbor.Clone(item))
		}
		outer := gen.RandLayer(r, gen.LayerOpts{Alg: &a, MaxProt: 2, MaxUnprot: 2, ScramblePct: 60})
		var kids []*Node
		for k := 0; k+1 < len(outer.Unprot.Kids); k += 2 {
			if l, ok := outer.Unprot.Kids[k].Int64(); ok && (l == 7 || l == 11) {
				continue
			}
			kids = append(kids, outer.Unprot.Kids[k], outer.Unprot.Kids[k+1])
		}
		outer.Unprot.Kids = append(kids, refcbor.NInt(int64(mon.Pick(r, 7, 11))), val)
		wire := (&gen.WSign1{L: outer, Payload: []byte("p"), Sig: mon.FixedSig, Tagged: true}).Bytes()
		in := map[string]any{"case": i, "family": "objects inside a received message", "wire": mon.FullHex(wire)}
		var first string
		bad := false
		for rep := 0; rep < 12 && !bad; rep++ {
			var m cose.Sign1Message
			var got string
			if guard(rec, "nested objects of a received message", in, func() {
				if m.UnmarshalCBOR(wire) != nil {
					got = "refused"
					return
				}
				for _, l := range []int64{7, 11} {
					switch v := m.Headers.Unprotected[l].(type) {
					case *cose.Countersignature:
						b, e := v.MarshalCBOR()
						got += fmt.Sprintf("%x/%v|", b, e)
					case []*cose.Countersignature:
						for _, x := range v {
							b, e := x.MarshalCBOR()
							got += fmt.Sprintf("%x/%v|", b, e)
						}
					}
				}
				m.Headers.RawUnprotected = nil
				b, e := m.MarshalCBOR()
				got += fmt.Sprintf("parent:%x/%v", b, e)
			}) {
				bad = true
				break
			}
			if rep == 0 {
				first = got
			} else if got != first {
				rec.Violate("unstable", "received-nested-objects", fmt.Sprintf("the objects inside one received message encode differently from one decode to the next\n first %s\n later %s", first, got), in)
				bad = true
			}
		}
		rec.Eval(1)
		rec.Event("received-nested-objects")
		rec.Class(fmt.Sprintf("received-nested-objects/list=%v/accepted=%v", i%3 == 1, first != "refused"))
	}
	rec.Require("received-nested-objects", 100)
	rec.Require("received-signed-again", 100)
	rec.Require("signed-edited-signed-again", 100)
	rec.Require("signed-vs-emitted", int64(n/2))
	rec.RequireClasses(60)
}

func c08child(args []string) int {
	if len(args) < 2 {
		return 3
	}
	seed, _ := strconv.ParseInt(args[0], 10, 64)
	n, _ := strconv.Atoi(args[1])
	keys, err := gen.NewKeyRing(mon.NewRand(uint64(seed)).Sub(1))
	if err != nil {
		return 3
	}
	all := sha256.New()
	for i := 0; i < n; i++ {
		h := sha256.New()
		for _, cs := range c08cases(seed, i, keys) {
			out, err := cs.encode()
			if err == nil {
				h.Write(out)
			}
		}
		all.Write(h.Sum(nil))
	}
	fmt.Println(hex.EncodeToString(all.Sum(nil)))
	return 0
}

func boundaryClass2(n int) string {
	switch n {
	case 22, 23, 24, 25, 254, 255, 256, 257:
		return fmt.Sprint(n)
	}
	return "other"
}

// widenFloats rewrites single-precision float nodes as double precision: equivalence of header values
// is a value comparison (a Go float32 comes back from the decoder as float64).
func widenFloats(n *Node) {
	if n == nil {
		return
	}
	if n.Raw != nil {
		// retained raw bytes of a nested layer: compare them as values too
		if p, err := refcbor.Parse(n.Raw); err == nil {
			*n = *p
			n.Raw = nil
		}
	}
	if n.Major == refcbor.Prim && n.Width == 5 {
		n.Arg, n.Width = math.Float64bits(float64(math.Float32frombits(uint32(n.Arg)))), 9
	}
	for _, k := range n.Kids {
		widenFloats(k)
	}
}
