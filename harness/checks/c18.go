package checks

import (
	"bufio"
	"bytes"
	"crypto/ed25519"
	"crypto/elliptic"
	"crypto/rsa"
	"encoding/json"
	"errors"
	"fmt"
	"math/big"
	"net/url"
	"os"
	"os/exec"
	"path/filepath"
	"regexp"
	"sort"
	"strconv"
	"strings"
	"sync"
	"sync/atomic"
	"verif/harness/refcose"
	"verif/harness/testkeys"

	cose "github.com/veraison/go-cose"

	"verif/harness/gen"
	"verif/harness/mon"
	"verif/harness/refcbor"
)

// C18 - verification and encoding are read-only and safe to run
// concurrently. Monitors: (sequential) deep-hash snapshots of every argument
// around every read-path call; (concurrent) the Go race detector on a child
// built with -race, runtime aborts, and comparison of every concurrent
// result with the sequentially pre-computed one.

func init() {
	register(&Check{
		ID:    "C18",
		Level: "exploration",
		Rule: "shared objects of every kind (Sign1, Untagged, COSE_Sign, Signature, Countersignature+parent, hash envelope, COSE_Key, header buckets) x all 7 algorithms, constructed (alg spelt as Algorithm, int64 and int) and decoded: " +
			"sequential half - deep hash (exported+unexported fields, maps, slices with capacity tails, dynamic types) of message, headers, buffers, verifier and external data before/after Verify, MarshalCBOR, VerifyHashEnvelope, Countersignature.Verify, Key.Verifier/Signer/PublicKey/PrivateKey/MarshalCBOR; " +
			"concurrent half - 32 goroutines released by a barrier run mixed read-path operations on the shared objects, and one shared Signer signs distinct messages from all goroutines, in a child built with -race (GORACE=halt_on_error=0, reports de-duplicated by top frames); every result must equal the sequential one. Overlap is measured (operations that started while another operation on the same object was in flight); the run is inconclusive below 1000 overlapped operations. Distinct = (object kind, alg, decoded?, operation) observed overlapping.",
		Assume: []string{"the race detector only sees code both goroutines executed; happens-before analysis makes its verdict independent of exact timing"},
		Run:    runC18,
	})
	childModes["c18"] = c18child
	childModes["c18cold"] = c18coldChild
}

// c18object is one shared object with its read-path operations.
type c18object struct {
	name  string
	kind  string
	alg   string
	dec   bool
	ops   []c18op
	state func() []any // everything that must stay unchanged
}

type c18op struct {
	name string
	run  func() string // result rendered as a string (error text / hex of bytes)
}

func resErr(err error) string {
	if err == nil {
		return "ok"
	}
	return "err:" + err.Error()
}

func resBytes(b []byte, err error) string {
	if err != nil {
		return "err:" + err.Error()
	}
	return fmt.Sprintf("%x", b)
}

// c18objects builds the shared objects (deterministic in seed).
func c18objects(seed int64, keys *gen.KeyRing, n int) []*c18object {
	var out []*c18object
	r := mon.NewRand(uint64(seed)).Sub(201000)
	for i := 0; i < n; i++ {
		k := keys.Keys[i%7]
		if i%3 == 1 && k.KeyVerifier != nil {
			// signer / verifier obtained through COSE_Key
			k = &gen.AlgKey{Alg: k.Alg, Name: k.Name + "-viaKey", Priv: k.Priv, Pub: k.Pub, Signer: k.KeySigner, Verifier: k.KeyVerifier, KeySigner: k.KeySigner, KeyVerifier: k.KeyVerifier}
		}
		ext := gen.External(r)
		payload := gen.Payload(r, false)
		algSpell := (i / 7) % 3 // 0: Algorithm, 1: int64, 2: int
		mkHeaders := func(alg cose.Algorithm) cose.Headers {
			h := c01headers(r, alg, 1, 4, mon.Pick(r, 0, 0, 14, 240))
			if h.Protected == nil {
				h.Protected = cose.ProtectedHeader{}
			}
			if h.Unprotected == nil {
				h.Unprotected = cose.UnprotectedHeader{}
			}
			for key := range h.Protected {
				if nl, ok := refNorm(key); ok && nl == 1 {
					delete(h.Protected, key)
				}
			}
			switch algSpell {
			case 0:
				h.Protected[int64(1)] = alg
			case 1:
				h.Protected[int64(1)] = int64(alg)
			default:
				h.Protected[int64(1)] = int(alg)
			}
			return h
		}
		decoded := (i/21)%2 == 1
		if (i/42)%7 == 0 && i%7 == 5 && !decoded {
			// a hand-assembled message with zero-value Headers (nil maps, no alg): verifiable only with external data
			ext2 := []byte("external data")
			// (signed on a copy: the shared object itself has never been through any library call)
			signedCopy := &cose.Sign1Message{Payload: payload}
			m := &cose.Sign1Message{Payload: payload}
			if signedCopy.Sign(gen.Entropy, ext2, k.Signer) == nil {
				m.Signature = signedCopy.Signature
				o := &c18object{name: fmt.Sprintf("sign1-zero-headers-%d", i), kind: "sign1-nil-header-maps", alg: k.Name}
				o.state = func() []any { return []any{m, ext2, k.Verifier} }
				o.ops = []c18op{
					{"Verify", func() string { return resErr(m.Verify(ext2, k.Verifier)) }},
					{"Verify(no external)", func() string { return resErr(m.Verify(nil, k.Verifier)) }},
					{"MarshalCBOR", func() string { return resBytes(m.MarshalCBOR()) }},
					{"Untagged.Verify", func() string { return resErr((*cose.UntaggedSign1Message)(m).Verify(ext2, k.Verifier)) }},
				}
				out = append(out, o)
				continue
			}
		}
		if (i/42)%7 == 0 && i%7 == 4 && !decoded {
			// header values of Go types the encoders refuse (a countersignature stored by value, a list of
			// values, a typed map): refusing is fine, rewriting the caller's map into an accepted form is not
			m := &cose.Sign1Message{Headers: mkHeaders(k.Alg), Payload: payload, Signature: mon.FixedSig}
			byValue := cose.Countersignature{Headers: cose.Headers{Protected: cose.ProtectedHeader{int64(1): cose.AlgorithmES256}, Unprotected: cose.UnprotectedHeader{}}, Signature: []byte{1, 2, 3}}
			switch (i / 7) % 3 {
			case 0:
				m.Headers.Unprotected[int64(7)] = byValue
			case 1:
				m.Headers.Unprotected[int64(11)] = []cose.Countersignature{byValue}
			default:
				m.Headers.Unprotected[int64(15)] = map[string]any{"iss": "x"}
			}

			o := &c18object{name: fmt.Sprintf("sign1-refusable-header-value-%d", i), kind: "sign1-refusable-header-value", alg: k.Name}
			o.state = func() []any { return []any{m, k.Verifier} }
			o.ops = []c18op{
				{"MarshalCBOR", func() string { return resBytes(m.MarshalCBOR()) }},
				{"Verify", func() string { return resErr(m.Verify(nil, k.Verifier)) }},
				{"Untagged.MarshalCBOR", func() string { return resBytes((*cose.UntaggedSign1Message)(m).MarshalCBOR()) }},
				{"Headers.MarshalUnprotected", func() string { return resBytes(m.Headers.MarshalUnprotected()) }},
			}
			out = append(out, o)
			// a URL object where a text string is due (x5u), as a pointer and by value, in either bucket:
			// refused or not, it stays what the caller put there
			for ui := 0; ui < 4; ui++ {
				mu := &cose.Sign1Message{Headers: mkHeaders(k.Alg), Payload: payload, Signature: mon.FixedSig}
				u, _ := url.Parse("https://example.com/certs/chain.pem")
				var val any = u
				if ui%2 == 1 {
					val = *u
				}
				if ui < 2 {
					mu.Headers.Unprotected[int64(35)] = val
				} else {
					mu.Headers.Protected[int64(35)] = val
				}
				ou := &c18object{name: fmt.Sprintf("sign1-url-object-as-x5u-%d-%d", i, ui), kind: "sign1-url-object-as-x5u", alg: k.Name}
				ou.state = func() []any { return []any{mu, k.Verifier} }
				ou.ops = []c18op{
					{"MarshalCBOR", func() string { return resBytes(mu.MarshalCBOR()) }},
					{"Verify", func() string { return resErr(mu.Verify(nil, k.Verifier)) }},
					{"Headers.MarshalUnprotected", func() string { return resBytes(mu.Headers.MarshalUnprotected()) }},
					{"Headers.MarshalProtected", func() string { return resBytes(mu.Headers.MarshalProtected()) }},
				}
				out = append(out, ou)
			}
			continue
		}
		if (i/42)%7 == 0 && (i%7 == 6 || i%7 == 2) && !decoded {
			// a message assembled from raw header bytes only (as read from a store or another parser): the
			// parsed maps are nil, the bytes carry the algorithm; validly signed by the reference signer
			content := refcbor.Encode(refcbor.NMap(refcbor.NInt(1), refcbor.NInt(int64(k.Alg)), refcbor.NInt(4), refcbor.NBstr([]byte("kid"))))
			rawProt := refcbor.Encode(refcbor.NBstr(content))
			if k.Priv != nil {
				sig := gen.RefSign(k.Ref(), refcose.Sign1Structure(content, nil, payload))
				m := &cose.Sign1Message{Headers: cose.Headers{RawProtected: rawProt, RawUnprotected: []byte{0xa0}}, Payload: payload, Signature: sig}
				o := &c18object{name: fmt.Sprintf("sign1-raw-headers-only-%d", i), kind: "sign1-raw-headers-only", alg: k.Name}
				o.state = func() []any { return []any{m, k.Verifier} }
				o.ops = []c18op{
					{"Verify", func() string { return resErr(m.Verify(nil, k.Verifier)) }},
					{"Verify(external)", func() string { return resErr(m.Verify([]byte("x"), k.Verifier)) }},
					{"MarshalCBOR", func() string { return resBytes(m.MarshalCBOR()) }},
					{"Untagged.Verify", func() string { return resErr((*cose.UntaggedSign1Message)(m).Verify(nil, k.Verifier)) }},
					{"Headers.MarshalProtected", func() string { return resBytes(m.Headers.MarshalProtected()) }},
				}
				out = append(out, o)
				// the same with a slip of the caller: RawProtected holds the serialized map itself instead of
				// the byte string wrapping it (and other things that are not one byte string). Whatever the
				// operations answer, they answer it without rewriting the shared message.
				for bi, badRaw := range [][]byte{content, append(append([]byte{}, rawProt...), 0xa0), {0x40, 0x40}, rawProt[:len(rawProt)-1], append([]byte{0xd8, 0x18}, rawProt...)} {
					mb := &cose.Sign1Message{Headers: cose.Headers{RawProtected: append(make([]byte, 0, len(badRaw)+16), badRaw...), RawUnprotected: []byte{0xa0}}, Payload: payload, Signature: sig}
					ob := &c18object{name: fmt.Sprintf("sign1-raw-protected-not-one-bstr-%d-%d", i, bi), kind: "sign1-raw-protected-not-one-bstr", alg: k.Name}
					csb := &cose.Countersignature{Headers: cose.Headers{Protected: cose.ProtectedHeader{int64(1): k.Alg}}, Signature: mon.FixedSig}
					ob.state = func() []any { return []any{mb, csb, k.Verifier} }
					ob.ops = []c18op{
						{"Verify", func() string { return resErr(mb.Verify(nil, k.Verifier)) }},
						{"MarshalCBOR", func() string { return resBytes(mb.MarshalCBOR()) }},
						{"Untagged.Verify", func() string { return resErr((*cose.UntaggedSign1Message)(mb).Verify(nil, k.Verifier)) }},
						{"Headers.MarshalProtected", func() string { return resBytes(mb.Headers.MarshalProtected()) }},
						{"Countersignature.Verify(as parent)", func() string { return resErr(csb.Verify(k.Verifier, mb, nil)) }},
					}
					out = append(out, ob)
				}
				continue
			}
		}
		switch (i / 42) % 7 {
		case 0: // Sign1 / Untagged
			m := &cose.Sign1Message{Headers: mkHeaders(k.Alg), Payload: payload}
			if err := m.Sign(gen.Entropy, ext, k.Signer); err != nil {
				continue
			}
			if decoded {
				b, _ := m.MarshalCBOR()
				if (i/7)%2 == 1 {
					// a peer's encoding: non-shortest protected bstr head, non-canonical inner map,
					// signed by the reference signer over exactly those bytes
					a := int64(k.Alg)
					wm := &gen.WSign1{L: gen.RandLayer(r, gen.LayerOpts{Alg: &a, MaxProt: 4, MaxUnprot: 2, ScramblePct: 70}), Payload: payload, Tagged: true}
					wm.L.ProtWidth = mon.Pick(r, 2, 3, 5, 9)
					wm.Sig = gen.RefSign(k.Ref(), wm.TBS(ext, payload))
					b = wm.Bytes()
				}
				d := &cose.Sign1Message{}
				if d.UnmarshalCBOR(b) != nil {
					continue
				}
				m = d
				if (i/14)%3 == 1 {
					// the application attached something to the parsed unprotected map after decoding and left the
					// retained raw bytes alone (which therefore still win on encoding): a countersignature holder,
					// an abbreviated countersignature, a kid
					if m.Headers.Unprotected == nil {
						m.Headers.Unprotected = cose.UnprotectedHeader{}
					}
					switch (i / 42) % 3 {
					case 0:
						m.Headers.Unprotected[int64(11)] = &cose.Countersignature{Headers: cose.Headers{Protected: cose.ProtectedHeader{int64(1): cose.AlgorithmES256}, Unprotected: cose.UnprotectedHeader{}}, Signature: []byte{1, 2, 3}}
					case 1:
						m.Headers.Unprotected[int64(12)] = []byte{1, 2, 3}
					default:
						m.Headers.Unprotected[int64(4)] = []byte("added later")
					}
				}
			}
			o := &c18object{name: fmt.Sprintf("sign1-%d", i), kind: "sign1", alg: k.Name, dec: decoded}
			o.state = func() []any { return []any{m, ext, k.Verifier} }
			o.ops = []c18op{
				{"Verify", func() string { return resErr(m.Verify(ext, k.Verifier)) }},
				{"MarshalCBOR", func() string { return resBytes(m.MarshalCBOR()) }},
				{"Untagged.Verify", func() string { return resErr((*cose.UntaggedSign1Message)(m).Verify(ext, k.Verifier)) }},
				{"Untagged.MarshalCBOR", func() string { return resBytes((*cose.UntaggedSign1Message)(m).MarshalCBOR()) }},
				{"Verify(wrong external)", func() string { return resErr(m.Verify([]byte("other"), k.Verifier)) }},
				{"Headers.MarshalProtected", func() string { return resBytes(m.Headers.MarshalProtected()) }},
				{"Protected.MarshalCBOR", func() string { return resBytes(m.Headers.Protected.MarshalCBOR()) }},
				{"Unprotected.MarshalCBOR", func() string { return resBytes(m.Headers.Unprotected.MarshalCBOR()) }},
				{"Protected.Algorithm", func() string { a, err := m.Headers.Protected.Algorithm(); return fmt.Sprint(a, err) }},
				{"VerifyCountersign0(garbage)", func() string { return resErr(cose.VerifyCountersign0(k.Verifier, m, ext, mon.FixedSig)) }},
			}
			out = append(out, o)
		case 1: // COSE_Sign
			k2 := keys.Keys[(i+3)%4]
			m := &cose.SignMessage{Headers: c01headers(r, 0, 1, 3, 0), Payload: payload}
			delete(m.Headers.Protected, int64(1))
			m.Signatures = []*cose.Signature{{Headers: mkHeaders(k.Alg)}, {Headers: c01headers(r, k2.Alg, 0, 2, 0)}}
			if err := m.Sign(gen.Entropy, ext, k.Signer, k2.Signer); err != nil {
				continue
			}
			if decoded {
				b, _ := m.MarshalCBOR()
				if (i/7)%2 == 1 {
					// re-head every protected bstr non-minimally (signatures stay valid: only the prefix width changes)
					if t, err := gen.ParseTree(b); err == nil {
						body := t.Root.Kids[0]
						body.Kids[0].Width = mon.Pick(r, 2, 3, 5)
						for _, g := range body.Kids[3].Kids {
							g.Kids[0].Width = mon.Pick(r, 2, 3, 9)
						}
						b = t.Seal()
					}
				}
				d := &cose.SignMessage{}
				if d.UnmarshalCBOR(b) != nil {
					continue
				}
				m = d
			}
			bp, _ := m.Headers.MarshalProtected()
			o := &c18object{name: fmt.Sprintf("sign-%d", i), kind: "sign", alg: k.Name, dec: decoded}
			o.state = func() []any { return []any{m, ext, k.Verifier, k2.Verifier, bp} }
			o.ops = []c18op{
				{"Verify", func() string { return resErr(m.Verify(ext, k.Verifier, k2.Verifier)) }},
				{"MarshalCBOR", func() string { return resBytes(m.MarshalCBOR()) }},
				{"Signature[0].Verify", func() string { return resErr(m.Signatures[0].Verify(k.Verifier, bp, m.Payload, ext)) }},
				{"Signature[1].MarshalCBOR", func() string { return resBytes(m.Signatures[1].MarshalCBOR()) }},
				{"Verify(verifiers swapped)", func() string { return resErr(m.Verify(ext, k2.Verifier, k.Verifier)) }},
			}
			out = append(out, o)
		case 2: // countersignature + parent
			pk := keys.Keys[(i+1)%4]
			parent := &cose.Sign1Message{Headers: c01headers(r, pk.Alg, 0, 3, 0), Payload: payload}
			if parent.Headers.Unprotected == nil {
				parent.Headers.Unprotected = cose.UnprotectedHeader{}
			}
			if parent.Sign(gen.Entropy, nil, pk.Signer) != nil {
				continue
			}
			cs := &cose.Countersignature{Headers: mkHeaders(k.Alg)}
			if cs.Sign(gen.Entropy, k.Signer, parent, ext) != nil {
				continue
			}
			sig0, err := cose.Countersign0(gen.Entropy, k.Signer, parent, ext)
			if err != nil {
				continue
			}
			if decoded {
				parent.Headers.Unprotected[int64(11)] = cs
				b, _ := parent.MarshalCBOR()
				if (i/7)%2 == 1 {
					if t, err := gen.ParseTree(b); err == nil {
						body := t.Root.Kids[0]
						body.Kids[0].Width = mon.Pick(r, 2, 3, 5)
						for x := 0; x+1 < len(body.Kids[1].Kids); x += 2 {
							if l, ok := body.Kids[1].Kids[x].Int64(); ok && l == 11 {
								body.Kids[1].Kids[x+1].Kids[0].Width = mon.Pick(r, 2, 3, 9)
							}
						}
						b = t.Seal()
					}
				}
				d := &cose.Sign1Message{}
				if d.UnmarshalCBOR(b) != nil {
					continue
				}
				parent = d
				cs = d.Headers.Unprotected[int64(11)].(*cose.Countersignature)
			}
			o := &c18object{name: fmt.Sprintf("countersig-%d", i), kind: "countersignature", alg: k.Name, dec: decoded}
			o.state = func() []any { return []any{parent, cs, ext, k.Verifier, sig0} }
			o.ops = []c18op{
				{"Countersignature.Verify(ptr parent)", func() string { return resErr(cs.Verify(k.Verifier, parent, ext)) }},
				{"Countersignature.Verify(value parent)", func() string { return resErr(cs.Verify(k.Verifier, *parent, ext)) }},
				{"Countersignature.MarshalCBOR", func() string { return resBytes(cs.MarshalCBOR()) }},
				{"VerifyCountersign0", func() string { return resErr(cose.VerifyCountersign0(k.Verifier, parent, ext, sig0)) }},
				{"parent.MarshalCBOR", func() string { return resBytes(parent.MarshalCBOR()) }},
				{"parent.Verify", func() string { return resErr(parent.Verify(nil, pk.Verifier)) }},
			}
			out = append(out, o)
		case 3: // hash envelope
			h := mkHeaders(k.Alg)
			for _, mm := range []map[any]any{h.Protected, h.Unprotected} {
				for key := range mm {
					if nl, ok := refNorm(key); ok && (nl == 3 || nl == 2) {
						delete(mm, key)
					}
				}
			}
			env, err := cose.SignHashEnvelope(gen.Entropy, k.Signer, h, cose.HashEnvelopePayload{HashAlgorithm: cose.AlgorithmSHA256, HashValue: r.Bytes(32), Location: "loc"})
			if err != nil {
				continue
			}
			o := &c18object{name: fmt.Sprintf("hashenv-%d", i), kind: "hash-envelope", alg: k.Name, dec: true}
			o.state = func() []any { return []any{env, k.Verifier} }
			o.ops = []c18op{
				{"VerifyHashEnvelope", func() string {
					m, err := cose.VerifyHashEnvelope(k.Verifier, env)
					if err != nil {
						return "err:" + err.Error()
					}
					return resBytes(m.MarshalCBOR())
				}},
				{"Sign1Message.UnmarshalCBOR(shared bytes)", func() string { var d cose.Sign1Message; return resErr(d.UnmarshalCBOR(env)) }},
			}
			out = append(out, o)
		case 4: // COSE_Key
			if k.KeySigner == nil {
				continue
			}
			ck, err := cose.NewKeyFromPrivate(k.Priv)
			if err != nil {
				continue
			}
			ck.ID = []byte("kid")
			if i%7 == 2 || i%7 == 3 {
				// application-defined / named byte-slice types as parameter values
				for _, l := range []int64{-2, -3, -4} {
					if b, ok := ck.Params[l].([]byte); ok {
						if l == -2 {
							ck.Params[l] = ed25519.PublicKey(b)
						} else {
							ck.Params[l] = namedBytes(b)
						}
					}
				}
			}
			if (i/7)%2 == 1 {
				ck.Algorithm = cose.AlgorithmReserved // no alg parameter: the algorithm is derived from the curve on every use
			}
			if !decoded && (i/14)%2 == 1 {
				// a hand-assembled key: the curve given as a plain Go integer, not as a cose.Curve
				for _, l := range []any{int64(-1)} {
					if cv, ok := ck.Params[l].(cose.Curve); ok {
						if (i/28)%2 == 0 {
							ck.Params[l] = int64(cv)
						} else {
							ck.Params[l] = int(cv)
						}
					}
				}
			}
			if !decoded && (i/14)%2 == 0 {
				// a hand-assembled key whose parameter LABELS are plain Go ints (or other integer spellings):
				// whether such a key is usable or refused, using it does not rewrite the caller's map
				np := make(map[any]any, len(ck.Params))
				for l, v := range ck.Params {
					if li, ok := l.(int64); ok {
						switch (i / 56) % 3 {
						case 0:
							np[int(li)] = v
						case 1:
							np[int32(li)] = v
						default:
							np[int8(li)] = v
						}
					} else {
						np[l] = v
					}
				}
				ck.Params = np
			}
			if decoded {
				b, _ := ck.MarshalCBOR()
				d := &cose.Key{}
				if d.UnmarshalCBOR(b) != nil {
					continue
				}
				ck = d
			}
			msg := r.Bytes(20)
			// (the signature is made with the ring's signer: the shared Key object stays untouched until
			// the monitored operations run)
			sig, _ := k.KeySigner.Sign(gen.Entropy, msg)
			o := &c18object{name: fmt.Sprintf("key-%d", i), kind: "key", alg: k.Name, dec: decoded}
			o.state = func() []any { return []any{ck, msg, sig} }
			o.ops = []c18op{
				{"Key.MarshalCBOR", func() string { return resBytes(ck.MarshalCBOR()) }},
				{"Key.Verifier+Verify", func() string {
					v, err := ck.Verifier()
					if err != nil {
						return "err:" + err.Error()
					}
					return resErr(v.Verify(msg, sig))
				}},
				{"Key.Signer", func() string { _, err := ck.Signer(); return resErr(err) }},
				{"Key.PublicKey", func() string { p, err := ck.PublicKey(); return fmt.Sprintf("%v %v", p, err) }},
				{"Key.PrivateKey", func() string { _, err := ck.PrivateKey(); return resErr(err) }},
				{"Key.AlgorithmOrDefault", func() string { a, err := ck.AlgorithmOrDefault(); return fmt.Sprint(a, err) }},
				{"Key.accessors", func() string {
					c, x, y, d := ck.EC2()
					c2, x2, d2 := ck.OKP()
					return fmt.Sprintf("%v %x %x %x %v %x %x", c, x, y, d, c2, x2, d2)
				}},
			}
			out = append(out, o)
		case 6: // a deep chain of countersignatures: each one countersigns the previous one
			parent := &cose.Sign1Message{Headers: mkHeaders(k.Alg), Payload: payload}
			if parent.Sign(gen.Entropy, nil, k.Signer) != nil {
				continue
			}
			depth := 6 + r.Intn(5)
			chain := make([]*cose.Countersignature, depth)
			var target any = parent
			okChain := true
			for d := 0; d < depth; d++ {
				kk := keys.Keys[(i+d)%4]
				cs := &cose.Countersignature{Headers: cose.Headers{Protected: cose.ProtectedHeader{int64(1): kk.Alg}, Unprotected: cose.UnprotectedHeader{}}}
				if cs.Sign(gen.Entropy, kk.Signer, target, nil) != nil {
					okChain = false
					break
				}
				chain[d] = cs
				target = cs
			}
			if !okChain {
				continue
			}
			for d := depth - 1; d > 0; d-- {
				chain[d-1].Headers.Unprotected[int64(11)] = chain[d]
			}
			parent.Headers.Unprotected[int64(11)] = chain[0]
			if decoded {
				b, err := parent.MarshalCBOR()
				if err != nil {
					continue
				}
				d := &cose.Sign1Message{}
				if d.UnmarshalCBOR(b) != nil {
					continue
				}
				parent = d
				cur, _ := d.Headers.Unprotected[int64(11)].(*cose.Countersignature)
				for x := 0; x < depth && cur != nil; x++ {
					chain[x] = cur
					cur, _ = cur.Headers.Unprotected[int64(11)].(*cose.Countersignature)
				}
			}
			o := &c18object{name: fmt.Sprintf("chain-%d", i), kind: fmt.Sprintf("countersignature-chain-depth-%d", depth), alg: k.Name, dec: decoded}
			o.state = func() []any { return []any{parent} }
			last := chain[depth-1]
			lastKey := keys.Keys[(i+depth-1)%4]
			mid := chain[depth/2]
			o.ops = []c18op{
				{"parent.MarshalCBOR(deep)", func() string { return resBytes(parent.MarshalCBOR()) }},
				{"parent.Verify", func() string { return resErr(parent.Verify(nil, k.Verifier)) }},
				{"chain[0].MarshalCBOR(deep)", func() string { return resBytes(chain[0].MarshalCBOR()) }},
				{"chain[mid].MarshalCBOR", func() string { return resBytes(mid.MarshalCBOR()) }},
				{"chain[last].Verify(over previous)", func() string { return resErr(last.Verify(lastKey.Verifier, chain[depth-2], nil)) }},
				{"chain[0].Verify(over parent)", func() string { return resErr(chain[0].Verify(keys.Keys[i%4].Verifier, parent, nil)) }},
			}
			out = append(out, o)
		default: // stand-alone Signature
			body := []byte{0x40}
			s := &cose.Signature{Headers: mkHeaders(k.Alg)}
			if s.Sign(gen.Entropy, k.Signer, body, payload, ext) != nil {
				continue
			}
			if decoded {
				b, _ := s.MarshalCBOR()
				d := &cose.Signature{}
				if d.UnmarshalCBOR(b) != nil {
					continue
				}
				s = d
			}
			o := &c18object{name: fmt.Sprintf("signature-%d", i), kind: "signature", alg: k.Name, dec: decoded}
			o.state = func() []any { return []any{s, body, payload, ext, k.Verifier} }
			o.ops = []c18op{
				{"Signature.Verify", func() string { return resErr(s.Verify(k.Verifier, body, payload, ext)) }},
				{"Signature.MarshalCBOR", func() string { return resBytes(s.MarshalCBOR()) }},
				{"Countersign0(over it, spy)", func() string {
					_, err := cose.Countersign0(gen.Entropy, &mon.SpySigner{Alg: k.Alg}, s, ext)
					return resErr(err)
				}},
			}
			out = append(out, o)
		}
	}
	// keys whose x or y lost a leading zero octet (Go's big integers drop it), with the trimmed coordinates held
	// in slices that have spare capacity - as they do when they are sub-slices of a larger buffer: encoding pads
	// them to the field size, and must do so in memory of its own
	rk := mon.NewRand(uint64(seed)).Sub(18500)
	for ci, cv := range []elliptic.Curve{elliptic.P256(), elliptic.P384(), elliptic.P521()} {
		alg := []cose.Algorithm{cose.AlgorithmES256, cose.AlgorithmES384, cose.AlgorithmES512}[ci]
		for coord := 0; coord < 2; coord++ {
			priv := c14search(cv, rk, coord, 1, 200000, 1)
			if priv == nil {
				continue
			}
			ck, err := cose.NewKeyFromPrivate(priv)
			if err != nil {
				continue
			}
			for _, l := range []int64{-2, -3, -4} {
				if b, ok := ck.Params[l].([]byte); ok {
					nb := make([]byte, len(b), len(b)+80)
					copy(nb, b)
					ck.Params[l] = nb
				}
			}
			signer, err := cose.NewSigner(alg, priv)
			if err != nil {
				continue
			}
			msg := rk.Bytes(20)
			sig, _ := signer.Sign(gen.Entropy, msg)
			o := &c18object{name: fmt.Sprintf("key-short-%s-coord%d", cv.Params().Name, coord), kind: "key", alg: fmt.Sprint(alg), dec: false}
			o.state = func() []any { return []any{ck, msg, sig} }
			o.ops = []c18op{
				{"Key.MarshalCBOR", func() string { return resBytes(ck.MarshalCBOR()) }},
				{"Key.Verifier+Verify", func() string {
					v, err := ck.Verifier()
					if err != nil {
						return "err:" + err.Error()
					}
					return resErr(v.Verify(msg, sig))
				}},
				{"Key.PublicKey", func() string { p, err := ck.PublicKey(); return fmt.Sprintf("%v %v", p, err) }},
				{"Key.Signer", func() string { _, err := ck.Signer(); return resErr(err) }},
			}
			out = append(out, o)
		}
	}
	return out
}

type c18report struct {
	Ops        int64             `json:"ops"`
	Overlapped int64             `json:"overlapped"`
	Classes    map[string]int64  `json:"classes"`
	Mismatches []json.RawMessage `json:"mismatches"`
	SignerOps  int64             `json:"signer_ops"`
	Objects    int               `json:"objects"`
}

func runC18(c *Ctx) {
	rec := c.Rec
	nObj := c.N(294, 1470)
	objs := c18objects(c.Seed, c.Keys, nObj)
	rec.Extra("shared_objects", len(objs))
	rec.MaxSamples = 12

	// ---------- sequential half: snapshots around every read-path call ----------
	for _, o := range objs {
		for _, op := range o.ops {
			in := map[string]any{"object": o.name, "kind": o.kind, "alg": o.alg, "decoded": o.dec, "op": op.name}
			before := mon.DeepHash(o.state()...)
			var res1, res2 string
			if guard(rec, op.name, in, func() { res1 = op.run(); res2 = op.run() }) {
				continue
			}
			rec.Eval(1)
			rec.Event("sequential:" + o.kind)
			rec.Class(fmt.Sprintf("sequential/%s/%s/decoded=%v/%s", o.kind, o.alg, o.dec, op.name))
			if mon.DeepHash(o.state()...) != before {
				rec.Violate("read-path-mutates", o.kind+"/"+op.name, "a read-path operation modified the message, its headers, buffers, external data or the verifier", in)
			}
			deterministic := !strings.Contains(op.name, "Signer") && !strings.Contains(op.name, "Countersign0(")
			if deterministic && res1 != res2 {
				rec.Violate("read-path-unstable", o.kind+"/"+op.name, "the same read-path operation returned two different results in a row", in)
			}
		}
	}

	// ---------- concurrent half: child built with -race ----------
	raceBin := os.Getenv("VCHECK_RACE_BIN")
	if _, err := os.Stat(raceBin); raceBin == "" || err != nil {
		rec.HarnessError("C18: race-detector binary not built (VCHECK_RACE_BIN)")
		return
	}
	dir, err := os.MkdirTemp("", "verif-c18-")
	if err != nil {
		rec.HarnessError("C18: " + err.Error())
		return
	}
	defer os.RemoveAll(dir)
	rounds := c.N(1, 3)
	var total c18report
	total.Classes = map[string]int64{}
	raceBlocks := 0
	raceSeen := map[string]string{}
	for round := 0; round < rounds; round++ {
		logBase := filepath.Join(dir, fmt.Sprintf("race-%d", round))
		outPath := filepath.Join(dir, fmt.Sprintf("report-%d.json", round))
		cmd := exec.Command(raceBin, "child", "c18", strconv.FormatInt(c.Seed+int64(round)*1000, 10), strconv.Itoa(nObj), strconv.Itoa(c.N(40, 100)), outPath)
		cmd.Env = append(os.Environ(), "GORACE=halt_on_error=0 log_path="+logBase+" history_size=3", "GOTRACEBACK=all")
		var stderr bytes.Buffer
		cmd.Stdout = &stderr
		cmd.Stderr = &stderr
		runErr := cmd.Run()
		// race logs
		logs, _ := filepath.Glob(logBase + "*")
		for _, lp := range logs {
			b, _ := os.ReadFile(lp)
			blocks := strings.Split(string(b), "==================")
			for _, blk := range blocks {
				if !strings.Contains(blk, "WARNING: DATA RACE") {
					continue
				}
				raceBlocks++
				key := raceKey(blk)
				if _, ok := raceSeen[key]; !ok {
					raceSeen[key] = blk
				}
			}
		}
		if runErr != nil {
			msg := stderr.String()
			if strings.Contains(msg, "concurrent map") || strings.Contains(msg, "fatal error") {
				rec.Violate("runtime-abort", firstLines(msg, 1), "the runtime aborted the concurrent workload: "+firstLines(msg, 30), map[string]any{"round": round})
			} else if len(raceSeen) == 0 {
				rec.HarnessError("C18: race child failed: " + runErr.Error() + "\n" + firstLines(msg, 20))
			}
			if _, err := os.Stat(outPath); err != nil {
				continue
			}
		}
		var rep c18report
		b, err := os.ReadFile(outPath)
		if err != nil || json.Unmarshal(b, &rep) != nil {
			rec.HarnessError("C18: no report from the race child")
			continue
		}
		total.Ops += rep.Ops
		total.Overlapped += rep.Overlapped
		total.SignerOps += rep.SignerOps
		for k, v := range rep.Classes {
			total.Classes[k] += v
		}
		for _, m := range rep.Mismatches {
			var mm map[string]any
			_ = json.Unmarshal(m, &mm)
			rec.Violate("concurrent-result-differs", fmt.Sprint(mm["kind"], "/", mm["op"]), fmt.Sprintf("a concurrent call returned %v, sequential execution returns %v", mm["got"], mm["want"]), mm)
		}
	}
	// ---------- cold start: the FIRST use of the library in a fresh process is concurrent ----------
	// (lazily built package state would race here and nowhere else: every other part of this check has
	//  used the library sequentially before its goroutines start)
	coldRuns := c.N(6, 30)
	for cr := 0; cr < coldRuns; cr++ {
		logBase := filepath.Join(dir, fmt.Sprintf("cold-%d", cr))
		cmd := exec.Command(raceBin, "child", "c18cold", strconv.FormatInt(c.Seed+int64(cr), 10))
		cmd.Env = append(os.Environ(), "GORACE=halt_on_error=0 log_path="+logBase+" history_size=3", "GOTRACEBACK=all")
		var out bytes.Buffer
		cmd.Stdout = &out
		cmd.Stderr = &out
		runErr := cmd.Run()
		logs, _ := filepath.Glob(logBase + "*")
		for _, lp := range logs {
			b, _ := os.ReadFile(lp)
			for _, blk := range strings.Split(string(b), "==================") {
				if !strings.Contains(blk, "WARNING: DATA RACE") {
					continue
				}
				raceBlocks++
				key := "cold-start: " + raceKey(blk)
				if _, ok := raceSeen[key]; !ok {
					raceSeen[key] = blk
				}
			}
		}
		rec.Event("cold-start-runs")
		if strings.Contains(out.String(), "COLD-MISMATCH") {
			rec.Violate("concurrent-result-differs", "cold-start", "an operation that is the process's first use of the library gave a wrong result: "+firstLines(out.String(), 5), map[string]any{"run": cr})
		} else if runErr != nil && len(logs) == 0 {
			if strings.Contains(out.String(), "fatal error") || strings.Contains(out.String(), "panic") {
				rec.Violate("runtime-abort", "cold-start", "the cold-start workload crashed: "+firstLines(out.String(), 30), map[string]any{"run": cr})
			} else {
				rec.HarnessError("C18: cold-start child failed: " + runErr.Error() + "\n" + firstLines(out.String(), 10))
			}
		}
	}
	rec.Require("cold-start-runs", 3)
	keys := make([]string, 0, len(raceSeen))
	for k := range raceSeen {
		keys = append(keys, k)
	}
	sort.Strings(keys)
	for _, k := range keys {
		rec.Violate("data-race", k, "the race detector reported a data race:\n"+firstLines(raceSeen[k], 40), map[string]any{"report": firstLines(raceSeen[k], 60)})
	}
	rec.Eval(int(total.Ops))
	rec.EventN("concurrent-ops", int(total.Ops))
	rec.EventN("concurrent-ops-overlapped", int(total.Overlapped))
	rec.EventN("shared-signer-signatures", int(total.SignerOps))
	for k := range total.Classes {
		rec.Class("concurrent/" + k)
	}
	rec.Extra("race_reports", map[string]int{"blocks": raceBlocks, "distinct": len(raceSeen)})
	rec.Require("concurrent-ops-overlapped", 1000)
	rec.Require("shared-signer-signatures", 200)
	rec.RequireClasses(100)
	seenKind := map[string]bool{}
	for _, o := range objs {
		key := fmt.Sprintf("%s/decoded=%v", o.kind, o.dec)
		if seenKind[key] {
			continue
		}
		seenKind[key] = true
		var ops []string
		for _, op := range o.ops {
			ops = append(ops, op.name+" -> "+clip(op.run()))
		}
		rec.Sample("shared-object/"+key, map[string]any{"object": o.name, "alg": o.alg, "operations_and_sequential_results": ops})
	}
}

var frameRe = regexp.MustCompile(`(?m)^  (\S+)\(\)\s*$`)

// raceKey de-duplicates race reports by the top frames of both accesses.
func raceKey(blk string) string {
	parts := strings.Split(blk, "Previous ")
	tops := []string{}
	for _, p := range parts {
		if m := frameRe.FindStringSubmatch(p); m != nil {
			tops = append(tops, m[1])
		}
		if len(tops) == 2 {
			break
		}
	}
	sort.Strings(tops)
	return strings.Join(tops, " <-> ")
}

// ------------------------------------------------------------------ child --

func c18child(args []string) int {
	if len(args) < 4 {
		return 3
	}
	seed, _ := strconv.ParseInt(args[0], 10, 64)
	nObj, _ := strconv.Atoi(args[1])
	opsPer, _ := strconv.Atoi(args[2])
	keys, err := gen.NewKeyRing(mon.NewRand(uint64(seed)).Sub(1))
	if err != nil {
		fmt.Println("child c18: key ring:", err)
		return 3
	}
	objs := c18objects(seed, keys, nObj)
	// sequential results first
	want := make([][]string, len(objs))
	for i, o := range objs {
		want[i] = make([]string, len(o.ops))
		for j, op := range o.ops {
			want[i][j] = op.run()
		}
	}
	const G = 32
	rep := c18report{Classes: map[string]int64{}, Objects: len(objs)}
	var mu sync.Mutex
	inflight := make([]atomic.Int64, len(objs))
	var ops, overlapped, signerOps atomic.Int64
	// groups of objects are hammered together so that the same object is hit by many goroutines
	group := 6
	for base := 0; base < len(objs); base += group {
		end := base + group
		if end > len(objs) {
			end = len(objs)
		}
		set := objs[base:end]
		var start, done sync.WaitGroup
		start.Add(1)
		for g := 0; g < G; g++ {
			done.Add(1)
			go func(g int) {
				defer done.Done()
				r := mon.NewRand(uint64(seed)).Sub(uint64(202000 + base*100 + g))
				start.Wait()
				for n := 0; n < opsPer; n++ {
					oi := r.Intn(len(set))
					o := set[oi]
					j := r.Intn(len(o.ops))
					if inflight[base+oi].Add(1) > 1 {
						overlapped.Add(1)
						mu.Lock()
						rep.Classes[fmt.Sprintf("%s/%s/decoded=%v/%s", o.kind, o.alg, o.dec, o.ops[j].name)]++
						mu.Unlock()
					}
					got := o.ops[j].run()
					inflight[base+oi].Add(-1)
					ops.Add(1)
					deterministic := !strings.Contains(o.ops[j].name, "Signer") && !strings.Contains(o.ops[j].name, "Countersign0(")
					if deterministic && got != want[base+oi][j] {
						b, _ := json.Marshal(map[string]any{"object": o.name, "kind": o.kind, "alg": o.alg, "decoded": o.dec, "op": o.ops[j].name, "got": clip(got), "want": clip(want[base+oi][j])})
						mu.Lock()
						if len(rep.Mismatches) < 20 {
							rep.Mismatches = append(rep.Mismatches, b)
						}
						mu.Unlock()
					}
				}
			}(g)
		}
		start.Done()
		done.Wait()
	}
	// one shared Signer (per algorithm) signing distinct messages from all goroutines
	for _, k := range keys.Keys {
		for _, signer := range []cose.Signer{k.Signer, k.KeySigner} {
			if signer == nil {
				continue
			}
			var start, done sync.WaitGroup
			start.Add(1)
			per := 6
			if k.Alg == cose.AlgorithmPS384 || k.Alg == cose.AlgorithmES512 {
				per = 3
			}
			for g := 0; g < G; g++ {
				done.Add(1)
				go func(g int) {
					defer done.Done()
					start.Wait()
					for n := 0; n < per; n++ {
						m := &cose.Sign1Message{Headers: cose.Headers{Protected: cose.ProtectedHeader{int64(1): k.Alg}, Unprotected: cose.UnprotectedHeader{}}, Payload: []byte(fmt.Sprintf("message %d/%d", g, n))}
						err := m.Sign(gen.Entropy, nil, signer)
						if err == nil {
							err = m.Verify(nil, k.Verifier)
						}
						signerOps.Add(1)
						if err != nil {
							b, _ := json.Marshal(map[string]any{"object": "shared-signer", "kind": "signer", "alg": k.Name, "op": "Sign distinct messages", "got": err.Error(), "want": "valid signature"})
							mu.Lock()
							if len(rep.Mismatches) < 20 {
								rep.Mismatches = append(rep.Mismatches, b)
							}
							mu.Unlock()
						} else {
							// wire form is well-formed
							if out, e := m.MarshalCBOR(); e != nil || func() bool { _, pe := refcbor.Parse(out); return pe != nil }() {
								mu.Lock()
								rep.Mismatches = append(rep.Mismatches, json.RawMessage(`{"object":"shared-signer","op":"MarshalCBOR","got":"unencodable","want":"ok"}`))
								mu.Unlock()
							}
						}
					}
				}(g)
			}
			start.Done()
			done.Wait()
		}
	}
	// one header TEMPLATE (maps shared, alg label spelt as a Go int) used by all goroutines for the Sign
	// helpers, with the matching signer and with a signer of another algorithm: the template is read-only,
	// the matching calls succeed and verify, the mismatching ones are refused - every time
	for _, k := range keys.Keys[:4] {
		other := keys.Keys[(indexOfKey(keys, k)+1)%4]
		template := cose.Headers{Protected: cose.ProtectedHeader{int(1): k.Alg, int64(4): []byte("kid")}, Unprotected: cose.UnprotectedHeader{"note": "shared template"}}
		before := mon.DeepHash(template)
		var start, done sync.WaitGroup
		start.Add(1)
		for g := 0; g < G; g++ {
			done.Add(1)
			go func(g int) {
				defer done.Done()
				start.Wait()
				for n := 0; n < 4; n++ {
					payload := []byte(fmt.Sprintf("template %d/%d", g, n))
					var problem string
					if (g+n)%3 == 0 {
						if _, err := cose.Sign1(gen.Entropy, other.Signer, template, payload, nil); !errors.Is(err, cose.ErrAlgorithmMismatch) {
							problem = fmt.Sprintf("a signer of %s was not refused for a template naming %s: %v", other.Name, k.Name, err)
						}
					} else {
						out, err := cose.Sign1(gen.Entropy, k.Signer, template, payload, nil)
						var d cose.Sign1Message
						if err != nil {
							problem = "Sign1 failed: " + err.Error()
						} else if e := d.UnmarshalCBOR(out); e != nil {
							problem = "own output refused: " + e.Error()
						} else if e := d.Verify(nil, k.Verifier); e != nil {
							problem = "own output does not verify: " + e.Error()
						}
					}
					signerOps.Add(1)
					if problem != "" {
						b, _ := json.Marshal(map[string]any{"object": "shared-header-template", "kind": "template", "alg": k.Name, "op": "Sign1 from a shared template", "got": problem, "want": "ok / ErrAlgorithmMismatch"})
						mu.Lock()
						if len(rep.Mismatches) < 20 {
							rep.Mismatches = append(rep.Mismatches, b)
						}
						mu.Unlock()
					}
				}
			}(g)
		}
		start.Done()
		done.Wait()
		if mon.DeepHash(template) != before {
			rep.Mismatches = append(rep.Mismatches, json.RawMessage(`{"object":"shared-header-template","op":"Sign1","got":"the caller's header template was modified","want":"unchanged"}`))
		}
	}
	// RSA keys assembled from raw components (n, e, d, p, q - as from a JWK or an HSM export) and never
	// precomputed: the shared signer must treat the caller's key as read-only
	for _, alg := range []cose.Algorithm{cose.AlgorithmPS256, cose.AlgorithmPS384, cose.AlgorithmPS512} {
		src := testkeys.RSA(2048)
		raw := &rsa.PrivateKey{PublicKey: rsa.PublicKey{N: new(big.Int).Set(src.N), E: src.E}, D: new(big.Int).Set(src.D),
			Primes: []*big.Int{new(big.Int).Set(src.Primes[0]), new(big.Int).Set(src.Primes[1])}}
		signer, e1 := cose.NewSigner(alg, raw)
		verifier, e2 := cose.NewVerifier(alg, &raw.PublicKey)
		if e1 != nil || e2 != nil {
			rep.Mismatches = append(rep.Mismatches, json.RawMessage(`{"object":"raw-rsa-key","op":"NewSigner/NewVerifier","got":"refused","want":"ok"}`))
			continue
		}
		before := mon.DeepHash(raw)
		var start, done sync.WaitGroup
		start.Add(1)
		for g := 0; g < G; g++ {
			done.Add(1)
			go func(g int) {
				defer done.Done()
				start.Wait()
				for n := 0; n < 2; n++ {
					msg := []byte(fmt.Sprintf("raw rsa %d/%d", g, n))
					sig, err := signer.Sign(gen.Entropy, msg)
					if err == nil {
						err = verifier.Verify(msg, sig)
					}
					signerOps.Add(1)
					if err != nil {
						b, _ := json.Marshal(map[string]any{"object": "raw-rsa-key", "kind": "signer", "alg": alg.String(), "op": "Sign distinct messages", "got": err.Error(), "want": "valid signature"})
						mu.Lock()
						if len(rep.Mismatches) < 20 {
							rep.Mismatches = append(rep.Mismatches, b)
						}
						mu.Unlock()
					}
				}
			}(g)
		}
		start.Done()
		done.Wait()
		if mon.DeepHash(raw) != before {
			rep.Mismatches = append(rep.Mismatches, json.RawMessage(`{"object":"raw-rsa-key","op":"Sign","got":"caller's key object modified","want":"unchanged"}`))
		}
	}
	rep.Ops, rep.Overlapped, rep.SignerOps = ops.Load(), overlapped.Load(), signerOps.Load()
	b, _ := json.Marshal(rep)
	f, err := os.Create(args[3])
	if err != nil {
		return 3
	}
	w := bufio.NewWriter(f)
	w.Write(b)
	w.Flush()
	f.Close()
	return 0
}

func clip(s string) string {
	if len(s) > 200 {
		return s[:200] + "..."
	}
	return s
}

// c18coldChild: nothing in this process touches the library before the barrier opens; the inputs are
// written and signed by the reference implementation with standard-library keys.
func c18coldChild(args []string) int {
	seed := int64(1)
	if len(args) > 0 {
		seed, _ = strconv.ParseInt(args[0], 10, 64)
	}
	r := mon.NewRand(uint64(seed)).Sub(209000)
	ec := gen.ECKey(elliptic.P256(), r)
	ed := gen.EdKey(r)
	refEC := gen.RefKey{Alg: -7, Priv: ec, Pub: &ec.PublicKey}
	refEd := gen.RefKey{Alg: -8, Priv: ed, Pub: ed.Public()}
	mkSign1 := func(k gen.RefKey, extra ...*refcbor.Node) []byte {
		prot := refcbor.NMap(append([]*refcbor.Node{refcbor.NInt(1), refcbor.NInt(k.Alg)}, extra...)...)
		wm := &gen.WSign1{L: gen.WLayer{ProtMap: prot, Unprot: refcbor.NMap(refcbor.NInt(4), refcbor.NBstr([]byte("kid")))}, Payload: make([]byte, 32), Tagged: true}
		wm.Sig = gen.RefSign(k, wm.TBS(nil, wm.Payload))
		return wm.Bytes()
	}
	s1 := mkSign1(refEC)
	s1ed := mkSign1(refEd)
	env := mkSign1(refEC, refcbor.NInt(258), refcbor.NInt(-16))
	size := 32
	keyBytes := refcbor.Encode(gen.KeyMap([]gen.KeyEntry{{Label: refcbor.NInt(1), Value: refcbor.NInt(2)}, {Label: refcbor.NInt(-1), Value: refcbor.NInt(1)},
		{Label: refcbor.NInt(-2), Value: refcbor.NBstr(ec.X.FillBytes(make([]byte, size)))}, {Label: refcbor.NInt(-3), Value: refcbor.NBstr(ec.Y.FillBytes(make([]byte, size)))}}))
	ops := []func() string{
		func() string {
			v, err := cose.NewVerifier(cose.AlgorithmES256, &ec.PublicKey)
			if err != nil {
				return "NewVerifier: " + err.Error()
			}
			var m cose.Sign1Message
			if err := m.UnmarshalCBOR(s1); err != nil {
				return "UnmarshalCBOR: " + err.Error()
			}
			return resErr(m.Verify(nil, v))
		},
		func() string {
			v, err := cose.NewVerifier(cose.AlgorithmES256, &ec.PublicKey)
			if err != nil {
				return "NewVerifier: " + err.Error()
			}
			_, err = cose.VerifyHashEnvelope(v, env)
			return resErr(err)
		},
		func() string {
			v, err := cose.NewVerifier(cose.AlgorithmEdDSA, ed.Public())
			if err != nil {
				return "NewVerifier: " + err.Error()
			}
			var m cose.UntaggedSign1Message
			if err := m.UnmarshalCBOR(s1ed[1:]); err != nil {
				return "UnmarshalCBOR: " + err.Error()
			}
			return resErr(m.Verify(nil, v))
		},
		func() string {
			var k cose.Key
			if err := k.UnmarshalCBOR(keyBytes); err != nil {
				return "Key.UnmarshalCBOR: " + err.Error()
			}
			v, err := k.Verifier()
			if err != nil {
				return "Key.Verifier: " + err.Error()
			}
			var m cose.Sign1Message
			if err := m.UnmarshalCBOR(s1); err != nil {
				return "UnmarshalCBOR: " + err.Error()
			}
			return resErr(m.Verify(nil, v))
		},
		func() string {
			sg, err := cose.NewSigner(cose.AlgorithmEdDSA, ed)
			if err != nil {
				return "NewSigner: " + err.Error()
			}
			b, err := cose.Sign1(gen.Entropy, sg, cose.Headers{Protected: cose.ProtectedHeader{int64(1): cose.AlgorithmEdDSA}}, []byte("p"), nil)
			if err != nil || len(b) == 0 {
				return "Sign1: " + resErr(err)
			}
			return "ok"
		},
		func() string {
			var h cose.ProtectedHeader
			return resErr(h.UnmarshalCBOR([]byte{0x43, 0xa1, 0x01, 0x26}))
		},
	}
	const G = 12
	var start, done sync.WaitGroup
	start.Add(1)
	results := make([]string, G)
	for g := 0; g < G; g++ {
		done.Add(1)
		go func(g int) {
			defer done.Done()
			start.Wait()
			results[g] = ops[(g+int(seed))%len(ops)]()
		}(g)
	}
	start.Done()
	done.Wait()
	rc := 0
	for g, res := range results {
		if res != "ok" && res != "<nil>" && res != "nil" {
			fmt.Printf("COLD-MISMATCH goroutine %d op %d: %s\n", g, (g+int(seed))%len(ops), res)
			rc = 1
		}
	}
	return rc
}

func indexOfKey(kr *gen.KeyRing, k *gen.AlgKey) int {
	for i, x := range kr.Keys {
		if x == k {
			return i
		}
	}
	return 0
}
