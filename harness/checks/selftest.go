package checks

import (
	"bytes"
	"crypto"
	"crypto/ecdsa"
	"crypto/elliptic"
	"crypto/rsa"
	"crypto/sha256"
	"embed"
	"encoding/base64"
	"encoding/hex"
	"encoding/json"
	"fmt"
	"math/big"
	"sort"

	"verif/harness/refcbor"
	"verif/harness/refcose"
	"verif/harness/refcrypto"
)

// The reference models are validated against third-party material only,
// never against go-cose: RFC 8949 appendix A items, the 18 COSE WG /
// gluecose conformance vectors (copied from the repository's testdata), and
// the RFC 9338 countersignature examples.

//go:embed vectors/*.json
var vectorFS embed.FS

// rfc8949 appendix A samples: encoded form, canonical?, diag-ish expectations
var appendixA = []struct {
	hex   string
	canon bool
}{
	{"00", true}, {"01", true}, {"0a", true}, {"17", true}, {"1818", true}, {"1819", true}, {"1864", true},
	{"1903e8", true}, {"1a000f4240", true}, {"1b000000e8d4a51000", true}, {"1bffffffffffffffff", true},
	{"c249010000000000000000", true}, {"3bffffffffffffffff", true}, {"c349010000000000000000", true},
	{"20", true}, {"29", true}, {"3863", true}, {"3903e7", true},
	{"f90000", true}, {"f98000", true}, {"f93c00", true}, {"fb3ff199999999999a", true}, {"f93e00", true},
	{"f97bff", true}, {"fa47c35000", true}, {"fa7f7fffff", true}, {"fb7e37e43c8800759c", true},
	{"f90001", true}, {"f90400", true}, {"f9c400", true}, {"fbc010666666666666", true},
	{"f97c00", true}, {"f97e00", true}, {"f9fc00", true}, {"fa7f800000", true}, {"fa7fc00000", true}, {"faff800000", true},
	{"fb7ff0000000000000", true}, {"fb7ff8000000000000", true}, {"fbfff0000000000000", true},
	{"f4", true}, {"f5", true}, {"f6", true}, {"f7", true}, {"f0", true}, {"f8ff", true},
	{"c074323031332d30332d32315432303a30343a30305a", true}, {"c11a514b67b0", true}, {"c1fb41d452d9ec200000", true},
	{"d74401020304", true}, {"d818456449455446", true}, {"d82076687474703a2f2f7777772e6578616d706c652e636f6d", true},
	{"40", true}, {"4401020304", true}, {"60", true}, {"6161", true}, {"6449455446", true}, {"62225c", true},
	{"62c3bc", true}, {"63e6b0b4", true}, {"64f0908591", true},
	{"80", true}, {"83010203", true}, {"8301820203820405", true},
	{"98190102030405060708090a0b0c0d0e0f101112131415161718181819", true},
	{"a0", true}, {"a201020304", true}, {"a26161016162820203", true}, {"826161a161626163", true},
	{"a56161614161626142616361436164614461656145", true},
	{"5f42010243030405ff", false}, {"7f657374726561646d696e67ff", false}, {"9fff", false},
	{"9f018202039f0405ffff", false}, {"9f01820203820405ff", false}, {"83018202039f0405ff", false},
	{"83019f0203ff820405", false},
	{"9f0102030405060708090a0b0c0d0e0f101112131415161718181819ff", false},
	{"bf61610161629f0203ffff", false}, {"826161bf61626163ff", false}, {"bf6346756ef563416d7421ff", false},
}

var malformed = []string{
	"", "18", "1900", "1a000000", "1b00000000000000", "1c", "1d", "1e", "38", "5801", "41", "62", "81", "a1", "a100", "c0",
	"ff", "5f4100", "5fff00", "7f4100ff", "5f6100ff", "bf00ff", "9f", "bf", "f800", "f81f", "fc", "8100ff00",
	"9b0000000100000000", "bb8000000000000001", "5bffffffffffffffff",
}

type jwk struct {
	Kty, Crv, X, Y, D, N, E string
}

func b64(s string) []byte {
	b, err := base64.RawURLEncoding.DecodeString(s)
	if err != nil {
		panic(err)
	}
	return b
}

func (k jwk) public() crypto.PublicKey {
	switch k.Kty {
	case "EC":
		var c elliptic.Curve
		switch k.Crv {
		case "P-256":
			c = elliptic.P256()
		case "P-384":
			c = elliptic.P384()
		case "P-521":
			c = elliptic.P521()
		}
		return &ecdsa.PublicKey{Curve: c, X: new(big.Int).SetBytes(b64(k.X)), Y: new(big.Int).SetBytes(b64(k.Y))}
	case "RSA":
		return &rsa.PublicKey{N: new(big.Int).SetBytes(b64(k.N)), E: int(new(big.Int).SetBytes(b64(k.E)).Int64())}
	}
	return nil
}

var algIDs = map[string]int64{"ES256": -7, "ES384": -35, "ES512": -36, "PS256": -37, "PS384": -38, "PS512": -39, "EdDSA": -8}

var selfTestDone []string
var selfTestRan bool

// SelfTest validates the reference models; it returns the list of failures.
func SelfTest() []string {
	if selfTestRan {
		return selfTestDone
	}
	selfTestRan = true
	var errs []string
	fail := func(f string, a ...any) { errs = append(errs, fmt.Sprintf(f, a...)) }
	defer func() {
		if r := recover(); r != nil {
			fail("self-test panicked: %v", r)
			selfTestDone = errs
		}
	}()

	// (a) refcbor on RFC 8949 appendix A
	for _, it := range appendixA {
		b, _ := hex.DecodeString(it.hex)
		n, err := refcbor.Parse(b)
		if err != nil {
			fail("appendix A %s: parse: %v", it.hex, err)
			continue
		}
		if !bytes.Equal(refcbor.Encode(n), b) {
			fail("appendix A %s: re-encoding differs: %x", it.hex, refcbor.Encode(n))
		}
		ok, _ := refcbor.IsCanonicalNode(n)
		if ok != it.canon {
			fail("appendix A %s: IsCanonical=%v want %v", it.hex, ok, it.canon)
		}
		c := refcbor.Canon(n)
		if ok2, why := refcbor.IsCanonical(c); !ok2 {
			fail("appendix A %s: Canon output %x not canonical: %s", it.hex, c, why)
		}
		if it.canon && !bytes.Equal(c, b) {
			fail("appendix A %s: Canon changed a canonical item: %x", it.hex, c)
		}
	}
	for _, h := range malformed {
		b, _ := hex.DecodeString(h)
		if _, err := refcbor.Parse(b); err == nil {
			fail("malformed %q accepted by refcbor", h)
		}
	}
	// widths and ordering
	{
		m := refcbor.NMap(refcbor.NInt(100), refcbor.NInt(1), refcbor.NInt(10), refcbor.NInt(2), refcbor.NTstr("a"), refcbor.NInt(3),
			refcbor.NInt(-1), refcbor.NInt(4), refcbor.NTstr("aa"), refcbor.NInt(5))
		want, _ := hex.DecodeString("a50a02186401200461610362616105")
		if got := refcbor.Canon(m); !bytes.Equal(got, want) {
			fail("canonical ordering: got %x want %x", got, want)
		}
		wide := refcbor.NBstr([]byte{1, 2})
		for _, w := range []int{1, 2, 3, 5, 9} {
			wide.Width = w
			n, err := refcbor.Parse(refcbor.Encode(wide))
			if err != nil || n.Width != w || !bytes.Equal(n.Str, []byte{1, 2}) {
				fail("width %d round trip failed", w)
			}
		}
		dup, _ := hex.DecodeString("a20101180102")
		n, _ := refcbor.Parse(dup)
		if len(refcbor.DupKeys(n)) != 1 {
			fail("DupKeys misses 1 vs 0x1801")
		}
	}

	// (b) conformance vectors
	ents, err := vectorFS.ReadDir("vectors")
	if err != nil {
		fail("vectors: %v", err)
	}
	var names []string
	for _, e := range ents {
		names = append(names, e.Name())
	}
	sort.Strings(names)
	nvec := 0
	signOutputsValid := 0
	for _, name := range names {
		raw, _ := vectorFS.ReadFile("vectors/" + name)
		var v struct {
			Key  jwk
			Alg  string
			Sign *struct {
				Payload          string
				ProtectedHeaders struct{ CborHex string }
				TbsHex           struct{ CborHex string }
				External         string
				ExpectedOutput   struct{ CborHex string }
			} `json:"sign1::sign"`
			Verify *struct {
				TaggedCOSESign1 struct{ CborHex string }
				External        string
				ShouldVerify    bool
			} `json:"sign1::verify"`
		}
		if err := json.Unmarshal(raw, &v); err != nil {
			fail("%s: %v", name, err)
			continue
		}
		nvec++
		alg := algIDs[v.Alg]
		pub := v.Key.public()
		if v.Sign != nil {
			payload, _ := hex.DecodeString(v.Sign.Payload)
			prot, _ := hex.DecodeString(v.Sign.ProtectedHeaders.CborHex)
			ext, _ := hex.DecodeString(v.Sign.External)
			want, _ := hex.DecodeString(v.Sign.TbsHex.CborHex)
			pn, err := refcbor.Parse(prot)
			if err != nil {
				fail("%s: protected: %v", name, err)
				continue
			}
			content := refcbor.Canon(pn)
			if len(pn.Kids) == 0 {
				content = []byte{}
			}
			if got := refcose.Sign1Structure(content, ext, payload); !bytes.Equal(got, want) {
				fail("%s: Sig_structure %x want %x", name, got, want)
			}
			// the expected output must be well-formed and verify
			out, _ := hex.DecodeString(v.Sign.ExpectedOutput.CborHex)
			if err := refcose.WellFormed(refcose.KSign1Tagged, out); err != nil {
				fail("%s: expected output not well-formed: %v", name, err)
			}
			// (the sample signature of a sign vector is only an illustration: the
			// suite compares its fixed-length prefix; sign1-sign-0000's does not verify)
			if ok, _ := refVerifySign1(out, ext, alg, pub); ok {
				signOutputsValid++
			}
		}
		if v.Verify != nil {
			msg, _ := hex.DecodeString(v.Verify.TaggedCOSESign1.CborHex)
			ext, _ := hex.DecodeString(v.Verify.External)
			ok := false
			if err := refcose.WellFormed(refcose.KSign1Tagged, msg); err == nil {
				ok, _ = refVerifySign1(msg, ext, alg, pub)
			} else if v.Verify.ShouldVerify {
				fail("%s: positive vector not well-formed: %v", name, err)
			}
			if ok != v.Verify.ShouldVerify {
				fail("%s: reference verdict %v, vector says %v", name, ok, v.Verify.ShouldVerify)
			}
		}
	}
	if signOutputsValid < 6 {
		fail("only %d of the 7 sign vectors' sample outputs verify under the reference", signOutputsValid)
	}
	if nvec != 18 {
		fail("expected 18 conformance vectors, found %d", nvec)
	}

	// (c) RFC 9338 appendix examples: ToBeSigned literals of the cose-wg examples
	for _, ex := range rfc9338Examples {
		got := refcose.CountersignStructure(ex.pk, false, true, mustHex(ex.parentProt), mustHex(ex.signProt), nil, mustHex(ex.payload), mustHexOrNil(ex.parentSig))
		if want := mustHex(ex.tbs); !bytes.Equal(got, want) {
			fail("RFC 9338 example %s: %x want %x", ex.name, got, want)
		}
	}

	// (d) nonce-controlled signer against the stdlib verifier
	for _, c := range []elliptic.Curve{elliptic.P256(), elliptic.P384(), elliptic.P521()} {
		d := big.NewInt(0x1234567)
		x, y := c.ScalarBaseMult(d.Bytes())
		pub := &ecdsa.PublicKey{Curve: c, X: x, Y: y}
		dig := sha256.Sum256([]byte("self-test"))
		r, s, ok := refcrypto.SignWithNonce(c, d, big.NewInt(987654321), dig[:])
		if !ok || !ecdsa.Verify(pub, dig[:], r, s) {
			fail("nonce-controlled signer invalid on %s", c.Params().Name)
		}
		if !refcrypto.VerifyECDSADigest(pub, dig[:], refcrypto.EncodeRS(c, r, s)) {
			fail("fixed-width verify failed on %s", c.Params().Name)
		}
		// chosen s
		target := big.NewInt(0x55aa)
		if dg, r2, ok := refcrypto.DigestForS(c, d, big.NewInt(424242), target, (c.Params().N.BitLen()+7)/8); ok {
			if !ecdsa.Verify(pub, dg, r2, target) {
				fail("DigestForS produced an invalid signature on %s", c.Params().Name)
			}
		}
	}
	selfTestDone = errs
	return errs
}

func mustHex(s string) []byte {
	b, err := hex.DecodeString(s)
	if err != nil {
		panic(err)
	}
	return b
}

func mustHexOrNil(s string) []byte {
	if s == "" {
		return nil
	}
	return mustHex(s)
}

// refVerifySign1 is the reference verdict for a tagged COSE_Sign1 (A.3).
func refVerifySign1(msg, external []byte, alg int64, pub crypto.PublicKey) (bool, string) {
	n, err := refcbor.Parse(msg)
	if err != nil {
		return false, err.Error()
	}
	a := n
	if n.Major == refcbor.Tag {
		a = n.Kids[0]
	}
	if a.Major != refcbor.Array || len(a.Kids) != 4 {
		return false, "shape"
	}
	if a.Kids[2].Major != refcbor.Bstr {
		return false, "payload missing"
	}
	if len(a.Kids[3].Str) == 0 {
		return false, "empty signature"
	}
	if ok, why := refAlgPre(a.Kids[0].Str, alg, external); !ok {
		return false, why
	}
	tbs := refcose.Sign1Structure(a.Kids[0].Str, external, a.Kids[2].Str)
	if !refcrypto.Verify(alg, pub, tbs, a.Kids[3].Str) {
		return false, "signature invalid"
	}
	return true, ""
}

// refAlgPre is the algorithm pre-check of A.3 on the protected content.
func refAlgPre(protContent []byte, verifierAlg int64, external []byte) (bool, string) {
	var m *refcbor.Node
	if len(protContent) > 0 {
		var err error
		if m, err = refcbor.Parse(protContent); err != nil || m.Major != refcbor.Map {
			return false, "protected content"
		}
	}
	av := refcose.Lookup(m, 1)
	if av == nil {
		if len(external) > 0 {
			return true, ""
		}
		return false, "no alg and no external data"
	}
	v, ok := av.Int64()
	if !ok {
		return false, "alg is not an int"
	}
	if v != verifierAlg {
		return false, "alg mismatch"
	}
	return true, ""
}

// Countersign_structure literals of the COSE WG examples used by RFC 9338
// appendix A (countersign/signed1-01, signed-01 (on signature), signed-03 (on message)).
var rfc9338Examples = []struct {
	name, parentProt, signProt, payload, parentSig, tbs string
	pk                                                  refcose.ParentKind
}{
	{"signed1-01 (V2)", "a201270300", "a1013a6d6f636a", "546869732069732074686520636f6e74656e742e", "7142fd2ff96d56db85bee905a76ba1d0b7321a95c8c4d3607c5781932b7afb8711497dfa751bf40b58b3bcc32300b1487f3db34085eef013bf08f4a44d6fef0d", "8672436f756e7465725369676e6174757265563245a20127030047a1013a6d6f636a4054546869732069732074686520636f6e74656e742e8158407142fd2ff96d56db85bee905a76ba1d0b7321a95c8c4d3607c5781932b7afb8711497dfa751bf40b58b3bcc32300b1487f3db34085eef013bf08f4a44d6fef0d", refcose.PSign1},
	{"signed-01 (signature parent)", "a10127", "a1013a6d6f636a", "8e1be2f9453d264812e590499132bef3fbf9ee9db27c2c168788e3b7ebe506c04fd3d19faa9f51232af5c959e4ef47928834647f56dfbe939112884d08ef2505", "", "8570436f756e7465725369676e617475726543a1012747a1013a6d6f636a4058408e1be2f9453d264812e590499132bef3fbf9ee9db27c2c168788e3b7ebe506c04fd3d19faa9f51232af5c959e4ef47928834647f56dfbe939112884d08ef2505", refcose.PSignature},
	{"signed-03 (COSE_Sign parent)", "a10300", "a1013a6d6f636a", "546869732069732074686520636f6e74656e742e", "", "8570436f756e7465725369676e617475726543a1030047a1013a6d6f636a4054546869732069732074686520636f6e74656e742e", refcose.PSign},
}
