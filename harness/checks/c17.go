package checks

import (
	"crypto"
	"crypto/ecdsa"
	"crypto/ed25519"
	"crypto/elliptic"
	"crypto/rsa"
	"errors"
	"fmt"
	"io"
	"math/big"

	cose "github.com/veraison/go-cose"

	"verif/harness/gen"
	"verif/harness/mon"
	"verif/harness/refcrypto"
	"verif/harness/testkeys"
)

// C17 - built-in signers/verifiers exist only for matching, adequate keys.
// Monitors: NewSigner/NewVerifier results and errors against a reference
// decision table written from the statement; 4-way Sign/SignDigest x
// Verify/VerifyDigest equivalence and cross-hash refusal.

func init() {
	register(&Check{
		ID:    "C17",
		Level: "exploration",
		Rule: "complete matrix {7 built-in algorithms, RS256/384/512, reserved 0, SHA-256 id, +-65537, random ids} x key kinds {RSA 1024/2047/2048/3072/4096, ECDSA P-224/P-256/P-384/P-521, off-curve point, point at infinity, coordinates >= p, negative coordinate, Ed25519, foreign crypto.Signer types whose Public() is of each family or an unrelated type} for NewSigner and NewVerifier; " +
			"digest equivalence: for every RSA/ECDSA algorithm and message-length class {0,1,55,56,63,64,65,111,112,1000,65536,random} signatures from Sign and from SignDigest verify through Verify and VerifyDigest, not under another hash and not under a verifier of the same key with another algorithm. Distinct = matrix cells + (family, alg, length class, path) equivalence cases.",
		Assume: []string{"crypto/ecdh decides which curves and points a verifier accepts (property text)", "an ed25519.PublicKey of the wrong length is not judged"},
		Run:    runC17,
	})
}

// foreignSigner is a crypto.Signer that is none of the stdlib key types.
type foreignSigner struct{ pub crypto.PublicKey }

func (f foreignSigner) Public() crypto.PublicKey { return f.pub }
func (f foreignSigner) Sign(io.Reader, []byte, crypto.SignerOpts) ([]byte, error) {
	return nil, errors.New("foreign signer cannot sign")
}

type c17key struct {
	name    string
	signer  crypto.Signer    // for NewSigner (nil: not applicable)
	pub     crypto.PublicKey // for NewVerifier
	family  string           // "rsa", "ecdsa", "ed25519", "other"
	rsaBits int
	// verifier side: is the ECDSA point valid on a crypto/ecdh curve
	ecdhOK bool
	lax    bool // not judged
}

func runC17(c *Ctx) {
	rec := c.Rec
	r := mon.NewRand(uint64(c.Seed)).Sub(181000)
	var keys []c17key
	for _, bits := range []int{1024, 2047, 2048, 2049, 2055, 3072, 4096} {
		k := testkeys.RSA(bits)
		keys = append(keys, c17key{name: fmt.Sprintf("rsa-%d", bits), signer: k, pub: &k.PublicKey, family: "rsa", rsaBits: bits})
		keys = append(keys, c17key{name: fmt.Sprintf("foreign-signer-with-rsa-%d-public", bits), signer: foreignSigner{&k.PublicKey}, pub: nil, family: "rsa", rsaBits: bits})
	}
	// valid 2048-bit keys with unusual (but legal) public exponents: adequacy is a matter of the modulus only
	for _, e := range []int{3, 5, 17, 257, 65537, 1<<31 - 1} {
		k := testkeys.RSAWithExponent(e)
		keys = append(keys, c17key{name: fmt.Sprintf("rsa-2048-e=%d", e), signer: k, pub: &k.PublicKey, family: "rsa", rsaBits: 2048})
	}
	{
		mp := testkeys.RSAMultiPrime() // three prime factors: as valid an RSA key as any
		keys = append(keys, c17key{name: "rsa-2048-three-primes", signer: mp, pub: &mp.PublicKey, family: "rsa", rsaBits: 2048})
	}
	// moduli well beyond the usual sizes: "at least 2048 bits" has no upper end (the public half is all
	// NewSigner / NewVerifier look at, so the modulus need not be a product of known primes)
	for _, bits := range []int{8192, 8193, 12288, 16384} {
		n := new(big.Int).Lsh(big.NewInt(1), uint(bits-1))
		n.Add(n, new(big.Int).SetBytes(r.Bytes(64)))
		n.SetBit(n, 0, 1)
		pk := &rsa.PublicKey{N: n, E: 65537}
		keys = append(keys, c17key{name: fmt.Sprintf("rsa-%d-public-only", bits), pub: pk, family: "rsa", rsaBits: bits})
		keys = append(keys, c17key{name: fmt.Sprintf("foreign-signer-with-rsa-%d-public", bits), signer: foreignSigner{pk}, family: "rsa", rsaBits: bits})
		keys = append(keys, c17key{name: fmt.Sprintf("rsa-%d-private-shell", bits), signer: &rsa.PrivateKey{PublicKey: *pk}, family: "rsa", rsaBits: bits})
	}
	for _, cv := range []elliptic.Curve{elliptic.P224(), elliptic.P256(), elliptic.P384(), elliptic.P521()} {
		k := gen.ECKey(cv, r)
		ok := cv != elliptic.P224()
		keys = append(keys, c17key{name: "ecdsa-" + cv.Params().Name, signer: k, pub: &k.PublicKey, family: "ecdsa", ecdhOK: ok})
		keys = append(keys, c17key{name: "foreign-signer-with-ecdsa-" + cv.Params().Name + "-public", signer: foreignSigner{&k.PublicKey}, family: "ecdsa", ecdhOK: ok})
		if ok {
			p := cv.Params().P
			keys = append(keys,
				c17key{name: "ecdsa-" + cv.Params().Name + "-off-curve", signer: nil, pub: &ecdsa.PublicKey{Curve: cv, X: new(big.Int).Add(k.X, big.NewInt(1)), Y: k.Y}, family: "ecdsa", ecdhOK: false},
				c17key{name: "ecdsa-" + cv.Params().Name + "-infinity", pub: &ecdsa.PublicKey{Curve: cv, X: new(big.Int), Y: new(big.Int)}, family: "ecdsa", ecdhOK: false},
				c17key{name: "ecdsa-" + cv.Params().Name + "-x-plus-p", pub: &ecdsa.PublicKey{Curve: cv, X: new(big.Int).Add(k.X, p), Y: k.Y}, family: "ecdsa", ecdhOK: false},
				c17key{name: "ecdsa-" + cv.Params().Name + "-negative-y", pub: &ecdsa.PublicKey{Curve: cv, X: k.X, Y: new(big.Int).Neg(k.Y)}, family: "ecdsa", ecdhOK: false},
				c17key{name: "ecdsa-" + cv.Params().Name + "-y-mirrored", pub: &ecdsa.PublicKey{Curve: cv, X: k.X, Y: new(big.Int).Sub(p, k.Y)}, family: "ecdsa", ecdhOK: true},
			)
			// valid points with a zero coordinate: (0, sqrt(b)) lies on each of the three curves
			if y0 := new(big.Int).ModSqrt(cv.Params().B, p); y0 != nil && cv.IsOnCurve(new(big.Int), y0) {
				keys = append(keys,
					c17key{name: "ecdsa-" + cv.Params().Name + "-valid-point-x=0", pub: &ecdsa.PublicKey{Curve: cv, X: new(big.Int), Y: y0}, family: "ecdsa", ecdhOK: true},
					c17key{name: "ecdsa-" + cv.Params().Name + "-valid-point-x=0-mirrored", pub: &ecdsa.PublicKey{Curve: cv, X: new(big.Int), Y: new(big.Int).Sub(p, y0)}, family: "ecdsa", ecdhOK: true},
					c17key{name: "ecdsa-" + cv.Params().Name + "-x=0-y=0", pub: &ecdsa.PublicKey{Curve: cv, X: new(big.Int), Y: new(big.Int)}, family: "ecdsa", ecdhOK: false},
				)
			}
		}
	}
	// an ECDSA private key given by its scalar alone (public coordinates never filled in): still an ECDSA key;
	// public keys whose Curve value is of another Go type than the standard library's own curve objects
	// (a wrapper, also one around P-224): crypto/ecdh supports none of them, so no verifier
	{
		k := gen.ECKey(elliptic.P256(), r)
		keys = append(keys, c17key{name: "ecdsa-P-256-private-scalar-only", signer: &ecdsa.PrivateKey{PublicKey: ecdsa.PublicKey{Curve: elliptic.P256()}, D: k.D}, family: "ecdsa"})
		for _, cv := range []elliptic.Curve{elliptic.P224(), elliptic.P256(), elliptic.P521()} {
			kk := gen.ECKey(cv, r)
			keys = append(keys, c17key{name: "ecdsa-" + cv.Params().Name + "-wrapped-curve-type", pub: &ecdsa.PublicKey{Curve: wrappedCurve{cv}, X: kk.X, Y: kk.Y}, family: "ecdsa", ecdhOK: false})
		}
	}
	ed := gen.EdKey(r)
	keys = append(keys,
		c17key{name: "ed25519", signer: ed, pub: ed.Public(), family: "ed25519"},
		c17key{name: "foreign-signer-with-ed25519-public", signer: foreignSigner{ed.Public()}, family: "ed25519"},
		c17key{name: "ed25519-short-public", pub: ed25519.PublicKey(make([]byte, 10)), family: "ed25519", lax: true},
		c17key{name: "foreign-signer-with-string-public", signer: foreignSigner{"not a key"}, pub: "not a key", family: "other"},
		c17key{name: "foreign-signer-with-nil-public", signer: foreignSigner{nil}, pub: nil, family: "other"},
		c17key{name: "rsa-private-key-as-public", pub: testkeys.RSA(2048), family: "other"},
		c17key{name: "ecdsa-public-by-value", pub: gen.ECKey(elliptic.P256(), r).PublicKey, family: "other"},
		c17key{name: "rsa-public-by-value", pub: testkeys.RSA(2048).PublicKey, family: "other"},
		c17key{name: "ed25519-private-as-public", pub: ed, family: "other"},
		c17key{name: "byte-slice-as-public", pub: []byte(ed.Public().(ed25519.PublicKey)), family: "other"},
	)
	algs := []cose.Algorithm{cose.AlgorithmPS256, cose.AlgorithmPS384, cose.AlgorithmPS512, cose.AlgorithmES256, cose.AlgorithmES384, cose.AlgorithmES512, cose.AlgorithmEdDSA,
		cose.AlgorithmRS256, cose.AlgorithmRS384, cose.AlgorithmRS512, cose.AlgorithmReserved, cose.AlgorithmSHA256, cose.AlgorithmSHA384, cose.AlgorithmSHA512, 65537, -65537, 1, -1, -9, -34, -40}
	for i := 0; i < 10; i++ {
		algs = append(algs, cose.Algorithm(gen.IntValue(r)))
	}
	famOf := func(a cose.Algorithm) string {
		switch a {
		case cose.AlgorithmPS256, cose.AlgorithmPS384, cose.AlgorithmPS512:
			return "rsa"
		case cose.AlgorithmES256, cose.AlgorithmES384, cose.AlgorithmES512:
			return "ecdsa"
		case cose.AlgorithmEdDSA:
			return "ed25519"
		}
		return ""
	}
	for _, a := range algs {
		for _, k := range keys {
			fam := famOf(a)
			// ---- NewSigner ----
			if k.signer != nil {
				cell := fmt.Sprintf("NewSigner/alg=%d/key=%s", int64(a), k.name)
				in := map[string]any{"cell": cell}
				var s cose.Signer
				var err error
				if guard(rec, "NewSigner", in, func() { s, err = cose.NewSigner(a, k.signer) }) {
					continue
				}
				rec.Eval(1)
				rec.Class(cell)
				rec.Event("NewSigner")
				want := fam != "" && fam == k.family && (fam != "rsa" || k.rsaBits >= 2048)
				if n := rec.Events("NewSigner"); n%97 == 3 {
					rec.Sample(fmt.Sprintf("matrix-%d", n), map[string]any{"cell": cell, "table_says_succeeds": want, "library_error": errStr(err)})
				}
				c17judge(rec, cell, in, want, fam, k, err, s != nil, func() cose.Algorithm { return s.Algorithm() }, a)
			}
			// ---- NewVerifier ----
			if k.pub != nil || k.family == "other" {
				cell := fmt.Sprintf("NewVerifier/alg=%d/key=%s", int64(a), k.name)
				in := map[string]any{"cell": cell}
				var v cose.Verifier
				var err error
				if guard(rec, "NewVerifier", in, func() { v, err = cose.NewVerifier(a, k.pub) }) {
					continue
				}
				rec.Eval(1)
				rec.Class(cell)
				rec.Event("NewVerifier")
				want := fam != "" && fam == k.family && (fam != "rsa" || k.rsaBits >= 2048) && (fam != "ecdsa" || k.ecdhOK)
				if k.lax {
					rec.Event("cells-not-judged")
					continue
				}
				c17judge(rec, cell, in, want, fam, k, err, v != nil, func() cose.Algorithm { return v.Algorithm() }, a)
			}
		}
	}
	// keys that cannot even be asked for their public half (a typed nil pointer, a handle whose Public()
	// crashes, an untyped nil) together with an algorithm outside the three supported families: the answer
	// is the documented "algorithm not supported" error - nothing about the key is looked at
	for _, a := range algs {
		if famOf(a) != "" {
			continue
		}
		for name, key := range map[string]crypto.Signer{
			"typed-nil-*rsa.PrivateKey":   (*rsa.PrivateKey)(nil),
			"typed-nil-*ecdsa.PrivateKey": (*ecdsa.PrivateKey)(nil),
			"untyped-nil":                 nil,
			"public-panics":               panickySigner{},
			"typed-nil-handle":            (*panickyHandle)(nil),
		} {
			cell := fmt.Sprintf("NewSigner/alg=%d/key=%s", int64(a), name)
			in := map[string]any{"cell": cell}
			var sg cose.Signer
			var err error
			if guard(rec, "NewSigner(unusable key, unsupported algorithm)", in, func() { sg, err = cose.NewSigner(a, key) }) {
				continue
			}
			rec.Eval(1)
			rec.Class(cell)
			rec.Event("NewSigner(unusable key)")
			if sg != nil || !errors.Is(err, cose.ErrAlgorithmNotSupported) {
				rec.Violate("wrong-error", cell, fmt.Sprintf("signer=%v err=%v, want ErrAlgorithmNotSupported", sg != nil, err), in)
			}
			var v cose.Verifier
			if guard(rec, "NewVerifier(unusable key, unsupported algorithm)", in, func() { v, err = cose.NewVerifier(a, key) }) {
				continue
			}
			if v != nil || !errors.Is(err, cose.ErrAlgorithmNotSupported) {
				rec.Violate("wrong-error", "NewVerifier"+cell[9:], fmt.Sprintf("verifier=%v err=%v, want ErrAlgorithmNotSupported", v != nil, err), in)
			}
		}
	}
	rec.Exhaustive = true

	// ------------------------------------------------------- digest equivalence --
	type pairing struct {
		alg  cose.Algorithm
		priv crypto.Signer
		pub  crypto.PublicKey
		name string
	}
	var pairs []pairing
	for _, a := range []cose.Algorithm{cose.AlgorithmPS256, cose.AlgorithmPS384, cose.AlgorithmPS512} {
		for _, bits := range []int{2048, 2049, 2055, 3072} {
			k := testkeys.RSA(bits)
			pairs = append(pairs, pairing{a, k, &k.PublicKey, fmt.Sprintf("rsa-%d", bits)})
		}
		for _, e := range []int{3, 1<<31 - 1} {
			k := testkeys.RSAWithExponent(e)
			pairs = append(pairs, pairing{a, k, &k.PublicKey, fmt.Sprintf("rsa-2048-e=%d", e)})
		}
		// an RSA key behind an opaque crypto.Signer (HSM / KMS wrapper): still PSS with the hash-length salt
		wk := testkeys.RSA(2048)
		pairs = append(pairs, pairing{a, refcrypto.WrapSigner{K: wk}, &wk.PublicKey, "wrapped-rsa-2048"})
		mp := testkeys.RSAMultiPrime()
		pairs = append(pairs, pairing{a, mp, &mp.PublicKey, "rsa-2048-three-primes"})
	}
	for _, a := range []cose.Algorithm{cose.AlgorithmES256, cose.AlgorithmES384, cose.AlgorithmES512} {
		// every algorithm with every supported curve (the library does not tie the hash to the curve)
		for _, cv := range []elliptic.Curve{elliptic.P256(), elliptic.P384(), elliptic.P521()} {
			k := gen.ECKey(cv, r)
			pairs = append(pairs, pairing{a, k, &k.PublicKey, "ecdsa-" + cv.Params().Name})
			pairs = append(pairs, pairing{a, refcrypto.WrapSigner{K: k}, &k.PublicKey, "wrapped-ecdsa-" + cv.Params().Name})
		}
	}
	lens := []int{0, 1, 55, 56, 63, 64, 65, 111, 112, 1000, 65536}
	reps := c.N(8, 120)
	type ecase struct {
		p   pairing
		l   int
		rep int
	}
	var cases []ecase
	for _, p := range pairs {
		for _, l := range lens {
			for rep := 0; rep < reps; rep++ {
				cases = append(cases, ecase{p, l, rep})
			}
		}
		for rep := 0; rep < reps*4; rep++ {
			cases = append(cases, ecase{p, -1, rep})
		}
	}
	otherHashAlg := map[cose.Algorithm]cose.Algorithm{
		cose.AlgorithmPS256: cose.AlgorithmPS384, cose.AlgorithmPS384: cose.AlgorithmPS512, cose.AlgorithmPS512: cose.AlgorithmPS256,
		cose.AlgorithmES256: cose.AlgorithmES384, cose.AlgorithmES384: cose.AlgorithmES512, cose.AlgorithmES512: cose.AlgorithmES256,
	}
	// signers/verifiers are shared by all workers (as a server would)
	type sv struct {
		s  cose.Signer
		v  cose.Verifier
		vo cose.Verifier // same key, other algorithm
	}
	svs := map[string]sv{}
	for _, p := range pairs {
		s, e1 := cose.NewSigner(p.alg, p.priv)
		v, e2 := cose.NewVerifier(p.alg, p.pub)
		vo, e3 := cose.NewVerifier(otherHashAlg[p.alg], p.pub)
		if e1 != nil || e2 != nil || e3 != nil {
			rec.Violate("digest-equivalence", "setup/"+p.name, fmt.Sprintf("cannot build signer/verifier: %v %v %v", e1, e2, e3), nil)
			continue
		}
		svs[fmt.Sprintf("%d/%s", p.alg, p.name)] = sv{s, v, vo}
	}
	mon.Parallel(c.Workers, len(cases), func(w, i int) {
		ec := cases[i]
		rr := mon.NewRand(uint64(c.Seed)).Sub(uint64(182000 + i))
		x, ok := svs[fmt.Sprintf("%d/%s", ec.p.alg, ec.p.name)]
		if !ok {
			return
		}
		l := ec.l
		if l < 0 {
			l = rr.Intn(3000)
		}
		msg := rr.Bytes(l)
		if msg == nil {
			msg = []byte{}
		}
		lc := fmt.Sprint(ec.l)
		if ec.l < 0 {
			lc = "random"
		}
		cell := fmt.Sprintf("digest-equivalence/alg=%v/key=%s/len=%s", ec.p.alg, ec.p.name, lc)
		in := map[string]any{"cell": cell, "message_len": l, "message": mon.Hex(msg)}
		ds, isDS := x.s.(cose.DigestSigner)
		dv, isDV := x.v.(cose.DigestVerifier)
		dvo, _ := x.vo.(cose.DigestVerifier)
		if !isDS || !isDV {
			rec.Violate("digest-equivalence", "interfaces/"+ec.p.name, "built-in RSA/ECDSA signer or verifier lacks the digest interface", in)
			return
		}
		h := refcrypto.HashOf(int64(ec.p.alg))
		digest := refcrypto.Digest(h, msg)
		otherDigest := refcrypto.Digest(refcrypto.HashOf(int64(otherHashAlg[ec.p.alg])), msg)
		var sig1, sig2 []byte
		var e1, e2 error
		if guard(rec, "Sign/SignDigest", in, func() {
			sig1, e1 = x.s.Sign(gen.Entropy, msg)
			sig2, e2 = ds.SignDigest(gen.Entropy, digest)
		}) {
			return
		}
		rec.Eval(1)
		rec.Event("digest-equivalence-cases")
		rec.Class(cell)
		if i%900 == 1 {
			rec.Sample(fmt.Sprintf("equivalence-%d", i), map[string]any{"cell": cell, "sig_from_Sign": hexs(sig1), "sig_from_SignDigest": hexs(sig2)})
		}
		if e1 != nil || e2 != nil {
			rec.Violate("digest-equivalence", "sign-failed/"+ec.p.name, fmt.Sprintf("Sign err=%v SignDigest err=%v", e1, e2), in)
			return
		}
		for name, sig := range map[string][]byte{"Sign": sig1, "SignDigest": sig2} {
			if e := x.v.Verify(msg, sig); e != nil {
				rec.Violate("digest-equivalence", name+"->Verify/"+ec.p.name, "signature from "+name+" refused by Verify: "+e.Error(), in)
			}
			if e := dv.VerifyDigest(digest, sig); e != nil {
				rec.Violate("digest-equivalence", name+"->VerifyDigest/"+ec.p.name, "signature from "+name+" refused by VerifyDigest: "+e.Error(), in)
			}
			if !refcrypto.Verify(int64(ec.p.alg), ec.p.pub, msg, sig) {
				rec.Violate("digest-equivalence", name+"->stdlib/"+ec.p.name, "signature from "+name+" is not valid under the stdlib with the algorithm's hash", in)
			}
			// no other hash
			if e := dv.VerifyDigest(otherDigest, sig); e == nil {
				rec.Violate("cross-hash", name+"/VerifyDigest-other-digest/"+ec.p.name, "signature verifies over the digest of another hash", in)
			}
			if e := x.vo.Verify(msg, sig); e == nil {
				rec.Violate("cross-hash", name+"/other-alg-verifier/"+ec.p.name, "signature verifies under a verifier of the same key with another algorithm", in)
			}
			if dvo != nil {
				if e := dvo.VerifyDigest(otherDigest, sig); e == nil {
					rec.Violate("cross-hash", name+"/other-alg-VerifyDigest/"+ec.p.name, "signature verifies through the other algorithm's VerifyDigest", in)
				}
			}
			// RSASSA-PSS binds the hash (it is the MGF's hash and fixes the salt length): a verifier of the same
			// key for EVERY other PS algorithm refuses the signature whichever digest it is offered - the
			// message's digest under the signature's own hash included. (Not asked of ECDSA, where a digest is
			// just a number and the verifier cannot tell which hash produced it.)
			if ec.p.alg == cose.AlgorithmPS256 || ec.p.alg == cose.AlgorithmPS384 || ec.p.alg == cose.AlgorithmPS512 {
				for _, ob := range []cose.Algorithm{cose.AlgorithmPS256, cose.AlgorithmPS384, cose.AlgorithmPS512} {
					if ob == ec.p.alg {
						continue
					}
					vb, err := cose.NewVerifier(ob, ec.p.pub)
					if err != nil {
						continue
					}
					rec.Event("rsa-other-alg-verifier-probes")
					if e := vb.Verify(msg, sig); e == nil {
						rec.Violate("cross-hash", fmt.Sprintf("%s/verifier-of-%v-Verify/%s", name, ob, ec.p.name), "signature verifies under a verifier of the same key with another algorithm", in)
					}
					if dvb, ok := vb.(cose.DigestVerifier); ok {
						for dn, dg := range map[string][]byte{"own-hash": digest, "verifier-hash": refcrypto.Digest(refcrypto.HashOf(int64(ob)), msg)} {
							if e := dvb.VerifyDigest(dg, sig); e == nil {
								rec.Violate("cross-hash", fmt.Sprintf("%s/verifier-of-%v-VerifyDigest(%s)/%s", name, ob, dn, ec.p.name), "signature made under "+fmt.Sprint(ec.p.alg)+" verifies through another algorithm's VerifyDigest", in)
							}
						}
					}
				}
			}
		}
	})
	rec.Require("NewSigner", 300)
	rec.Require("NewVerifier", 300)
	rec.Require("digest-equivalence-cases", 300)
}

func c17judge(rec *mon.Recorder, cell string, in map[string]any, want bool, fam string, k c17key, err error, nonNil bool, algOf func() cose.Algorithm, asked cose.Algorithm) {
	if want {
		if err != nil || !nonNil {
			rec.Violate("matrix", cell, fmt.Sprintf("must succeed for a matching, adequate key: err=%v", err), in)
			return
		}
		if got := algOf(); got != asked {
			rec.Violate("matrix-algorithm", cell, fmt.Sprintf("returned object reports algorithm %v, requested %v", got, asked), in)
		}
		return
	}
	if err == nil {
		rec.Violate("matrix", cell, "must fail: key does not belong to the algorithm's family / is inadequate / algorithm unsupported", in)
		return
	}
	if nonNil {
		rec.Violate("matrix", cell, "returned an object together with an error", in)
	}
	switch {
	case fam == "":
		if !errors.Is(err, cose.ErrAlgorithmNotSupported) {
			rec.Violate("matrix-error", cell, "reserved / RS* / unknown algorithm must fail with ErrAlgorithmNotSupported, got: "+err.Error(), in)
		}
	case fam != k.family:
		if !errors.Is(err, cose.ErrInvalidPubKey) {
			rec.Violate("matrix-error", cell, "a key of another family must fail with ErrInvalidPubKey, got: "+err.Error(), in)
		}
	case fam == "ecdsa":
		if !errors.Is(err, cose.ErrInvalidPubKey) {
			rec.Violate("matrix-error", cell, "an invalid ECDSA point / unsupported curve must fail with ErrInvalidPubKey, got: "+err.Error(), in)
		}
	}
	_ = rsa.PublicKey{}
}

// panickySigner is a key handle whose backend is gone: every method crashes.
type panickySigner struct{}

func (panickySigner) Public() crypto.PublicKey { panic("key backend unavailable") }
func (panickySigner) Sign(io.Reader, []byte, crypto.SignerOpts) ([]byte, error) {
	panic("key backend unavailable")
}

// panickyHandle dereferences its receiver in Public (a typed nil of it crashes there).
type panickyHandle struct{ pub crypto.PublicKey }

func (h *panickyHandle) Public() crypto.PublicKey { return h.pub }
func (h *panickyHandle) Sign(io.Reader, []byte, crypto.SignerOpts) ([]byte, error) {
	return nil, errors.New("no")
}
