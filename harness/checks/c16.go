package checks

import (
	"bytes"
	"crypto"
	"crypto/ecdsa"
	"crypto/elliptic"
	"errors"
	"fmt"
	"math/big"
	"strings"

	cose "github.com/veraison/go-cose"

	"verif/harness/gen"
	"verif/harness/mon"
	"verif/harness/refcrypto"
)

// C16 - ECDSA signatures are fixed-width r||s and nothing else verifies.
// Monitors: output of NewSigner(ES*, native key | crypto.Signer stub
// returning chosen ASN.1 (r,s)).Sign compared with an independent encoder;
// NewVerifier(ES*).Verify / VerifyDigest on crafted signatures (oracle:
// stdlib ecdsa.Verify on exactly 2n bytes).

func init() {
	register(&Check{
		ID:    "C16",
		Level: "exploration",
		Rule: "three curves. (a) generic crypto.Signer path: the stub returns ASN.1 (r,s) for the complete grid of byte lengths 1..size for r and for s with the top bit set and clear (so every leading-zero class and every DER length, including DER encodings that are exactly 2n bytes long), plus 1, n-1, 2^(8k)-1, 2^(8k); the output must be I2OSP(r)||I2OSP(s) on 2n bytes; out-of-range values must not yield a signature. " +
			"(b) native path: real keys sign until signatures with a leading zero byte in r and in s were produced (counted), every output 2n long and valid under the stdlib; native and generic path agree in form. " +
			"(c) verifier: reference signatures manufactured with chosen nonces so that r and/or s have 0/1/2 leading zero bytes are accepted as-is (Verify and VerifyDigest) and refused with ErrVerification when DER-encoded, zero-stripped, zero-extended, truncated, extended, with r and s swapped, with r or s replaced by 0, n, n+r, and for every length 0..2n+4. Distinct = (curve, path, leading-zero class of r, of s, malformation).",
		Assume: []string{"crypto/ecdsa.Verify is the definition of a valid (r,s)"},
		Run:    runC16,
	})
}

var c16algs = []cose.Algorithm{cose.AlgorithmES256, cose.AlgorithmES384, cose.AlgorithmES512}

func runC16(c *Ctx) {
	rec := c.Rec
	r := mon.NewRand(uint64(c.Seed)).Sub(171000)
	curves := []elliptic.Curve{elliptic.P256(), elliptic.P384(), elliptic.P521()}

	// ---------------- (a) generic path with chosen (r, s) ----------------
	for ci, cv := range curves {
		alg := c16algs[ci]
		n := refcrypto.OrderSize(cv)
		key := gen.ECKey(cv, r)
		order := cv.Params().N
		// values by byte length and top bit
		var vals []*big.Int
		var names []string
		for l := 1; l <= n; l++ {
			for _, top := range []byte{0x7f, 0x80} {
				b := r.Bytes(l)
				if top == 0x80 {
					b[0] |= 0x80
				} else {
					b[0] &= 0x7f
					if b[0] == 0 {
						b[0] = 1
					}
				}
				v := new(big.Int).SetBytes(b)
				if v.Cmp(order) >= 0 {
					v.Sub(order, big.NewInt(int64(l)))
				}
				vals = append(vals, v)
				names = append(names, fmt.Sprintf("len%d/top%x", l, top))
			}
		}
		for _, v := range []*big.Int{big.NewInt(1), big.NewInt(2), big.NewInt(255), big.NewInt(256), new(big.Int).Sub(order, big.NewInt(1))} {
			vals = append(vals, v)
			names = append(names, "special:"+v.Text(16))
		}
		step := 1
		if !c.Thorough && len(vals) > 70 {
			step = 3 // quick: every third s value per r (all r values), thorough: full product
		}
		type pair struct{ i, j int }
		var pairs []pair
		for i := range vals {
			for j := i % step; j < len(vals); j += step {
				pairs = append(pairs, pair{i, j})
			}
		}
		mon.Parallel(c.Workers, len(pairs), func(w, pi int) {
			p := pairs[pi]
			rr, ss := vals[p.i], vals[p.j]
			stub := &refcrypto.StubECDSASigner{Pub: &key.PublicKey, R: rr, S: ss}
			in := map[string]any{"curve": cv.Params().Name, "r": rr.Text(16), "s": ss.Text(16)}
			signer, err := cose.NewSigner(alg, stub)
			if err != nil {
				rec.Violate("generic-path", "NewSigner", "NewSigner refused a crypto.Signer with an ECDSA public key: "+err.Error(), in)
				return
			}
			var out []byte
			if guard(rec, "ecdsaCryptoSigner.Sign", in, func() { out, err = signer.Sign(gen.Entropy, []byte("content")) }) {
				return
			}
			rec.Eval(1)
			rec.Event("generic-path-signatures")
			want := refcrypto.EncodeRS(cv, rr, ss)
			lzr, lzs := lzClass(rr, n), lzClass(ss, n)
			rec.Class(fmt.Sprintf("%s/generic/r-lz%d/s-lz%d/derlen=2n:%v", cv.Params().Name, lzr, lzs, len(refcrypto.DER(rr, ss)) == 2*n))
			if err != nil {
				rec.Violate("generic-path", cv.Params().Name+"/error", "Sign failed for an in-range (r,s): "+err.Error(), in)
				return
			}
			if !eqBytes(out, want) {
				rec.Violate("not-fixed-width", fmt.Sprintf("%s/generic/r=%s/s=%s", cv.Params().Name, names[p.i], names[p.j]),
					fmt.Sprintf("signature is %d bytes: %s\nwant r||s on %d bytes: %s", len(out), hexs(out), 2*n, hexs(want)), in)
			}
		})
		// out-of-range values from the crypto.Signer must not produce a signature of the right form
		big1 := new(big.Int).Lsh(big.NewInt(1), uint(8*n))
		for _, bad := range [][2]*big.Int{{big1, big.NewInt(5)}, {big.NewInt(5), big1}, {big.NewInt(-5), big.NewInt(5)}, {big.NewInt(5), big.NewInt(-1)}} {
			stub := &refcrypto.StubECDSASigner{Pub: &key.PublicKey, R: bad[0], S: bad[1]}
			in := map[string]any{"curve": cv.Params().Name, "r": bad[0].Text(16), "s": bad[1].Text(16)}
			signer, err := cose.NewSigner(alg, stub)
			if err != nil {
				continue
			}
			var out []byte
			if guard(rec, "ecdsaCryptoSigner.Sign", in, func() { out, err = signer.Sign(gen.Entropy, []byte("content")) }) {
				continue
			}
			rec.Eval(1)
			rec.Class(cv.Params().Name + "/generic/out-of-range")
			if err == nil {
				rec.Violate("out-of-range-accepted", cv.Params().Name, fmt.Sprintf("a signature (%d bytes) was produced from an (r,s) that does not fit the field width", len(out)), in)
			}
		}
	}

	// ---------------- (a'') curves whose group order is longer than the field (secp160r1: 161-bit order, 160-bit field;
	// a synthetic 521-bit-field curve record with a 528-bit order) - the width is that of the order ----------------
	{
		secp160r1 := &elliptic.CurveParams{Name: "secp160r1", BitSize: 160}
		secp160r1.P, _ = new(big.Int).SetString("ffffffffffffffffffffffffffffffff7fffffff", 16)
		secp160r1.N, _ = new(big.Int).SetString("0100000000000000000001f4c8f927aed3ca752257", 16)
		secp160r1.B, _ = new(big.Int).SetString("1c97befc54bd7a8b65acf89f81d4d4adc565fa45", 16)
		secp160r1.Gx, _ = new(big.Int).SetString("4a96b5688ef573284664698968c38bb913cbfc82", 16)
		secp160r1.Gy, _ = new(big.Int).SetString("23a628553168947d59dcc912042351377ac5fb32", 16)
		secp224k1 := &elliptic.CurveParams{Name: "secp224k1-record", BitSize: 224} // only N and BitSize matter to the stub path
		secp224k1.P, _ = new(big.Int).SetString("fffffffffffffffffffffffffffffffffffffffffffffffeffffe56d", 16)
		secp224k1.N, _ = new(big.Int).SetString("010000000000000000000000000001dce8d2ec6184caf0a971769fb1f7", 16)
		secp224k1.B = big.NewInt(5)
		secp224k1.Gx, _ = new(big.Int).SetString("a1455b334df099df30fc28a169a467e9e47075a90f7e650eb6b7a45c", 16)
		secp224k1.Gy, _ = new(big.Int).SetString("7e089fed7fba344282cafbd6f7e319f7c0b0bd59e2ca4bdb556d61a5", 16)
		for _, cv := range []*elliptic.CurveParams{secp160r1, secp224k1} {
			n := (cv.N.BitLen() + 7) / 8
			pub := &ecdsa.PublicKey{Curve: cv, X: cv.Gx, Y: cv.Gy}
			for _, alg := range c16algs {
				for i := 0; i < c.N(40, 2000); i++ {
					rr := new(big.Int).Mod(new(big.Int).SetBytes(r.Bytes(n+1)), cv.N)
					ss := new(big.Int).Mod(new(big.Int).SetBytes(r.Bytes(n+1)), cv.N)
					switch i % 5 {
					case 1:
						rr.SetBit(rr, cv.N.BitLen()-1, 1) // top bit of the order's width set: needs the extra octet
						rr.Mod(rr, cv.N)
					case 2:
						ss = new(big.Int).Sub(cv.N, big.NewInt(int64(1+i)))
					case 3:
						rr = new(big.Int).Sub(cv.N, big.NewInt(int64(1+i)))
					case 4:
						rr.Rsh(rr, uint(8*(1+i%3)))
					}
					if rr.Sign() == 0 || ss.Sign() == 0 {
						continue
					}
					in := map[string]any{"curve": cv.Name, "alg": int64(alg), "r": rr.Text(16), "s": ss.Text(16)}
					signer, err := cose.NewSigner(alg, &refcrypto.StubECDSASigner{Pub: pub, R: rr, S: ss})
					if err != nil {
						rec.Event("long-order-curve:NewSigner-refused")
						continue
					}
					var out []byte
					if guard(rec, "ecdsaCryptoSigner.Sign", in, func() { out, err = signer.Sign(gen.Entropy, []byte("content")) }) {
						continue
					}
					rec.Eval(1)
					rec.Event("long-order-curve-signatures")
					rec.Class(fmt.Sprintf("%s/generic/alg=%d/r-lz%d/s-lz%d", cv.Name, int64(alg), lzClass(rr, n), lzClass(ss, n)))
					if err != nil {
						rec.Event("long-order-curve:Sign-error") // no signature is not a violation of the form rule
						continue
					}
					want := append(rr.FillBytes(make([]byte, n)), ss.FillBytes(make([]byte, n))...)
					if !eqBytes(out, want) {
						rec.Violate("not-fixed-width", cv.Name+"/generic", fmt.Sprintf("signature is %d bytes: %s\nwant r||s on 2x%d bytes (octet length of the group order): %s", len(out), hexs(out), n, hexs(want)), in)
					}
				}
			}
		}
	}

	// ---------------- (a''') a crypto.Signer whose ASN.1 output carries more than SEQUENCE{r,s} ----------------
	// (bytes after the SEQUENCE, a third element, a BER long-form length): whatever the library makes of it,
	// a signature it returns is the fixed-width r||s of the (r,s) the key produced
	for ci, cv := range curves {
		alg := c16algs[ci]
		n := refcrypto.OrderSize(cv)
		key := gen.ECKey(cv, r)
		for _, form := range []string{"trailing", "extra-element", "long-length", "no-sign-octet", "message-signer-type"} {
			for i := 0; i < c.N(60, 3000); i++ {
				rr := new(big.Int).Mod(new(big.Int).SetBytes(r.Bytes(n+2)), cv.Params().N)
				ss := new(big.Int).Mod(new(big.Int).SetBytes(r.Bytes(n+2)), cv.Params().N)
				if i%3 == 1 {
					ss.Rsh(ss, uint(8*(1+i%4))) // short s: room for appended bytes to be mistaken for part of it
				}
				if i%3 == 2 {
					rr.Rsh(rr, uint(8*(1+i%4)))
				}
				if rr.Sign() == 0 || ss.Sign() == 0 {
					continue
				}
				in := map[string]any{"curve": cv.Params().Name, "der_form": form, "r": rr.Text(16), "s": ss.Text(16)}
				if form == "no-sign-octet" && i%2 == 0 {
					// make sure the interesting shape occurs: first octet >= 0x80, also behind a zero octet
					rr.SetBit(rr, 8*n-1-8*(i%3), 1)
					rr.Mod(rr, cv.Params().N)
					if rr.Sign() == 0 {
						continue
					}
				}
				var ks cryptoSigner = &refcrypto.StubECDSASigner{Pub: &key.PublicKey, R: rr, S: ss, Form: form}
				if form == "message-signer-type" {
					ks = &refcrypto.StubECDSAMessageSigner{StubECDSASigner: refcrypto.StubECDSASigner{Pub: &key.PublicKey, R: rr, S: ss}}
				}
				signer, err := cose.NewSigner(alg, ks)
				if err != nil {
					continue
				}
				var out []byte
				if guard(rec, "ecdsaCryptoSigner.Sign", in, func() { out, err = signer.Sign(gen.Entropy, []byte("content")) }) {
					continue
				}
				rec.Eval(1)
				rec.Event("odd-der-signatures")
				rec.Class(fmt.Sprintf("%s/generic/der=%s/ok=%v/r-lz%d/s-lz%d", cv.Params().Name, form, err == nil, lzClass(rr, n), lzClass(ss, n)))
				if err != nil {
					continue // refusing odd ASN.1 is fine
				}
				if want := refcrypto.EncodeRS(cv, rr, ss); !eqBytes(out, want) {
					rec.Violate("not-fixed-width", cv.Params().Name+"/generic/der="+form, fmt.Sprintf("signature %s\nis not r||s of the (r,s) the key produced: %s", hexs(out), hexs(want)), in)
				}
			}
		}
	}

	// ---------------- (a0) the exported conversion primitives ----------------
	for i := 0; i < c.N(4000, 200000); i++ {
		size := r.Intn(70)
		x := new(big.Int).SetBytes(r.Bytes(r.Intn(72)))
		if r.Intn(10) == 0 {
			x.Neg(x)
		}
		if r.Intn(10) == 0 {
			x.SetInt64(int64(r.Intn(3)))
		}
		buf := r.Bytes(size) // pre-filled with garbage: the primitive must overwrite all of it
		if buf == nil {
			buf = []byte{}
		}
		in := map[string]any{"x": x.Text(16), "size": size}
		var err error
		if guard(rec, "I2OSP", in, func() { err = cose.I2OSP(x, buf) }) {
			continue
		}
		rec.Eval(1)
		rec.Event("I2OSP")
		fits := x.Sign() >= 0 && x.BitLen() <= 8*size
		rec.Class(fmt.Sprintf("I2OSP/fits=%v/lz=%d", fits, func() int {
			if !fits {
				return -1
			}
			return lzClass(x, size)
		}()))
		if fits {
			if err != nil || !eqBytes(buf, x.FillBytes(make([]byte, size))) {
				rec.Violate("I2OSP", "fits", fmt.Sprintf("I2OSP gave %x (err=%v) for a value that fits %d octets", buf, err, size), in)
			}
			if back := cose.OS2IP(buf); back.Cmp(x) != 0 {
				rec.Violate("OS2IP", "round-trip", "OS2IP(I2OSP(x)) != x", in)
			}
		} else if err == nil {
			rec.Violate("I2OSP", "does-not-fit", "I2OSP accepted a negative or too large integer", in)
		}
	}

	// ---------------- (a') keys whose Curve value is a wrapper type (e.g. from an HSM library) ----------------
	for ci, cv := range curves {
		alg := c16algs[ci]
		n := refcrypto.OrderSize(cv)
		key := gen.ECKey(cv, r)
		wkey := &ecdsa.PrivateKey{PublicKey: ecdsa.PublicKey{Curve: wrappedCurve{cv}, X: key.X, Y: key.Y}, D: key.D}
		for _, path := range []string{"native", "generic"} {
			var ks cryptoSigner = wkey
			if path == "generic" {
				ks = refcrypto.WrapSigner{K: wkey}
			}
			signer, err := cose.NewSigner(alg, ks)
			in := map[string]any{"curve": cv.Params().Name, "path": path + "/wrapped-curve-type"}
			if err != nil {
				rec.Event("wrapped-curve:NewSigner-refused")
				continue
			}
			for i := 0; i < 20; i++ {
				msg := []byte(fmt.Sprintf("wrapped %d", i))
				var out []byte
				if guard(rec, "ecdsa Sign (wrapped curve)", in, func() { out, err = signer.Sign(gen.Entropy, msg) }) {
					break
				}
				rec.Eval(1)
				rec.Event("wrapped-curve-signatures")
				if err != nil {
					// producing no signature is not a violation of the form rule
					rec.Event("wrapped-curve:Sign-error")
					continue
				}
				rec.Class(cv.Params().Name + "/" + path + "/wrapped-curve-type")
				if len(out) != 2*n || !refcrypto.VerifyECDSADigest(&key.PublicKey, refcrypto.Digest(refcrypto.HashOf(int64(alg)), msg), out) {
					rec.Violate("not-fixed-width", cv.Params().Name+"/"+path+"/wrapped-curve", fmt.Sprintf("signature is %d bytes (want %d) or not r||s of a valid (r,s): %s", len(out), 2*n, hexs(out)), in)
					break
				}
			}
		}
	}

	// ---------------- (b) native path ----------------
	for ci, cv := range curves {
		alg := c16algs[ci]
		n := refcrypto.OrderSize(cv)
		key := gen.ECKey(cv, r)
		signer, err := cose.NewSigner(alg, key)
		wsigner, err2 := cose.NewSigner(alg, refcrypto.WrapSigner{K: key})
		if err != nil || err2 != nil {
			rec.Violate("native-path", "NewSigner", fmt.Sprintf("NewSigner failed: %v %v", err, err2), nil)
			continue
		}
		count := c.N(8000, 200000)
		if cv.Params().Name != "P-256" {
			count = c.N(6400, 60000)
		}
		mon.Parallel(c.Workers, count, func(w, i int) {
			msg := []byte(fmt.Sprintf("message %d/%d", c.Seed, i))
			s := signer
			path := "native"
			if i%4 == 3 {
				s, path = wsigner, "wrapped-real-key"
			}
			var out []byte
			var err error
			in := map[string]any{"curve": cv.Params().Name, "path": path, "message": string(msg)}
			if guard(rec, "ecdsa Sign", in, func() { out, err = s.Sign(gen.Entropy, msg) }) {
				return
			}
			rec.Eval(1)
			rec.Event("native-path-signatures")
			if err != nil {
				rec.Violate("native-path", cv.Params().Name+"/error", "Sign failed: "+err.Error(), in)
				return
			}
			in["signature"] = hexs(out)
			if len(out) != 2*n {
				rec.Violate("not-fixed-width", cv.Params().Name+"/"+path, fmt.Sprintf("signature is %d bytes, want %d", len(out), 2*n), in)
				return
			}
			if !refcrypto.VerifyECDSADigest(&key.PublicKey, refcrypto.Digest(refcrypto.HashOf(int64(alg)), msg), out) {
				rec.Violate("invalid-signature", cv.Params().Name+"/"+path, "signature is not r||s of a valid (r,s) under the stdlib", in)
				return
			}
			lzr := lzClass(new(big.Int).SetBytes(out[:n]), n)
			lzs := lzClass(new(big.Int).SetBytes(out[n:]), n)
			rec.Class(fmt.Sprintf("%s/%s/r-lz%d/s-lz%d", cv.Params().Name, path, lzr, lzs))
			if lzr > 0 {
				rec.Event("native:leading-zero-in-r:" + cv.Params().Name)
			}
			if lzs > 0 {
				rec.Event("native:leading-zero-in-s:" + cv.Params().Name)
			}
		})
	}

	// ---------------- (c) verifier ----------------
	type vsig struct {
		r, s   *big.Int
		msg    []byte
		digest []byte
		cls    string
	}
	for ci, cv := range curves {
		alg := c16algs[ci]
		n := refcrypto.OrderSize(cv)
		key := gen.ECKey(cv, r)
		order := cv.Params().N
		verifier, err := cose.NewVerifier(alg, &key.PublicKey)
		if err != nil {
			rec.Violate("verifier", "NewVerifier", "NewVerifier refused a valid key: "+err.Error(), nil)
			continue
		}
		dv, isDV := verifier.(cose.DigestVerifier)
		hash := refcrypto.HashOf(int64(alg))
		hlen := hash.Size()
		var sigs []vsig
		maxZ := 2
		// nonces giving r with 0, 1, 2 leading zero bytes (parallel search over consecutive nonces)
		for zr := 0; zr <= maxZ; zr++ {
			startK := int64(2 + r.Intn(1000))
			var k *big.Int
			span := int64(4096)
			for base := startK; base < startK+600000 && k == nil; base += span {
				found := make([]int64, c.Workers)
				mon.Parallel(c.Workers, c.Workers, func(w, wi int) {
					per := span / int64(c.Workers)
					for cand := base + int64(wi)*per; cand < base+int64(wi+1)*per; cand++ {
						if refcrypto.LeadingZeroBytes(refcrypto.RFromNonce(cv, big.NewInt(cand)), n) == zr {
							found[wi] = cand
							return
						}
					}
				})
				for _, f := range found {
					if f != 0 && (k == nil || f < k.Int64()) {
						k = big.NewInt(f)
					}
				}
			}
			if k == nil {
				rec.Event("verifier:class-not-found")
				continue
			}
			rk := refcrypto.RFromNonce(cv, k)
			kinv := new(big.Int).ModInverse(k, order)
			// messages giving s with 0, 1, 2 leading zero bytes (modular arithmetic only)
			for zs := 0; zs <= 2; zs++ {
				for ctr := 0; ctr < 2000000; ctr++ {
					msg := []byte(fmt.Sprintf("m-%d-%d-%d", ci, zr, ctr))
					d := refcrypto.Digest(hash, msg)
					ss := refcrypto.SFromNonce(cv, key.D, kinv, rk, d)
					if ss.Sign() != 0 && refcrypto.LeadingZeroBytes(ss, n) == zs {
						sigs = append(sigs, vsig{rk, ss, msg, d, fmt.Sprintf("r-lz%d/s-lz%d", zr, zs)})
						break
					}
				}
			}
			// exact s targets through the digest interface
			for _, target := range []*big.Int{big.NewInt(1), big.NewInt(255), new(big.Int).Sub(order, big.NewInt(1)), new(big.Int).Rsh(order, 1)} {
				if d, rr, ok := refcrypto.DigestForS(cv, key.D, k, target, hlen); ok {
					sigs = append(sigs, vsig{rr, target, nil, d, fmt.Sprintf("r-lz%d/s=%s", zr, target.Text(16))})
				}
			}
		}
		rec.Extra("verifier_reference_signatures_"+cv.Params().Name, len(sigs))
		mon.Parallel(c.Workers, len(sigs), func(w, si int) {
			sg := sigs[si]
			good := refcrypto.EncodeRS(cv, sg.r, sg.s)
			in := map[string]any{"curve": cv.Params().Name, "class": sg.cls, "r": sg.r.Text(16), "s": sg.s.Text(16)}
			verify := func(sig []byte) error {
				if sg.msg != nil {
					return verifier.Verify(sg.msg, sig)
				}
				return dv.VerifyDigest(sg.digest, sig)
			}
			if sg.msg == nil && !isDV {
				rec.Violate("verifier", "DigestVerifier", "built-in ECDSA verifier does not implement DigestVerifier", in)
				return
			}
			if !ecdsa.Verify(&key.PublicKey, sg.digest, sg.r, sg.s) {
				rec.HarnessError("C16: manufactured signature is not valid under the stdlib")
				return
			}
			var err error
			if guard(rec, "ecdsaVerifier.Verify", in, func() { err = verify(good) }) {
				return
			}
			rec.Eval(1)
			rec.Event("verifier:valid-offered")
			rec.Class(fmt.Sprintf("%s/verifier/%s/as-is", cv.Params().Name, sg.cls))
			if err != nil {
				rec.Violate("valid-refused", cv.Params().Name+"/"+sg.cls, "a valid fixed-width signature was refused: "+err.Error(), in)
				return
			}
			if sg.msg != nil && isDV {
				if e := dv.VerifyDigest(sg.digest, good); e != nil {
					rec.Violate("valid-refused", cv.Params().Name+"/digest/"+sg.cls, "VerifyDigest refused what Verify accepts: "+e.Error(), in)
				}
			}
			rejects := map[string][]byte{
				"der":                refcrypto.DER(sg.r, sg.s),
				"stripped":           append(append([]byte{}, sg.r.Bytes()...), sg.s.Bytes()...),
				"zero-extended-both": append(append(append([]byte{0}, good[:n]...), 0), good[n:]...),
				"zero-extended-2":    append(append(append([]byte{0, 0}, good[:n]...), 0, 0), good[n:]...),
				"prefix-zero":        append([]byte{0}, good...),
				"suffix-zero":        append(append([]byte{}, good...), 0),
				"swapped":            append(append([]byte{}, good[n:]...), good[:n]...),
				"r-zero":             refcrypto.EncodeRS(cv, new(big.Int), sg.s),
				"s-zero":             refcrypto.EncodeRS(cv, sg.r, new(big.Int)),
				"s-is-n":             refcrypto.EncodeRS(cv, sg.r, order),
				"empty":              {},
				"r-only":             good[:n],
			}
			// unused high bits of the leading octet (P-521: 7 of them): a set bit makes the value exceed the order
			for bit := order.BitLen(); bit < 8*n; bit++ {
				rejects[fmt.Sprintf("r-padding-bit-%d-set", bit)] = refcrypto.EncodeRS(cv, new(big.Int).SetBit(new(big.Int).Set(sg.r), bit, 1), sg.s)
				rejects[fmt.Sprintf("s-padding-bit-%d-set", bit)] = refcrypto.EncodeRS(cv, sg.r, new(big.Int).SetBit(new(big.Int).Set(sg.s), bit, 1))
			}
			if rn := new(big.Int).Add(sg.r, order); rn.BitLen() <= 8*n {
				rejects["r-plus-n"] = refcrypto.EncodeRS(cv, rn, sg.s)
			}
			if sn := new(big.Int).Add(sg.s, order); sn.BitLen() <= 8*n {
				rejects["s-plus-n"] = refcrypto.EncodeRS(cv, sg.r, sn)
			}
			for l := 0; l <= 2*n+4; l++ {
				if l == 2*n {
					continue
				}
				b := make([]byte, l)
				copy(b, good)
				rejects[fmt.Sprintf("length-%d-truncated-or-zero-padded", l)] = b
				if l > 2*n {
					// same (r,s) right-aligned in a longer buffer
					b2 := make([]byte, l)
					copy(b2[l-2*n:], good)
					rejects[fmt.Sprintf("length-%d-left-padded", l)] = b2
				}
			}
			// each half left-padded with zeros to the width of ANOTHER curve (a 64-octet ES256 signature dressed
			// up as 96 or 132 octets): the width is that of the verifier's own key
			for _, other := range []int{32, 48, 66, 128} {
				if other > n {
					rejects[fmt.Sprintf("halves-padded-to-%d", other)] = append(sg.r.FillBytes(make([]byte, other)), sg.s.FillBytes(make([]byte, other))...)
				}
			}
			for _, l := range []int{255, 256, 511, 512, 513, 1024, 4096, 65536, 1 << 20} {
				b := make([]byte, l)
				copy(b, good)
				rejects[fmt.Sprintf("length-%d-zero-padded", l)] = b
			}
			// the valid signature followed by whole further fields of the same width (zeros, a copy of r, a copy
			// of the whole signature, random): 3n .. 8n octets
			for k := 1; k <= 6; k++ {
				for name, fillv := range map[string][]byte{"zeros": make([]byte, k*n), "copy-of-r": bytes.Repeat(good[:n], k), "random": mon.NewRand(uint64(c.Seed)).Sub(uint64(177000+si*8+k)).Bytes(k * n), "copy-of-signature": bytes.Repeat(good, k)[:k*n]} {
					rejects[fmt.Sprintf("valid-followed-by-%d-more-fields-%s", k, name)] = append(append([]byte{}, good...), fillv...)
				}
				rejects[fmt.Sprintf("valid-preceded-by-%d-zero-fields", k)] = append(make([]byte, k*n), good...)
			}
			// the valid signature still inside the length framing of the place it was copied from: a CBOR byte
			// string head of every width (and tagged), a DER OCTET STRING / BIT STRING / SEQUENCE head, 1-, 2-,
			// 4- and 8-octet big- and little-endian length prefixes (SSH, TLS, protobuf-like), the same as
			// trailers, and each half framed on its own
			{
				L := 2 * n
				be := func(w int, v int) []byte {
					b := make([]byte, w)
					for i := w - 1; i >= 0; i-- {
						b[i] = byte(v)
						v >>= 8
					}
					return b
				}
				le := func(w int, v int) []byte {
					b := be(w, v)
					for i, j := 0, len(b)-1; i < j; i, j = i+1, j-1 {
						b[i], b[j] = b[j], b[i]
					}
					return b
				}
				frames := map[string][]byte{
					"cbor-bstr-head-2":     append([]byte{0x58}, be(1, L)...),
					"cbor-bstr-head-3":     append([]byte{0x59}, be(2, L)...),
					"cbor-bstr-head-5":     append([]byte{0x5a}, be(4, L)...),
					"cbor-bstr-head-9":     append([]byte{0x5b}, be(8, L)...),
					"cbor-tstr-head-2":     append([]byte{0x78}, be(1, L)...),
					"cbor-tag24-bstr":      append([]byte{0xd8, 0x18, 0x58}, be(1, L)...),
					"cbor-array1-bstr":     append([]byte{0x81, 0x58}, be(1, L)...),
					"cbor-indefinite-bstr": append([]byte{0x5f, 0x58}, be(1, L)...),
					"der-octet-string":     append([]byte{0x04}, derLen(L)...),
					"der-bit-string":       append(append([]byte{0x03}, derLen(L+1)...), 0),
					"der-sequence":         append([]byte{0x30}, derLen(L)...),
					"len-1":                be(1, L),
					"len-2-be":             be(2, L),
					"len-4-be":             be(4, L),
					"len-8-be":             be(8, L),
					"len-2-le":             le(2, L),
					"len-4-le":             le(4, L),
					"len-n-1":              be(1, n),
				}
				for fname, head := range frames {
					rejects["framed-"+fname] = append(append([]byte{}, head...), good...)
					rejects["trailer-"+fname] = append(append([]byte{}, good...), head...)
				}
				rejects["framed-cbor-indefinite-bstr"] = append(rejects["framed-cbor-indefinite-bstr"], 0xff)
				half := func(head []byte) []byte {
					return append(append(append(append([]byte{}, head...), good[:n]...), head...), good[n:]...)
				}
				rejects["halves-framed-cbor-bstr"] = half(append([]byte{0x58}, be(1, n)...))
				rejects["halves-framed-der-integer"] = append(append([]byte{0x30}, derLen(2*(n+len(derLen(n))+1))...), half(append([]byte{0x02}, derLen(n)...))...)
				rejects["halves-framed-len-2"] = half(be(2, n))
				rejects["halves-framed-len-4"] = half(be(4, n))
			}
			// (r, n-s) is a different, valid signature: must be accepted
			alt := refcrypto.EncodeRS(cv, sg.r, new(big.Int).Sub(order, sg.s))
			if e := verify(alt); e != nil {
				rec.Violate("valid-refused", cv.Params().Name+"/n-minus-s", "the valid signature (r, n-s) was refused: "+e.Error(), in)
			}
			for name, bad := range rejects {
				if eqBytes(bad, good) || eqBytes(bad, alt) {
					continue
				}
				var e error
				inn := map[string]any{"curve": cv.Params().Name, "class": sg.cls, "malformation": name, "signature": hexs(bad)}
				if guard(rec, "ecdsaVerifier.Verify", inn, func() { e = verify(bad) }) {
					continue
				}
				rec.Eval(1)
				rec.Event("verifier:invalid-offered")
				mal := name
				if len(name) > 7 && name[:7] == "length-" {
					mal = "length-class"
				}
				if strings.HasPrefix(name, "framed-") || strings.HasPrefix(name, "trailer-") || strings.HasPrefix(name, "halves-framed-") {
					mal = "length-framing"
				}
				rec.Class(fmt.Sprintf("%s/verifier/%s/%s", cv.Params().Name, sg.cls, mal))
				// the oracle: valid iff exactly 2n bytes holding an (r,s) the stdlib accepts
				refOK := refcrypto.VerifyECDSADigest(&key.PublicKey, sg.digest, bad)
				if refOK {
					continue // (cannot happen for these forms, kept for soundness)
				}
				if e == nil {
					rec.Violate("invalid-accepted", cv.Params().Name+"/"+name, "the verifier accepted a byte string that is not the fixed-width form of a valid (r,s)", inn)
				} else if !errors.Is(e, cose.ErrVerification) {
					rec.Violate("wrong-error", cv.Params().Name+"/"+mal, "rejection must be ErrVerification, got: "+e.Error(), inn)
				}
			}
			if si%5 == 0 {
				rec.Sample(cv.Params().Name+"/"+sg.cls, map[string]any{"signature": hexs(good)})
			}
		})
	}
	// ---------------- a key object given another key after the signer / verifier was first used ----------------
	// the form of a signature follows the curve of the key that is used for it, not of the key that the
	// object held when the signer or verifier was made or first used
	for i := 0; i < c.N(60, 600); i++ {
		rr := mon.NewRand(uint64(c.Seed)).Sub(uint64(179000 + i))
		from, to := curves[i%3], curves[(i+1+i/3%2)%3]
		alg := c16algs[i%3]
		k1, k2 := gen.ECKey(from, rr), gen.ECKey(to, rr)
		msg := rr.Bytes(1 + rr.Intn(40))
		in := map[string]any{"case": i, "family": "key object re-keyed in place", "from": from.Params().Name, "to": to.Params().Name}
		for _, path := range []string{"native", "generic", "stub"} {
			live := *k1 // the object the signer and the verifier hold on to
			var ks crypto.Signer = &live
			stub := &refcrypto.StubECDSASigner{Pub: &live.PublicKey, R: big.NewInt(1 + int64(rr.Intn(250))), S: big.NewInt(1 + int64(rr.Intn(250)))}
			switch path {
			case "generic":
				ks = refcrypto.WrapSigner{K: &live}
			case "stub":
				ks = stub
			}
			signer, e1 := cose.NewSigner(alg, ks)
			verifier, e2 := cose.NewVerifier(alg, &live.PublicKey)
			if e1 != nil || e2 != nil {
				rec.HarnessError(fmt.Sprintf("re-keyed family: %v %v", e1, e2))
				continue
			}
			var s1, s2 []byte
			var err1, err2, v1, v2 error
			v3 := error(cose.ErrVerification)
			if guard(rec, "re-keyed/"+path, in, func() {
				s1, err1 = signer.Sign(gen.Entropy, msg)
				if err1 == nil && path != "stub" {
					v1 = verifier.Verify(msg, s1)
				}
				live = *k2
				s2, err2 = signer.Sign(gen.Entropy, msg)
				if err2 == nil && path != "stub" {
					v2 = verifier.Verify(msg, s2)
					// the form the first key's curve would have had: the same numbers at the other width
					n1, n2 := refcrypto.OrderSize(from), refcrypto.OrderSize(to)
					if len(s2) == 2*n2 && n1 > n2 {
						other := make([]byte, 2*n1)
						copy(other[n1-n2:n1], s2[:n2])
						copy(other[2*n1-n2:], s2[n2:])
						v3 = verifier.Verify(msg, other)
					} else {
						v3 = cose.ErrVerification
					}
				}
			}) {
				continue
			}
			rec.Eval(1)
			rec.Event("re-keyed-in-place")
			rec.Class(fmt.Sprintf("re-keyed/%s/%s->%s", path, from.Params().Name, to.Params().Name))
			n1, n2 := refcrypto.OrderSize(from), refcrypto.OrderSize(to)
			switch {
			case err1 != nil || err2 != nil:
				rec.Violate("form", "re-keyed/"+path, fmt.Sprintf("signing failed: %v / %v", err1, err2), in)
			case len(s1) != 2*n1:
				rec.Violate("form", "re-keyed/"+path+"/first", fmt.Sprintf("first signature has %d bytes, curve order has %d", len(s1), n1), in)
			case len(s2) != 2*n2:
				rec.Violate("form", "re-keyed/"+path+"/second", fmt.Sprintf("after the key object was given a %s key the signature has %d bytes, the curve order has %d", to.Params().Name, len(s2), n2), in)
			case v1 != nil || v2 != nil:
				rec.Violate("verifier-refused-canonical", "re-keyed/"+path, fmt.Sprintf("verifier over the same key object: first %v, after re-keying %v", v1, v2), in)
			case v3 == nil:
				rec.Violate("verifier-accepted-other-form", "re-keyed/"+path, "after re-keying the verifier accepts the signature at the first key's width", in)
			case path == "stub" && !eqBytes(s2, refcrypto.EncodeRS(to, stub.R, stub.S)):
				rec.Violate("form", "re-keyed/stub/content", "r || s not left-padded to the second key's order size: "+hexs(s2), in)
			}
		}
	}
	rec.Require("re-keyed-in-place", 100)
	for _, cv := range curves {
		rec.Require("native:leading-zero-in-r:"+cv.Params().Name, 1)
		rec.Require("native:leading-zero-in-s:"+cv.Params().Name, 1)
	}
	rec.Require("generic-path-signatures", 3000)
	rec.Require("verifier:invalid-offered", 2000)
	rec.RequireClasses(150)
}

// wrappedCurve is an elliptic.Curve of another Go type with the same parameters.
type wrappedCurve struct{ elliptic.Curve }

// derLen is the DER encoding of a length.
func derLen(l int) []byte {
	switch {
	case l < 0x80:
		return []byte{byte(l)}
	case l < 0x100:
		return []byte{0x81, byte(l)}
	default:
		return []byte{0x82, byte(l >> 8), byte(l)}
	}
}
