package checks

import (
	"fmt"
	"strings"
	"sync/atomic"

	cose "github.com/veraison/go-cose"

	"verif/harness/gen"
	"verif/harness/mon"
	"verif/harness/refcbor"
	"verif/harness/refcose"
)

// C09 - re-encoding a decoded message preserves header bytes and signature
// validity. Monitor: MarshalCBOR(UnmarshalCBOR(b)) compared with a
// prediction computed from b by the reference parser (appendix A.4); Verify
// before/after; fixed point once the retained raw bytes are discarded.

func init() {
	register(&Check{
		ID:    "C09",
		Level: "exploration",
		Rule: "accepted wire messages from the C07 generator (reference-signed, all encoder choices, nested countersignatures) and accepted structural mutants of valid encodings, for Sign1 tagged/untagged, COSE_Sign and stand-alone Signature/Countersignature: " +
			"(1) re-encoding equals the prediction (both buckets of every layer byte-for-byte, only payload/signature/signatures-array heads shortened); (2) reference signatures still verify on the re-encoding; (3) up to 5 decode/encode cycles change nothing more; " +
			"(4) with raw bytes discarded recursively the output e1 is a fixed point: Marshal(Unmarshal(e1)) = e1 and Marshal(clear(Unmarshal(e1))) = e1. Distinct = (kind, canonical input?, non-canonical feature set, nesting, source).",
		Assume: []string{"prediction rules of DESIGN.md appendix A.4"},
		Run:    runC09,
	})
}

// shortest re-heads a bstr / null item.
func shortestItem(n *Node) []byte {
	if n.Major == refcbor.Bstr {
		return refcbor.Encode(refcbor.NBstr(n.Str))
	}
	return refcbor.Encode(n)
}

// c09predict computes the expected re-encoding of wire message b.
func c09predict(kind string, b []byte) ([]byte, bool) {
	n, err := refcbor.Parse(b)
	if err != nil {
		return nil, false
	}
	raw := func(x *Node) []byte { return b[x.Start:x.End] }
	sigItem := func(g *Node) ([]byte, bool) {
		if g.Major != refcbor.Array || len(g.Kids) != 3 {
			return nil, false
		}
		// (the head of the entry as the sender wrote it: the property allows no difference there)
		out := append([]byte{}, b[g.Start:g.Kids[0].Start]...)
		out = append(out, raw(g.Kids[0])...)
		out = append(out, raw(g.Kids[1])...)
		return append(out, shortestItem(g.Kids[2])...), true
	}
	switch kind {
	case "sign1", "untagged":
		a := n
		var out []byte
		if kind == "sign1" {
			if n.Major != refcbor.Tag {
				return nil, false
			}
			a = n.Kids[0]
			out = append(out, b[n.Start:a.Start]...)
		}
		if a.Major != refcbor.Array || len(a.Kids) != 4 {
			return nil, false
		}
		out = append(out, b[a.Start:a.Kids[0].Start]...)
		out = append(out, raw(a.Kids[0])...)
		out = append(out, raw(a.Kids[1])...)
		out = append(out, shortestItem(a.Kids[2])...)
		return append(out, shortestItem(a.Kids[3])...), true
	case "sign":
		if n.Major != refcbor.Tag {
			return nil, false
		}
		a := n.Kids[0]
		if a.Major != refcbor.Array || len(a.Kids) != 4 || a.Kids[3].Major != refcbor.Array {
			return nil, false
		}
		out := append([]byte{}, b[n.Start:a.Kids[0].Start]...)
		out = append(out, raw(a.Kids[0])...)
		out = append(out, raw(a.Kids[1])...)
		out = append(out, shortestItem(a.Kids[2])...)
		out = refcbor.AppendHead(out, refcbor.Array, uint64(len(a.Kids[3].Kids)), 0)
		for _, g := range a.Kids[3].Kids {
			s, ok := sigItem(g)
			if !ok {
				return nil, false
			}
			out = append(out, s...)
		}
		return out, true
	case "signature", "countersignature":
		return sigItem(n)
	}
	return nil, false
}

// c09codec is decode/encode/clear for one kind.
type c09codec struct {
	decode func(b []byte) (any, error)
	encode func(v any) ([]byte, error)
	clear  func(v any)
}

// clearMode selects how the caller discards raw bytes: 0 = nil, 1 = empty non-nil slice, 2 = re-sliced to length 0.
var clearMode atomic.Int32

func clearHeaders(h *cose.Headers) {
	switch clearMode.Add(1) % 3 {
	case 0:
		h.RawProtected, h.RawUnprotected = nil, nil
	case 1:
		h.RawProtected, h.RawUnprotected = []byte{}, []byte{}
	default:
		h.RawProtected, h.RawUnprotected = h.RawProtected[:0], h.RawUnprotected[:0]
	}
	for _, l := range []int64{7, 11} {
		switch v := h.Unprotected[l].(type) {
		case *cose.Countersignature:
			if v != nil {
				clearHeaders(&v.Headers)
			}
		case []*cose.Countersignature:
			for _, c := range v {
				if c != nil {
					clearHeaders(&c.Headers)
				}
			}
		}
	}
}

func c09codecFor(kind string) c09codec {
	switch kind {
	case "sign1":
		return c09codec{
			func(b []byte) (any, error) { m := &cose.Sign1Message{}; return m, m.UnmarshalCBOR(b) },
			func(v any) ([]byte, error) { return v.(*cose.Sign1Message).MarshalCBOR() },
			func(v any) { clearHeaders(&v.(*cose.Sign1Message).Headers) },
		}
	case "untagged":
		return c09codec{
			func(b []byte) (any, error) { m := &cose.UntaggedSign1Message{}; return m, m.UnmarshalCBOR(b) },
			func(v any) ([]byte, error) { return v.(*cose.UntaggedSign1Message).MarshalCBOR() },
			func(v any) { clearHeaders(&v.(*cose.UntaggedSign1Message).Headers) },
		}
	case "sign":
		return c09codec{
			func(b []byte) (any, error) { m := &cose.SignMessage{}; return m, m.UnmarshalCBOR(b) },
			func(v any) ([]byte, error) { return v.(*cose.SignMessage).MarshalCBOR() },
			func(v any) {
				m := v.(*cose.SignMessage)
				clearHeaders(&m.Headers)
				for _, s := range m.Signatures {
					clearHeaders(&s.Headers)
				}
			},
		}
	case "signature":
		return c09codec{
			func(b []byte) (any, error) { m := &cose.Signature{}; return m, m.UnmarshalCBOR(b) },
			func(v any) ([]byte, error) { return v.(*cose.Signature).MarshalCBOR() },
			func(v any) { clearHeaders(&v.(*cose.Signature).Headers) },
		}
	default:
		return c09codec{
			func(b []byte) (any, error) { m := &cose.Countersignature{}; return m, m.UnmarshalCBOR(b) },
			func(v any) ([]byte, error) { return v.(*cose.Countersignature).MarshalCBOR() },
			func(v any) { clearHeaders(&v.(*cose.Countersignature).Headers) },
		}
	}
}

// c09one applies all C09 oracles to one wire message; verify (optional)
// re-verifies a decoded value.
func c09one(rec *mon.Recorder, kind, source string, b []byte, verify func(v any) error, in map[string]any) {
	cd := c09codecFor(kind)
	var v any
	var err error
	if guard(rec, kind+".UnmarshalCBOR", in, func() { v, err = cd.decode(b) }) {
		return
	}
	rec.Eval(1)
	rec.Event("inputs")
	if err != nil {
		rec.Event("inputs:not-accepted")
		return
	}
	rec.Event("accepted:" + kind)
	var out []byte
	if guard(rec, kind+".MarshalCBOR", in, func() { out, err = cd.encode(v) }) {
		return
	}
	if err != nil {
		rec.Violate("reencode-failed", kind, "an accepted message cannot be encoded again: "+err.Error(), in)
		return
	}
	want, ok := c09predict(kind, b)
	if !ok {
		rec.HarnessError("C09: cannot predict the re-encoding of an accepted " + kind + ": " + mon.Hex(b))
		return
	}
	canon, _ := refcbor.IsCanonical(b)
	feature := "noncanonical"
	if canon {
		feature = "canonical"
	}
	cls := fmt.Sprintf("%s/%s/%s/%v", kind, source, feature, in["nesting"])
	rec.Class(cls)
	if !eqBytes(out, want) {
		rec.Violate("reencoding-differs", kind+"/"+source, fmt.Sprintf("re-encoding differs from the prediction\n got  %s\n want %s", hexs(out), hexs(want)), in)
		return
	}
	if canon && !eqBytes(out, b) {
		rec.Violate("canonical-not-identical", kind, "deterministically encoded input was not reproduced identically", in)
		return
	}
	if verify != nil {
		if err := verify(v); err != nil {
			rec.Violate("verify-before", kind, "reference-signed message does not verify after decoding: "+err.Error(), in)
			return
		}
	}
	// cycles
	cur := out
	for k := 0; k < 4; k++ {
		v2, err := cd.decode(cur)
		if err != nil {
			rec.Violate("cycle-decode", kind, fmt.Sprintf("re-encoding refused by the decoder in cycle %d: %v", k+2, err), in)
			return
		}
		if k == 0 && verify != nil {
			if err := verify(v2); err != nil {
				rec.Violate("verify-after", kind, "signature no longer verifies on the re-encoding: "+err.Error(), in)
				return
			}
			rec.Event("verified-after-reencoding")
		}
		nxt, err := cd.encode(v2)
		if err != nil || !eqBytes(nxt, cur) {
			rec.Violate("cycle-unstable", kind, fmt.Sprintf("cycle %d changed the bytes (err=%v)", k+2, err), in)
			return
		}
		cur = nxt
	}
	rec.Event("cycles-stable")
	c09partial(rec, kind, b, cd, verify, in)
	// fixed point with raw bytes discarded
	var e1 []byte
	if guard(rec, kind+".MarshalCBOR(raw cleared)", in, func() {
		cd.clear(v)
		e1, err = cd.encode(v)
	}) {
		return
	}
	if err != nil {
		// the parsed value of an accepted message may be un-encodable by the default encoder only if
		// that is a documented limit; none is, so report it
		rec.Violate("clear-encode-failed", kind, "accepted message cannot be encoded once raw bytes are discarded: "+err.Error(), in)
		return
	}
	v3, err := cd.decode(e1)
	if err != nil {
		key := kind
		if strings.Contains(err.Error(), "overflows Go's int64") || c09hasBignumWitness(b) {
			// witness class of known finding F1: a positive bignum (tag 2) between 2^63 and 2^64 inside a
			// protected header is accepted, becomes a big.Int, and is re-encoded as a plain CBOR uint that
			// the decoder's int64 conversion refuses
			key = "positive-bignum-between-2^63-and-2^64-reencoded-as-uint"
		}
		rec.Violate("canonical-form-refused", key, "encoding with raw bytes discarded is refused by the decoder: "+err.Error()+" e1="+hexs(e1), in)
		return
	}
	e2, err := cd.encode(v3)
	if err != nil || !eqBytes(e2, e1) {
		rec.Violate("not-a-fixed-point", kind+"/raw-kept", fmt.Sprintf("Marshal(Unmarshal(e1)) != e1 (err=%v)\n e1 %s\n e2 %s", err, hexs(e1), hexs(e2)), in)
		return
	}
	cd.clear(v3)
	e3, err := cd.encode(v3)
	if err != nil || !eqBytes(e3, e1) {
		rec.Violate("not-a-fixed-point", kind+"/raw-cleared", fmt.Sprintf("Marshal(clear(Unmarshal(e1))) != e1 (err=%v)\n e1 %s\n e3 %s", err, hexs(e1), hexs(e3)), in)
		return
	}
	rec.Event("fixed-point")
	if rec.Events("fixed-point")%200 == 1 {
		rec.Sample(kind+"/"+source+"/"+feature, map[string]any{"in": hexs(b), "reencoded": hexs(out), "canonical_form": hexs(e1)})
	}
}

func runC09(c *Ctx) {
	rec := c.Rec
	// fixed witnesses (always exercised, so that a listed finding is reported on every run)
	{
		prot := refcbor.NMap(refcbor.NInt(1), refcbor.NInt(-8), refcbor.NTstr("a"), refcbor.NTag(2, refcbor.NBstr([]byte{0xfc, 0xbf, 0xef, 0x5c, 0xe0, 0x32, 0x95, 0xe3})))
		w := &gen.WSign1{L: gen.WLayer{ProtMap: prot, Unprot: refcbor.NMap()}, Payload: []byte("p"), Sig: []byte{1, 2}}
		b := w.Bytes()
		c09one(rec, "untagged", "fixed-witness", b, nil, map[string]any{"wire": mon.FullHex(b), "nesting": "witness"})
	}
	n := c.N(5000, 300000)
	mon.Parallel(c.Workers, n, func(w, i int) {
		r := mon.NewRand(uint64(c.Seed)).Sub(uint64(111000 + i))
		m := c07build(c, r, i)
		kind := m.kind
		if len(kind) > 4 && kind[:4] == "sign" && kind != "sign1" && kind != "signature" {
			kind = "sign"
		}
		in := map[string]any{"case": i, "kind": kind, "wire": mon.FullHex(m.bytes), "nesting": m.shape, "choices": m.choice}
		var verify func(v any) error
		switch kind {
		case "sign1":
			verify = func(v any) error { return v.(*cose.Sign1Message).Verify(m.ext, m.keys[0].Verifier) }
		case "untagged":
			verify = func(v any) error { return v.(*cose.UntaggedSign1Message).Verify(m.ext, m.keys[0].Verifier) }
		case "sign":
			vs := make([]cose.Verifier, len(m.keys))
			for j, k := range m.keys {
				vs[j] = k.Verifier
			}
			verify = func(v any) error { return v.(*cose.SignMessage).Verify(m.ext, vs...) }
		case "signature":
			verify = func(v any) error {
				return v.(*cose.Signature).Verify(m.keys[0].Verifier, []byte{0x40}, m.payload, m.ext)
			}
		}
		c09one(rec, kind, "reference-signed", m.bytes, verify, in)
		if kind == "signature" {
			c09one(rec, "countersignature", "reference-signed", m.bytes, nil, in)
		}
	})
	// chains of countersignatures deeper than the generator's three levels (5 to 8): accepted, so they re-encode
	// like everything else, with and without the retained bytes
	for depth := 4; depth <= 8; depth++ {
		for variant := 0; variant < 3; variant++ {
			item := refcbor.NArr(refcbor.NBstr([]byte{0xa1, 0x01, 0x26}), refcbor.NMap(), refcbor.NBstr([]byte("innermost")))
			for lvl := 1; lvl < depth; lvl++ {
				un := refcbor.NMap(refcbor.NInt(int64([]int{11, 7}[(lvl+variant)%2])), item)
				if variant == 2 {
					un.Kids = append([]*Node{refcbor.NInt(int64(900 + lvl)), refcbor.NTstr("x")}, un.Kids...) // not in canonical order
				}
				item = refcbor.NArr(refcbor.NBstr([]byte{0xa1, 0x01, 0x26}), un, refcbor.NBstr([]byte(fmt.Sprintf("level-%d", lvl))))
			}
			wire := (&gen.WSign1{L: gen.WLayer{ProtMap: refcbor.NMap(refcbor.NInt(1), refcbor.NInt(-7)), Unprot: refcbor.NMap(refcbor.NInt(11), item)}, Payload: []byte("p"), Sig: mon.FixedSig, Tagged: true}).Bytes()
			in := map[string]any{"kind": "sign1", "nesting": fmt.Sprintf("chain-depth-%d/%d", depth, variant), "wire": mon.FullHex(wire)}
			c09one(rec, "sign1", "deep-countersignature-chain", wire, nil, in)
			rec.Event("deep-countersignature-chains")
		}
	}
	// accepted structural mutants of valid encodings
	bases := gen.ValidCorpus(mon.NewRand(uint64(c.Seed)).Sub(112000), c.N(300, 8000), 40)
	kindOf := map[refcose.Kind]string{refcose.KSign1Tagged: "sign1", refcose.KSign1Untagged: "untagged", refcose.KSignTagged: "sign", refcose.KSignature: "signature"}
	mon.Parallel(c.Workers, len(bases), func(w, bi int) {
		base := bases[bi]
		kind, ok := kindOf[base.Kind]
		if !ok {
			return
		}
		r := mon.NewRand(uint64(c.Seed)).Sub(uint64(113000 + bi))
		in := map[string]any{"base": bi, "kind": kind, "nesting": "corpus"}
		c09one(rec, kind, "valid-corpus", base.Bytes, nil, in)
		t, err := gen.ParseTree(base.Bytes)
		if err != nil {
			return
		}
		ns := len(t.Sites())
		for j := 0; j < 60; j++ {
			op := gen.FaultOps[r.Intn(len(gen.FaultOps))]
			if b, _, ok := gen.ApplyFault(t, r.Intn(ns), op, r); ok {
				inn := map[string]any{"base": bi, "kind": kind, "op": op, "wire": mon.FullHex(b), "nesting": "mutant"}
				c09one(rec, kind, "mutant:"+op, b, nil, inn)
			}
		}
		// every array head of the message, one at a time, in each wider spelling (the message itself, the
		// signatures array, each COSE_Signature entry, countersignatures in headers, array-valued parameters):
		// whatever the decoder accepts of these must come out as it came in
		nArr := 0
		for si, site := range t.Sites() {
			if site.N.Major != refcbor.Array || site.N.Indef {
				continue
			}
			nArr++
			for _, wd := range []int{2, 3, 5, 9} {
				cl := t.Clone()
				cs := cl.Sites()
				if si >= len(cs) || cs[si].N.Major != refcbor.Array {
					break
				}
				cs[si].N.Width = wd
				var b []byte
				func() {
					defer func() { recover() }()
					b = cl.Seal()
				}()
				if len(b) == 0 {
					continue
				}
				inn := map[string]any{"base": bi, "kind": kind, "op": fmt.Sprintf("array-head-width-%d at %s", wd, site.Path), "wire": mon.FullHex(b), "nesting": "mutant"}
				c09one(rec, kind, "mutant:array-head-width", b, nil, inn)
				rec.Event("array-head-width-variants")
			}
			if nArr >= 12 {
				break
			}
		}
	})
	// the message VerifyHashEnvelope returns must re-encode like any decoded message
	nHE := c.N(400, 20000)
	mon.Parallel(c.Workers, nHE, func(w, i int) {
		r := mon.NewRand(uint64(c.Seed)).Sub(uint64(114000 + i))
		k := c.Keys.Keys[i%7]
		b := c03makeBase(c, r, 49+i%7+7*(i/7%3)*0, k) // kind index 7 = hash envelope
		if b == nil || b.kind != "hashenv" {
			return
		}
		in := map[string]any{"case": i, "kind": "hash-envelope", "wire": mon.FullHex(b.wire), "nesting": "hashenv"}
		var m *cose.Sign1Message
		var err error
		if guard(rec, "VerifyHashEnvelope", in, func() { m, err = cose.VerifyHashEnvelope(k.Verifier, b.wire) }) {
			return
		}
		rec.Eval(1)
		rec.Event("hash-envelopes")
		if err != nil || m == nil {
			return // acceptance is C12's / C03's business
		}
		out, merr := m.MarshalCBOR()
		want, ok := c09predict("sign1", b.wire)
		if !ok {
			return
		}
		canon, _ := refcbor.IsCanonical(b.wire)
		rec.Class(fmt.Sprintf("hash-envelope/returned-message/canonical=%v/%s", canon, k.Name))
		if merr != nil || !eqBytes(out, want) {
			rec.Violate("reencoding-differs", "hash-envelope", fmt.Sprintf("the message returned by VerifyHashEnvelope does not re-encode to the received bytes (err=%v)\n got  %s\n want %s", merr, hexs(out), hexs(want)), in)
			return
		}
		var d cose.Sign1Message
		if d.UnmarshalCBOR(out) != nil || d.Verify(nil, k.Verifier) != nil {
			rec.Violate("verify-after", "hash-envelope", "the re-encoded hash envelope no longer verifies", in)
			return
		}
		rec.Event("hash-envelopes-reencoded")
	})
	rec.Require("hash-envelopes-reencoded", int64(nHE/4))
	rec.Require("fixed-point", int64(n/2))
	rec.Require("verified-after-reencoding", int64(n/2))
	rec.RequireClasses(40)
}

// c09hasBignumWitness reports whether the wire message carries, in the
// protected header of any layer, a positive bignum (tag 2) whose value lies
// between 2^63 and 2^64 - the input class of known finding F1.
func c09hasBignumWitness(b []byte) bool {
	t, err := gen.ParseTree(b)
	if err != nil {
		return false
	}
	found := false
	for _, s := range t.Sites() {
		n := s.N
		if n.Major == refcbor.Tag && n.Arg == 2 && len(n.Kids) == 1 && n.Kids[0].Major == refcbor.Bstr {
			v := n.Kids[0].Str
			for len(v) > 0 && v[0] == 0 {
				v = v[1:]
			}
			if len(v) == 8 && v[0]&0x80 != 0 {
				found = true
			}
		}
	}
	return found
}

// c09headersOf returns the top-level Headers of a decoded value.
func c09headersOf(v any) *cose.Headers {
	switch m := v.(type) {
	case *cose.Sign1Message:
		return &m.Headers
	case *cose.UntaggedSign1Message:
		return &m.Headers
	case *cose.SignMessage:
		return &m.Headers
	case *cose.Signature:
		return &m.Headers
	case *cose.Countersignature:
		return &m.Headers
	}
	return nil
}

var partialMode atomic.Int32

// c09partial discards only ONE of the two retained raw header fields of the top layer (what an
// application does when it adds a kid or a countersignature to the unprotected bucket of a received
// message) and re-encodes: the bucket whose raw bytes were kept must come out byte-identical and the
// result must be decodable; when only the unprotected raw bytes were
// discarded the signature must still verify.
func c09partial(rec *mon.Recorder, kind string, b []byte, cd c09codec, verify func(v any) error, in map[string]any) {
	top, err := refcbor.Parse(b)
	if err != nil {
		return
	}
	for top.Major == refcbor.Tag {
		top = top.Kids[0]
	}
	if top.Major != refcbor.Array || len(top.Kids) < 3 {
		return
	}
	for _, which := range []string{"unprotected", "protected"} {
		v, err := cd.decode(b)
		if err != nil {
			return
		}
		h := c09headersOf(v)
		if h == nil {
			return
		}
		mode := partialMode.Add(1) % 3
		pick := func(cur []byte) []byte {
			switch mode {
			case 0:
				return nil
			case 1:
				return []byte{}
			}
			return cur[:0]
		}
		if which == "unprotected" {
			h.RawUnprotected = pick(h.RawUnprotected)
		} else {
			h.RawProtected = pick(h.RawProtected)
		}
		inn := map[string]any{"wire": in["wire"], "discarded": "Raw" + which, "mode": mode}
		var out []byte
		if guard(rec, kind+".MarshalCBOR(one raw field discarded)", inn, func() { out, err = cd.encode(v) }) {
			return
		}
		rec.Eval(1)
		rec.Event("partial-discard:" + which)
		if err != nil {
			rec.Violate("partial-discard", kind+"/"+which+"/encode", "an accepted message cannot be encoded after one raw header field was discarded: "+err.Error(), inn)
			return
		}
		o, perr := refcbor.Parse(out)
		if perr != nil {
			rec.Violate("partial-discard", kind+"/"+which+"/unreadable", "re-encoding is not CBOR: "+perr.Error(), inn)
			return
		}
		for o.Major == refcbor.Tag {
			o = o.Kids[0]
		}
		if o.Major != refcbor.Array || len(o.Kids) != len(top.Kids) {
			rec.Violate("partial-discard", kind+"/"+which+"/shape", "re-encoding has another shape", inn)
			return
		}
		keptIdx := 0
		if which == "protected" {
			keptIdx = 1
		}
		if !eqBytes(out[o.Kids[keptIdx].Start:o.Kids[keptIdx].End], b[top.Kids[keptIdx].Start:top.Kids[keptIdx].End]) {
			rec.Violate("partial-discard", kind+"/"+which+"/kept-bucket-changed", fmt.Sprintf("discarding Raw%s changed the bytes of the OTHER bucket\n in  %s\n out %s", which, hexs(b[top.Kids[keptIdx].Start:top.Kids[keptIdx].End]), hexs(out[o.Kids[keptIdx].Start:o.Kids[keptIdx].End])), inn)
			return
		}
		// ... and the layers below, whose retained bytes the caller did not discard, come out as they came in
		if which == "unprotected" {
			ia, oa := c09nestedItems(top.Kids[1]), c09nestedItems(o.Kids[1])
			if len(ia) > 0 {
				rec.Event("partial-discard:nested-layers")
				bad := len(ia) != len(oa)
				for k := 0; !bad && k < len(ia); k++ {
					x, y := ia[k], oa[k]
					bad = !eqBytes(x.Kids[0].Str, y.Kids[0].Str) || !eqBytes(b[x.Kids[1].Start:x.Kids[1].End], out[y.Kids[1].Start:y.Kids[1].End]) || !eqBytes(x.Kids[2].Str, y.Kids[2].Str)
				}
				if bad {
					rec.Violate("partial-discard", kind+"/nested-layer-changed", fmt.Sprintf("discarding only the outer RawUnprotected changed a countersignature layer below it\n in  %s\n out %s", hexs(b[top.Kids[1].Start:top.Kids[1].End]), hexs(out[o.Kids[1].Start:o.Kids[1].End])), inn)
					return
				}
			}
		}
		// (the re-encoded bucket itself is judged by the full-discard oracles below: the CBOR library
		//  legitimately normalises float widths, date tags and key order there)
		if _, derr := cd.decode(out); derr != nil && !c09hasBignumWitness(b) && !strings.Contains(derr.Error(), "overflows Go's int64") {
			rec.Violate("partial-discard", kind+"/"+which+"/refused", "re-encoding after discarding Raw"+which+" is refused by the decoder: "+derr.Error(), inn)
			return
		}
		if which == "unprotected" && verify != nil {
			v2, derr := cd.decode(out)
			if derr != nil {
				rec.Violate("partial-discard", kind+"/decode", "re-encoding after discarding RawUnprotected is refused: "+derr.Error(), inn)
				return
			}
			if verr := verify(v2); verr != nil {
				rec.Violate("partial-discard", kind+"/verify", "signature no longer verifies after only RawUnprotected was discarded: "+verr.Error(), inn)
				return
			}
			rec.Event("partial-discard:verified")
		}
	}
}

// c09nestedItems lists the countersignature items ([protected, unprotected, signature]) held under
// labels 7 and 11 of an unprotected header map, label 7 first, each in wire order.
func c09nestedItems(m *refcbor.Node) []*refcbor.Node {
	var out []*refcbor.Node
	if m == nil || m.Major != refcbor.Map {
		return nil
	}
	for _, label := range []uint64{7, 11} {
		for k := 0; k+1 < len(m.Kids); k += 2 {
			key, val := m.Kids[k], m.Kids[k+1]
			if key.Major != refcbor.Uint || key.Arg != label || val.Major != refcbor.Array {
				continue
			}
			isItem := func(n *refcbor.Node) bool {
				return n.Major == refcbor.Array && len(n.Kids) == 3 && n.Kids[0].Major == refcbor.Bstr && n.Kids[1].Major == refcbor.Map && n.Kids[2].Major == refcbor.Bstr
			}
			if isItem(val) {
				out = append(out, val)
				continue
			}
			for _, it := range val.Kids {
				if isItem(it) {
					out = append(out, it)
				}
			}
		}
	}
	return out
}
