// Package checks holds one workload + oracle per property (cNN.go) and the
// plumbing they share.
package checks

import (
	"bytes"
	"crypto"
	"fmt"
	"os"
	"runtime"
	"sort"
	"strconv"

	cose "github.com/veraison/go-cose"

	"verif/harness/gen"
	"verif/harness/mon"
	"verif/harness/refcbor"
	"verif/harness/refcose"
)

type Node = refcbor.Node

// Ctx is what a check gets.
type Ctx struct {
	Rec      *mon.Recorder
	R        *mon.Rand
	Tier     string
	Thorough bool
	Seed     int64
	Workers  int
	Keys     *gen.KeyRing
}

// N picks the case count for the tier.
func (c *Ctx) N(quick, thorough int) int {
	if c.Thorough {
		return thorough
	}
	return quick
}

// Check describes one registered property check.
type Check struct {
	ID     string
	Level  string // evidence level
	Rule   string // how cases are generated and what counts as distinct non-trivial
	Assume []string
	Run    func(*Ctx)
}

var Registry = map[string]*Check{}

func register(c *Check) { Registry[c.ID] = c }

// IDs lists registered checks in order.
func IDs() []string {
	var ids []string
	for id := range Registry {
		ids = append(ids, id)
	}
	sort.Strings(ids)
	return ids
}

// Main runs a check and returns the exit code.
func Main(id, tier string, seed int64, replay string) int {
	chk, ok := Registry[id]
	if !ok {
		fmt.Printf("HARNESS-ERROR unknown check %q\n", id)
		return 3
	}
	var want *mon.Violation
	if replay != "" {
		t, s, v, err := mon.LoadReplay(replay)
		if err != nil {
			fmt.Printf("HARNESS-ERROR cannot load replay %s: %v\n", replay, err)
			return 3
		}
		tier, seed, want = t, s, &v
	}
	rec := mon.NewRecorder(id, tier, seed, chk.Level)
	rec.Rule = chk.Rule
	rec.Assume = chk.Assume
	if want != nil {
		rec.SetReplay(want)
	}
	// the references are validated against third-party material first
	if errs := SelfTest(); len(errs) > 0 {
		for _, e := range errs {
			rec.HarnessError("reference self-test: " + e)
		}
		return rec.Finish()
	}
	workers := runtime.NumCPU()
	if w, err := strconv.Atoi(os.Getenv("VERIF_WORKERS")); err == nil && w > 0 {
		workers = w
	}
	r := mon.NewRand(uint64(seed))
	keys, err := gen.NewKeyRing(r.Sub(1))
	if err != nil {
		// the library refusing to build a signer for a sound key is reported by C17;
		// here it only means the workload cannot start
		rec.HarnessError("key ring: " + err.Error())
		return rec.Finish()
	}
	mon.OnWorkerPanic = func(v any, st string) {
		rec.HarnessError(fmt.Sprintf("workload goroutine panicked: %v\n%s", v, firstLines(st, 30)))
	}
	ctx := &Ctx{Rec: rec, R: r.Sub(2), Tier: tier, Thorough: tier == "thorough", Seed: seed, Workers: workers, Keys: keys}
	if p, v, st := mon.Try(func() { chk.Run(ctx) }); p {
		rec.HarnessError(fmt.Sprintf("check panicked outside a guarded call: %v\n%s", v, st))
	}
	return rec.Finish()
}

// ------------------------------------------------------------- helpers ----

// guard runs a library call; a panic is reported as a C06-style violation of
// the running property's own oracle "no-panic" and returned as true.
func guard(rec *mon.Recorder, what string, input any, f func()) bool {
	p, v, st := mon.Try(f)
	if p {
		rec.Violate("panic", what, fmt.Sprintf("library call panicked: %v\n%s", v, firstLines(st, 14)), input)
	}
	return p
}

func firstLines(s string, n int) string {
	out := 0
	for i := 0; i < len(s); i++ {
		if s[i] == '\n' {
			out++
			if out == n {
				return s[:i]
			}
		}
	}
	return s
}

// protContentOf returns the expected content of the protected bstr of a
// message layer: from the raw bytes when present (decoded messages), else
// the deterministic encoding of the Go map.
func protContentOf(h *cose.Headers) ([]byte, error) {
	if len(h.RawProtected) > 0 {
		n, err := refcbor.Parse(h.RawProtected)
		if err != nil {
			return nil, err
		}
		if n.Major != refcbor.Bstr {
			return nil, fmt.Errorf("raw protected is not a bstr")
		}
		return n.Str, nil
	}
	return refcose.ProtectedContent(h.Protected, gen.Custom)
}

func eqBytes(a, b []byte) bool { return bytes.Equal(a, b) }

func algPtr(a cose.Algorithm) *cose.Algorithm { return &a }

func hexs(b []byte) string { return mon.Hex(b) }

// describeHeader gives a short printable form of a Go header map.
func describeHeader(m map[any]any) string {
	n, err := refcose.GoToNode(m, gen.Custom)
	if err != nil {
		return fmt.Sprintf("<%v>", err)
	}
	return refcbor.Diag(n)
}

func errStr(err error) string {
	if err == nil {
		return "<nil>"
	}
	return err.Error()
}

type cryptoHash = crypto.Hash

const (
	hSHA256 = crypto.SHA256
	hSHA384 = crypto.SHA384
	hSHA512 = crypto.SHA512
)

type (
	cryptoSigner     = crypto.Signer
	cryptoPublicKey  = crypto.PublicKey
	cryptoSignerOpts = crypto.SignerOpts
)

// short aliases for the reference tree constructors
var (
	refNMap    = refcbor.NMap
	refNArr    = refcbor.NArr
	refNInt    = refcbor.NInt
	refNBstr   = refcbor.NBstr
	refNTstr   = refcbor.NTstr
	refNNull   = refcbor.NNull
	encodeNode = refcbor.Encode
)
