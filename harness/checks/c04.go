package checks

import (
	"errors"
	"fmt"

	cose "github.com/veraison/go-cose"

	"verif/harness/gen"
	"verif/harness/mon"
	"verif/harness/refcbor"
	"verif/harness/refcose"
)

// C04 - never sign or verify under an algorithm other than the protected
// alg. Monitors: call log of spy Signer/Verifier, returned error
// (errors.Is), protected bytes inside the recorded ToBeSigned and inside the
// emitted message.

func init() {
	register(&Check{
		ID:    "C04",
		Level: "exploration",
		Rule: "complete grid: structure {Sign1, Untagged, stand-alone Signature, COSE_Sign slot, Countersignature, hash envelope} x alg header kind {absent, Algorithm-typed equal/different, each signed Go int type equal/different, each unsigned Go type equal/different, text, float, nil, bstr} " +
			"x label spelling (10 Go integer types) x key algorithm {7 built-ins, +-65537, 0} x external {nil, empty, non-empty} x form {constructed, constructed + consistent raw bytes, raw bytes without alg, decoded from reference wire bytes}; sign path and verify path. " +
			"Every cell is non-trivial (a key call is either required-and-observed or forbidden-and-absent); distinct = grid cell. Thorough adds random int64 alg values.",
		Assume: []string{"a caller who sets RawProtected to bytes that disagree with Protected is outside the property (DESIGN.md section 3)", "mismatch must be ErrAlgorithmMismatch only for signed-integer header values (property text)"},
		Run:    runC04,
	})
}

type c04algKind struct {
	name    string
	present bool
	isInt   bool // header value is a signed integer / Algorithm (decision by equality)
	equal   bool // equal to the key algorithm
	lax     bool // equal value in an unsigned Go type: the property does not say whether it proceeds
	mk      func(k cose.Algorithm, diff cose.Algorithm) any
	wire    bool // expressible on the wire (decoded form)
}

func c04algKinds() []c04algKind {
	ks := []c04algKind{
		{name: "absent"},
		{name: "Algorithm=eq", present: true, isInt: true, equal: true, mk: func(k, d cose.Algorithm) any { return k }, wire: true},
		{name: "Algorithm=diff", present: true, isInt: true, mk: func(k, d cose.Algorithm) any { return d }, wire: true},
		{name: "text", present: true, mk: func(k, d cose.Algorithm) any { return "ES256" }, wire: true},
		{name: "float", present: true, mk: func(k, d cose.Algorithm) any { return float64(k) }, wire: true},
		{name: "nil", present: true, mk: func(k, d cose.Algorithm) any { return nil }},
		{name: "bstr", present: true, mk: func(k, d cose.Algorithm) any { return []byte{1} }},
	}
	for t := 0; t < 5; t++ { // int64,int,int32,int16,int8
		t := t
		ks = append(ks,
			c04algKind{name: gen.SpellNames[t] + "=eq", present: true, isInt: true, equal: true, mk: func(k, d cose.Algorithm) any { return gen.SpellIntAs(int64(k), t) }},
			c04algKind{name: gen.SpellNames[t] + "=diff", present: true, isInt: true, mk: func(k, d cose.Algorithm) any { return gen.SpellIntAs(int64(d), t) }},
		)
	}
	// an unsigned value that is congruent to the key algorithm modulo 2^64 is a different integer
	ks = append(ks,
		c04algKind{name: "uint64=wraps-onto-key-alg", present: true, mk: func(k, d cose.Algorithm) any { return uint64(int64(k)) + 0 }},
		c04algKind{name: "uint=wraps-onto-key-alg", present: true, mk: func(k, d cose.Algorithm) any { return uint(uint64(int64(k))) }},
		c04algKind{name: "uint32=truncation-of-key-alg", present: true, mk: func(k, d cose.Algorithm) any { return uint32(int64(k)) }},
		c04algKind{name: "int8=truncation-of-key-alg+256", present: true, isInt: true, mk: func(k, d cose.Algorithm) any { return int16(int64(int8(k)) + 256) }},
	)
	for t := 5; t < 10; t++ { // unsigned types
		t := t
		ks = append(ks,
			c04algKind{name: gen.SpellNames[t] + "=eq", present: true, lax: true, mk: func(k, d cose.Algorithm) any { return gen.SpellIntAs(int64(k), t) }},
			c04algKind{name: gen.SpellNames[t] + "=diff", present: true, mk: func(k, d cose.Algorithm) any { return gen.SpellIntAs(int64(d), t) }},
		)
	}
	return ks
}

var c04structures = []string{"sign1", "untagged", "signature", "sign-slot", "countersignature", "hashenv"}
var c04forms = []string{"constructed", "constructed+raw", "raw-without-alg", "decoded"}

type c04cell struct {
	structure string
	kind      c04algKind
	spell     int
	keyAlg    cose.Algorithm
	diff      cose.Algorithm
	ext       []byte
	form      string
}

func (c c04cell) String() string {
	return fmt.Sprintf("%s/%s/label=%s/key=%d/ext=%s/%s", c.structure, c.kind.name, gen.SpellNames[c.spell], int64(c.keyAlg), gen.ExternalClass(c.ext), c.form)
}

// algInTBS extracts alg from the protected element `idx` of a recorded ToBeSigned.
func algInTBS(tbs []byte, idx int) (int64, bool) {
	n, err := refcbor.Parse(tbs)
	if err != nil || n.Major != refcbor.Array || len(n.Kids) <= idx || n.Kids[idx].Major != refcbor.Bstr {
		return 0, false
	}
	return algInContent(n.Kids[idx].Str)
}

func algInContent(content []byte) (int64, bool) {
	if len(content) == 0 {
		return 0, false
	}
	m, err := refcbor.Parse(content)
	if err != nil || m.Major != refcbor.Map {
		return 0, false
	}
	v := refcose.Lookup(m, 1)
	if v == nil {
		return 0, false
	}
	return v.Int64()
}

func runC04(c *Ctx) {
	rec := c.Rec
	keyAlgs := []cose.Algorithm{cose.AlgorithmES256, cose.AlgorithmES384, cose.AlgorithmES512, cose.AlgorithmEdDSA, cose.AlgorithmPS256, cose.AlgorithmPS384, cose.AlgorithmPS512, 65537, -65537, 0}
	exts := [][]byte{nil, {}, []byte("external")}
	var cells []c04cell
	for _, st := range c04structures {
		for _, kind := range c04algKinds() {
			for _, ka := range keyAlgs {
				diff := cose.AlgorithmPS256
				if ka == diff {
					diff = cose.AlgorithmES256
				}
				if (ka == 0) && kind.name == "Algorithm=diff" {
					diff = cose.AlgorithmES256
				}
				for _, ext := range exts {
					if st == "hashenv" && len(ext) > 0 {
						continue
					}
					for _, form := range c04forms {
						spells := 10
						if form == "decoded" || form == "raw-without-alg" || !kind.present {
							spells = 1
						}
						if form == "decoded" && kind.present && !kind.wire {
							continue
						}
						if form == "raw-without-alg" && kind.present {
							continue
						}
						for sp := 0; sp < spells; sp++ {
							cells = append(cells, c04cell{st, kind, sp, ka, diff, ext, form})
						}
					}
				}
			}
		}
	}
	// every registered COSE algorithm identifier as the header's alg against every built-in key algorithm
	// (an identifier that names "the same primitive" under another registration - e.g. the fully specified
	// ESP256 -9 next to ES256 -7 - is a different algorithm): all structures, constructed and decoded
	{
		kinds := c04algKinds()
		registered := []int64{-65535, -65534, -65533, -65532, -65531, -65530, -65529, -260, -259, -258, -257, -53, -52, -51, -50, -49, -48, -47, -46, -45, -44, -43, -42, -41, -40, -39, -38, -37, -36, -35, -34, -33, -32, -31, -30, -29, -28, -27, -26, -25, -19, -18, -17, -16, -15, -14, -13, -12, -11, -10, -9, -8, -7, -6, -5, -4, -3, 1, 2, 3, 4, 5, 6, 7, 10, 11, 12, 13, 14, 15, 24, 25, 26, 30, 31, 32, 33, 34}
		for _, ka := range keyAlgs[:7] {
			for _, d := range registered {
				if d == int64(ka) {
					continue
				}
				for si, st := range c04structures {
					ext := exts[(si+int(d&1))%3]
					if st == "hashenv" {
						ext = nil
					}
					cells = append(cells, c04cell{st, kinds[2], 0, ka, cose.Algorithm(d), ext, "constructed"}, c04cell{st, kinds[2], 0, ka, cose.Algorithm(d), ext, "decoded"})
				}
			}
		}
	}
	if c.Thorough {
		// random int64 alg values against random key algorithms
		r := mon.NewRand(uint64(c.Seed)).Sub(61000)
		kinds := c04algKinds()
		for i := 0; i < 200000; i++ {
			ka := cose.Algorithm(gen.IntValue(r))
			diff := cose.Algorithm(gen.IntValue(r))
			if diff == ka {
				diff++
			}
			kind := kinds[1+r.Intn(2)]
			if r.Bool() {
				kind = kinds[7+r.Intn(2)]
			}
			cells = append(cells, c04cell{c04structures[r.Intn(5)], kind, r.Intn(10), ka, diff, exts[r.Intn(3)], c04forms[r.Intn(2)]})
		}
	}
	rec.Extra("grid_cells", len(cells))
	mon.Parallel(c.Workers, len(cells), func(w, i int) {
		c04runCell(c, rec, cells[i], i)
	})
	// user-supplied raw bytes parsed with Headers.UnmarshalFromRaw, including re-use of one
	// Headers value for successive raw inputs: the alg consulted must be the one in the
	// protected bytes that will be signed / were signed.
	for _, ka := range keyAlgs {
		for _, first := range []int64{int64(ka), -999} {
			for _, second := range []string{"empty", "a0", "other-alg", "same-alg", "no-alg"} {
				for _, ext := range exts {
					h := cose.Headers{}
					h.RawProtected = refcbor.Encode(refcbor.NBstr(refcbor.Encode(refcbor.NMap(refcbor.NInt(1), refcbor.NInt(first)))))
					h.RawUnprotected = []byte{0xa0}
					in := map[string]any{"family": "UnmarshalFromRaw-reuse", "key": int64(ka), "first_alg": first, "second": second, "external": ext}
					if err := h.UnmarshalFromRaw(); err != nil {
						continue
					}
					var content []byte
					switch second {
					case "empty":
						content = []byte{}
					case "a0":
						content = []byte{0xa0}
					case "other-alg":
						content = refcbor.Encode(refcbor.NMap(refcbor.NInt(1), refcbor.NInt(int64(ka)+1)))
					case "same-alg":
						content = refcbor.Encode(refcbor.NMap(refcbor.NInt(1), refcbor.NInt(int64(ka))))
					case "no-alg":
						content = refcbor.Encode(refcbor.NMap(refcbor.NInt(4), refcbor.NBstr([]byte{1})))
					}
					h.RawProtected = refcbor.Encode(refcbor.NBstr(content))
					var err error
					if guard(rec, "UnmarshalFromRaw", in, func() { err = h.UnmarshalFromRaw() }) || err != nil {
						continue
					}
					wireAlg, has := algInContent(content)
					for _, structure := range []string{"sign1", "signature", "countersignature"} {
						spyV := &mon.SpyVerifier{Alg: ka}
						spyS := &mon.SpySigner{Alg: ka}
						var verr, serr error
						parent := &cose.Sign1Message{Headers: cose.Headers{Protected: cose.ProtectedHeader{int64(1): cose.AlgorithmES256}}, Payload: []byte("parent"), Signature: mon.FixedSig}
						if guard(rec, "reuse:"+structure, in, func() {
							switch structure {
							case "sign1":
								verr = (&cose.Sign1Message{Headers: h, Payload: []byte("p"), Signature: mon.FixedSig}).Verify(ext, spyV)
								serr = (&cose.Sign1Message{Headers: h, Payload: []byte("p")}).Sign(gen.Entropy, ext, spyS)
							case "signature":
								verr = (&cose.Signature{Headers: h, Signature: mon.FixedSig}).Verify(spyV, []byte{0x40}, []byte("p"), ext)
								serr = (&cose.Signature{Headers: h}).Sign(gen.Entropy, spyS, []byte{0x40}, []byte("p"), ext)
							case "countersignature":
								verr = (&cose.Countersignature{Headers: h, Signature: mon.FixedSig}).Verify(spyV, parent, ext)
								serr = (&cose.Countersignature{Headers: h}).Sign(gen.Entropy, spyS, parent, ext)
							}
						}) {
							continue
						}
						rec.Eval(2)
						cls := fmt.Sprintf("reuse/%s/first=%v/second=%s/ext=%s", structure, first == int64(ka), second, gen.ExternalClass(ext))
						rec.Class(cls)
						allowed := (has && wireAlg == int64(ka)) || (!has && len(ext) > 0)
						in["structure"] = structure
						if allowed {
							rec.Event("key-call-observed")
							if spyV.Calls != 1 || verr != nil || spyS.Calls != 1 || serr != nil {
								rec.Violate("must-proceed", cls, fmt.Sprintf("raw protected bytes permit the operation: verify calls=%d err=%v, sign calls=%d err=%v", spyV.Calls, verr, spyS.Calls, serr), in)
							}
						} else {
							rec.Event("key-call-forbidden")
							if spyV.Calls != 0 || verr == nil || spyS.Calls != 0 || serr == nil {
								rec.Violate("key-invoked", cls, fmt.Sprintf("raw protected bytes (alg present=%v value=%d) forbid the operation for key alg %d: verify calls=%d err=%v, sign calls=%d err=%v", has, wireAlg, int64(ka), spyV.Calls, verr, spyS.Calls, serr), in)
							}
						}
					}
				}
			}
		}
	}
	// COSE_Sign whose signature slots share header objects (one ProtectedHeader map used by several
	// signatures, or one *Signature listed twice): whatever Sign does, no signer may be handed bytes whose
	// protected alg differs from its own, and without external data none may sign bytes without alg.
	for _, n := range []int{2, 3} {
		for _, share := range []string{"protected-map", "signature-pointer", "headers-by-value"} {
			for _, preset := range []string{"absent", "first-signer-alg", "last-signer-alg"} {
				for _, ext := range exts {
					for _, algset := range [][]cose.Algorithm{{cose.AlgorithmES256, cose.AlgorithmPS256, cose.AlgorithmEdDSA}, {cose.AlgorithmES256, cose.AlgorithmES256, cose.AlgorithmES384}, {cose.AlgorithmEdDSA, cose.AlgorithmEdDSA, cose.AlgorithmEdDSA}} {
						algs := algset[:n]
						shared := cose.ProtectedHeader{}
						switch preset {
						case "first-signer-alg":
							shared[int64(1)] = algs[0]
						case "last-signer-alg":
							shared[int64(1)] = algs[n-1]
						}
						m := &cose.SignMessage{Headers: cose.Headers{Protected: cose.ProtectedHeader{}, Unprotected: cose.UnprotectedHeader{}}, Payload: []byte("p")}
						one := &cose.Signature{Headers: cose.Headers{Protected: shared, Unprotected: cose.UnprotectedHeader{}}}
						for j := 0; j < n; j++ {
							switch share {
							case "protected-map":
								m.Signatures = append(m.Signatures, &cose.Signature{Headers: cose.Headers{Protected: shared, Unprotected: cose.UnprotectedHeader{}}})
							case "signature-pointer":
								m.Signatures = append(m.Signatures, one)
							default:
								m.Signatures = append(m.Signatures, &cose.Signature{Headers: one.Headers})
							}
						}
						spies := make([]*mon.SpySigner, n)
						signers := make([]cose.Signer, n)
						for j := range spies {
							spies[j] = &mon.SpySigner{Alg: algs[j]}
							signers[j] = spies[j]
						}
						cls := fmt.Sprintf("shared/%s/n=%d/preset=%s/ext=%s/algs=%v", share, n, preset, gen.ExternalClass(ext), algs)
						in := map[string]any{"family": "shared-header-objects", "cell": cls}
						var err error
						if guard(rec, "SignMessage.Sign(shared)", in, func() { err = m.Sign(gen.Entropy, ext, signers...) }) {
							continue
						}
						rec.Eval(1)
						rec.Class(cls)
						for j, sp := range spies {
							for _, tbs := range sp.Got {
								a, has := algInTBS(tbs, 2)
								rec.Event("shared:key-call-observed")
								if has && a != int64(algs[j]) {
									rec.Violate("key-invoked", "shared/"+share, fmt.Sprintf("signer %d (alg %d) was handed a Sig_structure whose sign_protected says alg %d (Sign returned %v)", j, int64(algs[j]), a, err), in)
								}
								if !has && len(ext) == 0 {
									rec.Violate("key-invoked", "shared/"+share+"/no-alg", fmt.Sprintf("signer %d signed bytes without alg although there is no external data", j), in)
								}
							}
						}
						if err == nil {
							if wire, merr := m.MarshalCBOR(); merr == nil {
								if t, perr := refcbor.Parse(wire); perr == nil && len(t.Kids) == 1 && len(t.Kids[0].Kids) == 4 {
									for j, sg := range t.Kids[0].Kids[3].Kids {
										if len(sg.Kids) == 3 && sg.Kids[0].Major == refcbor.Bstr {
											if a, has := algInContent(sg.Kids[0].Str); has && j < n && a != int64(algs[j]) {
												rec.Violate("key-invoked", "shared/"+share+"/emitted", fmt.Sprintf("emitted signature %d carries alg %d, its signer was %d", j, a, int64(algs[j])), in)
											}
										}
									}
								}
							}
						} else {
							rec.Event("shared:sign-refused")
						}
					}
				}
			}
		}
	}
	// headers taken from a decoded hash envelope, algorithm changed in the parsed map, handed to
	// SignHashEnvelope with a signer of the new algorithm (the retained raw bytes still name the old one):
	// the producer discards caller-supplied raw protected bytes, so the signed and emitted alg is the signer's
	for _, oldAlg := range []cose.Algorithm{cose.AlgorithmES256, cose.AlgorithmEdDSA} {
		for _, newAlg := range []cose.Algorithm{cose.AlgorithmES384, cose.AlgorithmPS256, cose.AlgorithmES256} {
			for _, extras := range []bool{false, true} {
				prot := refcbor.NMap(refcbor.NInt(1), refcbor.NInt(int64(oldAlg)), refcbor.NInt(258), refcbor.NInt(-16))
				if extras {
					prot.Kids = append(prot.Kids, refcbor.NInt(259), refcbor.NTstr("text/plain"), refcbor.NInt(260), refcbor.NTstr("loc"))
				}
				wm := &gen.WSign1{L: gen.WLayer{ProtMap: prot, Unprot: refcbor.NMap()}, Payload: make([]byte, 32), Sig: mon.FixedSig, Tagged: true}
				var d cose.Sign1Message
				if d.UnmarshalCBOR(wm.Bytes()) != nil {
					continue
				}
				d.Headers.Protected.SetAlgorithm(newAlg)
				pl := cose.HashEnvelopePayload{HashAlgorithm: cose.AlgorithmSHA256, HashValue: make([]byte, 32)}
				if extras {
					pl.PreimageContentType, pl.Location = "text/plain", "loc"
				}
				spy := &mon.SpySigner{Alg: newAlg}
				cls := fmt.Sprintf("hashenv-resign/old=%d/new=%d/extras=%v", int64(oldAlg), int64(newAlg), extras)
				in := map[string]any{"family": "decoded envelope headers re-used for a new envelope", "cell": cls}
				var out []byte
				var err error
				if guard(rec, "SignHashEnvelope(decoded headers)", in, func() { out, err = cose.SignHashEnvelope(gen.Entropy, spy, d.Headers, pl) }) {
					continue
				}
				rec.Eval(1)
				rec.Class(cls)
				for _, tbs := range spy.Got {
					rec.Event("hashenv-resign:key-call-observed")
					if a, has := algInTBS(tbs, 1); !has || a != int64(newAlg) {
						rec.Violate("key-invoked", "hashenv-resign", fmt.Sprintf("a signer of alg %d was handed bytes whose protected alg is %d (present=%v)", int64(newAlg), a, has), in)
					}
				}
				if err == nil {
					if f, ok := sign1Fields(out, true); ok {
						if a, has := algInContent(f.Layer.protContent); !has || a != int64(newAlg) {
							rec.Violate("key-invoked", "hashenv-resign/emitted", fmt.Sprintf("the emitted envelope names alg %d, its signer was %d", a, int64(newAlg)), in)
						}
					}
				}
			}
		}
	}
	// a second signing attempt on headers a first attempt has already written the algorithm into: the
	// inserted alg binds every later signer exactly like one the caller had set
	for _, st := range []string{"sign1", "untagged", "signature", "countersignature"} {
		for _, firstOutcome := range []string{"ok", "signer-error"} {
			for _, reuse := range []string{"same-object", "headers-copied-by-value", "maps-shared"} {
				for _, ext := range exts {
					algA, algB := cose.AlgorithmES256, cose.AlgorithmPS256
					h := cose.Headers{Protected: cose.ProtectedHeader{int64(4): []byte("kid")}, Unprotected: cose.UnprotectedHeader{}}
					parent := &cose.Sign1Message{Headers: cose.Headers{Protected: cose.ProtectedHeader{int64(1): cose.AlgorithmES256}}, Payload: []byte("parent"), Signature: mon.FixedSig}
					signWith := func(hh *cose.Headers, sg cose.Signer) error {
						switch st {
						case "sign1":
							m := &cose.Sign1Message{Headers: *hh, Payload: []byte("p")}
							e := m.Sign(gen.Entropy, ext, sg)
							*hh = m.Headers
							return e
						case "untagged":
							m := &cose.UntaggedSign1Message{Headers: *hh, Payload: []byte("p")}
							e := m.Sign(gen.Entropy, ext, sg)
							*hh = m.Headers
							return e
						case "signature":
							m := &cose.Signature{Headers: *hh}
							e := m.Sign(gen.Entropy, sg, []byte{0x40}, []byte("p"), ext)
							*hh = m.Headers
							return e
						default:
							m := &cose.Countersignature{Headers: *hh}
							e := m.Sign(gen.Entropy, sg, parent, ext)
							*hh = m.Headers
							return e
						}
					}
					first := &mon.SpySigner{Alg: algA}
					if firstOutcome == "signer-error" {
						first.Err = mon.ErrInjected
					}
					cls := fmt.Sprintf("second-attempt/%s/first=%s/%s/ext=%s", st, firstOutcome, reuse, gen.ExternalClass(ext))
					in := map[string]any{"family": "second signing attempt", "cell": cls}
					var e1, e2 error
					var algAfterFirst int64
					var hasAfterFirst bool
					second := &mon.SpySigner{Alg: algB}
					if guard(rec, "second signing attempt", in, func() {
						e1 = signWith(&h, first)
						algAfterFirst, hasAfterFirst = lookupAlgGo(h.Protected)
						h2 := h
						switch reuse {
						case "headers-copied-by-value":
							h2 = cose.Headers{Protected: h.Protected, Unprotected: h.Unprotected, RawProtected: h.RawProtected, RawUnprotected: h.RawUnprotected}
						case "maps-shared":
							h2 = cose.Headers{Protected: h.Protected, Unprotected: h.Unprotected}
						}
						e2 = signWith(&h2, second)
					}) {
						continue
					}
					_ = e1
					rec.Eval(1)
					rec.Class(cls)
					a, has := algAfterFirst, hasAfterFirst
					for _, tbs := range second.Got {
						idx := 1
						if st == "signature" || st == "countersignature" {
							idx = 2
						}
						ta, thas := algInTBS(tbs, idx)
						rec.Event("second-attempt:key-call-observed")
						if thas && ta != int64(algB) {
							rec.Violate("key-invoked", "second-attempt/"+st, fmt.Sprintf("the second signer (alg %d) was handed bytes whose protected alg is %d", int64(algB), ta), in)
						}
						if !thas && len(ext) == 0 {
							rec.Violate("key-invoked", "second-attempt/"+st+"/no-alg", "the second signer signed bytes without alg although there is no external data", in)
						}
					}
					if has && a == int64(algA) && (second.Calls != 0 || e2 == nil) {
						rec.Violate("key-invoked", "second-attempt/"+st+"/overwritten", fmt.Sprintf("the headers already said alg %d, yet a signer of alg %d was invoked (calls=%d, err=%v)", a, int64(algB), second.Calls, e2), in)
					}
					if second.Calls == 0 {
						rec.Event("second-attempt:refused")
					}
				}
			}
		}
	}
	// an algorithm mismatch together with a second defect of the same object (a header the encoder refuses,
	// malformed hand-made raw bytes, a parent that cannot be countersigned): the answer is still the
	// mismatch error, whatever else is wrong, and the key is not consulted. Two values under the alg label
	// (spelt with two Go integer types): no signer or verifier equals both, so nothing proceeds.
	c04opsOn := func(st string, h cose.Headers, ext []byte, parent any) (sign func(cose.Signer) error, verify func(cose.Verifier) error) {
		switch st {
		case "sign1":
			return func(sg cose.Signer) error {
					return (&cose.Sign1Message{Headers: cloneHeaders(h), Payload: []byte("p")}).Sign(gen.Entropy, ext, sg)
				}, func(v cose.Verifier) error {
					return (&cose.Sign1Message{Headers: cloneHeaders(h), Payload: []byte("p"), Signature: mon.FixedSig}).Verify(ext, v)
				}
		case "untagged":
			return func(sg cose.Signer) error {
					return (&cose.UntaggedSign1Message{Headers: cloneHeaders(h), Payload: []byte("p")}).Sign(gen.Entropy, ext, sg)
				}, func(v cose.Verifier) error {
					return (&cose.UntaggedSign1Message{Headers: cloneHeaders(h), Payload: []byte("p"), Signature: mon.FixedSig}).Verify(ext, v)
				}
		case "signature":
			return func(sg cose.Signer) error {
					return (&cose.Signature{Headers: cloneHeaders(h)}).Sign(gen.Entropy, sg, []byte{0x40}, []byte("p"), ext)
				}, func(v cose.Verifier) error {
					return (&cose.Signature{Headers: cloneHeaders(h), Signature: mon.FixedSig}).Verify(v, []byte{0x40}, []byte("p"), ext)
				}
		default:
			return func(sg cose.Signer) error {
					return (&cose.Countersignature{Headers: cloneHeaders(h)}).Sign(gen.Entropy, sg, parent, ext)
				}, func(v cose.Verifier) error {
					return (&cose.Countersignature{Headers: cloneHeaders(h), Signature: mon.FixedSig}).Verify(v, parent, ext)
				}
		}
	}
	goodParent := &cose.Sign1Message{Headers: cose.Headers{Protected: cose.ProtectedHeader{int64(1): cose.AlgorithmES256}}, Payload: []byte("parent"), Signature: mon.FixedSig}
	type c04defect struct {
		name   string
		extra  map[any]any // added to the protected header
		raw    []byte      // hand-made RawProtected
		parent any         // countersignature only
	}
	defects := []c04defect{
		{name: "content-type-not-a-media-type", extra: map[any]any{int64(3): "plain"}},
		{name: "iv-and-partial-iv", extra: map[any]any{int64(5): []byte("iv"), int64(6): []byte("piv")}},
		{name: "crit-names-absent-label", extra: map[any]any{int64(2): []any{int64(99)}}},
		{name: "value-of-unencodable-go-type", extra: map[any]any{int64(99): make(chan int)}},
		{name: "label-of-unsupported-type", extra: map[any]any{1.5: "x"}},
		{name: "raw-protected-not-cbor", raw: []byte{0x43, 0xff, 0xff, 0xff}},
		{name: "raw-protected-not-a-byte-string", raw: []byte{0xa0}},
		{name: "unsigned-parent", parent: &cose.Sign1Message{Headers: goodParent.Headers, Payload: []byte("parent")}},
		{name: "payload-less-parent", parent: &cose.Sign1Message{Headers: goodParent.Headers, Signature: mon.FixedSig}},
		{name: "parent-of-unsupported-type", parent: "not a message"},
	}
	for _, st := range []string{"sign1", "untagged", "signature", "countersignature"} {
		for _, d := range defects {
			if d.parent != nil && st != "countersignature" {
				continue
			}
			for spell := 0; spell < 4; spell++ {
				for _, ext := range exts {
					var label, value any = int64(1), cose.AlgorithmES256
					switch spell {
					case 1:
						label, value = int(1), int64(-7)
					case 2:
						label, value = int8(1), int(-7)
					case 3:
						label, value = uint16(1), int32(-7)
					}
					h := cose.Headers{Protected: cose.ProtectedHeader{label: value}}
					for k, v := range d.extra {
						h.Protected[k] = v
					}
					h.RawProtected = d.raw
					parent := any(goodParent)
					if d.parent != nil {
						parent = d.parent
					}
					sign, verify := c04opsOn(st, h, ext, parent)
					cls := fmt.Sprintf("mismatch-plus-defect/%s/%s/spell=%d/ext=%s", st, d.name, spell, gen.ExternalClass(ext))
					in := map[string]any{"family": "mismatch together with a second defect", "cell": cls}
					spy := &mon.SpySigner{Alg: cose.AlgorithmPS256}
					vspy := &mon.SpyVerifier{Alg: cose.AlgorithmPS256}
					var es, ev error
					if guard(rec, "mismatch plus defect", in, func() { es = sign(spy); ev = verify(vspy) }) {
						continue
					}
					rec.Eval(2)
					rec.Class(cls)
					rec.Event("mismatch-plus-defect")
					// a hand-made raw field on the sign path is the caller's statement of what is to be signed; the
					// parsed map is then not what is consulted for a decoded object - only the verify path is judged
					if d.raw == nil && (spy.Calls != 0 || !errors.Is(es, cose.ErrAlgorithmMismatch)) {
						rec.Violate("key-invoked", "mismatch-plus-defect/sign/"+st+"/"+d.name, fmt.Sprintf("header alg ES256, signer PS256, and %s: signer calls=%d, err=%v (want the algorithm mismatch error)", d.name, spy.Calls, es), in)
					}
					if vspy.Calls != 0 || !errors.Is(ev, cose.ErrAlgorithmMismatch) {
						rec.Violate("key-invoked", "mismatch-plus-defect/verify/"+st+"/"+d.name, fmt.Sprintf("header alg ES256, verifier PS256, and %s: verifier calls=%d, err=%v (want the algorithm mismatch error)", d.name, vspy.Calls, ev), in)
					}
				}
			}
		}
	}
	for _, st := range []string{"sign1", "untagged", "signature", "countersignature", "hashenv"} {
		for _, pair := range [][2]any{{int64(1), int(1)}, {int(1), int64(1)}, {int64(1), uint8(1)}, {int32(1), uint64(1)}, {int(1), int16(1)}} {
			for _, which := range []int{0, 1} {
				for _, ext := range exts {
					if st == "hashenv" && len(ext) > 0 {
						continue
					}
					algs := [2]cose.Algorithm{cose.AlgorithmES256, cose.AlgorithmPS256}
					h := cose.Headers{Protected: cose.ProtectedHeader{pair[0]: algs[0], pair[1]: algs[1]}}
					cls := fmt.Sprintf("alg-twice/%s/%T+%T/key=%d/ext=%s", st, pair[0], pair[1], which, gen.ExternalClass(ext))
					in := map[string]any{"family": "two different alg values under two spellings of label 1", "cell": cls}
					spy := &mon.SpySigner{Alg: algs[which]}
					vspy := &mon.SpyVerifier{Alg: algs[which]}
					for rep := 0; rep < 8; rep++ { // map iteration order varies from call to call
						var es, ev error
						if st == "hashenv" {
							pl := cose.HashEnvelopePayload{HashAlgorithm: cose.AlgorithmSHA256, HashValue: make([]byte, 32)}
							if guard(rec, "alg twice", in, func() { _, es = cose.SignHashEnvelope(gen.Entropy, spy, cloneHeaders(h), pl) }) {
								break
							}
						} else {
							sign, verify := c04opsOn(st, h, ext, goodParent)
							if guard(rec, "alg twice", in, func() { es = sign(spy); ev = verify(vspy) }) {
								break
							}
							if ev == nil || vspy.Calls != 0 {
								rec.Violate("key-invoked", "alg-twice/verify/"+st, fmt.Sprintf("the protected header holds alg ES256 and alg PS256; a verifier of alg %d was consulted %d time(s), err=%v", int64(algs[which]), vspy.Calls, ev), in)
								break
							}
						}
						rec.Eval(1)
						rec.Event("alg-twice")
						if es == nil || spy.Calls != 0 {
							rec.Violate("key-invoked", "alg-twice/sign/"+st, fmt.Sprintf("the protected header holds alg ES256 and alg PS256; a signer of alg %d was invoked %d time(s), err=%v", int64(algs[which]), spy.Calls, es), in)
							break
						}
					}
					rec.Class(cls)
				}
			}
		}
	}
	rec.Exhaustive = !c.Thorough
	rec.Require("key-call-observed", 1000)
	rec.Require("key-call-forbidden", 1000)
	rec.RequireClasses(5000)
}

// c04expect: what the property demands for a cell.
type c04expect struct {
	mustCall    bool // key must be invoked (operation proceeds)
	mustNotCall bool // key must not be invoked and the call must fail
	mismatch    bool // the error must be ErrAlgorithmMismatch
	mustInject  bool // sign path: alg of the signer must end up inside the signed bytes
}

func c04expectation(cell c04cell, signPath bool) c04expect {
	k := cell.kind
	noExt := len(cell.ext) == 0
	switch {
	case !k.present:
		if noExt {
			// signing injects the signer's alg only when no raw protected bytes pin the header
			if signPath && cell.form == "constructed" {
				return c04expect{mustCall: true, mustInject: true}
			}
			return c04expect{mustNotCall: true}
		}
		return c04expect{mustCall: true}
	case k.isInt && k.equal:
		return c04expect{mustCall: true, mustInject: signPath && noExt}
	case k.isInt && !k.equal:
		return c04expect{mustNotCall: true, mismatch: true}
	case k.lax:
		return c04expect{} // equal value in an unsigned Go type: not judged
	default:
		return c04expect{mustNotCall: true}
	}
}

func c04runCell(c *Ctx, rec *mon.Recorder, cell c04cell, idx int) {
	in := map[string]any{"cell": cell.String(), "index": idx}
	// --- build the protected header of the layer under test ---
	var headers cose.Headers
	prot := cose.ProtectedHeader{}
	if cell.kind.present {
		prot[gen.SpellIntAs(1, cell.spell)] = cell.kind.mk(cell.keyAlg, cell.diff)
	}
	prot[int64(4)] = []byte("kid")
	headers.Protected = prot
	headers.Unprotected = cose.UnprotectedHeader{}
	// an alg parameter in the unprotected bucket is not the protected alg: it must not change anything
	switch idx % 4 {
	case 1:
		headers.Unprotected[int64(1)] = cell.keyAlg
	case 2:
		headers.Unprotected[int64(1)] = cell.diff
	case 3:
		headers.Unprotected[gen.SpellIntAs(1, cell.spell)] = int64(cell.keyAlg)
	}
	payload := []byte("payload")
	wireProt := func() *Node { // protected map as the reference writes it
		m := refcbor.NMap(refcbor.NInt(4), refcbor.NBstr([]byte("kid")))
		if cell.kind.present {
			switch v := cell.kind.mk(cell.keyAlg, cell.diff).(type) {
			case cose.Algorithm:
				m.Kids = append(m.Kids, refcbor.NInt(1), refcbor.NInt(int64(v)))
			case string:
				m.Kids = append(m.Kids, refcbor.NInt(1), refcbor.NTstr(v))
			case float64:
				m.Kids = append(m.Kids, refcbor.NInt(1), refcbor.NFloat64(v))
			}
		}
		return m
	}
	switch cell.form {
	case "constructed+raw":
		content, err := refcose.ProtectedContent(prot, gen.Custom)
		if err != nil {
			return
		}
		headers.RawProtected = refcbor.Encode(refcbor.NBstr(content))
	case "raw-without-alg":
		content, _ := refcose.ProtectedContent(prot, gen.Custom)
		headers.RawProtected = refcbor.Encode(refcbor.NBstr(content))
	}
	hashPayload := cose.HashEnvelopePayload{HashAlgorithm: cose.AlgorithmSHA256, HashValue: make([]byte, 32)}

	parent := &cose.Sign1Message{Headers: cose.Headers{Protected: cose.ProtectedHeader{int64(1): cose.AlgorithmES256}}, Payload: []byte("parent"), Signature: mon.FixedSig}
	bodyProt := []byte{0x40}

	// decoded form: the layer comes from reference wire bytes
	decodeLayer := func(sig []byte) (any, bool) {
		l := gen.WLayer{ProtMap: wireProt(), Unprot: refcbor.NMap()}
		switch cell.structure {
		case "sign1", "untagged", "hashenv":
			if cell.structure == "hashenv" {
				l.ProtMap.Kids = append(l.ProtMap.Kids, refcbor.NInt(258), refcbor.NInt(-16))
			}
			wm := &gen.WSign1{L: l, Payload: payload, Sig: sig, Tagged: cell.structure != "untagged"}
			if cell.structure == "hashenv" {
				wm.Payload = make([]byte, 32)
			}
			var m cose.Sign1Message
			var err error
			if cell.structure == "untagged" {
				err = (*cose.UntaggedSign1Message)(&m).UnmarshalCBOR(wm.Bytes())
			} else {
				err = m.UnmarshalCBOR(wm.Bytes())
			}
			if err != nil {
				return wm.Bytes(), false
			}
			if cell.structure == "hashenv" {
				return wm.Bytes(), true
			}
			return &m, true
		case "signature", "countersignature":
			ws := &gen.WSignature{L: l, Sig: sig}
			if cell.structure == "signature" {
				var s cose.Signature
				if s.UnmarshalCBOR(ws.Bytes()) != nil {
					return nil, false
				}
				return &s, true
			}
			var s cose.Countersignature
			if s.UnmarshalCBOR(ws.Bytes()) != nil {
				return nil, false
			}
			return &s, true
		case "sign-slot":
			wm := &gen.WSign{L: gen.WLayer{}, Payload: payload}
			wm.Sigs = []*gen.WSignature{
				{L: gen.WLayer{ProtMap: refcbor.NMap(refcbor.NInt(1), refcbor.NInt(-7))}, Sig: mon.FixedSig},
				{L: l, Sig: sig},
			}
			var m cose.SignMessage
			if m.UnmarshalCBOR(wm.Bytes()) != nil {
				return nil, false
			}
			return &m, true
		}
		return nil, false
	}

	if cell.kind.present && (cell.kind.name == "uint64=wraps-onto-key-alg" || cell.kind.name == "uint=wraps-onto-key-alg" || cell.kind.name == "uint32=truncation-of-key-alg") && cell.keyAlg >= 0 {
		return // for non-negative algorithms these spellings ARE the key algorithm (covered by the =eq kinds)
	}
	if cell.kind.name == "int8=truncation-of-key-alg+256" && (int64(cell.keyAlg) < -128 || int64(cell.keyAlg) > 127) {
		return
	}
	for _, signPath := range []bool{true, false} {
		exp := c04expectation(cell, signPath)
		path := "verify"
		if signPath {
			path = "sign"
		}
		in["path"] = path
		spyS := &mon.SpySigner{Alg: cell.keyAlg}
		spyV := &mon.SpyVerifier{Alg: cell.keyAlg}
		other := &mon.SpySigner{Alg: cose.AlgorithmES256}
		otherV := &mon.SpyVerifier{Alg: cose.AlgorithmES256}
		var err error
		var emitted []byte // bytes emitted after a successful sign
		var protIdx int    // index of this layer's protected element in ToBeSigned
		var emittedProt func(wire []byte) ([]byte, bool)
		ran := false
		hcopy := func() cose.Headers {
			h := cose.Headers{RawProtected: headers.RawProtected, Unprotected: cose.UnprotectedHeader{}}
			for k, v := range headers.Unprotected {
				h.Unprotected[k] = v
			}
			h.Protected = cose.ProtectedHeader{}
			for k, v := range headers.Protected {
				h.Protected[k] = v
			}
			return h
		}
		sig := mon.FixedSig
		if signPath {
			sig = nil
		}
		if guard(rec, "C04:"+cell.String(), in, func() {
			switch cell.structure {
			case "sign1", "untagged":
				protIdx = 1
				var m *cose.Sign1Message
				if cell.form == "decoded" {
					if !signPath {
						v, ok := decodeLayer(mon.FixedSig)
						if !ok {
							return
						}
						m = v.(*cose.Sign1Message)
					} else {
						v, ok := decodeLayer(mon.FixedSig)
						if !ok {
							return
						}
						m = v.(*cose.Sign1Message)
						m.Signature = nil
					}
				} else {
					m = &cose.Sign1Message{Headers: hcopy(), Payload: payload, Signature: sig}
				}
				ran = true
				if signPath {
					err = m.Sign(gen.Entropy, cell.ext, spyS)
					if err == nil {
						if cell.structure == "untagged" {
							emitted, _ = (*cose.UntaggedSign1Message)(m).MarshalCBOR()
						} else {
							emitted, _ = m.MarshalCBOR()
						}
					}
					emittedProt = func(w []byte) ([]byte, bool) {
						f, ok := sign1Fields(w, cell.structure != "untagged")
						return f.Layer.protContent, ok
					}
				} else {
					err = m.Verify(cell.ext, spyV)
				}
			case "signature":
				protIdx = 2
				var s *cose.Signature
				if cell.form == "decoded" {
					v, ok := decodeLayer(mon.FixedSig)
					if !ok {
						return
					}
					s = v.(*cose.Signature)
					if signPath {
						s.Signature = nil
					}
				} else {
					s = &cose.Signature{Headers: hcopy(), Signature: sig}
				}
				ran = true
				if signPath {
					err = s.Sign(gen.Entropy, spyS, bodyProt, payload, cell.ext)
					if err == nil {
						emitted, _ = s.MarshalCBOR()
					}
					emittedProt = func(w []byte) ([]byte, bool) {
						l, _, ok := signatureFields(w)
						return l.protContent, ok
					}
				} else {
					err = s.Verify(spyV, bodyProt, payload, cell.ext)
				}
			case "countersignature":
				protIdx = 2
				var s *cose.Countersignature
				if cell.form == "decoded" {
					v, ok := decodeLayer(mon.FixedSig)
					if !ok {
						return
					}
					s = v.(*cose.Countersignature)
					if signPath {
						s.Signature = nil
					}
				} else {
					s = &cose.Countersignature{Headers: hcopy(), Signature: sig}
				}
				ran = true
				if signPath {
					err = s.Sign(gen.Entropy, spyS, parent, cell.ext)
					if err == nil {
						emitted, _ = s.MarshalCBOR()
					}
					emittedProt = func(w []byte) ([]byte, bool) {
						l, _, ok := signatureFields(w)
						return l.protContent, ok
					}
				} else {
					err = s.Verify(spyV, parent, cell.ext)
				}
			case "sign-slot":
				protIdx = 2
				var m *cose.SignMessage
				if cell.form == "decoded" {
					v, ok := decodeLayer(mon.FixedSig)
					if !ok {
						return
					}
					m = v.(*cose.SignMessage)
					if signPath {
						m.Signatures[0].Signature = nil
						m.Signatures[1].Signature = nil
					}
				} else {
					m = &cose.SignMessage{Headers: cose.Headers{Protected: cose.ProtectedHeader{}, Unprotected: cose.UnprotectedHeader{}}, Payload: payload}
					m.Signatures = []*cose.Signature{
						{Headers: cose.Headers{Protected: cose.ProtectedHeader{int64(1): cose.AlgorithmES256}}, Signature: sig},
						{Headers: hcopy(), Signature: sig},
					}
				}
				ran = true
				if signPath {
					err = m.Sign(gen.Entropy, cell.ext, other, spyS)
					if err == nil {
						emitted, _ = m.MarshalCBOR()
					}
					emittedProt = func(w []byte) ([]byte, bool) {
						f, ok := signFields(w)
						if !ok || len(f.Sigs) != 2 {
							return nil, false
						}
						return f.Sigs[1].Layer.protContent, true
					}
				} else {
					err = m.Verify(cell.ext, otherV, spyV)
				}
			case "hashenv":
				protIdx = 1
				if signPath {
					if cell.form == "decoded" {
						return
					}
					ran = true
					emitted, err = cose.SignHashEnvelope(gen.Entropy, spyS, hcopy(), hashPayload)
					emittedProt = func(w []byte) ([]byte, bool) {
						f, ok := sign1Fields(w, true)
						return f.Layer.protContent, ok
					}
				} else {
					// the verifier sees reference wire bytes in every form
					if cell.form != "decoded" {
						return // one wire form per alg kind is enough
					}
					v, ok := decodeLayer(mon.FixedSig)
					if !ok {
						return
					}
					ran = true
					_, err = cose.VerifyHashEnvelope(spyV, v.([]byte))
				}
			}
		}) {
			continue
		}
		if !ran {
			rec.Event("cell-not-constructible")
			continue
		}
		rec.Eval(1)
		calls := spyV.Calls
		var got []byte
		if signPath {
			calls = spyS.Calls
			got = spyS.Last()
		}
		cls := cell.String() + "/" + path
		if cell.structure == "hashenv" && !cell.kind.present && signPath {
			// SignHashEnvelope discards caller-supplied raw protected bytes by contract: alg is injected
			exp = c04expect{mustCall: true, mustInject: true}
		}
		switch {
		case exp.mustCall:
			rec.Class(cls)
			rec.Event("key-call-observed")
			if calls != 1 || err != nil {
				// the operation may fail for an unrelated, documented reason only if the key was not reached
				rec.Violate("must-proceed", cell.structure+"/"+cell.kind.name+"/"+cell.form+"/"+path+"/ext="+gen.ExternalClass(cell.ext),
					fmt.Sprintf("expected the key to be invoked once and the call to succeed: calls=%d err=%v", calls, err), in)
				continue
			}
			if exp.mustInject {
				a, ok := algInTBS(got, protIdx)
				if !ok || a != int64(cell.keyAlg) {
					rec.Violate("alg-not-in-signed-bytes", cell.structure+"/"+cell.kind.name+"/"+cell.form,
						fmt.Sprintf("signed without external data but the signed protected bytes carry alg=%d (present=%v), signer is %d; ToBeSigned %s", a, ok, int64(cell.keyAlg), hexs(got)), in)
					continue
				}
				if emitted == nil {
					rec.Violate("emit-after-sign", cell.structure+"/"+cell.kind.name+"/"+cell.form, "message signed but could not be encoded", in)
					continue
				}
				pc, ok := emittedProt(emitted)
				a2, ok2 := algInContent(pc)
				if !ok || !ok2 || a2 != int64(cell.keyAlg) {
					rec.Violate("alg-not-in-emitted-bytes", cell.structure+"/"+cell.kind.name+"/"+cell.form,
						fmt.Sprintf("emitted protected bytes carry alg=%d (present=%v), signer is %d; message %s", a2, ok2, int64(cell.keyAlg), hexs(emitted)), in)
				}
			}
		case exp.mustNotCall:
			rec.Class(cls)
			rec.Event("key-call-forbidden")
			if calls != 0 {
				rec.Violate("key-invoked", cell.structure+"/"+cell.kind.name+"/"+cell.form+"/"+path+"/ext="+gen.ExternalClass(cell.ext)+"/label="+gen.SpellNames[cell.spell],
					fmt.Sprintf("the key was invoked %d time(s) although the protected alg does not permit it (err=%v)", calls, err), in)
				continue
			}
			if err == nil {
				rec.Violate("no-error", cell.structure+"/"+cell.kind.name+"/"+cell.form+"/"+path, "call returned nil although it must fail", in)
				continue
			}
			if exp.mismatch && !errors.Is(err, cose.ErrAlgorithmMismatch) {
				rec.Violate("wrong-error", cell.structure+"/"+cell.kind.name+"/"+cell.form+"/"+path, "mismatching integer alg must yield ErrAlgorithmMismatch, got: "+err.Error(), in)
			}
		default:
			rec.Event("cell-not-judged")
		}
		if idx%5000 == 0 {
			rec.Sample(cell.structure+"/"+path, map[string]any{"cell": cell.String(), "calls": calls, "err": errStr(err)})
		}
	}
	// decoded alg is typed and equals what the raw bytes say
	if cell.form == "decoded" && cell.kind.present && cell.kind.isInt && cell.structure == "sign1" {
		if v, ok := decodeLayer(mon.FixedSig); ok {
			m := v.(*cose.Sign1Message)
			a, err := m.Headers.Protected.Algorithm()
			want, _ := algInContent(func() []byte { f, _ := sign1Fields(mustMarshal(m), true); return f.Layer.protContent }())
			rec.Eval(1)
			if err != nil || int64(a) != want {
				rec.Violate("decoded-alg", "sign1", fmt.Sprintf("decoded alg %v (err=%v) differs from the raw protected bytes (%d)", a, err, want), in)
			}
			if _, typed := m.Headers.Protected[int64(1)].(cose.Algorithm); !typed {
				rec.Violate("decoded-alg-type", "sign1", fmt.Sprintf("decoded alg is %T, not Algorithm", m.Headers.Protected[int64(1)]), in)
			}
		}
	}
}

func mustMarshal(m *cose.Sign1Message) []byte {
	b, _ := m.MarshalCBOR()
	return b
}

// lookupAlgGo finds label 1 in a Go-side protected map under any integer spelling.
func lookupAlgGo(m map[any]any) (int64, bool) {
	for k, v := range m {
		if nl, ok := refNorm(k); ok && nl == int64(1) {
			switch x := v.(type) {
			case cose.Algorithm:
				return int64(x), true
			case int64:
				return x, true
			case int:
				return int64(x), true
			}
		}
	}
	return 0, false
}
