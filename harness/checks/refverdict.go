package checks

import (
	"crypto"

	"verif/harness/refcbor"
	"verif/harness/refcose"
	"verif/harness/refcrypto"
)

// Reference verification verdicts (DESIGN.md appendix A.3), computed from the
// wire bytes with refcbor + refcose + stdlib primitives only.

// VKey is a verification key with the algorithm its verifier reports.
type VKey struct {
	Alg int64
	Pub crypto.PublicKey
}

type wireLayer struct {
	protContent []byte
	protMap     *Node
	unprot      *Node
}

func readLayer(p, u *Node) (wireLayer, bool) {
	var l wireLayer
	if p.Major != refcbor.Bstr || u.Major != refcbor.Map {
		return l, false
	}
	l.protContent = p.Str
	l.unprot = u
	if len(p.Str) > 0 {
		m, err := refcbor.Parse(p.Str)
		if err != nil || m.Major != refcbor.Map {
			return l, false
		}
		l.protMap = m
	}
	return l, true
}

// algPre is the algorithm pre-check on a parsed protected map.
func algPre(protMap *Node, verifierAlg int64, external []byte) bool {
	av := refcose.Lookup(protMap, 1)
	if av == nil {
		return len(external) > 0
	}
	v, ok := av.Int64()
	return ok && v == verifierAlg
}

// sign1Body returns the 4-array of a (tagged or untagged) COSE_Sign1.
func sign1BodyOf(wire []byte, tagged bool) (*Node, bool) {
	n, err := refcbor.Parse(wire)
	if err != nil {
		return nil, false
	}
	if tagged {
		if n.Major != refcbor.Tag || n.Arg != 18 {
			return nil, false
		}
		n = n.Kids[0]
	}
	if n.Major != refcbor.Array || len(n.Kids) != 4 {
		return nil, false
	}
	return n, true
}

// Sign1Fields are the signed fields of a COSE_Sign1 as found on the wire.
type Sign1Fields struct {
	Layer   wireLayer
	Payload []byte // nil when null
	Sig     []byte
}

func sign1Fields(wire []byte, tagged bool) (Sign1Fields, bool) {
	var f Sign1Fields
	a, ok := sign1BodyOf(wire, tagged)
	if !ok {
		return f, false
	}
	l, ok := readLayer(a.Kids[0], a.Kids[1])
	if !ok {
		return f, false
	}
	f.Layer = l
	if a.Kids[2].Major == refcbor.Bstr {
		f.Payload = a.Kids[2].Str
		if f.Payload == nil {
			f.Payload = []byte{}
		}
	}
	if a.Kids[3].Major != refcbor.Bstr {
		return f, false
	}
	f.Sig = a.Kids[3].Str
	return f, true
}

// RefSign1Verdict: expected outcome of Sign1Message.Verify(external, verifier)
// on a decodable wire message.
func RefSign1Verdict(wire []byte, tagged bool, external []byte, key VKey) bool {
	f, ok := sign1Fields(wire, tagged)
	if !ok || f.Payload == nil || len(f.Sig) == 0 {
		return false
	}
	if !algPre(f.Layer.protMap, key.Alg, external) {
		return false
	}
	return refcrypto.Verify(key.Alg, key.Pub, refcose.Sign1Structure(f.Layer.protContent, external, f.Payload), f.Sig)
}

// SignFields are the signed fields of a COSE_Sign.
type SignFields struct {
	Layer   wireLayer
	Payload []byte
	Sigs    []struct {
		Layer wireLayer
		Sig   []byte
	}
}

func signFields(wire []byte) (SignFields, bool) {
	var f SignFields
	n, err := refcbor.Parse(wire)
	if err != nil || n.Major != refcbor.Tag || n.Arg != 98 {
		return f, false
	}
	a := n.Kids[0]
	if a.Major != refcbor.Array || len(a.Kids) != 4 {
		return f, false
	}
	l, ok := readLayer(a.Kids[0], a.Kids[1])
	if !ok {
		return f, false
	}
	f.Layer = l
	if a.Kids[2].Major == refcbor.Bstr {
		f.Payload = a.Kids[2].Str
		if f.Payload == nil {
			f.Payload = []byte{}
		}
	}
	if a.Kids[3].Major != refcbor.Array {
		return f, false
	}
	for _, g := range a.Kids[3].Kids {
		if g.Major != refcbor.Array || len(g.Kids) != 3 || g.Kids[2].Major != refcbor.Bstr {
			return f, false
		}
		sl, ok := readLayer(g.Kids[0], g.Kids[1])
		if !ok {
			return f, false
		}
		f.Sigs = append(f.Sigs, struct {
			Layer wireLayer
			Sig   []byte
		}{sl, g.Kids[2].Str})
	}
	return f, true
}

// RefSignVerdict: expected outcome of SignMessage.Verify(external, verifiers...).
func RefSignVerdict(wire []byte, external []byte, keys []VKey) bool {
	f, ok := signFields(wire)
	if !ok || f.Payload == nil || len(f.Sigs) == 0 || len(f.Sigs) != len(keys) {
		return false
	}
	for i, s := range f.Sigs {
		if len(s.Sig) == 0 || !algPre(s.Layer.protMap, keys[i].Alg, external) {
			return false
		}
		tbs := refcose.SignatureStructure(f.Layer.protContent, s.Layer.protContent, external, f.Payload)
		if !refcrypto.Verify(keys[i].Alg, keys[i].Pub, tbs, s.Sig) {
			return false
		}
	}
	return true
}

// signatureFields reads a stand-alone COSE_Signature / COSE_Countersignature.
func signatureFields(wire []byte) (wireLayer, []byte, bool) {
	n, err := refcbor.Parse(wire)
	if err != nil {
		return wireLayer{}, nil, false
	}
	return signatureFieldsNode(n)
}

func signatureFieldsNode(n *Node) (wireLayer, []byte, bool) {
	if n.Major != refcbor.Array || len(n.Kids) != 3 || n.Kids[2].Major != refcbor.Bstr {
		return wireLayer{}, nil, false
	}
	l, ok := readLayer(n.Kids[0], n.Kids[1])
	if !ok {
		return l, nil, false
	}
	return l, n.Kids[2].Str, true
}

// RefSignatureVerdict: expected outcome of Signature.Verify(verifier,
// bodyProtected, payload, external) for a stand-alone COSE_Signature.
func RefSignatureVerdict(sigWire, bodyProtContent, payload, external []byte, key VKey) bool {
	l, sig, ok := signatureFields(sigWire)
	if !ok || payload == nil || len(sig) == 0 {
		return false
	}
	if !algPre(l.protMap, key.Alg, external) {
		return false
	}
	return refcrypto.Verify(key.Alg, key.Pub, refcose.SignatureStructure(bodyProtContent, l.protContent, external, payload), sig)
}

// ParentFields are the parent fields a countersignature covers.
type ParentFields struct {
	Kind    refcose.ParentKind
	Prot    []byte // content of the parent's protected bstr
	Payload []byte // payload (Sign1/Sign) or signature (Signature/Countersignature); nil = missing
	Sig     []byte // Sign1 parents: the signature (other_fields)
}

// RefCountersigVerdict: expected outcome of Countersignature.Verify(verifier,
// parent, external) for a full countersignature given on the wire.
func RefCountersigVerdict(csWire []byte, p ParentFields, external []byte, key VKey) bool {
	l, sig, ok := signatureFields(csWire)
	if !ok {
		return false
	}
	return refCountersigVerdictFields(l, sig, p, external, key)
}

func refCountersigVerdictFields(l wireLayer, sig []byte, p ParentFields, external []byte, key VKey) bool {
	if len(sig) == 0 || p.Payload == nil {
		return false
	}
	if p.Kind == refcose.PSign1 && len(p.Sig) == 0 {
		return false
	}
	if !algPre(l.protMap, key.Alg, external) {
		return false
	}
	tbs := refcose.CountersignStructure(p.Kind, false, true, p.Prot, l.protContent, external, p.Payload, p.Sig)
	return refcrypto.Verify(key.Alg, key.Pub, tbs, sig)
}

// RefCountersign0Verdict: expected outcome of VerifyCountersign0 (both
// sign_protected layouts tolerated, DESIGN.md section 3).
func RefCountersign0Verdict(sig []byte, p ParentFields, external []byte, key VKey) bool {
	if p.Payload == nil {
		return false
	}
	if p.Kind == refcose.PSign1 && len(p.Sig) == 0 {
		return false
	}
	a := refcose.CountersignStructure(p.Kind, true, true, p.Prot, []byte{}, external, p.Payload, p.Sig)
	b := refcose.CountersignStructure(p.Kind, true, false, p.Prot, nil, external, p.Payload, p.Sig)
	return refcrypto.Verify(key.Alg, key.Pub, a, sig) || refcrypto.Verify(key.Alg, key.Pub, b, sig)
}
