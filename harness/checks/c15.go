package checks

import (
	"crypto/ecdsa"
	"crypto/ed25519"
	"crypto/elliptic"
	"fmt"
	"math/big"
	"strings"
	"verif/harness/testkeys"

	cose "github.com/veraison/go-cose"

	"verif/harness/gen"
	"verif/harness/mon"
	"verif/harness/refcbor"
	"verif/harness/refcose"
	"verif/harness/refcrypto"
)

// C15 - accepted COSE_Keys are consistent and their restrictions enforced.
// Monitors: Key.UnmarshalCBOR result (oracle: accept => KeyRules on the wire
// tree), re-encoding fixed point, and the Signer()/Verifier() gate predicate
// evaluated against what the wire (or the hand-built value) says.

func init() {
	register(&Check{
		ID:    "C15",
		Level: "exploration",
		Rule: "complete wire grid kty {0,1,2,4,99,text} x crv {absent,0..8,-1,text} x alg {absent,0,ES256,ES384,ES512,EdDSA,PS256,99} x key_ops {absent, [], [sign], [verify], [sign,verify], text spellings, unknown entries, [encrypt]} x presence/length class of x, y, d {absent, empty, size-1 (a real key with a leading zero), size (real key pair), size+1, wrong type}; " +
			"plus the same grid of hand-built Key values (Algorithm field x curve x Ops x coordinates) and structural/byte mutants of valid keys. Oracles: accepted => key rules (appendix A.6); Marshal(Unmarshal(b)) is canonical and a fixed point; Signer()/Verifier() succeed only with private material / public point, with key_ops (when present) permitting the operation, never for symmetric or unsupported keys, and always for the algorithm the curve fixes. " +
			"Distinct = accepted (kty, crv, alg, ops class, coordinate class) cells and gate outcomes.",
		Assume: []string{"parameters of the wrong CBOR type are not coordinates (appendix A.6)", "an empty coordinate denotes zero (leading zero octets may be omitted, as the library documents)"},
		Run:    runC15,
	})
}

type c15coord struct {
	name string
	node func(curveIdx int, which int) *Node // which: 0 x, 1 y, 2 d
}

type c15keys struct {
	full  [3]*ecdsa.PrivateKey    // real key pairs per curve
	short [3][3]*ecdsa.PrivateKey // [curve][which]: key whose coordinate `which` has a leading zero byte
	edX   []byte
	edD   []byte
}

func c15material(c *Ctx, r *mon.Rand) *c15keys {
	m := &c15keys{}
	for ci, cv := range []elliptic.Curve{elliptic.P256(), elliptic.P384(), elliptic.P521()} {
		m.full[ci] = gen.ECKey(cv, r)
		size := (cv.Params().BitSize + 7) / 8
		for which := 0; which < 2; which++ {
			m.short[ci][which] = c14search(cv, r, which, 1, 60000, c.Workers)
		}
		b := r.Bytes(size)
		b[0], b[1] = 0, 0
		d := new(big.Int).SetBytes(b)
		d.Mod(d, cv.Params().N)
		if d.Sign() == 0 {
			d.SetInt64(5)
		}
		m.short[ci][2] = gen.ECKeyFromD(cv, d)
	}
	ed := gen.EdKey(r)
	m.edD, m.edX = ed[:32], ed[32:]
	return m
}

var c15sizes = [3]int{32, 48, 66}

func runC15(c *Ctx) {
	rec := c.Rec
	r := mon.NewRand(uint64(c.Seed)).Sub(161000)
	mat := c15material(c, r)
	i64 := refcbor.NInt

	ktys := []*Node{i64(0), i64(1), i64(2), i64(4), i64(99), refcbor.NTstr("EC2")}
	crvs := []*Node{nil, i64(0), i64(1), i64(2), i64(3), i64(4), i64(5), i64(6), i64(7), i64(8), i64(-1), refcbor.NTstr("P-256"),
		// (from here on: reduced key_ops dimension) the registered Brainpool curves and unassigned values
		i64(256), i64(257), i64(258), i64(259), i64(260), i64(1000), i64(-65537),
		// label -1 holding a byte string: the k of a symmetric key (kty 4), next to signing material and alg
		refcbor.NBstr([]byte("0123456789abcdef"))}
	algs := []*Node{nil, i64(0), i64(-7), i64(-35), i64(-36), i64(-8), i64(-37), i64(99),
		// (reduced key_ops dimension) text algorithms, ECDSA with other hashes, algorithms of other families
		refcbor.NTstr("ES256"), refcbor.NTstr("ES512"), refcbor.NTstr("EdDSA"), refcbor.NTstr(""), i64(-47), i64(-257), i64(5), i64(1),
		// key agreement algorithms (ECDH-ES / ECDH-SS families), RFC 9864 twins of the signature algorithms
		i64(-25), i64(-27), i64(-29), i64(-31), i64(-34), i64(-9), i64(-19), i64(-51), i64(-52)}
	const crvCore, algCore = 12, 8
	opss := []*Node{nil, refcbor.NArr(), refcbor.NArr(i64(1)), refcbor.NArr(i64(2)), refcbor.NArr(i64(1), i64(2)), refcbor.NArr(refcbor.NTstr("sign")), refcbor.NArr(refcbor.NTstr("verify"), i64(1)),
		refcbor.NArr(i64(3)), refcbor.NArr(i64(77), i64(2)), refcbor.NArr(refcbor.NTstr("bogus"))}
	opsNames := []string{"absent", "empty", "sign", "verify", "sign+verify", "text-sign", "text-verify+sign", "encrypt", "unknown+verify", "bogus-text"}
	coordKinds := []string{"absent", "empty", "size-1", "size", "size+1", "wrongtype", "2xsize"}

	// coordinate node for (kty, crv, which, kind); the consistent triple of one real key is used
	// whenever all three are "size"; "size-1" takes the key whose that coordinate is short.
	type job struct{ kty, crv, alg, ops int }
	var jobs []job
	for a := range ktys {
		for b := range crvs {
			for cc := range algs {
				for d := range opss {
					if (b >= crvCore || cc >= algCore) && d != 0 && d != 4 {
						continue
					}
					jobs = append(jobs, job{a, b, cc, d})
				}
			}
		}
	}
	rec.Extra("wire_grid_cells", len(jobs)*343)
	mon.Parallel(c.Workers, len(jobs), func(w, ji int) {
		j := jobs[ji]
		kty, _ := ktys[j.kty].Int64()
		isOKP := ktys[j.kty].IsInt() && kty == 1
		curveIdx := 0
		if v, ok := func() (int64, bool) {
			if crvs[j.crv] == nil {
				return 0, false
			}
			return crvs[j.crv].Int64()
		}(); ok && v >= 1 && v <= 3 {
			curveIdx = int(v - 1)
		}
		size := c15sizes[curveIdx]
		for xk := 0; xk < 7; xk++ {
			for yk := 0; yk < 7; yk++ {
				for dk := 0; dk < 7; dk++ {
					// pick the base key pair
					base := mat.full[curveIdx]
					kinds := [3]int{xk, yk, dk}
					for which := 0; which < 3; which++ {
						if kinds[which] == 2 && mat.short[curveIdx][which] != nil {
							base = mat.short[curveIdx][which]
						}
					}
					vals := [3]*big.Int{base.X, base.Y, base.D}
					var entries []gen.KeyEntry
					entries = append(entries, gen.KeyEntry{Label: i64(1), Value: ktys[j.kty]})
					if crvs[j.crv] != nil {
						entries = append(entries, gen.KeyEntry{Label: i64(-1), Value: crvs[j.crv]})
					}
					if algs[j.alg] != nil {
						entries = append(entries, gen.KeyEntry{Label: i64(3), Value: algs[j.alg]})
					}
					if opss[j.ops] != nil {
						entries = append(entries, gen.KeyEntry{Label: i64(4), Value: opss[j.ops]})
					}
					for which := 0; which < 3; which++ {
						label := int64(-2 - which)
						var n *Node
						full := vals[which].FillBytes(make([]byte, size))
						if isOKP {
							switch which {
							case 0:
								full = mat.edX
							case 1:
								continue // OKP has no y: use the slot for nothing
							case 2:
								full = mat.edD
							}
						}
						switch kinds[which] {
						case 0:
							continue
						case 1:
							n = refcbor.NBstr([]byte{})
						case 2:
							if isOKP {
								n = refcbor.NBstr(full[1:])
							} else if full[0] == 0 {
								n = refcbor.NBstr(full[1:])
							} else {
								n = refcbor.NBstr(full[:len(full)-1]) // no short key found: a truncated value
							}
						case 3:
							n = refcbor.NBstr(full)
						case 4:
							n = refcbor.NBstr(append([]byte{0}, full...))
						case 5:
							n = mon.Pick(r.Sub(uint64(ji*343+xk*49+yk*7+dk)), refcbor.NInt(5), refcbor.NTstr("x"), refcbor.NArr(refcbor.NInt(1)))
						case 6:
							// twice the size (e.g. Go's 64-byte seed||public form of an Ed25519 private key)
							n = refcbor.NBstr(append(append([]byte{}, full...), full...))
							if isOKP && which == 2 {
								n = refcbor.NBstr(append(append([]byte{}, mat.edD...), mat.edX...)) // exactly Go's seed||public
							}
						}
						entries = append(entries, gen.KeyEntry{Label: i64(label), Value: n})
					}
					b := refcbor.Encode(gen.KeyMap(entries))
					cell := fmt.Sprintf("kty=%s/crv=%s/alg=%s/ops=%s/x=%s/y=%s/d=%s", diagOr(ktys[j.kty]), diagOr(crvs[j.crv]), diagOr(algs[j.alg]), opsNames[j.ops], coordKinds[xk], coordKinds[yk], coordKinds[dk])
					c15judgeWire(rec, b, cell, "grid")
				}
			}
		}
	})

	// ---- structural and byte mutants of valid keys ----
	nMut := c.N(20, 1500)
	mon.Parallel(c.Workers, nMut, func(w, i int) {
		rr := mon.NewRand(uint64(c.Seed)).Sub(uint64(162000 + i))
		for _, key := range gen.ValidKeys(rr) {
			b := refcbor.Encode(gen.KeyMap(key))
			c15judgeWire(rec, b, "valid-key", "valid")
			t, err := gen.ParseTree(b)
			if err != nil {
				continue
			}
			ns := len(t.Sites())
			for j := 0; j < 60; j++ {
				op := gen.FaultOps[rr.Intn(len(gen.FaultOps))]
				if mb, _, ok := gen.ApplyFault(t, rr.Intn(ns), op, rr); ok {
					c15judgeWire(rec, mb, "mutant:"+op, "mutant")
				}
			}
			for _, m := range gen.ByteEdits(rr, b, false, 40) {
				c15judgeWire(rec, m.Data, "byte-"+m.Op, "mutant")
			}
		}
	})

	// ---- digit-string text labels next to (or instead of) the integer labels: "1" is not kty, "4" is not key_ops ----
	{
		rr := mon.NewRand(uint64(c.Seed)).Sub(163900)
		conflicting := map[int64][]*Node{
			1:  {refcbor.NInt(2), refcbor.NInt(1), refcbor.NInt(4), refcbor.NInt(0)},
			2:  {refcbor.NBstr([]byte("other-kid")), refcbor.NInt(1)},
			3:  {refcbor.NInt(-7), refcbor.NInt(-8), refcbor.NInt(-37), refcbor.NTstr("ES256")},
			4:  {refcbor.NArr(refcbor.NInt(1), refcbor.NInt(2)), refcbor.NArr(refcbor.NInt(1)), refcbor.NArr(refcbor.NInt(2)), refcbor.NArr(refcbor.NInt(3)), refcbor.NArr()},
			5:  {refcbor.NBstr([]byte("iv")), refcbor.NInt(1)},
			-1: {refcbor.NInt(1), refcbor.NInt(6), refcbor.NInt(0)},
			-2: {refcbor.NBstr(make([]byte, 32))},
			-4: {refcbor.NBstr(make([]byte, 32))},
		}
		text := func(l int64) *Node { return refcbor.NTstr(fmt.Sprintf("%d", l)) }
		for round := 0; round < c.N(3, 40); round++ {
			for _, key := range gen.ValidKeys(rr) {
				for li, e := range key {
					l, ok := e.Label.Int64()
					if !ok {
						continue
					}
					// (a) the integer label re-spelt as text, value kept
					moved := append([]gen.KeyEntry{}, key...)
					moved[li] = gen.KeyEntry{Label: text(l), Value: e.Value}
					c15judgeWire(rec, refcbor.Encode(gen.KeyMap(moved)), fmt.Sprintf("text-label/%d-respelt-as-text", l), "text-label")
					// (b) a text twin with another value, before and after the integer label
					for vi, v := range conflicting[l] {
						twin := gen.KeyEntry{Label: text(l), Value: v}
						after := append(append([]gen.KeyEntry{}, key...), twin)
						before := append([]gen.KeyEntry{twin}, key...)
						c15judgeWire(rec, refcbor.Encode(gen.KeyMap(after)), fmt.Sprintf("text-label/%d-text-twin-after/%d", l, vi), "text-label")
						c15judgeWire(rec, refcbor.Encode(gen.KeyMap(before)), fmt.Sprintf("text-label/%d-text-twin-before/%d", l, vi), "text-label")
					}
				}
				// (c) a key_ops restriction under the integer label, a wider one under "4"
				for _, ops := range [][2]*Node{{refcbor.NArr(refcbor.NInt(2)), refcbor.NArr(refcbor.NInt(1), refcbor.NInt(2))}, {refcbor.NArr(refcbor.NInt(1)), refcbor.NArr(refcbor.NInt(1), refcbor.NInt(2))}, {refcbor.NArr(refcbor.NInt(3)), refcbor.NArr(refcbor.NInt(1), refcbor.NInt(2))}} {
					var es []gen.KeyEntry
					for _, e := range key {
						if l, ok := e.Label.Int64(); ok && l == 4 {
							continue
						}
						es = append(es, e)
					}
					for _, order := range []int{0, 1} {
						a, b := gen.KeyEntry{Label: refcbor.NInt(4), Value: ops[0]}, gen.KeyEntry{Label: text(4), Value: ops[1]}
						if order == 1 {
							a, b = b, a
						}
						c15judgeWire(rec, refcbor.Encode(gen.KeyMap(append(append([]gen.KeyEntry{}, es...), a, b))), fmt.Sprintf("text-label/key-ops-restricted-int-wide-text/order=%d", order), "text-label")
					}
				}
			}
		}
	}
	// ---- a whole SEC1 point (04 || X || Y, or 02/03 || X) carried in x, with and without y ----
	{
		rr := mon.NewRand(uint64(c.Seed)).Sub(163950)
		for ci, cv := range []elliptic.Curve{elliptic.P256(), elliptic.P384(), elliptic.P521()} {
			k := gen.ECKey(cv, rr)
			size := (cv.Params().BitSize + 7) / 8
			X, Y := k.X.FillBytes(make([]byte, size)), k.Y.FillBytes(make([]byte, size))
			for name, x := range map[string][]byte{
				"uncompressed-point-in-x": append(append([]byte{4}, X...), Y...),
				"compressed-point-in-x":   append([]byte{2 + byte(k.Y.Bit(0))}, X...),
				"hybrid-point-in-x":       append(append([]byte{6 + byte(k.Y.Bit(0))}, X...), Y...),
				"x-and-y-concatenated":    append(append([]byte{}, X...), Y...),
			} {
				for _, withY := range []bool{false, true} {
					for _, withD := range []bool{false, true} {
						es := []gen.KeyEntry{{Label: refcbor.NInt(1), Value: refcbor.NInt(2)}, {Label: refcbor.NInt(-1), Value: refcbor.NInt(int64(ci + 1))}, {Label: refcbor.NInt(-2), Value: refcbor.NBstr(x)}}
						if withY {
							es = append(es, gen.KeyEntry{Label: refcbor.NInt(-3), Value: refcbor.NBstr(Y)})
						}
						if withD {
							es = append(es, gen.KeyEntry{Label: refcbor.NInt(-4), Value: refcbor.NBstr(k.D.FillBytes(make([]byte, size)))})
						}
						c15judgeWire(rec, refcbor.Encode(gen.KeyMap(es)), fmt.Sprintf("sec1-point-in-x/%s/y=%v/d=%v", name, withY, withD), "sec1-in-x")
					}
				}
			}
		}
	}
	// fixed witness of known finding F3, so that it is reported by every run
	{
		w := gen.KeyMap([]gen.KeyEntry{{Label: refcbor.NInt(1), Value: refcbor.NInt(4)}, {Label: refcbor.NInt(-1), Value: refcbor.NBstr([]byte("0123456789abcdef"))},
			{Label: refcbor.NTstr("custom"), Value: refcbor.NTag(2, refcbor.NBstr([]byte{0x8b, 0x4d, 0x79, 0x46, 0x1c, 0xcf, 0x75, 0xba}))}})
		c15judgeWire(rec, refcbor.Encode(w), "fixed-witness/bignum-parameter", "witness")
	}
	// ---- hand-built Key values: the gate must hold for values that never went through the decoder ----
	goAlgs := []cose.Algorithm{0, cose.AlgorithmES256, cose.AlgorithmES384, cose.AlgorithmES512, cose.AlgorithmEdDSA, cose.AlgorithmPS256, 99}
	goOps := [][]cose.KeyOp{nil, {}, {cose.KeyOpSign}, {cose.KeyOpVerify}, {cose.KeyOpSign, cose.KeyOpVerify}, {cose.KeyOpEncrypt}, {77, cose.KeyOpVerify}}
	goOpsNames := []string{"nil", "empty", "sign", "verify", "sign+verify", "encrypt", "unknown+verify"}
	for _, kt := range []cose.KeyType{cose.KeyTypeOKP, cose.KeyTypeEC2, cose.KeyTypeSymmetric, 99, 0} {
		for crv := int64(0); crv <= 8; crv++ {
			for _, alg := range goAlgs {
				for oi, ops := range goOps {
					for mask := 0; mask < 8; mask++ { // presence of x, y, d
						for _, crvType := range []string{"Curve", "int64", "int"} {
							ci := 0
							if crv >= 1 && crv <= 3 {
								ci = int(crv - 1)
							}
							base := mat.full[ci]
							size := c15sizes[ci]
							params := map[any]any{}
							switch crvType {
							case "Curve":
								params[int64(-1)] = cose.Curve(crv)
							case "int64":
								params[int64(-1)] = crv
							default:
								params[int64(-1)] = int(crv)
							}
							x, y, d := base.X.FillBytes(make([]byte, size)), base.Y.FillBytes(make([]byte, size)), base.D.FillBytes(make([]byte, size))
							if kt == cose.KeyTypeOKP {
								x, d = mat.edX, mat.edD
							}
							if mask&1 != 0 {
								params[int64(-2)] = x
							}
							if mask&2 != 0 && kt != cose.KeyTypeOKP {
								params[int64(-3)] = y
							}
							if mask&4 != 0 {
								params[int64(-4)] = d
							}
							k := &cose.Key{Type: kt, Algorithm: alg, Ops: ops, Params: params}
							cell := fmt.Sprintf("go/kty=%d/crv=%d(%s)/alg=%d/ops=%s/xyd=%03b", int64(kt), crv, crvType, int64(alg), goOpsNames[oi], mask)
							opsPresent := ops != nil
							hasSign, hasVerify := false, false
							for _, o := range ops {
								if o == cose.KeyOpSign {
									hasSign = true
								}
								if o == cose.KeyOpVerify {
									hasVerify = true
								}
							}
							c15gate(rec, k, cell, c15facts{
								kty: int64(kt), ktyInt: true, crv: crv, crvInt: true, alg: int64(alg),
								hasD: mask&4 != 0, hasX: mask&1 != 0, hasY: mask&2 != 0 && kt != cose.KeyTypeOKP,
								opsPresent: opsPresent, opsSign: hasSign, opsVerify: hasVerify,
							}, map[string]any{"cell": cell})
						}
					}
				}
			}
		}
	}
	// ---- keys obtained from the public constructors NewKeyEC2 / NewKeyOKP / NewKeySymmetric ----
	{
		lens := func(size int) [][]byte {
			mk := func(n int) []byte {
				b := r.Bytes(n)
				if b == nil {
					b = []byte{}
				}
				return b
			}
			return [][]byte{nil, {}, mk(size - 1), nil /* exact: filled in below */, mk(size + 1), mk(2 * size)}
		}
		lenNames := []string{"nil", "empty", "short", "exact", "long", "2xsize"}
		ctorAlgs := []cose.Algorithm{cose.AlgorithmES256, cose.AlgorithmES384, cose.AlgorithmES512, cose.AlgorithmEdDSA, cose.AlgorithmPS256, 0, 99}
		for _, alg := range ctorAlgs {
			ci, isEC := map[cose.Algorithm]int{cose.AlgorithmES256: 0, cose.AlgorithmES384: 1, cose.AlgorithmES512: 2}[alg]
			size := c15sizes[ci]
			base := mat.full[ci]
			xs, ys, ds := lens(size), lens(size), lens(size)
			xs[3], ys[3], ds[3] = base.X.FillBytes(make([]byte, size)), base.Y.FillBytes(make([]byte, size)), base.D.FillBytes(make([]byte, size))
			for xi, x := range xs {
				for yi, y := range ys {
					for di, d := range ds {
						cell := fmt.Sprintf("ctor/NewKeyEC2/alg=%d/x=%s/y=%s/d=%s", int64(alg), lenNames[xi], lenNames[yi], lenNames[di])
						in := map[string]any{"cell": cell}
						var k *cose.Key
						var err error
						if guard(rec, "NewKeyEC2", in, func() { k, err = cose.NewKeyEC2(alg, x, y, d) }) {
							continue
						}
						rec.Eval(1)
						rec.Class(fmt.Sprintf("%s/ok=%v", cell, err == nil))
						if err != nil {
							rec.Event("ctor:refused")
							continue
						}
						rec.Event("ctor:built")
						if !isEC {
							rec.Violate("ctor", "NewKeyEC2/alg", fmt.Sprintf("NewKeyEC2 built a key for algorithm %d, which is not an ECDSA algorithm", int64(alg)), in)
							continue
						}
						if len(x) > size || len(y) > size || len(d) > size {
							rec.Violate("ctor", "NewKeyEC2/coordinate-size", "NewKeyEC2 built a key with a coordinate longer than the curve's size", in)
						}
						c15gate(rec, k, cell, c15facts{kty: 2, ktyInt: true, crv: int64(ci + 1), crvInt: true, alg: int64(alg),
							hasD: len(d) > 0, hasX: x != nil, hasY: y != nil}, in)
						if b, merr := k.MarshalCBOR(); merr == nil {
							c15judgeWire(rec, b, cell, "constructor")
						}
					}
				}
			}
			oxs := [][]byte{nil, {}, mat.edX[:31], mat.edX, append(append([]byte{}, mat.edX...), 0), append(append([]byte{}, mat.edX...), mat.edX...)}
			ods := [][]byte{nil, {}, mat.edD[:31], mat.edD, append(append([]byte{}, mat.edD...), 0), append(append([]byte{}, mat.edD...), mat.edD...)}
			for xi, x := range oxs {
				for di, d := range ods {
					cell := fmt.Sprintf("ctor/NewKeyOKP/alg=%d/x=%s/d=%s", int64(alg), lenNames[xi], lenNames[di])
					in := map[string]any{"cell": cell}
					var k *cose.Key
					var err error
					if guard(rec, "NewKeyOKP", in, func() { k, err = cose.NewKeyOKP(alg, x, d) }) {
						continue
					}
					rec.Eval(1)
					rec.Class(fmt.Sprintf("%s/ok=%v", cell, err == nil))
					if err != nil {
						rec.Event("ctor:refused")
						continue
					}
					rec.Event("ctor:built")
					if alg != cose.AlgorithmEdDSA {
						rec.Violate("ctor", "NewKeyOKP/alg", fmt.Sprintf("NewKeyOKP built a key for algorithm %d", int64(alg)), in)
						continue
					}
					if len(x) > 32 || len(d) > 32 {
						rec.Violate("ctor", "NewKeyOKP/size", "NewKeyOKP built a key with x or d longer than 32 bytes", in)
					}
					c15gate(rec, k, cell, c15facts{kty: 1, ktyInt: true, crv: 6, crvInt: true, alg: -8, hasD: len(d) > 0, hasX: x != nil}, in)
					if b, merr := k.MarshalCBOR(); merr == nil {
						c15judgeWire(rec, b, cell, "constructor")
					}
				}
			}
		}
		for _, kb := range [][]byte{nil, {}, {1}, r.Bytes(16), r.Bytes(32)} {
			cell := fmt.Sprintf("ctor/NewKeySymmetric/len=%d/nil=%v", len(kb), kb == nil)
			in := map[string]any{"cell": cell}
			var k *cose.Key
			if guard(rec, "NewKeySymmetric", in, func() { k = cose.NewKeySymmetric(kb) }) || k == nil {
				continue
			}
			rec.Eval(1)
			rec.Class(cell)
			rec.Event("ctor:built")
			c15gate(rec, k, cell, c15facts{kty: 4, ktyInt: true}, in)
			if b, merr := k.MarshalCBOR(); merr == nil {
				c15judgeWire(rec, b, cell, "constructor")
			}
		}
		// key_ops names: String and KeyOpFromString are inverse on the eight RFC 7517 names and
		// nothing else maps to an operation
		for op := cose.KeyOp(-3); op <= 14; op++ {
			name := op.String()
			back, ok := cose.KeyOpFromString(name)
			rec.Eval(1)
			rec.Class("keyop/" + name)
			rfc7517 := op >= cose.KeyOpSign && op <= cose.KeyOpDeriveBits
			if rfc7517 && (!ok || back != op) {
				rec.Violate("keyop", name, fmt.Sprintf("KeyOpFromString(%q) = %d,%v but %d.String() = %q", name, int64(back), ok, int64(op), name), nil)
			}
			if !rfc7517 && ok {
				rec.Violate("keyop", name, fmt.Sprintf("KeyOpFromString accepts %q, which is not an RFC 7517 operation name", name), nil)
			}
		}
		for _, s := range []string{"", "Sign", "sign ", "SIGN", "verify\x00", "mac create", "1", "signverify"} {
			if op, ok := cose.KeyOpFromString(s); ok {
				rec.Violate("keyop", "loose-name", fmt.Sprintf("KeyOpFromString(%q) = %d", s, int64(op)), nil)
			}
			rec.Eval(1)
		}
	}
	// Go keys on curves the COSE_Key conversion does not support must be refused, not silently
	// relabelled as a supported curve of the same size
	secp256k1 := &elliptic.CurveParams{Name: "secp256k1", BitSize: 256}
	secp256k1.P, _ = new(big.Int).SetString("fffffffffffffffffffffffffffffffffffffffffffffffffffffffefffffc2f", 16)
	secp256k1.N, _ = new(big.Int).SetString("fffffffffffffffffffffffffffffffebaaedce6af48a03bbfd25e8cd0364141", 16)
	secp256k1.B = big.NewInt(7)
	secp256k1.Gx, _ = new(big.Int).SetString("79be667ef9dcbbac55a06295ce870b07029bfcdb2dce28d959f2815b16f81798", 16)
	secp256k1.Gy, _ = new(big.Int).SetString("483ada7726a3c4655da4fbfc0e1108a8fd17b448a68554199c47d08ffb10d4b8", 16)
	p256copy := *elliptic.P256().Params()
	p256copy.Name = "private-copy-of-P-256-params"
	for name, cv := range map[string]elliptic.Curve{"P-224": elliptic.P224(), "secp256k1": secp256k1, "generic-CurveParams-256": &p256copy,
		"generic-384": func() elliptic.Curve { c := *elliptic.P384().Params(); return &c }(), "generic-521": func() elliptic.Curve { c := *elliptic.P521().Params(); return &c }()} {
		pub := &ecdsa.PublicKey{Curve: cv, X: new(big.Int).Set(cv.Params().Gx), Y: new(big.Int).Set(cv.Params().Gy)}
		priv := &ecdsa.PrivateKey{PublicKey: *pub, D: big.NewInt(1)}
		in := map[string]any{"go_key_curve": name}
		var k1, k2 *cose.Key
		var e1, e2 error
		if guard(rec, "NewKeyFrom*", in, func() {
			k1, e1 = cose.NewKeyFromPublic(pub)
			k2, e2 = cose.NewKeyFromPrivate(priv)
		}) {
			continue
		}
		rec.Eval(2)
		rec.Class("unsupported-go-curve/" + name)
		for _, kk := range []*cose.Key{k1, k2} {
			if kk == nil {
				continue
			}
			_, se := kk.Signer()
			_, ve := kk.Verifier()
			if se == nil || ve == nil {
				rec.Violate("gate", "unsupported-go-curve/"+name, "a Go key on an unsupported curve was converted to a COSE_Key that yields a signer or verifier", in)
			}
		}
		if name != "generic-CurveParams-256" && name != "generic-384" && name != "generic-521" && (e1 == nil || e2 == nil) {
			rec.Violate("unsupported-curve-accepted", name, fmt.Sprintf("NewKeyFromPublic/NewKeyFromPrivate accepted a key on %s (errors: %v, %v)", name, e1, e2), in)
		}
	}
	// a key whose private part does not belong to its public part (two keys mixed up): the verifier it
	// yields follows the PUBLIC coordinates, the signer the private scalar - never the other way round
	{
		otherEd := gen.EdKey(r.Sub(977))
		otherEC := gen.ECKey(elliptic.P256(), r.Sub(978))
		a := mat.full[0]
		type mixed struct {
			name      string
			wire      *Node
			pubSign   func(msg []byte) []byte // a signature valid under the public coordinates
			otherSign func(msg []byte) []byte // a signature valid under the key that d belongs to
		}
		mx := []mixed{
			{"okp", gen.KeyMap([]gen.KeyEntry{{Label: refcbor.NInt(1), Value: refcbor.NInt(1)}, {Label: refcbor.NInt(-1), Value: refcbor.NInt(6)}, {Label: refcbor.NInt(-2), Value: refcbor.NBstr(mat.edX)}, {Label: refcbor.NInt(-4), Value: refcbor.NBstr(otherEd.Seed())}}),
				func(msg []byte) []byte { return ed25519.Sign(ed25519.NewKeyFromSeed(mat.edD), msg) }, func(msg []byte) []byte { return ed25519.Sign(otherEd, msg) }},
			{"ec2", gen.KeyMap([]gen.KeyEntry{{Label: refcbor.NInt(1), Value: refcbor.NInt(2)}, {Label: refcbor.NInt(-1), Value: refcbor.NInt(1)}, {Label: refcbor.NInt(-2), Value: refcbor.NBstr(a.X.FillBytes(make([]byte, 32)))}, {Label: refcbor.NInt(-3), Value: refcbor.NBstr(a.Y.FillBytes(make([]byte, 32)))}, {Label: refcbor.NInt(-4), Value: refcbor.NBstr(otherEC.D.FillBytes(make([]byte, 32)))}}),
				func(msg []byte) []byte {
					sg, _ := refcrypto.Sign(gen.Entropy, -7, a, msg)
					return sg
				}, func(msg []byte) []byte {
					sg, _ := refcrypto.Sign(gen.Entropy, -7, otherEC, msg)
					return sg
				}},
		}
		for _, m := range mx {
			b := refcbor.Encode(m.wire)
			in := map[string]any{"cell": "mixed-up-key/" + m.name, "key": hexs(b)}
			var k cose.Key
			if k.UnmarshalCBOR(b) != nil {
				rec.Event("mixed-up-key:refused")
				continue
			}
			var v cose.Verifier
			var err error
			if guard(rec, "Key.Verifier", in, func() { v, err = k.Verifier() }) || err != nil {
				continue
			}
			msg := []byte("mixed up")
			rec.Eval(1)
			rec.Event("mixed-up-key-cases")
			rec.Class("mixed-up-key/" + m.name)
			if e := v.Verify(msg, m.pubSign(msg)); e != nil {
				rec.Violate("gate", "mixed-up-key/"+m.name+"/public-refused", "the verifier of a key refuses a signature that is valid under the key's public coordinates: "+e.Error(), in)
			}
			if e := v.Verify(msg, m.otherSign(msg)); e == nil {
				rec.Violate("gate", "mixed-up-key/"+m.name+"/follows-d", "the verifier of a key accepts a signature made with the key pair its d belongs to, not the one its public coordinates name", in)
			}
		}
	}
	// coordinates that are not reduced field elements (v + p, still within the coordinate size): such a
	// key has no public point - no verifier, no public key
	{
		type nf struct {
			name string
			crv  int64
			x, y *big.Int
			size int
		}
		var cases []nf
		// P-521: p = 2^521 - 1, the 66-octet coordinates leave room for v + p with any v
		k521 := mat.full[2]
		p521 := elliptic.P521().Params().P
		cases = append(cases,
			nf{"P-521/x+p", 3, new(big.Int).Add(k521.X, p521), k521.Y, 66},
			nf{"P-521/y+p", 3, k521.X, new(big.Int).Add(k521.Y, p521), 66},
			nf{"P-521/x+p,y+p", 3, new(big.Int).Add(k521.X, p521), new(big.Int).Add(k521.Y, p521), 66})
		// P-256: v + p fits 32 octets only for v below about 2^224: build points with a chosen small x
		c256 := elliptic.P256().Params()
		for tries, found := 0, 0; tries < 200 && found < 6; tries++ {
			x := new(big.Int).SetBytes(r.Bytes(20 + r.Intn(8)))
			// y^2 = x^3 - 3x + b
			y2 := new(big.Int).Exp(x, big.NewInt(3), c256.P)
			y2.Sub(y2, new(big.Int).Mul(big.NewInt(3), x))
			y2.Add(y2, c256.B)
			y2.Mod(y2, c256.P)
			y := new(big.Int).ModSqrt(y2, c256.P)
			if y == nil || !elliptic.P256().IsOnCurve(x, y) {
				continue
			}
			found++
			cases = append(cases, nf{fmt.Sprintf("P-256/small-x-%d/as-is", found), 1, x, y, 32}, nf{fmt.Sprintf("P-256/small-x-%d/x+p", found), 1, new(big.Int).Add(x, c256.P), y, 32})
		}
		for _, cs := range cases {
			if cs.x.BitLen() > 8*cs.size || cs.y.BitLen() > 8*cs.size {
				continue
			}
			w := gen.KeyMap([]gen.KeyEntry{{Label: refcbor.NInt(1), Value: refcbor.NInt(2)}, {Label: refcbor.NInt(-1), Value: refcbor.NInt(cs.crv)},
				{Label: refcbor.NInt(-2), Value: refcbor.NBstr(cs.x.FillBytes(make([]byte, cs.size)))}, {Label: refcbor.NInt(-3), Value: refcbor.NBstr(cs.y.FillBytes(make([]byte, cs.size)))}})
			b := refcbor.Encode(w)
			in := map[string]any{"cell": "field-element/" + cs.name, "key": hexs(b)}
			var k cose.Key
			var err error
			if guard(rec, "Key.UnmarshalCBOR", in, func() { err = k.UnmarshalCBOR(b) }) {
				continue
			}
			rec.Eval(1)
			rec.Class(fmt.Sprintf("field-element/%s/accepted=%v", cs.name, err == nil))
			if err != nil {
				continue
			}
			reduced := strings.HasSuffix(cs.name, "as-is")
			var verr, perr error
			var pub any
			if guard(rec, "Key.Verifier/PublicKey", in, func() { _, verr = k.Verifier(); pub, perr = k.PublicKey() }) {
				continue
			}
			rec.Event("field-element-cases")
			if reduced {
				if verr != nil || perr != nil {
					rec.Violate("gate", "field-element/valid-refused", fmt.Sprintf("a valid point with a small x yields no verifier / public key: %v / %v", verr, perr), in)
				}
				continue
			}
			if verr == nil {
				rec.Violate("gate", "field-element/"+strings.SplitN(cs.name, "/", 2)[0], "Verifier() succeeded for a key whose coordinate is not a reduced field element (v + p): the key has no public point", in)
			}
			if perr == nil {
				if ek, ok := pub.(*ecdsa.PublicKey); ok && (ek.X.Cmp(ek.Curve.Params().P) >= 0 || ek.Y.Cmp(ek.Curve.Params().P) >= 0) {
					rec.Event("field-element:PublicKey-returns-unreduced-coordinates") // the conversion itself is C14's subject; only the gate is judged here
				}
			}
		}
	}
	// Go keys of families the COSE_Key conversion does not know must be refused (never a half-filled Key)
	{
		rk := testkeys.RSA(2048)
		foreign := map[string][2]any{
			"rsa":             {&rk.PublicKey, rk},
			"rsa-by-value":    {rk.PublicKey, *rk},
			"nil":             {nil, nil},
			"string":          {"key", "key"},
			"ecdsa-by-value":  {mat.full[0].PublicKey, *mat.full[0]},
			"ed25519-pointer": {&mat.edX, &mat.edD},
			"bytes":           {[]byte(mat.edX), []byte(mat.edD)},
			"nil-ecdsa":       {(*ecdsa.PublicKey)(nil), (*ecdsa.PrivateKey)(nil)},
		}
		fnames := make([]string, 0, len(foreign))
		for n := range foreign {
			fnames = append(fnames, n)
		}
		sortStrings(fnames)
		for _, n := range fnames {
			in := map[string]any{"go_key_type": n}
			var k1, k2 *cose.Key
			var e1, e2 error
			panicked := guard(rec, "NewKeyFromPublic/Private("+n+")", in, func() {
				defer func() {
					if n == "nil-ecdsa" {
						_ = recover() // a typed nil key is a caller error: not judged
					}
				}()
				k1, e1 = cose.NewKeyFromPublic(foreign[n][0])
				k2, e2 = cose.NewKeyFromPrivate(foreign[n][1])
			})
			rec.Eval(2)
			rec.Class("foreign-go-key/" + n)
			if panicked || n == "nil-ecdsa" {
				continue
			}
			if e1 == nil || e2 == nil || k1 != nil || k2 != nil {
				rec.Violate("foreign-key-accepted", n, fmt.Sprintf("NewKeyFromPublic/NewKeyFromPrivate returned (%v, %v) / (%v, %v) for a Go value that is not an ECDSA or Ed25519 key", k1 != nil, e1, k2 != nil, e2), in)
			}
		}
		// parameter labels that are neither integers nor text cannot be COSE_Key labels: the encoder refuses
		// them, it never emits them
		for ln, lab := range map[string]any{"float": 1.5, "bool": true, "bytes-array": [2]byte{1, 2}, "nil-label": nil, "struct": struct{ A int }{1}, "uint64-max": ^uint64(0), "int-label": int(-70001), "uint8-label": uint8(200)} {
			k := &cose.Key{Type: cose.KeyTypeSymmetric, Params: map[any]any{int64(-1): []byte("0123456789abcdef"), lab: int64(1)}}
			in := map[string]any{"param_label": ln}
			var out []byte
			var err error
			if guard(rec, "Key.MarshalCBOR(label "+ln+")", in, func() { out, err = k.MarshalCBOR() }) {
				continue
			}
			rec.Eval(1)
			rec.Class("param-label/" + ln)
			if err != nil {
				rec.Event("param-label:refused")
				continue
			}
			rec.Event("param-label:encoded")
			if rerr := refcose.KeyRules(out); rerr != nil {
				rec.Violate("produced-nonconforming-key", ln, "Key.MarshalCBOR emitted a key that violates the rules: "+rerr.Error()+": "+hexs(out), in)
				continue
			}
			var back cose.Key
			if derr := back.UnmarshalCBOR(out); derr != nil {
				rec.Violate("produced-undecodable-key", ln, "Key.MarshalCBOR emitted a key its own decoder refuses: "+derr.Error()+": "+hexs(out), in)
			}
		}
	}
	rec.Require("accepted", 2000)
	rec.Require("gate:Signer-ok", 50)
	rec.Require("gate:Verifier-ok", 50)
	rec.Require("gate:Signer-refused", 500)
	rec.RequireClasses(500)
}

// c15usedKey returns a Key variable that already holds a full private key
// with every optional parameter (as if an earlier decode had filled it).
func c15usedKey() *cose.Key {
	priv := gen.ECKeyFromD(elliptic.P256(), big.NewInt(0x1234567))
	k, err := cose.NewKeyFromPrivate(priv)
	if err != nil {
		panic("c15usedKey: " + err.Error())
	}
	k.ID = []byte("old-kid")
	k.Ops = []cose.KeyOp{cose.KeyOpSign, cose.KeyOpVerify}
	k.BaseIV = []byte{9, 9, 9, 9}
	k.Params[int64(-70)] = []byte("old-extra")
	k.Params["old"] = "text"
	return k
}

func diagOr(n *Node) string {
	if n == nil {
		return "absent"
	}
	return refcbor.Diag(n)
}

// c15facts is what the wire (or the hand-built value) says about a key.
type c15facts struct {
	kty        int64
	ktyInt     bool
	crv        int64
	crvInt     bool
	alg        int64
	hasD       bool // d present as a non-empty bstr
	hasX, hasY bool // x / y present as bstr
	opsPresent bool
	opsSign    bool
	opsVerify  bool
}

var c15algOfCurve = map[int64]int64{1: -7, 2: -35, 3: -36, 6: -8}

func c15wireFacts(n *Node) c15facts {
	var f c15facts
	if v := refcose.Lookup(n, 1); v != nil {
		f.kty, f.ktyInt = v.Int64()
	}
	if v := refcose.Lookup(n, -1); v != nil {
		f.crv, f.crvInt = v.Int64()
	}
	if v := refcose.Lookup(n, 3); v != nil {
		f.alg, _ = v.Int64()
	}
	if v := refcose.Lookup(n, -4); v != nil && v.Major == refcbor.Bstr && len(v.Str) > 0 {
		f.hasD = true
	}
	if v := refcose.Lookup(n, -2); v != nil && v.Major == refcbor.Bstr {
		f.hasX = true
	}
	if v := refcose.Lookup(n, -3); v != nil && v.Major == refcbor.Bstr {
		f.hasY = true
	}
	if v := refcose.Lookup(n, 4); v != nil {
		f.opsPresent = true
		for _, e := range v.Kids {
			if iv, ok := e.Int64(); ok && iv == 1 || e.Major == refcbor.Tstr && string(e.Str) == "sign" {
				f.opsSign = true
			}
			if iv, ok := e.Int64(); ok && iv == 2 || e.Major == refcbor.Tstr && string(e.Str) == "verify" {
				f.opsVerify = true
			}
		}
	}
	return f
}

func c15judgeWire(rec *mon.Recorder, b []byte, cell, source string) {
	in := map[string]any{"cell": cell, "key": mon.FullHex(b)}
	var k cose.Key
	var err error
	if guard(rec, "Key.UnmarshalCBOR", in, func() { err = k.UnmarshalCBOR(b) }) {
		return
	}
	rec.Eval(1)
	rec.Event("Key.UnmarshalCBOR")
	if err != nil {
		return
	}
	rec.Event("accepted")
	if n := rec.Events("accepted"); n%9000 == 5 {
		rec.Sample(fmt.Sprintf("accepted-%d", n), map[string]any{"cell": cell, "key": hexs(b)})
	}
	if source == "grid" {
		rec.Class("accepted/" + cell)
	} else {
		rec.Class("accepted/" + source + "/" + cell)
	}
	if rerr := refcose.KeyRules(b); rerr != nil {
		rec.Violate("accepted-inconsistent-key", rerr.Error(), "Key.UnmarshalCBOR accepted a key that violates the rules: "+rerr.Error(), in)
		return
	}
	// re-encoding: canonical, and a fixed point
	var c1 []byte
	if guard(rec, "Key.MarshalCBOR", in, func() { c1, err = k.MarshalCBOR() }) {
		return
	}
	if err != nil {
		rec.Violate("reencode-failed", source, "an accepted key cannot be encoded: "+err.Error(), in)
		return
	}
	if ok, why := refcbor.IsCanonical(c1); !ok {
		rec.Violate("reencoding-not-canonical", source, "re-encoded key is not deterministic CBOR: "+why+": "+hexs(c1), in)
		return
	}
	var k2 cose.Key
	if err = k2.UnmarshalCBOR(c1); err != nil {
		key := source
		if strings.Contains(err.Error(), "overflows Go's int64") && c09hasBignumWitness(b) {
			// input class of known finding F3 (root cause shared with F1): a parameter value written as a
			// positive bignum between 2^63 and 2^64 becomes a big.Int and is re-encoded as a plain uint
			key = "positive-bignum-between-2^63-and-2^64-reencoded-as-uint"
			rec.Event("F3-witness")
		}
		rec.Violate("reencoding-refused", key, "re-encoded key is refused by the decoder: "+err.Error()+" "+hexs(c1), in)
		return
	}
	c2, err := k2.MarshalCBOR()
	if err != nil || !eqBytes(c1, c2) {
		rec.Violate("not-a-fixed-point", source, fmt.Sprintf("Marshal(Unmarshal(c)) != c (err=%v)\n c  %s\n c' %s", err, hexs(c1), hexs(c2)), in)
		return
	}
	n, perr := refcbor.Parse(b)
	if perr != nil {
		rec.HarnessError("C15: accepted key unreadable by reference: " + perr.Error())
		return
	}
	n = refcose.StripTags(n) // tags are looked through by the (tag-tolerant) key decoder
	// the key material itself survives re-encoding: byte strings under -2, -3, -4 (and a byte-string -1)
	// come back unchanged; only on an EC2 key of P-256/P-384/P-521 may a shorter coordinate come back
	// left-padded with zeros to the curve's size (RFC 9053 7.1.1 wants the full length)
	if n1, e1 := refcbor.Parse(c1); e1 == nil && n1.Major == refcbor.Map {
		n1 = refcose.StripTags(n1) // a tag around a parameter value is kept by the re-encoding; it is not key material
		f := c15wireFacts(n)
		padTo := 0
		if f.ktyInt && f.kty == 2 && f.crvInt && f.crv >= 1 && f.crv <= 3 {
			padTo = c15sizes[f.crv-1]
		}
		top, _ := refcbor.Parse(b)
		for top != nil && top.Major == refcbor.Tag {
			top = top.Kids[0]
		}
		for _, l := range []int64{-1, -2, -3, -4} {
			vin, vout := refcose.Lookup(n, l), refcose.Lookup(n1, l)
			if vin == nil && vout != nil {
				rec.Violate("key-material-changed", fmt.Sprintf("%s/label=%d/appeared", source, l), fmt.Sprintf("parameter %d is absent from the key and present (%s) after re-encoding", l, diagOr(vout)), in)
				return
			}
			if vin != nil && vout == nil {
				rec.Violate("key-material-changed", fmt.Sprintf("%s/label=%d/vanished", source, l), fmt.Sprintf("parameter %d (%s) is gone after re-encoding", l, diagOr(vin)), in)
				return
			}
			if vin == nil || vin.Major != refcbor.Bstr {
				continue
			}
			if raw := refcose.Lookup(top, l); raw == nil || raw.Major != refcbor.Bstr {
				continue // a tagged value (e.g. a bignum) is not a byte-string coordinate
			}
			same := vout != nil && vout.Major == refcbor.Bstr && eqBytes(vout.Str, vin.Str)
			padded := vout != nil && vout.Major == refcbor.Bstr && l != -1 && padTo > len(vin.Str) && len(vout.Str) == padTo &&
				eqBytes(vout.Str[padTo-len(vin.Str):], vin.Str) && allZero(vout.Str[:padTo-len(vin.Str)])
			if !same && !padded {
				rec.Violate("key-material-changed", fmt.Sprintf("%s/label=%d", source, l), fmt.Sprintf("parameter %d was %s and is %s after re-encoding", l, hexs(vin.Str), diagOr(vout)), in)
				return
			}
		}
	}
	c15gate(rec, &k, cell, c15wireFacts(n), in)
	// the same bytes decoded into a variable that already held another key (a private EC2 key with
	// every optional parameter): the result must be the same key, with the same gate
	reused := c15usedKey()
	// a by-value copy taken before the variable is decoded into again keeps the OLD key (the decoder
	// builds a new parameter map, it does not refill the old one)
	earlier := *reused
	earlierHash := mon.DeepHashValue(earlier)
	defer func() {
		if mon.DeepHashValue(earlier) != earlierHash {
			rec.Violate("copy-aliased", source, "a by-value copy of a Key changed when the original variable was decoded into again", in)
		}
	}()
	if err := reused.UnmarshalCBOR(b); err != nil {
		rec.Violate("history-dependent", source, "bytes accepted into a fresh Key are refused into a used one: "+err.Error(), in)
		return
	}
	if c3, err := reused.MarshalCBOR(); err != nil || !eqBytes(c3, c1) {
		rec.Violate("history-dependent", source, fmt.Sprintf("decoding into a previously used Key gives another key (err=%v)\n fresh %s\n used  %s", err, hexs(c1), hexs(c3)), in)
		return
	}
	in["destination"] = "previously used Key variable"
	c15gate(rec, reused, cell, c15wireFacts(n), in)
	delete(in, "destination")
}

// c15gate evaluates Signer()/Verifier() against the facts.
func c15gate(rec *mon.Recorder, k *cose.Key, cell string, f c15facts, in map[string]any) {
	var signer cose.Signer
	var verifier cose.Verifier
	var serr, verr error
	if guard(rec, "Key.Signer/Verifier", in, func() {
		signer, serr = k.Signer()
		verifier, verr = k.Verifier()
	}) {
		return
	}
	rec.Eval(2)
	asym := f.ktyInt && (f.kty == 1 || f.kty == 2)
	wantAlg, curveFixes := c15algOfCurve[f.crv]
	if f.kty == 2 && f.crv == 6 || f.kty == 1 && f.crv >= 1 && f.crv <= 3 {
		curveFixes = false
	}
	check := func(op string, ok bool, alg cose.Algorithm, material bool, opsAllow bool) {
		if !ok {
			rec.Event("gate:" + op + "-refused")
			return
		}
		rec.Event("gate:" + op + "-ok")
		rec.Class("gate/" + op + "/" + fmt.Sprintf("kty=%d/crv=%d/alg=%d/ops=%v,%v,%v", f.kty, f.crv, f.alg, f.opsPresent, f.opsSign, f.opsVerify))
		switch {
		case !asym:
			rec.Violate("gate", op+"/symmetric-or-unsupported", op+"() succeeded for a symmetric / unsupported / non-integer key type", in)
		case !material:
			rec.Violate("gate", op+"/no-material", op+"() succeeded without the key material it needs", in)
		case f.opsPresent && !opsAllow:
			rec.Violate("gate", op+"/key_ops", op+"() succeeded although key_ops is present and does not include the operation", in)
		case !f.crvInt || !curveFixes:
			rec.Violate("gate", op+"/curve", op+"() succeeded for a curve that fixes no signature algorithm for this key type", in)
		case int64(alg) != wantAlg:
			rec.Violate("gate", op+"/algorithm", fmt.Sprintf("%s() reports algorithm %d, the curve fixes %d", op, int64(alg), wantAlg), in)
		case f.alg != 0 && f.alg != wantAlg:
			rec.Violate("gate", op+"/key-alg", fmt.Sprintf("%s() succeeded although the key's alg %d contradicts its curve (%d)", op, f.alg, wantAlg), in)
		}
	}
	var sa, va cose.Algorithm
	if serr == nil && signer != nil {
		sa = signer.Algorithm()
	}
	if verr == nil && verifier != nil {
		va = verifier.Algorithm()
	}
	check("Signer", serr == nil, sa, f.hasD, f.opsSign)
	pub := f.hasX
	if f.kty == 2 {
		pub = f.hasX && f.hasY
	}
	check("Verifier", verr == nil, va, pub, f.opsVerify)
	// a signer and verifier obtained from one key must work together
	if serr == nil && verr == nil {
		msg := []byte("c15")
		var sig []byte
		var e1, e2 error
		if guard(rec, "key-derived Sign/Verify", in, func() {
			sig, e1 = signer.Sign(gen.Entropy, msg)
			if e1 == nil {
				e2 = verifier.Verify(msg, sig)
			}
		}) {
			return
		}
		_ = refcrypto.ES256
		if e1 == nil && e2 != nil {
			// possible only if d does not belong to (x, y): the grid uses matching triples or mixes keys;
			// mixing keys is not a defect, so this is only counted
			rec.Event("gate:sign-verify-mismatch(mixed material)")
		}
	}
}

func allZero(b []byte) bool {
	for _, x := range b {
		if x != 0 {
			return false
		}
	}
	return true
}
