package checks

import (
	"fmt"
	"verif/harness/refcbor"

	cose "github.com/veraison/go-cose"

	"verif/harness/gen"
	"verif/harness/mon"
	"verif/harness/refcose"
)

// C05 - decoders accept only well-formed COSE of their own type.
// Monitor: error/nil result of the 7 decoders; oracle: accept => WellFormed
// (reference grammar, DESIGN.md appendix A.1) and cross-kind refusal.

func init() {
	register(&Check{
		ID:    "C05",
		Level: "exploration",
		Rule: "valid encodings of all 6 shapes from the reference encoder (all encoder choices, nested countersignatures single/list up to depth 3), then single and double structural faults at every kind of CBOR tree position " +
			"(23 operators: major type, argument, head width, indefinite length, tag wrap, undefined/null/simple/float/int/text/bstr/empty containers, duplicated map entry re-spelt with another width, trailing bytes inside the protected bstr, element add/remove, sibling swap, deep nesting...), byte-level havoc, and every valid encoding fed to every other decoder. " +
			"Non-trivial = a mutated input the library ACCEPTED (only there the oracle has bite); distinct = (decoder, fault operator(s), position class).",
		Assume: []string{"the reference grammar is no stricter than the property's wording (DESIGN.md section 2 and appendix A.1/A.2)"},
		Run:    runC05,
	})
}

// decoders of C05 (Signature and Countersignature share one shape).
type c05decoder struct {
	name string
	kind refcose.Kind
	dec  func(b []byte) error
}

func c05decoders() []c05decoder {
	return []c05decoder{
		{"Sign1Message", refcose.KSign1Tagged, func(b []byte) error { var m cose.Sign1Message; return m.UnmarshalCBOR(b) }},
		{"UntaggedSign1Message", refcose.KSign1Untagged, func(b []byte) error { var m cose.UntaggedSign1Message; return m.UnmarshalCBOR(b) }},
		{"SignMessage", refcose.KSignTagged, func(b []byte) error { var m cose.SignMessage; return m.UnmarshalCBOR(b) }},
		{"Signature", refcose.KSignature, func(b []byte) error { var m cose.Signature; return m.UnmarshalCBOR(b) }},
		{"Countersignature", refcose.KSignature, func(b []byte) error { var m cose.Countersignature; return m.UnmarshalCBOR(b) }},
		{"ProtectedHeader", refcose.KProtected, func(b []byte) error { var m cose.ProtectedHeader; return m.UnmarshalCBOR(b) }},
		{"UnprotectedHeader", refcose.KUnprotected, func(b []byte) error { var m cose.UnprotectedHeader; return m.UnmarshalCBOR(b) }},
	}
}

// c05offer feeds one input to every decoder and applies the oracle.
func c05offer(rec *mon.Recorder, decs []c05decoder, b []byte, op, path string, mutated bool, origin refcose.Kind) {
	for _, d := range decs {
		var err error
		in := map[string]any{"decoder": d.name, "op": op, "position": path, "input": mon.FullHex(b)}
		if guard(rec, d.name+".UnmarshalCBOR", in, func() { err = d.dec(b) }) {
			continue
		}
		rec.Eval(1)
		rec.Event(d.name)
		if err != nil {
			continue
		}
		rec.Event(d.name + ":accepted")
		if !mutated {
			if d.kind != origin {
				rec.Class("cross-kind/" + d.name + "<-" + origin.String())
				rec.Violate("cross-kind", d.name+"<-"+origin.String(), "decoder accepted a valid encoding of another structure kind", in)
			}
			continue
		}
		rec.Class(d.name + "/" + op + path)
		if werr := refcose.WellFormed(d.kind, b); werr != nil {
			rec.Violate("accepted-ill-formed", d.name+"/"+werr.Error(), "accepted although not a well-formed "+d.kind.String()+": "+werr.Error(), in)
		} else if rec.Events(d.name+":accepted")%97 == 0 {
			rec.Sample("accepted-mutant-"+d.name, map[string]any{"op": op, "position": path, "input": hexs(b)})
		}
	}
}

func runC05(c *Ctx) {
	rec := c.Rec
	decs := c05decoders()
	nBase := c.N(720, 12000)
	perBase := c.N(110, 160)
	bases := gen.ValidCorpus(mon.NewRand(uint64(c.Seed)).Sub(81000), nBase, 35)
	mon.Parallel(c.Workers, len(bases), func(w, bi int) {
		r := mon.NewRand(uint64(c.Seed)).Sub(uint64(82000 + bi))
		base := bases[bi]
		// the valid encoding itself: own decoder should take it (C07 judges refusals), no other may
		c05offer(rec, decs, base.Bytes, "valid", "", false, base.Kind)
		rec.Event("bases:" + base.Name)
		// the whole item wrapped in the self-described-CBOR tag (the CBOR library drops it silently)
		c05offer(rec, decs, append([]byte{0xd9, 0xd9, 0xf7}, base.Bytes...), "prefix-tag-55799", "", true, base.Kind)
		c05offer(rec, decs, append([]byte{0xd9, 0xd9, 0xf7, 0xd9, 0xd9, 0xf7}, base.Bytes...), "prefix-tag-55799-twice", "", true, base.Kind)
		t, err := gen.ParseTree(base.Bytes)
		if err != nil {
			rec.HarnessError("C05: reference cannot parse its own encoding: " + err.Error())
			return
		}
		sites := t.Sites()
		for j := 0; j < perBase; j++ {
			op := gen.FaultOps[(j+bi)%len(gen.FaultOps)]
			si := r.Intn(len(sites))
			out, path, ok := gen.ApplyFault(t, si, op, r)
			if !ok {
				// operator not applicable at that site: try a site where it is
				for try := 0; try < 6 && !ok; try++ {
					si = r.Intn(len(sites))
					out, path, ok = gen.ApplyFault(t, si, op, r)
				}
				if !ok {
					continue
				}
			}
			rec.Event("mutants")
			c05offer(rec, decs, out, op, path, true, base.Kind)
			if j%4 == 0 {
				// double fault
				if t2, err := gen.ParseTree(out); err == nil {
					s2 := t2.Sites()
					op2 := gen.FaultOps[r.Intn(len(gen.FaultOps))]
					if out2, path2, ok2 := gen.ApplyFault(t2, r.Intn(len(s2)), op2, r); ok2 {
						rec.Event("mutants")
						c05offer(rec, decs, out2, op+"+"+op2, path+"|"+path2, true, base.Kind)
					}
				}
			}
		}
		// targeted splices the tables omit
		for _, sp := range c05splices(r, t) {
			rec.Event("mutants")
			c05offer(rec, decs, sp.b, sp.op, "", true, base.Kind)
		}
		// byte-level havoc
		for _, m := range gen.ByteEdits(r, base.Bytes, false, 30) {
			rec.Event("mutants")
			c05offer(rec, decs, m.Data, "byte-"+m.Op, "", true, base.Kind)
		}
		if len(base.Bytes) < 80 {
			for _, m := range gen.BitFlips(base.Bytes) {
				rec.Event("mutants")
				c05offer(rec, decs, m.Data, "bitflip", "", true, base.Kind)
			}
		}
	})
	if c.Thorough {
		runFuzzStage(c, 8000000)
	}
	// every registered label x plain / structured / odd-text value, in both buckets and inside a message
	hz := gen.KeyValueZoo(mon.NewRand(uint64(c.Seed)).Sub(83000))
	for _, str := range []string{";", ";charset=utf-8", "/", "a/", "/b", " ", "a/b;c=d", "a/b/c", "é/ü"} {
		hz = append(hz, refNTstr(str))
	}
	for _, a := range []int64{-16, -15, -14, 0, 99} {
		hz = append(hz, refNArr(refNInt(a), refNBstr(make([]byte, 32))), refNArr(refNInt(a)))
	}
	var grid [][]byte
	for l := int64(0); l <= 40; l++ {
		for _, v := range hz {
			u := refNMap(refNInt(l), v)
			grid = append(grid, encodeNode(u), encodeNode(refNBstr(encodeNode(u))))
			wm := &gen.WSign1{L: gen.WLayer{ProtMap: refNMap(refNInt(1), refNInt(-7), refNInt(l), v), Unprot: refNMap(refNInt(l), v)}, Payload: []byte("p"), Sig: []byte{1}, Tagged: true}
			grid = append(grid, wm.Bytes())
			ws := &gen.WSignature{L: gen.WLayer{ProtMap: refNMap(refNInt(l), v), Unprot: refNMap(refNInt(l), v)}, Sig: []byte{1}}
			grid = append(grid, ws.Bytes())
		}
	}
	mon.Parallel(c.Workers, len(grid), func(w, i int) {
		rec.Event("mutants")
		c05offer(rec, decs, grid[i], "label-value-grid", "", true, refcose.KSign1Tagged)
	})
	for _, d := range decs {
		rec.Require(d.name+":accepted", 50)
	}
	rec.Require("mutants", 10000)
	rec.RequireClasses(150)
}

type c05splice struct {
	op string
	b  []byte
}

// c05splices plants the combinations named in the property text: IV in one
// bucket and Partial IV in the other, crit naming absent / unprotected
// labels, null / [] / [null] as countersignature value, a malformed
// countersignature nested below a valid one.
func c05splices(r *mon.Rand, t *gen.Tree) []c05splice {
	var out []c05splice
	// the whole encoding inside one more tag (the tags of the COSE and CWT registries, the
	// self-described tag, a few others): an envelope decoder takes its own tag and nothing around it
	if whole := t.Seal(); len(whole) > 0 {
		for _, tg := range []uint64{61, 18, 98, 16, 17, 96, 97, 24, 0, 2, 55799, 65535} {
			if r.Intn(3) == 0 {
				out = append(out, c05splice{fmt.Sprintf("outer-tag-%d", tg), append(refcbor.AppendHead(nil, refcbor.Tag, tg, 0), whole...)})
			}
		}
	}
	body := func(t *gen.Tree) (prot, unprot *Node) {
		n := t.Root
		if n.Major == 6 {
			n = n.Kids[0]
		}
		if n.Major == 4 && len(n.Kids) >= 3 && n.Kids[0].Major == 2 && n.Kids[1].Major == 5 {
			return n.Kids[0], n.Kids[1]
		}
		return nil, nil
	}
	add := func(op string, f func(t *gen.Tree, protBstr, protMap, unprot *Node) bool) {
		cl := t.Clone()
		p, u := body(cl)
		if p == nil {
			return
		}
		m := cl.Emb[p]
		if m == nil {
			m = refNMap()
			cl.Emb[p] = m
		}
		ok := false
		func() {
			defer func() { recover() }()
			ok = f(cl, p, m, u)
		}()
		if ok {
			func() {
				defer func() { recover() }()
				out = append(out, c05splice{op, cl.Seal()})
			}()
		}
	}
	strip := func(m *Node, labels ...int64) {
		var kids []*Node
		for i := 0; i+1 < len(m.Kids); i += 2 {
			drop := false
			if v, ok := m.Kids[i].Int64(); ok {
				for _, l := range labels {
					if v == l {
						drop = true
					}
				}
			}
			if !drop {
				kids = append(kids, m.Kids[i], m.Kids[i+1])
			}
		}
		m.Kids = kids
	}
	add("iv-protected+partial-iv-unprotected", func(t *gen.Tree, p, m, u *Node) bool {
		strip(m, 5, 6)
		strip(u, 5, 6)
		m.Kids = append(m.Kids, refNInt(5), refNBstr([]byte{1}))
		u.Kids = append(u.Kids, refNInt(6), refNBstr([]byte{2}))
		return true
	})
	add("partial-iv-protected+iv-unprotected", func(t *gen.Tree, p, m, u *Node) bool {
		strip(m, 5, 6)
		strip(u, 5, 6)
		m.Kids = append(m.Kids, refNInt(6), refNBstr([]byte{1}))
		u.Kids = append(u.Kids, refNInt(5), refNBstr([]byte{2}))
		return true
	})
	add("iv+partial-iv-same-bucket", func(t *gen.Tree, p, m, u *Node) bool {
		strip(u, 5, 6)
		u.Kids = append(u.Kids, refNInt(5), refNBstr([]byte{1}), refNInt(6), refNBstr([]byte{2}))
		return true
	})
	add("crit-names-absent-label", func(t *gen.Tree, p, m, u *Node) bool {
		strip(m, 2)
		m.Kids = append(m.Kids, refNInt(2), refNArr(refNInt(int64(4000+r.Intn(50)))))
		return true
	})
	add("crit-names-unprotected-label", func(t *gen.Tree, p, m, u *Node) bool {
		strip(m, 2, 4)
		strip(u, 4)
		u.Kids = append(u.Kids, refNInt(4), refNBstr([]byte("kid")))
		m.Kids = append(m.Kids, refNInt(2), refNArr(refNInt(4)))
		return true
	})
	add("crit-names-0-while-only-empty-text-label-present", func(t *gen.Tree, p, m, u *Node) bool {
		strip(m, 2, 0)
		m.Kids = append(m.Kids, refNInt(2), refNArr(refNInt(0)), refNTstr(""), refNInt(1))
		return true
	})
	add("crit-names-empty-text-while-only-0-present", func(t *gen.Tree, p, m, u *Node) bool {
		strip(m, 2, 0)
		m.Kids = append(m.Kids, refNInt(2), refNArr(refNTstr("")), refNInt(0), refNInt(1))
		return true
	})
	// a later signer of a COSE_Sign whose protected bytes are those of an earlier one, with the IV pair
	// split across ITS two buckets
	for _, which := range []int{0, 1, 2} {
		which := which
		add(fmt.Sprintf("later-signer-same-protected-iv-pair-split/%d", which), func(t *gen.Tree, p, m, u *Node) bool {
			n := t.Root
			if n.Major == 6 {
				n = n.Kids[0]
			}
			if len(n.Kids) != 4 || n.Kids[3].Major != 4 || len(n.Kids[3].Kids) == 0 {
				return false
			}
			inProt, inUnprot := int64(5), int64(6)
			if which == 1 {
				inProt, inUnprot = 6, 5
			}
			pb := encodeNode(refNMap(refNInt(1), refNInt(-7), refNInt(inProt), refNBstr([]byte{1})))
			entry := func(un *Node) *Node { return refNArr(refNBstr(pb), un, refNBstr([]byte("signature"))) }
			sigs := []*Node{entry(refNMap()), entry(refNMap(refNInt(inUnprot), refNBstr([]byte{2})))}
			if which == 2 {
				sigs = []*Node{entry(refNMap(refNInt(4), refNBstr([]byte("a")))), entry(refNMap()), entry(refNMap(refNInt(inUnprot), refNBstr([]byte{2})))}
			}
			n.Kids[3].Kids = sigs
			return true
		})
	}
	add("crit-empty", func(t *gen.Tree, p, m, u *Node) bool {
		strip(m, 2)
		m.Kids = append(m.Kids, refNInt(2), refNArr())
		return true
	})
	add("crit-in-unprotected", func(t *gen.Tree, p, m, u *Node) bool {
		strip(u, 2, 4)
		u.Kids = append(u.Kids, refNInt(4), refNBstr([]byte("k")), refNInt(2), refNArr(refNInt(4)))
		return true
	})
	for _, label := range []int64{7, 11} {
		label := label
		for name, v := range map[string]func() *Node{
			"null":         func() *Node { return refNNull() },
			"empty-list":   func() *Node { return refNArr() },
			"list-of-null": func() *Node { return refNArr(refNNull()) },
			"bstr":         func() *Node { return refNBstr([]byte{1}) },
			"list-with-bad-entry": func() *Node {
				return refNArr(refNArr(refNBstr([]byte{}), refNMap(), refNBstr([]byte{1})), refNArr(refNBstr([]byte{}), refNMap(), refNBstr([]byte{})))
			},
			"object-with-empty-signature": func() *Node { return refNArr(refNBstr([]byte{}), refNMap(), refNBstr([]byte{})) },
			"nested-two-levels-bad": func() *Node {
				inner := refNArr(refNBstr([]byte{}), refNMap(refNInt(7), refNArr(refNBstr([]byte{}), refNMap(refNInt(2), refNArr(refNInt(1))), refNBstr([]byte{1}))), refNBstr([]byte{1}))
				return inner
			},
			"countersig-in-protected-of-countersig": func() *Node {
				return refNArr(refNBstr(encodeNode(refNMap(refNInt(7), refNArr(refNBstr([]byte{}), refNMap(), refNBstr([]byte{1}))))), refNMap(), refNBstr([]byte{1}))
			},
		} {
			name, v := name, v
			add(fmt.Sprintf("countersig-%d-%s", label, name), func(t *gen.Tree, p, m, u *Node) bool {
				strip(u, 7, 11)
				u.Kids = append(u.Kids, refNInt(label), v())
				return true
			})
		}
	}
	add("label-bstr", func(t *gen.Tree, p, m, u *Node) bool {
		u.Kids = append(u.Kids, refNBstr([]byte{1}), refNInt(1))
		return true
	})
	add("label-uint-above-int64", func(t *gen.Tree, p, m, u *Node) bool {
		u.Kids = append(u.Kids, &Node{Major: 0, Arg: 1 << 63}, refNInt(1))
		return true
	})
	add("label-nint-below-int64", func(t *gen.Tree, p, m, u *Node) bool {
		m.Kids = append(m.Kids, &Node{Major: 1, Arg: 1 << 63}, refNInt(1))
		return true
	})
	add("dup-label-other-width-protected", func(t *gen.Tree, p, m, u *Node) bool {
		strip(m, 4)
		k2 := refNInt(4)
		k2.Width = 3
		m.Kids = append(m.Kids, refNInt(4), refNBstr([]byte{1}), k2, refNBstr([]byte{2}))
		return true
	})
	add("dup-label-nested-value-map", func(t *gen.Tree, p, m, u *Node) bool {
		k2 := refNInt(1)
		k2.Width = 2
		u.Kids = append(u.Kids, refNInt(int64(5000+r.Intn(10))), refNMap(refNInt(1), refNInt(2), k2, refNInt(3)))
		return true
	})
	for _, order := range []int{0, 1} {
		order := order
		add("dup-label-nested-with-uint-beyond-int64", func(t *gen.Tree, p, m, u *Node) bool {
			big := &Node{Major: 0, Arg: ^uint64(0) - uint64(r.Intn(5))}
			kids := []*Node{refNInt(2), big, refNInt(2), refNInt(1)}
			if order == 1 {
				kids = []*Node{refNInt(2), refNInt(1), refNInt(2), big}
			}
			u.Kids = append(u.Kids, refNInt(int64(5100+r.Intn(10))), refNMap(kids...))
			return true
		})
	}
	add("dup-label-nested-in-protected", func(t *gen.Tree, p, m, u *Node) bool {
		m.Kids = append(m.Kids, refNInt(int64(5000+r.Intn(10))), refNArr(refNMap(refNTstr("a"), refNInt(2), refNTstr("a"), refNInt(3))))
		return true
	})
	add("protected-is-array-of-small-ints", func(t *gen.Tree, p, m, u *Node) bool {
		n := t.Root
		if n.Major == 6 {
			n = n.Kids[0]
		}
		delete(t.Emb, p)
		n.Kids[0] = refNArr(refNInt(0xa0))
		return true
	})
	add("protected-wraps-two-maps", func(t *gen.Tree, p, m, u *Node) bool {
		delete(t.Emb, p)
		p.Str = []byte{0xa0, 0xa0}
		return true
	})
	add("protected-wraps-non-map", func(t *gen.Tree, p, m, u *Node) bool {
		delete(t.Emb, p)
		p.Str = mon.Pick(r, []byte{0x80}, []byte{0x01}, []byte{0x40}, []byte{0xf6}, []byte{0xbf, 0xff})
		return true
	})
	add("content-type-bad-text", func(t *gen.Tree, p, m, u *Node) bool {
		strip(m, 3)
		m.Kids = append(m.Kids, refNInt(3), refNTstr(mon.Pick(r, "", " a/b", "a/b ", "ab")))
		return true
	})
	add("kid-not-bstr", func(t *gen.Tree, p, m, u *Node) bool {
		strip(u, 4)
		u.Kids = append(u.Kids, refNInt(4), mon.Pick(r, refNTstr("kid"), refNInt(1), refNArr(refNInt(1), refNInt(2)), refNNull()))
		return true
	})
	add("alg-bad-type", func(t *gen.Tree, p, m, u *Node) bool {
		strip(m, 1)
		m.Kids = append(m.Kids, refNInt(1), mon.Pick(r, refNBstr([]byte{1}), refNNull(), refNArr(), &Node{Major: 7, Arg: 0x3c00, Width: 3}))
		return true
	})
	return out
}
