package checks

import (
	"bytes"
	"crypto/ecdsa"
	"crypto/rsa"
	"fmt"
	"math/big"

	cose "github.com/veraison/go-cose"

	"verif/harness/gen"
	"verif/harness/mon"
	"verif/harness/refcbor"
	"verif/harness/refcose"
	"verif/harness/refcrypto"
)

// C03 - Verify accepts exactly the signatures valid over the received bytes.
// Monitor: return value of every Verify entry point on mutated wire bytes;
// oracle: the reference verdict (own Sig_structure from the same bytes +
// stdlib primitive), plus the reference-free corollary "an accepted mutant
// with unchanged signature bytes must have unchanged signed fields".

func init() {
	register(&Check{
		ID:    "C03",
		Level: "exploration",
		Rule: "validly signed base messages of every kind (Sign1 tagged/untagged, COSE_Sign n=1..3, stand-alone Signature, full countersignature carried in a Sign1 header and stand-alone, Countersign0, hash envelope) x 7 algorithms, reference- and library-signed; " +
			"mutants: all single-bit flips (messages <= 160 B exhaustively, else sampled), byte insert/delete/truncate/replace, structural faults at CBOR tree nodes, semantic edits (move a parameter between buckets, re-order/re-width the protected map, head widths, swap payload/signature, re-tag, transplant signatures between messages and structure kinds, ECDSA (r,n-s), DER / zero-stripped / zero-extended ECDSA, RSA +-1 byte), other external data, other key; pairs of edits. " +
			"Non-trivial = the mutant decoded (oracle antecedent); distinct = (entry point, operator, alg, lib verdict).",
		Assume: []string{"crypto/ecdsa, crypto/rsa, crypto/ed25519 verification primitives are correct (shared trusted base)", "refcose structures validated against conformance vectors"},
		Run:    runC03,
	})
}

type c03base struct {
	kind      string
	alg       string
	wire      []byte
	ext       []byte
	keys      []VKey
	verifiers []cose.Verifier
	// stand-alone Signature
	bodyProtItem []byte
	bodyContent  []byte
	payload      []byte
	// fixed parent for stand-alone countersignature / Countersign0
	parent       any
	parentFields ParentFields
	abbrSig      []byte
	// original signed fields (for the forgery corollary)
	origSigned string
}

// judge runs the library and the reference on one input; decoded reports
// whether the library decoder accepted it.
func (b *c03base) judge(rec *mon.Recorder, wire, ext []byte, keys []VKey, verifiers []cose.Verifier, in map[string]any) (decoded, lib, ref bool, signed string, sig string) {
	var err error
	switch b.kind {
	case "sign1", "untagged":
		var m cose.Sign1Message
		tagged := b.kind == "sign1"
		if guard(rec, "Sign1.UnmarshalCBOR", in, func() {
			if tagged {
				err = m.UnmarshalCBOR(wire)
			} else {
				err = (*cose.UntaggedSign1Message)(&m).UnmarshalCBOR(wire)
			}
		}) || err != nil {
			return
		}
		decoded = true
		if guard(rec, "Sign1.Verify", in, func() { err = m.Verify(ext, verifiers[0]) }) {
			return
		}
		lib = err == nil
		ref = RefSign1Verdict(wire, tagged, ext, keys[0])
		if f, ok := sign1Fields(wire, tagged); ok {
			signed = fmt.Sprintf("%x|%x|%x", f.Layer.protContent, f.Payload, ext)
			sig = string(f.Sig)
		}
	case "sign":
		var m cose.SignMessage
		if guard(rec, "SignMessage.UnmarshalCBOR", in, func() { err = m.UnmarshalCBOR(wire) }) || err != nil {
			return
		}
		decoded = true
		if guard(rec, "SignMessage.Verify", in, func() { err = m.Verify(ext, verifiers...) }) {
			return
		}
		lib = err == nil
		ref = RefSignVerdict(wire, ext, keys)
		if f, ok := signFields(wire); ok {
			signed = fmt.Sprintf("%x|%x|%x", f.Layer.protContent, f.Payload, ext)
			for _, s := range f.Sigs {
				signed += fmt.Sprintf("|%x", s.Layer.protContent)
				sig += string(s.Sig) + "|"
			}
		}
	case "signature":
		var s cose.Signature
		if guard(rec, "Signature.UnmarshalCBOR", in, func() { err = s.UnmarshalCBOR(wire) }) || err != nil {
			return
		}
		decoded = true
		if guard(rec, "Signature.Verify", in, func() { err = s.Verify(verifiers[0], b.bodyProtItem, b.payload, ext) }) {
			return
		}
		lib = err == nil
		ref = RefSignatureVerdict(wire, b.bodyContent, b.payload, ext, keys[0])
		if l, sg, ok := signatureFields(wire); ok {
			signed = fmt.Sprintf("%x|%x", l.protContent, ext)
			sig = string(sg)
		}
	case "countersig-in-header":
		var m cose.Sign1Message
		if guard(rec, "Sign1.UnmarshalCBOR", in, func() { err = m.UnmarshalCBOR(wire) }) || err != nil {
			return
		}
		cs, ok := m.Headers.Unprotected[int64(11)].(*cose.Countersignature)
		if !ok || cs == nil {
			return
		}
		decoded = true
		if guard(rec, "Countersignature.Verify", in, func() { err = cs.Verify(verifiers[0], &m, ext) }) {
			return
		}
		lib = err == nil
		f, ok := sign1Fields(wire, true)
		if !ok {
			rec.HarnessError("C03: library decoded a Sign1 the reference cannot read: " + mon.Hex(wire))
			return
		}
		csn := refcose.Lookup(f.Layer.unprot, 11)
		if csn == nil {
			rec.HarnessError("C03: countersignature label not found by reference")
			return
		}
		l, sg, ok := signatureFieldsNode(csn)
		ref = ok && refCountersigVerdictFields(l, sg, ParentFields{Kind: refcose.PSign1, Prot: f.Layer.protContent, Payload: f.Payload, Sig: f.Sig}, ext, keys[0])
		signed = fmt.Sprintf("%x|%x|%x|%x|%x", f.Layer.protContent, f.Payload, f.Sig, l.protContent, ext)
		sig = string(sg)
	case "countersig-standalone":
		var cs cose.Countersignature
		if guard(rec, "Countersignature.UnmarshalCBOR", in, func() { err = cs.UnmarshalCBOR(wire) }) || err != nil {
			return
		}
		decoded = true
		if guard(rec, "Countersignature.Verify", in, func() { err = cs.Verify(verifiers[0], b.parent, ext) }) {
			return
		}
		lib = err == nil
		ref = RefCountersigVerdict(wire, b.parentFields, ext, keys[0])
		if l, sg, ok := signatureFields(wire); ok {
			signed = fmt.Sprintf("%x|%x", l.protContent, ext)
			sig = string(sg)
		}
	case "countersign0":
		// wire is the parent Sign1; the abbreviated signature is fixed
		var m cose.Sign1Message
		if guard(rec, "Sign1.UnmarshalCBOR", in, func() { err = m.UnmarshalCBOR(wire) }) || err != nil {
			return
		}
		decoded = true
		if guard(rec, "VerifyCountersign0", in, func() { err = cose.VerifyCountersign0(verifiers[0], &m, ext, b.abbrSig) }) {
			return
		}
		lib = err == nil
		f, ok := sign1Fields(wire, true)
		if !ok {
			rec.HarnessError("C03: library decoded a Sign1 the reference cannot read")
			return
		}
		ref = RefCountersign0Verdict(b.abbrSig, ParentFields{Kind: refcose.PSign1, Prot: f.Layer.protContent, Payload: f.Payload, Sig: f.Sig}, ext, keys[0])
		signed = fmt.Sprintf("%x|%x|%x|%x", f.Layer.protContent, f.Payload, f.Sig, ext)
		sig = string(b.abbrSig)
	case "hashenv":
		var m *cose.Sign1Message
		var probe cose.Sign1Message
		if probe.UnmarshalCBOR(wire) != nil {
			return
		}
		decoded = true
		if guard(rec, "VerifyHashEnvelope", in, func() { m, err = cose.VerifyHashEnvelope(verifiers[0], wire) }) {
			return
		}
		lib = err == nil && m != nil
		ref = refcose.HashEnvelopeRules(wire) == nil && RefSign1Verdict(wire, true, nil, keys[0])
		if f, ok := sign1Fields(wire, true); ok {
			signed = fmt.Sprintf("%x|%x", f.Layer.protContent, f.Payload)
			sig = string(f.Sig)
		}
	}
	return
}

func runC03(c *Ctx) {
	rec := c.Rec
	nBases := c.N(56, 1512)
	perBase := c.N(1400, 2000)
	mon.Parallel(c.Workers, nBases, func(w, bi int) {
		r := mon.NewRand(uint64(c.Seed)).Sub(uint64(31000 + bi))
		k := c.Keys.Keys[bi%7]
		if k.Pub != nil && bi%7 >= 4 && (bi/56)%2 == 1 || (bi%7 >= 4 && (bi/7)%4 == 3) {
			// RSA keys whose modulus is not a whole number of bytes
			if odd, err := gen.OddRSA(k.Alg); err == nil {
				k = odd[(bi/7)%2]
			}
		}
		base := c03makeBase(c, r, bi, k)
		if base == nil {
			rec.Event("base-not-built")
			return
		}
		in0 := map[string]any{"base": bi, "kind": base.kind, "alg": base.alg, "wire": mon.FullHex(base.wire), "external": base.ext}
		dec, lib, ref, signed, sig := base.judge(rec, base.wire, base.ext, base.keys, base.verifiers, in0)
		rec.Eval(1)
		if !dec || !lib || !ref {
			rec.Violate("base-invalid", base.kind+"/"+base.alg, fmt.Sprintf("validly signed base message: decoded=%v lib=%v ref=%v", dec, lib, ref), in0)
			return
		}
		base.origSigned = signed
		origSig := sig
		rec.Event("base:" + base.kind)
		rec.Sample("base-"+base.kind, map[string]any{"alg": base.alg, "wire": hexs(base.wire)})

		sameKey := true
		try := func(op string, wire, ext []byte, keys []VKey, verifiers []cose.Verifier) {
			in := map[string]any{"base": bi, "kind": base.kind, "alg": base.alg, "op": op, "base_wire": mon.FullHex(base.wire), "mutant": mon.FullHex(wire), "external": ext}
			dec, lib, ref, signed, sig := base.judge(rec, wire, ext, keys, verifiers, in)
			rec.Eval(1)
			rec.Event("mutants")
			if !dec {
				rec.Event("mutants:not-decodable")
				return
			}
			rec.Event("Verify:" + base.kind)
			rec.Class(fmt.Sprintf("%s/%s/%s/lib=%v", base.kind, op, base.alg, lib))
			if lib != ref {
				rec.Violate("verdict-differs", fmt.Sprintf("%s/%s/lib=%v", base.kind, op, lib),
					fmt.Sprintf("library verdict %v, reference verdict %v", lib, ref), in)
				return
			}
			if lib && sig == origSig && (signed != base.origSigned || !sameKey) {
				rec.Violate("forgery", base.kind+"/"+op, "accepted although signed fields or key differ from the original while the signature bytes are unchanged", in)
			}
			if lib {
				rec.Event("mutants:accepted")
			} else {
				rec.Event("mutants:rejected")
			}
		}

		// byte-level
		var muts []gen.ByteMutant
		if len(base.wire) <= 160 {
			muts = gen.BitFlips(base.wire)
		} else {
			all := gen.BitFlips(base.wire)
			for j := 0; j < 500; j++ {
				muts = append(muts, all[r.Intn(len(all))])
			}
		}
		muts = append(muts, gen.ByteEdits(r, base.wire, len(base.wire) <= 120, 300)...)
		if len(muts) > perBase {
			// deterministic thinning
			step := len(muts)/perBase + 1
			var t []gen.ByteMutant
			for j := r.Intn(step); j < len(muts); j += step {
				t = append(t, muts[j])
			}
			muts = t
		}
		for _, m := range muts {
			try(m.Op, m.Data, base.ext, base.keys, base.verifiers)
		}
		// structural faults at tree nodes (single and pairs)
		if t, err := gen.ParseTree(base.wire); err == nil {
			ns := len(t.Sites())
			for j := 0; j < 250; j++ {
				op := gen.FaultOps[r.Intn(len(gen.FaultOps))]
				out, _, ok := gen.ApplyFault(t, r.Intn(ns), op, r)
				if !ok {
					continue
				}
				if j%5 == 0 {
					if t2, err := gen.ParseTree(out); err == nil {
						op2 := gen.FaultOps[r.Intn(len(gen.FaultOps))]
						if out2, _, ok2 := gen.ApplyFault(t2, r.Intn(len(t2.Sites())), op2, r); ok2 {
							try("pair:"+op+"+"+op2, out2, base.ext, base.keys, base.verifiers)
						}
					}
				}
				try("fault:"+op, out, base.ext, base.keys, base.verifiers)
			}
		}
		// semantic edits
		for _, e := range c03semantic(c, r, base) {
			try(e.op, e.wire, base.ext, base.keys, base.verifiers)
		}
		// signatures made by the right key over another message or under another context
		if base.kind == "sign1" || base.kind == "untagged" {
			if f, ok := sign1Fields(base.wire, base.kind == "sign1"); ok {
				put := func(op string, tbs []byte) {
					t, err := gen.ParseTree(base.wire)
					if err != nil {
						return
					}
					a := t.Root
					if a.Major == refcbor.Tag {
						a = a.Kids[0]
					}
					a.Kids[3].Str = gen.RefSign(k.Ref(), tbs)
					a.Kids[3].Width = 0
					try(op, t.Seal(), base.ext, base.keys, base.verifiers)
				}
				put("transplant-other-payload", refcose.Sign1Structure(f.Layer.protContent, base.ext, append([]byte("x"), f.Payload...)))
				put("transplant-other-protected", refcose.Sign1Structure(append([]byte{}, 0xa0), base.ext, f.Payload))
				put("transplant-context-Signature", refcose.SignatureStructure(f.Layer.protContent, f.Layer.protContent, base.ext, f.Payload))
				put("transplant-context-Signature-emptysign", refcose.SignatureStructure(f.Layer.protContent, []byte{}, base.ext, f.Payload))
				put("transplant-context-CounterSignature", refcose.Structure("CounterSignature", f.Layer.protContent, []byte{}, true, base.ext, f.Payload, nil))
				put("transplant-context-CounterSignature0", refcose.Structure("CounterSignature0", f.Layer.protContent, nil, false, base.ext, f.Payload, nil))
				put("resign-same-message", refcose.Sign1Structure(f.Layer.protContent, base.ext, f.Payload))
				// RSASSA-PSS with a salt length other than the hash length is not a valid COSE signature (RFC 8230)
				if rk, ok := k.Priv.(*rsa.PrivateKey); ok {
					h := refcrypto.HashOf(int64(k.Alg))
					dg := refcrypto.Digest(h, refcose.Sign1Structure(f.Layer.protContent, base.ext, f.Payload))
					for _, salt := range []int{0, 1, 20, h.Size() - 1, h.Size() + 1, rsa.PSSSaltLengthAuto} {
						sig, err := rsa.SignPSS(gen.Entropy, rk, h, dg, &rsa.PSSOptions{SaltLength: salt})
						if err != nil {
							continue
						}
						t, err := gen.ParseTree(base.wire)
						if err != nil {
							continue
						}
						a := t.Root
						if a.Major == refcbor.Tag {
							a = a.Kids[0]
						}
						a.Kids[3].Str = sig
						a.Kids[3].Width = 0
						try(fmt.Sprintf("pss-salt-length-%d", salt), t.Seal(), base.ext, base.keys, base.verifiers)
					}
				}
			}
		}
		if base.kind == "countersig-standalone" {
			if l, _, ok := signatureFields(base.wire); ok {
				pf := base.parentFields
				put := func(op string, tbs []byte) {
					t, err := gen.ParseTree(base.wire)
					if err != nil {
						return
					}
					t.Root.Kids[2].Str = gen.RefSign(k.Ref(), tbs)
					t.Root.Kids[2].Width = 0
					try(op, t.Seal(), base.ext, base.keys, base.verifiers)
				}
				put("transplant-abbreviated-form", refcose.CountersignStructure(refcose.PSign1, true, true, pf.Prot, l.protContent, base.ext, pf.Payload, pf.Sig))
				put("transplant-v1-context", refcose.Structure("CounterSignature", pf.Prot, l.protContent, true, base.ext, pf.Payload, nil))
				put("transplant-message-signature", refcose.Sign1Structure(pf.Prot, base.ext, pf.Payload))
				put("transplant-other-parent-signature", refcose.CountersignStructure(refcose.PSign1, false, true, pf.Prot, l.protContent, base.ext, pf.Payload, append([]byte{1}, pf.Sig...)))
				put("resign-same", refcose.CountersignStructure(refcose.PSign1, false, true, pf.Prot, l.protContent, base.ext, pf.Payload, pf.Sig))
			}
		}
		// state carried between calls: verify, edit the payload buffer in place, verify again
		switch base.kind {
		case "sign1", "untagged":
			var m cose.Sign1Message
			var derr error
			if base.kind == "sign1" {
				derr = m.UnmarshalCBOR(base.wire)
			} else {
				derr = (*cose.UntaggedSign1Message)(&m).UnmarshalCBOR(base.wire)
			}
			if derr == nil && len(m.Payload) > 0 {
				in := map[string]any{"base": bi, "kind": base.kind, "alg": base.alg, "op": "payload-edited-in-place-between-verifies", "base_wire": mon.FullHex(base.wire)}
				e1 := m.Verify(base.ext, base.verifiers[0])
				m.Payload[0] ^= 0x01
				e2 := m.Verify(base.ext, base.verifiers[0])
				m.Payload[0] ^= 0x01
				e3 := m.Verify(base.ext, base.verifiers[0])
				rec.Eval(3)
				rec.Class(fmt.Sprintf("%s/payload-edited-in-place/%s", base.kind, base.alg))
				if e1 != nil || e2 == nil || e3 != nil {
					rec.Violate("stateful-verify", base.kind+"/payload-edited-in-place", fmt.Sprintf("verify=%v, after in-place payload edit=%v, after restoring=%v (want ok, error, ok)", e1, e2, e3), in)
				}
			}
		case "sign":
			var m cose.SignMessage
			if m.UnmarshalCBOR(base.wire) == nil && len(m.Payload) > 0 {
				in := map[string]any{"base": bi, "kind": base.kind, "alg": base.alg, "op": "payload-edited-in-place-between-verifies", "base_wire": mon.FullHex(base.wire)}
				e1 := m.Verify(base.ext, base.verifiers...)
				m.Payload[len(m.Payload)-1] ^= 0x80
				e2 := m.Verify(base.ext, base.verifiers...)
				m.Payload[len(m.Payload)-1] ^= 0x80
				e3 := m.Verify(base.ext, base.verifiers...)
				rec.Eval(3)
				rec.Class(fmt.Sprintf("%s/payload-edited-in-place/%s", base.kind, base.alg))
				if e1 != nil || e2 == nil || e3 != nil {
					rec.Violate("stateful-verify", base.kind+"/payload-edited-in-place", fmt.Sprintf("verify=%v, after in-place payload edit=%v, after restoring=%v (want ok, error, ok)", e1, e2, e3), in)
				}
			}
		}
		// other external data / other key
		for _, e := range [][]byte{nil, {}, {1}, append(append([]byte{}, base.ext...), 0), []byte("other")} {
			try("external", base.wire, e, base.keys, base.verifiers)
		}
		if other, err := gen.NewAlgKey(k.Alg, r.Sub(99)); err == nil && k.Alg != cose.AlgorithmPS256 && k.Alg != cose.AlgorithmPS384 && k.Alg != cose.AlgorithmPS512 {
			ks := append([]VKey{}, base.keys...)
			vs := append([]cose.Verifier{}, base.verifiers...)
			ks[0], vs[0] = VKey{int64(other.Alg), other.Pub}, other.Verifier
			sameKey = false
			try("other-key", base.wire, base.ext, ks, vs)
		}
		// a verifier of another algorithm over the same key family / another family
		for _, ok2 := range c.Keys.Keys {
			if ok2.Alg == k.Alg {
				continue
			}
			ks := append([]VKey{}, base.keys...)
			vs := append([]cose.Verifier{}, base.verifiers...)
			ks[0], vs[0] = VKey{int64(ok2.Alg), ok2.Pub}, ok2.Verifier
			sameKey = false
			try("other-alg", base.wire, base.ext, ks, vs)
		}
	})
	// RSASSA-PSS signatures whose first octet is zero (one in 256): the signature is the full modulus-length
	// octet string; with the leading zero dropped, moved to the end, or doubled it is not a signature
	for _, k := range c.Keys.Keys[4:7] {
		priv := k.Priv
		found := 0
		for try := 0; try < 6000 && found < 2; try++ {
			hdr := cose.Headers{Protected: cose.ProtectedHeader{int64(1): k.Alg}, Unprotected: cose.UnprotectedHeader{}}
			m := &cose.Sign1Message{Headers: hdr, Payload: []byte(fmt.Sprintf("pss-leading-zero-%d", try))}
			if err := m.Sign(gen.Entropy, nil, k.Signer); err != nil {
				rec.HarnessError("C03: " + err.Error())
				break
			}
			if m.Signature[0] != 0 {
				continue
			}
			found++
			rec.Event("pss-leading-zero-signatures")
			full := append([]byte{}, m.Signature...)
			variants := map[string][]byte{
				"as-is":                     full,
				"leading-zero-dropped":      full[1:],
				"leading-zero-moved-to-end": append(append([]byte{}, full[1:]...), 0),
				"leading-zero-doubled":      append([]byte{0}, full...),
			}
			for name, sig := range variants {
				mm := &cose.Sign1Message{Headers: m.Headers, Payload: m.Payload, Signature: sig}
				wire, merr := mm.MarshalCBOR()
				if merr != nil {
					continue
				}
				var d cose.Sign1Message
				in := map[string]any{"family": "pss-leading-zero", "alg": k.Name, "variant": name, "wire": mon.FullHex(wire)}
				if d.UnmarshalCBOR(wire) != nil {
					continue
				}
				var verr error
				if guard(rec, "Sign1.Verify", in, func() { verr = d.Verify(nil, k.Verifier) }) {
					continue
				}
				rec.Eval(1)
				rec.Class("pss-leading-zero/" + k.Name + "/" + name)
				ref := RefSign1Verdict(wire, true, nil, VKey{int64(k.Alg), k.Pub})
				if (verr == nil) != ref {
					rec.Violate("verdict-differs", "pss-leading-zero/"+name, fmt.Sprintf("library: %v, reference verdict: %v", verr, ref), in)
				}
			}
		}
		_ = priv
		if found == 0 {
			rec.Event("pss-leading-zero:none-found")
		}
	}
	rec.Require("mutants", 10000)
	rec.Require("mutants:accepted", 20)
	rec.Require("mutants:rejected", 1000)
	rec.RequireClasses(100)
}

// c03makeBase builds a validly signed base message of kind bi%kinds.
func c03makeBase(c *Ctx, r *mon.Rand, bi int, k *gen.AlgKey) *c03base {
	kinds := []string{"sign1", "untagged", "sign", "signature", "countersig-in-header", "countersig-standalone", "countersign0", "hashenv"}
	kind := kinds[(bi/7)%len(kinds)]
	b := &c03base{kind: kind, alg: k.Name, keys: []VKey{{int64(k.Alg), k.Pub}}, verifiers: []cose.Verifier{k.Verifier}}
	alg := int64(k.Alg)
	ext := gen.External(r)
	var algp *int64
	if r.Intn(4) != 0 {
		algp = &alg
	} else if len(ext) == 0 {
		ext = []byte("aad")
	}
	b.ext = ext
	payload := r.Bytes(mon.Pick(r, 0, 1, 5, 20, 30))
	if payload == nil {
		payload = []byte{}
	}
	small := gen.LayerOpts{Alg: algp, MaxProt: 2, MaxUnprot: 2, ScramblePct: 25}
	if bi%7 == 3 || bi%7 == 1 {
		// forced class: empty protected header of the signing layer, external data supplied
		if len(ext) == 0 {
			ext = []byte("aad")
			b.ext = ext
		}
		small = gen.LayerOpts{MaxProt: 0, MaxUnprot: 2, ScramblePct: 25}
		algp = nil
	}
	switch kind {
	case "sign1", "untagged":
		wm := &gen.WSign1{L: gen.RandLayer(r, small), Payload: payload, Tagged: kind == "sign1"}
		wm.Sig = gen.RefSign(k.Ref(), wm.TBS(ext, payload))
		b.wire = wm.Bytes()
	case "sign":
		n := 1 + r.Intn(3)
		wm := &gen.WSign{L: gen.RandLayer(r, gen.LayerOpts{MaxProt: 2, MaxUnprot: 1, ScramblePct: 25}), Payload: payload}
		b.keys, b.verifiers = nil, nil
		for j := 0; j < n; j++ {
			kj := k
			if j > 0 {
				kj = c.Keys.Keys[r.Intn(4)]
			}
			a := int64(kj.Alg)
			ap := &a
			if algp == nil {
				ap = nil
			}
			wm.Sigs = append(wm.Sigs, &gen.WSignature{L: gen.RandLayer(r, gen.LayerOpts{Alg: ap, MaxProt: 1, MaxUnprot: 1, ScramblePct: 25})})
			b.keys = append(b.keys, VKey{a, kj.Pub})
			b.verifiers = append(b.verifiers, kj.Verifier)
		}
		for j := range wm.Sigs {
			kj := c.Keys.By[cose.Algorithm(b.keys[j].Alg)]
			if j == 0 {
				kj = k
			}
			wm.Sigs[j].Sig = gen.RefSign(kj.Ref(), wm.TBS(j, ext, payload))
		}
		b.wire = wm.Bytes()
	case "signature":
		body := gen.RandLayer(r, gen.LayerOpts{MaxProt: 2, ScramblePct: 25})
		b.bodyContent = body.Content()
		item := refcbor.NBstr(b.bodyContent)
		item.Width = refcbor.FitWidth(uint64(len(b.bodyContent)), mon.Pick(r, 0, 0, 2, 3))
		b.bodyProtItem = refcbor.Encode(item)
		b.payload = payload
		ws := &gen.WSignature{L: gen.RandLayer(r, small)}
		ws.Sig = gen.RefSign(k.Ref(), refcose.SignatureStructure(b.bodyContent, ws.L.Content(), ext, payload))
		b.wire = ws.Bytes()
	case "countersig-in-header", "countersig-standalone", "countersign0":
		pk := c.Keys.Keys[r.Intn(4)]
		pa := int64(pk.Alg)
		parent := &gen.WSign1{L: gen.RandLayer(r, gen.LayerOpts{Alg: &pa, MaxProt: 2, MaxUnprot: 1, ScramblePct: 25}), Payload: payload, Tagged: true}
		parent.Sig = gen.RefSign(pk.Ref(), parent.TBS(nil, payload))
		pf := ParentFields{Kind: refcose.PSign1, Prot: parent.L.Content(), Payload: payload, Sig: parent.Sig}
		switch kind {
		case "countersign0":
			tbs := refcose.CountersignStructure(refcose.PSign1, true, true, pf.Prot, []byte{}, ext, pf.Payload, pf.Sig)
			b.abbrSig = gen.RefSign(k.Ref(), tbs)
			b.wire = parent.Bytes()
		default:
			cs := &gen.WSignature{L: gen.RandLayer(r, small)}
			// nested countersignature values must not carry tags
			tbs := refcose.CountersignStructure(refcose.PSign1, false, true, pf.Prot, cs.L.Content(), ext, pf.Payload, pf.Sig)
			cs.Sig = gen.RefSign(k.Ref(), tbs)
			if kind == "countersig-in-header" {
				parent.L.AddUnprot(11, cs.Node())
				b.wire = parent.Bytes()
			} else {
				var pm cose.Sign1Message
				if err := pm.UnmarshalCBOR(parent.Bytes()); err != nil {
					return nil
				}
				b.parent = &pm
				b.parentFields = pf
				b.wire = cs.Bytes()
			}
		}
	case "hashenv":
		// the three hash algorithms the library knows the digest length of, and registered ones it does not
		// (SHAKE128/256, SHA-1, SHA-512/256, an unassigned id) with the digest length of the registry
		ha := []int64{-16, -18, -43, -45, -44, -14, -17, -9999}[(bi%7+bi/56)%8]
		hv := r.Bytes(map[int64]int{-16: 32, -43: 48, -44: 64, -18: 32, -45: 64, -14: 20, -17: 32, -9999: 40}[ha])
		l := gen.RandLayer(r, gen.LayerOpts{Alg: &alg, MaxProt: 1, MaxUnprot: 1, ScramblePct: 20})
		if l.ProtMap == nil {
			l.ProtMap = refcbor.NMap()
		}
		// governed labels: 258 required; 259/260 optional; content type (3) forbidden
		strip := func(m *Node) {
			if m == nil {
				return
			}
			var kids []*Node
			for i := 0; i+1 < len(m.Kids); i += 2 {
				if v, ok := m.Kids[i].Int64(); ok && (v == 3 || v == 2) {
					continue
				}
				kids = append(kids, m.Kids[i], m.Kids[i+1])
			}
			m.Kids = kids
		}
		strip(l.ProtMap)
		strip(l.Unprot)
		l.ProtMap.Kids = append(l.ProtMap.Kids, refcbor.NInt(258), refcbor.NInt(ha))
		if r.Bool() {
			l.ProtMap.Kids = append(l.ProtMap.Kids, refcbor.NInt(259), mon.Pick(r, refcbor.NTstr("text/plain"), refcbor.NUint(50)))
		}
		if r.Bool() {
			l.ProtMap.Kids = append(l.ProtMap.Kids, refcbor.NInt(260), refcbor.NTstr("loc"))
		}
		l.EmptyA0 = false
		l.Reset()
		b.ext = nil
		wm := &gen.WSign1{L: l, Payload: hv, Tagged: true}
		wm.Sig = gen.RefSign(k.Ref(), wm.TBS(nil, hv))
		b.wire = wm.Bytes()
	}
	return b
}

type c03edit struct {
	op   string
	wire []byte
}

// c03semantic produces the targeted edits of the property text.
func c03semantic(c *Ctx, r *mon.Rand, b *c03base) []c03edit {
	var out []c03edit
	t, err := gen.ParseTree(b.wire)
	if err != nil {
		return nil
	}
	body := func(t *gen.Tree) *Node {
		n := t.Root
		if n.Major == refcbor.Tag {
			n = n.Kids[0]
		}
		return n
	}
	add := func(op string, f func(t *gen.Tree, a *Node) bool) {
		cl := t.Clone()
		a := body(cl)
		if a.Major != refcbor.Array || len(a.Kids) < 3 {
			return
		}
		ok := false
		func() {
			defer func() { recover() }()
			ok = f(cl, a)
		}()
		if ok {
			out = append(out, c03edit{op, cl.Seal()})
		}
	}
	sigIdx := func(a *Node) int { return len(a.Kids) - 1 }
	// head widths (must not change the verdict)
	for _, w := range []int{2, 3, 5, 9} {
		w := w
		add("width-protected", func(t *gen.Tree, a *Node) bool { a.Kids[0].Width = w; return true })
		add("width-payload-or-sig", func(t *gen.Tree, a *Node) bool {
			x := a.Kids[sigIdx(a)]
			if x.Major != refcbor.Bstr {
				return false
			}
			x.Width = refcbor.FitWidth(uint64(len(x.Str)), w)
			return true
		})
	}
	// re-order / re-width the protected map (content bytes change => must fail)
	add("reencode-protected", func(t *gen.Tree, a *Node) bool {
		m := t.Emb[a.Kids[0]]
		if m == nil || len(m.Kids) == 0 {
			return false
		}
		before := refcbor.Encode(m)
		gen.Scramble(r, m, 90)
		return !bytes.Equal(before, refcbor.Encode(m))
	})
	add("empty-protected-respelt", func(t *gen.Tree, a *Node) bool {
		p := a.Kids[0]
		if p.Major != refcbor.Bstr {
			return false
		}
		if len(p.Str) == 0 {
			p.Str = []byte{0xa0}
			return true
		}
		if len(p.Str) == 1 && p.Str[0] == 0xa0 {
			delete(t.Emb, p)
			p.Str = []byte{}
			return true
		}
		return false
	})
	// move a parameter between buckets
	add("move-protected-to-unprotected", func(t *gen.Tree, a *Node) bool {
		m := t.Emb[a.Kids[0]]
		u := a.Kids[1]
		if m == nil || len(m.Kids) < 2 || u.Major != refcbor.Map {
			return false
		}
		i := 2 * r.Intn(len(m.Kids)/2)
		u.Kids = append(u.Kids, m.Kids[i], m.Kids[i+1])
		m.Kids = append(m.Kids[:i:i], m.Kids[i+2:]...)
		return true
	})
	add("move-unprotected-to-protected", func(t *gen.Tree, a *Node) bool {
		m := t.Emb[a.Kids[0]]
		u := a.Kids[1]
		if m == nil || u.Major != refcbor.Map || len(u.Kids) < 2 {
			return false
		}
		i := 2 * r.Intn(len(u.Kids)/2)
		m.Kids = append(m.Kids, u.Kids[i], u.Kids[i+1])
		u.Kids = append(u.Kids[:i:i], u.Kids[i+2:]...)
		return true
	})
	// edits confined to unprotected headers (verdict must stay)
	add("unprotected-add", func(t *gen.Tree, a *Node) bool {
		u := a.Kids[1]
		if u.Major != refcbor.Map {
			return false
		}
		u.Kids = append(u.Kids, refcbor.NInt(int64(777+r.Intn(100))), gen.WireValue(r, 1, false))
		return true
	})
	for _, ua := range []int64{b.keys[0].Alg, -7, -8, -37, 0, 99} {
		ua := ua
		add(fmt.Sprintf("unprotected-add-alg=%d", ua), func(t *gen.Tree, a *Node) bool {
			u := a.Kids[1]
			if u.Major != refcbor.Map || refcose.Lookup(u, 1) != nil {
				return false
			}
			u.Kids = append(u.Kids, refcbor.NInt(1), refcbor.NInt(ua))
			return true
		})
	}
	add("unprotected-add-alg-text", func(t *gen.Tree, a *Node) bool {
		u := a.Kids[1]
		if u.Major != refcbor.Map || refcose.Lookup(u, 1) != nil {
			return false
		}
		u.Kids = append(u.Kids, refcbor.NInt(1), refcbor.NTstr("ES256"))
		return true
	})
	add("unprotected-remove", func(t *gen.Tree, a *Node) bool {
		u := a.Kids[1]
		if u.Major != refcbor.Map || len(u.Kids) < 2 {
			return false
		}
		u.Kids = u.Kids[2:]
		return true
	})
	add("unprotected-reorder", func(t *gen.Tree, a *Node) bool {
		u := a.Kids[1]
		if u.Major != refcbor.Map || len(u.Kids) < 4 {
			return false
		}
		u.Kids[0], u.Kids[1], u.Kids[2], u.Kids[3] = u.Kids[2], u.Kids[3], u.Kids[0], u.Kids[1]
		return true
	})
	if len(body(t).Kids) == 4 {
		add("swap-payload-signature", func(t *gen.Tree, a *Node) bool { a.Kids[2], a.Kids[3] = a.Kids[3], a.Kids[2]; return true })
		add("payload-edit", func(t *gen.Tree, a *Node) bool {
			p := a.Kids[2]
			if p.Major != refcbor.Bstr {
				return false
			}
			p.Str = append(append([]byte{}, p.Str...), 0)
			return true
		})
		add("payload-nil", func(t *gen.Tree, a *Node) bool { a.Kids[2] = refcbor.NNull(); return true })
	}
	// signature transforms
	sigEdit := func(op string, f func(sig []byte) []byte) {
		add(op, func(t *gen.Tree, a *Node) bool {
			s := a.Kids[sigIdx(a)]
			if s.Major == refcbor.Array && len(s.Kids) > 0 { // COSE_Sign: first signer
				s = s.Kids[0].Kids[2]
			}
			if s.Major != refcbor.Bstr {
				return false
			}
			ns := f(append([]byte{}, s.Str...))
			if ns == nil {
				return false
			}
			s.Str = ns
			s.Width = 0
			return true
		})
	}
	sigEdit("sig-truncate", func(s []byte) []byte {
		if len(s) < 2 {
			return nil
		}
		return s[:len(s)-1]
	})
	sigEdit("sig-extend", func(s []byte) []byte { return append(s, 0) })
	sigEdit("sig-prepend-zero", func(s []byte) []byte { return append([]byte{0}, s...) })
	if pub, ok := b.keys[0].Pub.(*ecdsa.PublicKey); ok && b.kind != "countersign0" {
		n := refcrypto.OrderSize(pub.Curve)
		split := func(s []byte) (rr, ss *big.Int, ok bool) {
			if len(s) != 2*n {
				return nil, nil, false
			}
			return new(big.Int).SetBytes(s[:n]), new(big.Int).SetBytes(s[n:]), true
		}
		sigEdit("ecdsa-n-minus-s", func(s []byte) []byte {
			rr, ss, ok := split(s)
			if !ok {
				return nil
			}
			return refcrypto.EncodeRS(pub.Curve, rr, new(big.Int).Sub(pub.Curve.Params().N, ss))
		})
		sigEdit("ecdsa-der", func(s []byte) []byte {
			rr, ss, ok := split(s)
			if !ok {
				return nil
			}
			return refcrypto.DER(rr, ss)
		})
		sigEdit("ecdsa-stripped", func(s []byte) []byte {
			rr, ss, ok := split(s)
			if !ok {
				return nil
			}
			return append(rr.Bytes(), ss.Bytes()...)
		})
		sigEdit("ecdsa-zero-extended", func(s []byte) []byte {
			rr, ss, ok := split(s)
			if !ok {
				return nil
			}
			out := make([]byte, 2*n+2)
			rr.FillBytes(out[:n+1])
			ss.FillBytes(out[n+1:])
			return out
		})
		// r (or s) replaced by the same residue plus a multiple of the group order, when that still fits the
		// half (always on P-521, whose halves have seven spare bits): another integer, not a valid signature
		for _, which := range []string{"r", "s", "both"} {
			for _, mult := range []int64{1, 2, 100} {
				which, mult := which, mult
				sigEdit(fmt.Sprintf("ecdsa-%s-plus-%dn", which, mult), func(s []byte) []byte {
					rr, ss, ok := split(s)
					if !ok {
						return nil
					}
					add := new(big.Int).Mul(pub.Curve.Params().N, big.NewInt(mult))
					if which != "s" {
						rr = new(big.Int).Add(rr, add)
					}
					if which != "r" {
						ss = new(big.Int).Add(ss, add)
					}
					if rr.BitLen() > 8*n || ss.BitLen() > 8*n {
						return nil
					}
					return append(rr.FillBytes(make([]byte, n)), ss.FillBytes(make([]byte, n))...)
				})
			}
		}
		sigEdit("ecdsa-swap-r-s", func(s []byte) []byte {
			if len(s) != 2*n {
				return nil
			}
			return append(append([]byte{}, s[n:]...), s[:n]...)
		})
	}
	// re-tag: the same bytes offered to the other Sign1 decoder form
	if b.kind == "sign1" {
		if n, err := refcbor.Parse(b.wire); err == nil && n.Major == refcbor.Tag {
			out = append(out, c03edit{"retag-strip-offered-to-tagged-decoder", refcbor.Encode(n.Kids[0])})
			out = append(out, c03edit{"retag-98", refcbor.Encode(refcbor.NTag(98, n.Kids[0]))})
		}
	}
	if b.kind == "untagged" {
		if n, err := refcbor.Parse(b.wire); err == nil {
			out = append(out, c03edit{"retag-add-offered-to-untagged-decoder", refcbor.Encode(refcbor.NTag(18, n))})
		}
	}
	return out
}
