package checks

import (
	"bytes"
	"fmt"
	"unicode/utf8"

	cose "github.com/veraison/go-cose"

	"verif/harness/gen"
	"verif/harness/mon"
	"verif/harness/refcbor"
	"verif/harness/refcose"
	"verif/harness/refcrypto"
)

// C12 - hash envelopes: only conforming envelopes are produced or accepted.
// Monitors: SignHashEnvelope output parsed by the reference parser and fed to
// the real verifier, deep-hash snapshot of the caller's header maps,
// VerifyHashEnvelope results on validly signed envelopes that move / add /
// remove the governed labels.

func init() {
	register(&Check{
		ID:    "C12",
		Level: "exploration",
		Rule: "producer: base headers of the supported model with the governed labels 3, 258, 259, 260 preset in either bucket under any Go integer spelling and any type, parsed and raw buckets (raw unprotected bytes holding governed labels), hash algorithms SHA-256/384/512/unknown/0, digest lengths 0..70, optional fields absent/valid/wrongly typed: every envelope returned must satisfy the envelope rules, carry the given values, be accepted by VerifyHashEnvelope with exactly those values, and the caller's maps must be untouched (also on failure). " +
			"verifier: the complete placement grid {absent, protected, unprotected, both} x value type per governed label (about 60 000 envelopes, each validly signed by the reference signer) plus digest-length, detached-payload and untagged variants: a message is returned iff the reference envelope rules hold. Distinct = (side, placement/type vector class, raw?, outcome).",
		Assume: []string{"envelope rules of DESIGN.md appendix A.5; a label preset by the caller counts as given"},
		Run:    runC12,
	})
}

func runC12(c *Ctx) {
	rec := c.Rec
	k := c.Keys.By[cose.AlgorithmEdDSA]

	// ------------------------------------------------------------ producer --
	nProd := c.N(20000, 400000)
	mon.Parallel(c.Workers, nProd, func(w, i int) {
		r := mon.NewRand(uint64(c.Seed)).Sub(uint64(141000 + i))
		kk := k
		if i%9 == 0 {
			kk = c.Keys.Pick(r)
		}
		var h cose.Headers
		prot, iv := gen.GoHeader(r, gen.HeaderOpts{Protected: true, MaxEntries: mon.Pick(r, 0, 2, 5), NoCrit: true}, false)
		unprot, _ := gen.GoHeader(r, gen.HeaderOpts{MaxEntries: mon.Pick(r, 0, 2, 4)}, iv != 0)
		// remove content type unless this case wants it preset
		for _, m := range []map[any]any{prot, unprot} {
			for key := range m {
				if nl, ok := refNorm(key); ok && nl == 3 {
					delete(m, key)
				}
			}
		}
		h.Protected, h.Unprotected = prot, unprot
		// preset governed labels (placement vector)
		presetVals := []any{int64(-16), int64(5), uint8(7), "text/plain", "x", []byte{1}, nil, true, cose.AlgorithmSHA384, 1.5, int64(-1)}
		placement := ""
		for _, gl := range []int64{3, 258, 259, 260} {
			switch r.Intn(8) {
			case 0:
				h.Protected[gen.SpellInt(r, gl)] = presetVals[r.Intn(len(presetVals))]
				placement += fmt.Sprintf("%d:P,", gl)
			case 1:
				h.Unprotected[gen.SpellInt(r, gl)] = presetVals[r.Intn(len(presetVals))]
				placement += fmt.Sprintf("%d:U,", gl)
			default:
			}
		}
		rawMode := r.Intn(6)
		switch rawMode {
		case 0: // raw unprotected bytes, possibly holding governed labels
			u := refcbor.NMap(refcbor.NInt(4), refcbor.NBstr([]byte("kid")))
			if r.Bool() {
				gl := mon.Pick(r, int64(3), int64(258), int64(259), int64(260))
				u.Kids = append(u.Kids, refcbor.NInt(gl), mon.Pick(r, refcbor.NInt(0), refcbor.NTstr("a/b"), refcbor.NNull()))
				placement += fmt.Sprintf("%d:rawU,", gl)
			}
			if r.Intn(3) == 0 {
				// hand-made bytes whose VALUES break a general header rule: nothing VerifyHashEnvelope
				// would refuse may be produced from them
				switch r.Intn(7) {
				case 0:
					u = refcbor.NMap(refcbor.NInt(4), refcbor.NInt(7)) // kid not a byte string
				case 1:
					u.Kids = append(u.Kids, refcbor.NInt(2), refcbor.NArr(refcbor.NInt(4))) // crit outside the protected bucket
				case 2:
					u.Kids = append(u.Kids, refcbor.NInt(5), refcbor.NBstr([]byte("iv")), refcbor.NInt(6), refcbor.NBstr([]byte("piv")))
				case 3:
					u.Kids = append(u.Kids, refcbor.NInt(mon.Pick(r, int64(7), int64(11))), mon.Pick(r, refcbor.NInt(1), refcbor.NArr(refcbor.NBstr(nil), refcbor.NMap()), refcbor.NArr()))
				case 4:
					u.Kids = append(u.Kids, refcbor.NInt(1), refcbor.NBstr([]byte("alg"))) // alg neither int nor text
				case 5:
					u.Kids = append(u.Kids, refcbor.NInt(mon.Pick(r, int64(5), int64(6))), refcbor.NTstr("iv")) // IV not a byte string
				case 6:
					u.Kids = append(u.Kids, refcbor.NInt(mon.Pick(r, int64(12), int64(9))), refcbor.NTstr("sig")) // abbreviated countersignature not a byte string
				}
				placement += "rawU-rule-breaking-value,"
			}
			h.RawUnprotected = refcbor.Encode(u)
		case 1: // raw protected bytes (must be discarded by the producer)
			h.RawProtected = refcbor.Encode(refcbor.NBstr(refcbor.Encode(refcbor.NMap(refcbor.NInt(1), refcbor.NInt(int64(kk.Alg)), refcbor.NInt(33), refcbor.NBstr([]byte("stale"))))))
			placement += "rawP,"
		case 2: // headers taken from a decoded message
			pre := &cose.Sign1Message{Headers: cloneHeaders(h), Payload: []byte("previous")}
			if pre.Sign(gen.Entropy, nil, kk.Signer) == nil {
				if b, err := pre.MarshalCBOR(); err == nil {
					var d cose.Sign1Message
					if d.UnmarshalCBOR(b) == nil {
						h = d.Headers
						placement += "decoded,"
					}
				}
			}
		}
		if r.Intn(40) == 0 {
			// a label that is neither integer nor text: nothing may be produced
			mon.Pick(r, map[any]any(h.Protected), map[any]any(h.Unprotected))[mon.Pick[any](r, 1.5, true, [2]byte{1, 2})] = int64(1)
			placement += "bad-label-type,"
		}
		ha := mon.Pick(r, cose.AlgorithmSHA256, cose.AlgorithmSHA256, cose.AlgorithmSHA384, cose.AlgorithmSHA512, cose.Algorithm(-999), cose.Algorithm(0), cose.AlgorithmES256)
		want := map[cose.Algorithm]int{cose.AlgorithmSHA256: 32, cose.AlgorithmSHA384: 48, cose.AlgorithmSHA512: 64}[ha]
		hl := want
		if r.Intn(3) == 0 || want == 0 {
			hl = r.Intn(71)
		}
		if want > 0 && r.Intn(12) == 0 {
			hl = want + 256*(1+r.Intn(3)) // the right length modulo 256
		}
		p := cose.HashEnvelopePayload{HashAlgorithm: ha, HashValue: r.Bytes(hl)}
		if hl == 0 && r.Bool() {
			p.HashValue = []byte{}
		}
		p.PreimageContentType = mon.Pick[any](r, nil, nil, "text/plain", uint64(50), uint8(1), int64(60), int(7), int64(-3), 2.5, []byte("x"), true, "50", "065", "0", "65535", "application/cose; cose-type=\"cose-sign1\"", "1/2", uint64(65535), uint64(65536), uint16(0))
		p.Location = mon.Pick(r, "", "", "", "https://example.com/a", "loc", "https://bucket.example/50%off.bin", "s3://my bucket/key", "://", "file:///tmp/x", "urn:uuid:6e8bc430-9c3a-11d9-9669-0800200c9a66", "http://[::1]:80/%zz", "h\u00e9llo://\u65e5\u672c", " leading-space", " ", "\t\n", "\u00a0", "\u2003\u2028", "\x00", "\xff\xfe", "loc\xc3", "\xed\xa0\x80")
		if i%11 == 3 && rawMode > 2 {
			// the caller's protected map already holds exactly the governed values (and no alg)
			h.Protected = cose.ProtectedHeader{}
			if r.Bool() {
				h.Protected[int64(258)] = ha
			} else {
				h.Protected[int64(258)] = int64(ha)
			}
			if p.PreimageContentType != nil {
				h.Protected[int64(259)] = p.PreimageContentType
			}
			if p.Location != "" {
				h.Protected[int64(260)] = p.Location
			}
			placement += "preset-equal,"
			switch r.Intn(4) {
			case 0:
				h.Protected[int64(1)] = int64(kk.Alg) // the signer's algorithm as a plain integer
				placement += "alg-int64,"
			case 1:
				h.Protected[int64(1)] = kk.Alg
				placement += "alg-typed,"
			case 2:
				h.Protected[int(1)] = int(kk.Alg)
				placement += "alg-int,"
			}
		}
		snap := mon.DeepHash(h.Protected, h.Unprotected, h.RawProtected, h.RawUnprotected, p.HashValue)
		in := map[string]any{"case": i, "placement": placement, "rawmode": rawMode, "protected": describeHeader(h.Protected), "unprotected": describeHeader(h.Unprotected), "raw_unprotected": hexs(h.RawUnprotected),
			"hash_alg": int64(ha), "hash_len": hl, "content_type": fmt.Sprintf("%T:%v", p.PreimageContentType, p.PreimageContentType), "location": p.Location}
		var env []byte
		var err error
		if guard(rec, "SignHashEnvelope", in, func() { env, err = cose.SignHashEnvelope(gen.Entropy, kk.Signer, h, p) }) {
			return
		}
		rec.Eval(1)
		rec.Event("SignHashEnvelope")
		if mon.DeepHash(h.Protected, h.Unprotected, h.RawProtected, h.RawUnprotected, p.HashValue) != snap {
			rec.Violate("caller-maps-modified", fmt.Sprintf("raw=%d/err=%v", rawMode, err != nil), "SignHashEnvelope modified the caller's header maps or buffers", in)
			return
		}
		if err != nil {
			rec.Event("SignHashEnvelope:refused")
			if len(env) != 0 {
				rec.Violate("bytes-with-error", "producer", "bytes returned together with an error", in)
			}
			return
		}
		rec.Event("SignHashEnvelope:produced")
		in["envelope"] = mon.FullHex(env)
		cls := fmt.Sprintf("producer/placement=%s/raw=%d/hash=%d/ct=%T/loc=%v", placement, rawMode, int64(ha), p.PreimageContentType, p.Location != "")
		rec.Class(cls)
		if rerr := refcose.HashEnvelopeRules(env); rerr != nil {
			rec.Violate("nonconforming-envelope-produced", rerr.Error(), "SignHashEnvelope returned an envelope that violates the rules: "+rerr.Error(), in)
			return
		}
		f, _ := sign1Fields(env, true)
		if v := refcose.Lookup(f.Layer.protMap, 258); v == nil || func() bool { x, _ := v.Int64(); return x != int64(ha) }() {
			rec.Violate("produced-values", "258", "payload hash algorithm in the envelope differs from the one given", in)
			return
		}
		if !bytes.Equal(f.Payload, p.HashValue) {
			rec.Violate("produced-values", "payload", "payload of the envelope differs from the hash value given", in)
			return
		}
		if a, ok := algInContent(f.Layer.protContent); !ok || a != int64(kk.Alg) {
			rec.Violate("produced-values", "alg", "the envelope does not carry the signer's algorithm in its protected header", in)
			return
		}
		if p.PreimageContentType != nil {
			want, _ := refcose.GoToNode(p.PreimageContentType, nil)
			got := refcose.Lookup(f.Layer.protMap, 259)
			if got == nil || !bytes.Equal(refcbor.Canon(got), refcbor.Canon(want)) {
				rec.Violate("produced-values", "259", "preimage content type given but not (or differently) present in the protected header", in)
				return
			}
		}
		if p.Location != "" {
			got := refcose.Lookup(f.Layer.protMap, 260)
			if got == nil || got.Major != refcbor.Tstr || string(got.Str) != p.Location {
				rec.Violate("produced-values", "260", "location given but not (or differently) present in the protected header", in)
				return
			}
		}
		// closure through the real verifier
		var m *cose.Sign1Message
		if guard(rec, "VerifyHashEnvelope", in, func() { m, err = cose.VerifyHashEnvelope(kk.Verifier, env) }) {
			return
		}
		rec.Event("VerifyHashEnvelope(own output)")
		if err != nil || m == nil {
			key := fmt.Sprintf("raw=%d", rawMode)
			if ct, isText := p.PreimageContentType.(string); !utf8.ValidString(p.Location) || (isText && !utf8.ValidString(ct)) {
				key = c12keyNotUTF8 // input class of known finding F4
			}
			rec.Violate("own-envelope-refused", key, fmt.Sprintf("VerifyHashEnvelope refuses an envelope SignHashEnvelope just produced: %v", err), in)
			return
		}
		if !bytes.Equal(m.Payload, p.HashValue) {
			rec.Violate("returned-values", "payload", "VerifyHashEnvelope returned another hash value", in)
		}
		if a, ok := m.Headers.Protected[int64(258)].(cose.Algorithm); !ok || a != ha {
			rec.Violate("returned-values", "258", fmt.Sprintf("VerifyHashEnvelope returned hash algorithm %v (%T), given %v", m.Headers.Protected[int64(258)], m.Headers.Protected[int64(258)], ha), in)
		}
		if p.Location != "" && m.Headers.Protected[int64(260)] != p.Location {
			rec.Violate("returned-values", "260", "VerifyHashEnvelope returned another location", in)
		}
		if p.PreimageContentType != nil {
			w, _ := refcose.GoToNode(p.PreimageContentType, nil)
			g, e := refcose.GoToNode(m.Headers.Protected[int64(259)], nil)
			if e != nil || !bytes.Equal(refcbor.Canon(w), refcbor.Canon(g)) {
				rec.Violate("returned-values", "259", "VerifyHashEnvelope returned another preimage content type", in)
			}
		}
		if i%900 == 0 {
			rec.Sample(fmt.Sprintf("produced-%d", i), map[string]any{"envelope": hexs(env), "placement": placement})
		}
	})

	// fixed witness of known finding F4, so that it is reported by every run
	{
		p := cose.HashEnvelopePayload{HashAlgorithm: cose.AlgorithmSHA256, HashValue: make([]byte, 32), Location: "loc\xff\xfe"}
		in := map[string]any{"family": "fixed witness", "location": "6c6f63fffe"}
		var env []byte
		var err error
		if !guard(rec, "SignHashEnvelope(fixed witness)", in, func() {
			env, err = cose.SignHashEnvelope(gen.Entropy, k.Signer, cose.Headers{Protected: cose.ProtectedHeader{}, Unprotected: cose.UnprotectedHeader{}}, p)
		}) && err == nil {
			rec.Eval(1)
			in["envelope"] = mon.FullHex(env)
			if m, verr := cose.VerifyHashEnvelope(k.Verifier, env); verr != nil || m == nil {
				rec.Violate("own-envelope-refused", c12keyNotUTF8, fmt.Sprintf("VerifyHashEnvelope refuses an envelope SignHashEnvelope just produced: %v", verr), in)
			}
		}
	}
	// ------------------------------------------------------------ verifier --
	type opt struct {
		name string
		p, u *Node // value in protected / unprotected (nil = absent)
	}
	mkOpts := func(vals map[string]*Node) []opt {
		out := []opt{{"absent", nil, nil}}
		names := make([]string, 0, len(vals))
		for n := range vals {
			names = append(names, n)
		}
		sortStrings(names)
		for _, n := range names {
			v := vals[n]
			out = append(out, opt{"P:" + n, v, nil}, opt{"U:" + n, nil, v}, opt{"PU:" + n, v, v})
		}
		return out
	}
	o3 := mkOpts(map[string]*Node{"uint": refcbor.NInt(50), "tstr": refcbor.NTstr("a/b")})
	o258 := mkOpts(map[string]*Node{"sha256": refcbor.NInt(-16), "sha384": refcbor.NInt(-43), "unknown": refcbor.NInt(99), "shake128": refcbor.NInt(-18), "shake256": refcbor.NInt(-45), "sha1": refcbor.NInt(-14), "sha512/256": refcbor.NInt(-17), "tstr": refcbor.NTstr("SHA-256"), "bstr": refcbor.NBstr([]byte{1}), "null": refcbor.NNull()})
	o259 := mkOpts(map[string]*Node{"uint": refcbor.NInt(50), "tstr": refcbor.NTstr("text/plain"), "tstr-empty": refcbor.NTstr(""), "nint": refcbor.NInt(-1), "bstr": refcbor.NBstr([]byte{1}), "null": refcbor.NNull()})
	o260 := mkOpts(map[string]*Node{"tstr": refcbor.NTstr("loc"), "tstr-empty": refcbor.NTstr(""), "int": refcbor.NInt(1), "bstr": refcbor.NBstr([]byte("loc")), "null": refcbor.NNull(), "array": refcbor.NArr(refcbor.NTstr("loc"))})
	type vcase struct {
		a, b, cc, d int
		variant     int
	}
	var vcases []vcase
	for a := range o3 {
		for b := range o258 {
			for cc := range o259 {
				for d := range o260 {
					vcases = append(vcases, vcase{a, b, cc, d, 0})
				}
			}
		}
	}
	// payload / framing variants on a few placements
	for variant := 1; variant <= 13; variant++ {
		for b := range o258 {
			vcases = append(vcases, vcase{0, b, 0, 0, variant}, vcase{0, b, 1, 1, variant})
		}
	}
	rec.Extra("verifier_grid_cells", len(vcases))
	alg := int64(k.Alg)
	mon.Parallel(c.Workers, len(vcases), func(w, i int) {
		vc := vcases[i]
		prot := refcbor.NMap(refcbor.NInt(1), refcbor.NInt(alg))
		unprot := refcbor.NMap(refcbor.NInt(4), refcbor.NBstr([]byte("kid")))
		place := func(label int64, o opt) {
			if o.p != nil {
				prot.Kids = append(prot.Kids, refcbor.NInt(label), refcbor.Clone(o.p))
			}
			if o.u != nil {
				unprot.Kids = append(unprot.Kids, refcbor.NInt(label), refcbor.Clone(o.u))
			}
		}
		place(3, o3[vc.a])
		place(258, o258[vc.b])
		place(259, o259[vc.cc])
		place(260, o260[vc.d])
		payload := make([]byte, 32)
		tagged := true
		ext := []byte(nil)
		vname := "plain"
		switch vc.variant {
		case 1:
			payload, vname = make([]byte, 31), "len-31"
		case 2:
			payload, vname = make([]byte, 33), "len-33"
		case 3:
			payload, vname = make([]byte, 48), "len-48"
		case 4:
			payload, vname = []byte{}, "len-0"
		case 5:
			payload, vname = nil, "detached"
		case 6:
			tagged, vname = false, "untagged"
		case 7:
			payload, vname = make([]byte, 64), "len-64"
		case 8:
			ext, vname = []byte("aad"), "signed-with-external-data"
		case 9:
			payload, vname = make([]byte, 47), "len-47"
		case 10:
			payload, vname = make([]byte, 32+256), "len-32+256"
		case 11:
			payload, vname = make([]byte, 48+256), "len-48+256"
		case 12:
			payload, vname = make([]byte, 64+256), "len-64+256"
		case 13:
			payload, vname = make([]byte, 32+65536), "len-32+65536"
		}
		wm := &gen.WSign1{L: gen.WLayer{ProtMap: prot, Unprot: unprot}, Payload: payload, Tagged: tagged}
		if i%2 == 1 {
			// the envelope as a peer with another CBOR encoder writes it: map order and integer widths of the
			// protected header are its own, the byte-string head is wider than needed
			rs := mon.NewRand(uint64(c.Seed)).Sub(uint64(128000 + i))
			gen.Scramble(rs, prot, 70)
			wm.L.ProtWidth = mon.Pick(rs, 2, 3, 5)
			vname += "+peer-encoding"
		}
		signed := payload
		if signed == nil {
			signed = []byte("detached content")
		}
		wm.Sig = gen.RefSign(k.Ref(), wm.TBS(ext, signed))
		env := wm.Bytes()
		cell := fmt.Sprintf("verifier/3=%s/258=%s/259=%s/260=%s/%s", o3[vc.a].name, o258[vc.b].name, o259[vc.cc].name, o260[vc.d].name, vname)
		in := map[string]any{"cell": cell, "envelope": mon.FullHex(env)}
		var m *cose.Sign1Message
		var err error
		if guard(rec, "VerifyHashEnvelope", in, func() { m, err = cose.VerifyHashEnvelope(k.Verifier, env) }) {
			return
		}
		rec.Eval(1)
		rec.Event("VerifyHashEnvelope(grid)")
		rules := refcose.HashEnvelopeRules(env)
		sigOK := rules == nil && RefSign1Verdict(env, true, nil, VKey{alg, k.Pub})
		lib := err == nil && m != nil
		rec.Class(cell)
		if lib {
			rec.Event("VerifyHashEnvelope(grid):accepted")
		}
		if lib && !sigOK {
			why := "signature not valid without external data"
			if rules != nil {
				why = rules.Error()
			}
			rec.Violate("nonconforming-envelope-accepted", cell, "VerifyHashEnvelope returned a message for an envelope that must be refused: "+why, in)
			return
		}
		if !lib && sigOK {
			rec.Violate("conforming-envelope-refused", cell, fmt.Sprintf("VerifyHashEnvelope refused a conforming, validly signed envelope: %v", err), in)
			return
		}
		if lib {
			if !bytes.Equal(m.Payload, payload) {
				rec.Violate("returned-values", "grid-payload", "returned payload differs from the envelope", in)
			}
			if _, ok := m.Headers.Protected[int64(258)].(cose.Algorithm); !ok {
				rec.Violate("returned-values", "grid-258-type", "returned hash algorithm is not typed as Algorithm", in)
			}
		}
		if i%6000 == 1 {
			rec.Sample(fmt.Sprintf("grid-%d", i), map[string]any{"cell": cell, "envelope": hexs(env), "accepted": lib})
		}
	})
	_ = refcrypto.ES256
	// the accessor a verifier-side application uses to learn the payload hash algorithm: whatever Go
	// integer type spells label 258 or its value, it reports that value; a text or other value is an error
	for tl := 0; tl < gen.IntSpellings; tl++ {
		if !gen.Fits(258, tl) {
			continue
		}
		for tv := 0; tv < gen.IntSpellings+1; tv++ {
			for _, a := range []int64{-16, -43, -44, -15, 99, 0} {
				var v any
				if tv == gen.IntSpellings {
					v = cose.Algorithm(a)
				} else if gen.Fits(a, tv) {
					v = gen.SpellIntAs(a, tv)
				} else {
					continue
				}
				h := cose.ProtectedHeader{gen.SpellIntAs(258, tl): v, int64(1): cose.AlgorithmES256}
				cell := fmt.Sprintf("accessor/PayloadHashAlgorithm/label=%s/value=%T(%d)", gen.SpellNames[tl], v, a)
				in := map[string]any{"cell": cell}
				var got cose.Algorithm
				var err error
				if guard(rec, "PayloadHashAlgorithm", in, func() { got, err = h.PayloadHashAlgorithm() }) {
					continue
				}
				rec.Eval(1)
				rec.Class(cell)
				rec.Event("accessor-cases")
				if err == nil && int64(got) != a {
					rec.Violate("accessor", cell, fmt.Sprintf("PayloadHashAlgorithm reports %d for a header that says %d", int64(got), a), in)
				}
				if err != nil {
					rec.Event("accessor:error")
				}
			}
		}
	}
	for _, v := range []any{"SHA-256", []byte{1}, nil, 1.5, true} {
		h := cose.ProtectedHeader{int64(258): v}
		var err error
		in := map[string]any{"cell": fmt.Sprintf("accessor/PayloadHashAlgorithm/value=%T", v)}
		if guard(rec, "PayloadHashAlgorithm", in, func() { _, err = h.PayloadHashAlgorithm() }) {
			continue
		}
		rec.Eval(1)
		rec.Class(in["cell"].(string))
		if err == nil {
			rec.Violate("accessor", "non-integer", "PayloadHashAlgorithm returned an algorithm for a non-integer value", in)
		}
	}
	rec.Require("SignHashEnvelope:produced", 1000)
	rec.Require("SignHashEnvelope:refused", 1000)
	rec.Require("VerifyHashEnvelope(grid):accepted", 10)
	rec.RequireClasses(5000)
}

func sortStrings(a []string) {
	for i := 1; i < len(a); i++ {
		for j := i; j > 0 && a[j] < a[j-1]; j-- {
			a[j], a[j-1] = a[j-1], a[j]
		}
	}
}

// c12keyNotUTF8 is the witness class of known finding F4: a Go string that is not valid UTF-8 given as
// location or (text) content type.
const c12keyNotUTF8 = "location-or-content-type-not-valid-utf8-emitted-as-cbor-text"
