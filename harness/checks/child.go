package checks

import "fmt"

// childModes are the isolated child-process entry points (C06, C08, C18).
var childModes = map[string]func(args []string) int{}

// ChildMain dispatches `vcheck child <mode> ...`.
func ChildMain(args []string) int {
	if len(args) == 0 {
		fmt.Println("HARNESS-ERROR child: no mode")
		return 3
	}
	f, ok := childModes[args[0]]
	if !ok {
		fmt.Println("HARNESS-ERROR child: unknown mode", args[0])
		return 3
	}
	return f(args[1:])
}
