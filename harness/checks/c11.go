package checks

import (
	"crypto"
	"errors"
	"fmt"
	"strings"

	cose "github.com/veraison/go-cose"

	"verif/harness/gen"
	"verif/harness/mon"
	"verif/harness/refcbor"
	"verif/harness/refcose"
)

// C11 - COSE_Sign verification is positional and all-or-nothing.
// Monitors: Verify/Sign/MarshalCBOR/UnmarshalCBOR results with real keys
// (oracle: reference conjunction per index from the wire bytes) and with
// positional spy verifiers / fault-free spy signers.

func init() {
	register(&Check{
		ID:    "C11",
		Level: "exploration",
		Rule: "n = 0..6 signers with mixed algorithms (real keys), constructed and decoded messages: every subset of corrupted signatures (2^n) and every subset of emptied slots under the identity arrangement; " +
			"every transposition, rotation, one missing, one surplus and a wrong key at each index; repeated keys; spy verifiers recording (index, content); spy signers failing at each position; " +
			"zero-signature and empty-signature messages through encoder and decoder. Subsets and arrangements are enumerated completely for every n <= 6; for 18 sizes n = 7..100 every single position is corrupted, emptied, given a wrong key and a refusing spy, and positional spies must each be consulted exactly once; distinct = (n, decoded?, bad-subset | arrangement | monitor).",
		Assume: []string{"signers are well-behaved here: they return an error or a non-empty signature (empty signatures from signers are C20's fault class)"},
		Run:    runC11,
	})
}

func runC11(c *Ctx) {
	rec := c.Rec
	maxN := 6
	reps := 24
	if c.Thorough {
		reps = 600
	}
	type job struct{ n, rep int }
	var jobs []job
	for n := 1; n <= maxN; n++ {
		for rep := 0; rep < reps; rep++ {
			jobs = append(jobs, job{n, rep})
		}
	}
	mon.Parallel(c.Workers, len(jobs), func(w, ji int) {
		n, rep := jobs[ji].n, jobs[ji].rep
		r := mon.NewRand(uint64(c.Seed)).Sub(uint64(51000 + ji))
		// keys: mostly fast algorithms; repeated keys in some repetitions
		ks := make([]*gen.AlgKey, n)
		for j := range ks {
			ks[j] = c.Keys.Keys[r.Intn(4)]
			if rep%3 == 2 && j > 0 && r.Bool() {
				ks[j] = ks[0]
			}
			if rep%6 == 5 && j == n-1 {
				ks[j] = c.Keys.Keys[4+r.Intn(3)]
			}
		}
		ext := gen.External(r)
		payload := gen.Payload(r, false)
		msg := &cose.SignMessage{Headers: c01headers(r, 0, 1, 3, 0), Payload: payload}
		delete(msg.Headers.Protected, int64(1))
		if rep%5 == 4 {
			// an alg in the BODY protected header says nothing about the signers (each COSE_Signature
			// names its own): whatever it is, a valid multi-algorithm message stays valid
			if msg.Headers.Protected == nil {
				msg.Headers.Protected = cose.ProtectedHeader{}
			}
			msg.Headers.Protected[int64(1)] = mon.Pick(r, cose.AlgorithmES256, cose.AlgorithmPS512, cose.AlgorithmEdDSA, cose.Algorithm(99))
		}
		signers := make([]cose.Signer, n)
		for j, k := range ks {
			msg.Signatures = append(msg.Signatures, &cose.Signature{Headers: c01headers(r, k.Alg, 0, 2, 0)})
			// make every signer's protected header distinct, so Sig_structures differ even with equal keys -
			// except in every fourth repetition, where all slots carry byte-identical protected headers
			// (then all signers of one algorithm sign the very same ToBeSigned)
			if rep%4 == 3 {
				msg.Signatures[j].Headers = cose.Headers{Protected: cose.ProtectedHeader{int64(1): k.Alg, int64(4): []byte("same")}, Unprotected: cose.UnprotectedHeader{}}
			} else {
				msg.Signatures[j].Headers.Protected[int64(91000+j)] = int64(j)
			}
			signers[j] = k.Signer
		}
		in := map[string]any{"n": n, "rep": rep, "external": ext}
		var err error
		if guard(rec, "SignMessage.Sign", in, func() { err = msg.Sign(gen.Entropy, ext, signers...) }) {
			return
		}
		rec.Eval(1)
		rec.Event("SignMessage.Sign")
		if err != nil {
			rec.Violate("sign", fmt.Sprintf("n=%d", n), "Sign with matching signers failed: "+err.Error(), in)
			return
		}
		for j, s := range msg.Signatures {
			if len(s.Signature) == 0 {
				rec.Violate("sign-slot-empty", fmt.Sprintf("n=%d/slot=%d", n, j), "Sign returned nil but left a slot empty", in)
				return
			}
		}
		goodSigs := make([][]byte, n)
		for j, s := range msg.Signatures {
			goodSigs[j] = append([]byte{}, s.Signature...)
		}
		if rep%8 == 3 {
			// signer layers that were received one by one from a peer whose encoder writes the protected
			// byte string with a wider head than needed, attached to this locally built body
			for j, sg := range msg.Signatures {
				b, e := sg.MarshalCBOR()
				if e != nil {
					continue
				}
				n, pe := refcbor.Parse(b)
				if pe != nil || n.Major != refcbor.Array || len(n.Kids) != 3 {
					continue
				}
				n.Kids[0].Width = mon.Pick(r, 2, 3, 5)
				var d cose.Signature
				if d.UnmarshalCBOR(refcbor.Encode(n)) != nil {
					continue
				}
				msg.Signatures[j] = &d
				rec.Event("signer-layer-received-separately")
			}
		}
		decodedVariant := rep%2 == 1
		keysOf := func(arr []*gen.AlgKey) ([]VKey, []cose.Verifier) {
			vk := make([]VKey, len(arr))
			vs := make([]cose.Verifier, len(arr))
			for j, k := range arr {
				vk[j] = VKey{int64(k.Alg), k.Pub}
				vs[j] = k.Verifier
				if rep%8 == 7 {
					// a caller's own verifier type that says more about itself than the interface asks for
					// (a key-store handle naming its key): verifiers are matched to signatures by position
					// and judged by Verify alone
					vs[j] = talkativeVerifier{k.Verifier, []byte(fmt.Sprintf("key-store-entry-%d", j))}
					rec.Event("verifier-with-extra-methods")
				}
			}
			return vk, vs
		}

		// judge: library Verify on the (constructed or decoded) message vs reference on its wire form
		judge := func(what string, sigs [][]byte, arr []*gen.AlgKey) {
			m2 := &cose.SignMessage{Headers: msg.Headers, Payload: payload}
			for j, s := range msg.Signatures {
				m2.Signatures = append(m2.Signatures, &cose.Signature{Headers: s.Headers, Signature: sigs[j]})
			}
			inn := map[string]any{"n": n, "rep": rep, "case": what, "external": ext}
			var wire []byte
			var merr error
			if guard(rec, "SignMessage.MarshalCBOR", inn, func() { wire, merr = m2.MarshalCBOR() }) {
				return
			}
			anyEmpty := false
			for _, s := range sigs {
				if len(s) == 0 {
					anyEmpty = true
				}
			}
			vk, vs := keysOf(arr)
			if anyEmpty {
				rec.Eval(1)
				rec.Class(fmt.Sprintf("n=%d/empty-slot/%s", n, what))
				if merr == nil {
					rec.Violate("empty-signature-encoded", fmt.Sprintf("n=%d", n), "MarshalCBOR emitted a COSE_Sign with an empty signature", inn)
				}
				var verr error
				if guard(rec, "SignMessage.Verify", inn, func() { verr = m2.Verify(ext, vs...) }) {
					return
				}
				if verr == nil {
					rec.Violate("empty-signature-verified", fmt.Sprintf("n=%d/%s", n, what), "Verify returned nil with an empty signature slot", inn)
				}
				return
			}
			if merr != nil {
				rec.Violate("marshal", fmt.Sprintf("n=%d", n), "MarshalCBOR of a fully signed COSE_Sign failed: "+merr.Error(), inn)
				return
			}
			inn["wire"] = mon.FullHex(wire)
			target := m2
			if decodedVariant {
				var d cose.SignMessage
				var derr error
				if guard(rec, "SignMessage.UnmarshalCBOR", inn, func() { derr = d.UnmarshalCBOR(wire) }) {
					return
				}
				if derr != nil {
					rec.Violate("unmarshal", fmt.Sprintf("n=%d", n), "own encoding refused: "+derr.Error(), inn)
					return
				}
				target = &d
			}
			var verr error
			if guard(rec, "SignMessage.Verify", inn, func() { verr = target.Verify(ext, vs...) }) {
				return
			}
			rec.Eval(1)
			rec.Event("SignMessage.Verify")
			ref := RefSignVerdict(wire, ext, vk)
			rec.Class(fmt.Sprintf("n=%d/decoded=%v/%s", n, decodedVariant, what))
			if (verr == nil) != ref {
				rec.Violate("verdict-differs", fmt.Sprintf("n=%d/%s", n, what), fmt.Sprintf("library: %v, reference verdict: %v", verr, ref), inn)
			}
		}

		// every subset of corrupted signatures
		for mask := 0; mask < 1<<n; mask++ {
			sigs := make([][]byte, n)
			for j := range sigs {
				sigs[j] = goodSigs[j]
				if mask>>j&1 == 1 {
					sigs[j] = flipBit(goodSigs[j], r)
				}
			}
			judge(fmt.Sprintf("corrupt=%0*b", n, mask), sigs, ks)
		}
		// every subset of emptied slots (nil and zero-length)
		for mask := 1; mask < 1<<n; mask++ {
			sigs := make([][]byte, n)
			for j := range sigs {
				sigs[j] = goodSigs[j]
				if mask>>j&1 == 1 {
					if (mask+j)%2 == 0 {
						sigs[j] = nil
					} else {
						sigs[j] = []byte{}
					}
				}
			}
			judge(fmt.Sprintf("empty=%0*b", n, mask), sigs, ks)
		}
		// verifier arrangements
		for a := 0; a < n; a++ {
			for b := a + 1; b < n; b++ {
				arr := append([]*gen.AlgKey{}, ks...)
				arr[a], arr[b] = arr[b], arr[a]
				judge(fmt.Sprintf("transpose=%d,%d", a, b), goodSigs, arr)
			}
		}
		if n > 1 {
			judge("rotate", goodSigs, append(append([]*gen.AlgKey{}, ks[1:]...), ks[0]))
			judge("one-missing", goodSigs, ks[:n-1])
			judge("first-missing", goodSigs, ks[1:])
		}
		judge("none", goodSigs, nil)
		judge("one-surplus", goodSigs, append(append([]*gen.AlgKey{}, ks...), ks[0]))
		for j := 0; j < n; j++ {
			other, e := gen.NewAlgKey(ks[j].Alg, r.Sub(uint64(j)))
			if e != nil || other.Alg == cose.AlgorithmPS256 || other.Alg == cose.AlgorithmPS384 || other.Alg == cose.AlgorithmPS512 {
				continue
			}
			arr := append([]*gen.AlgKey{}, ks...)
			arr[j] = other
			judge(fmt.Sprintf("wrong-key-at=%d", j), goodSigs, arr)
		}
		// signatures reordered (each COSE_Signature keeps its headers, signature bytes swapped)
		if n > 1 {
			sw := append([][]byte{}, goodSigs...)
			sw[0], sw[n-1] = sw[n-1], sw[0]
			judge("signature-bytes-swapped", sw, ks)
		}

		// positional spy verifiers: each verifier j sees exactly signer j's Sig_structure
		var log []mon.VerifyCall
		vs := make([]cose.Verifier, n)
		for j := range vs {
			vs[j] = &mon.SpyVerifier{Alg: ks[j].Alg, Index: j, Log: &log}
		}
		if guard(rec, "SignMessage.Verify(spy)", in, func() { err = msg.Verify(ext, vs...) }) {
			return
		}
		rec.Eval(1)
		rec.Class(fmt.Sprintf("n=%d/spy-positions", n))
		bc, _ := refcose.ProtectedContent(msg.Headers.Protected, gen.Custom)
		if err != nil || len(log) != n {
			rec.Violate("spy-verify", fmt.Sprintf("n=%d", n), fmt.Sprintf("all spy verifiers accept: err=%v, calls=%d", err, len(log)), in)
		} else {
			seen := map[int]bool{}
			for _, call := range log {
				sc, _ := refcose.ProtectedContent(msg.Signatures[call.Index].Headers.Protected, gen.Custom)
				want := refcose.SignatureStructure(bc, sc, ext, payload)
				if seen[call.Index] || !eqBytes(call.Content, want) || !eqBytes(call.Sig, goodSigs[call.Index]) {
					rec.Violate("position-mixup", fmt.Sprintf("n=%d/index=%d", n, call.Index), "verifier at this index did not receive its own signer's Sig_structure and signature", in)
				}
				seen[call.Index] = true
			}
		}
		// a refusing verifier at each position fails the whole verification
		for bad := 0; bad < n; bad++ {
			vs2 := make([]cose.Verifier, n)
			for j := range vs2 {
				sv := &mon.SpyVerifier{Alg: ks[j].Alg, Index: j}
				if j == bad {
					sv.Err = cose.ErrVerification
				}
				vs2[j] = sv
			}
			var e error
			if guard(rec, "SignMessage.Verify(spy)", in, func() { e = msg.Verify(ext, vs2...) }) {
				return
			}
			rec.Eval(1)
			rec.Class(fmt.Sprintf("n=%d/spy-refuses-at=%d", n, bad))
			if e == nil {
				rec.Violate("all-or-nothing", fmt.Sprintf("n=%d/bad=%d", n, bad), "Verify returned nil although the verifier at this position refused", in)
			}
		}
		// slots that share one *Signature object (a list built by appending the same pointer): whatever Sign
		// makes of it, a nil result means the message now verifies with the matching verifiers
		if n >= 2 {
			ka, e1 := gen.NewAlgKey(ks[0].Alg, r.Sub(901))
			kb, e2 := gen.NewAlgKey(ks[0].Alg, r.Sub(902))
			if e1 == nil && e2 == nil && ks[0].Alg != cose.AlgorithmPS256 && ks[0].Alg != cose.AlgorithmPS384 && ks[0].Alg != cose.AlgorithmPS512 {
				shared := &cose.Signature{Headers: cose.Headers{Protected: cose.ProtectedHeader{int64(1): ka.Alg}, Unprotected: cose.UnprotectedHeader{}}}
				sm := &cose.SignMessage{Headers: msg.Headers, Payload: payload, Signatures: []*cose.Signature{shared, shared}}
				var e error
				if guard(rec, "SignMessage.Sign(shared slot object)", in, func() { e = sm.Sign(gen.Entropy, ext, ka.Signer, kb.Signer) }) {
					return
				}
				rec.Eval(1)
				rec.Class(fmt.Sprintf("n=2/shared-signature-object/sign-ok=%v", e == nil))
				if e == nil {
					var ve error
					if guard(rec, "SignMessage.Verify(shared slot object)", in, func() { ve = sm.Verify(ext, ka.Verifier, kb.Verifier) }) {
						return
					}
					if ve != nil {
						rec.Violate("sign-slot-empty", "shared-signature-object", "Sign returned nil for two slots sharing one Signature object, but the message does not verify with the two matching verifiers: "+ve.Error(), in)
					}
				}
			}
		}
		// signers and verifiers of algorithms the library has no name for (private-use identifiers):
		// every position is consulted, and a refusal at any position fails the whole verification
		{
			cm := &cose.SignMessage{Headers: msg.Headers, Payload: payload}
			csigners := make([]cose.Signer, n)
			calgs := make([]cose.Algorithm, n)
			for j := 0; j < n; j++ {
				calgs[j] = mon.Pick(r, cose.Algorithm(-70000-j), cose.Algorithm(70000+j), cose.Algorithm(-65536), cose.AlgorithmES256)
				cm.Signatures = append(cm.Signatures, &cose.Signature{Headers: cose.Headers{Protected: cose.ProtectedHeader{int64(1): calgs[j]}, Unprotected: cose.UnprotectedHeader{}}})
				csigners[j] = &mon.SpySigner{Alg: calgs[j]}
			}
			var e error
			if guard(rec, "SignMessage.Sign(custom algs)", in, func() { e = cm.Sign(gen.Entropy, ext, csigners...) }) {
				return
			}
			if e == nil {
				for bad := -1; bad < n; bad++ {
					var log []mon.VerifyCall
					cvs := make([]cose.Verifier, n)
					for j := range cvs {
						sv := &mon.SpyVerifier{Alg: calgs[j], Index: j, Log: &log}
						if j == bad {
							sv.Err = cose.ErrVerification
						}
						cvs[j] = sv
					}
					if guard(rec, "SignMessage.Verify(custom algs)", in, func() { e = cm.Verify(ext, cvs...) }) {
						return
					}
					rec.Eval(1)
					rec.Class(fmt.Sprintf("n=%d/custom-algs/refuses-at=%d", n, bad))
					if bad >= 0 && e == nil {
						rec.Violate("all-or-nothing", fmt.Sprintf("n=%d/custom-alg/bad=%d", n, bad), fmt.Sprintf("Verify returned nil although the verifier (algorithm %d) at this position refused", int64(calgs[bad])), in)
					}
					if bad < 0 && (e != nil || len(log) != n) {
						rec.Violate("spy-verify", fmt.Sprintf("n=%d/custom-alg", n), fmt.Sprintf("all verifiers of private-use algorithms accept: err=%v, %d of %d consulted", e, len(log), n), in)
					}
				}
			}
		}
		// a verifier that crashes at each position: the panic reaches the caller or becomes an error,
		// it is never turned into success
		for bad := 0; bad < n; bad++ {
			vs2 := make([]cose.Verifier, n)
			for j := range vs2 {
				sv := &mon.SpyVerifier{Alg: ks[j].Alg, Index: j}
				if j == bad {
					sv.Panic = "verifier backend crashed"
				}
				vs2[j] = sv
			}
			var e error
			panicked, _, _ := mon.Try(func() { e = msg.Verify(ext, vs2...) })
			rec.Eval(1)
			rec.Class(fmt.Sprintf("n=%d/spy-panics-at=%d/propagated=%v", n, bad, panicked))
			if !panicked && e == nil {
				rec.Violate("all-or-nothing", fmt.Sprintf("n=%d/panic-at=%d", n, bad), "Verify returned nil although the verifier at this position panicked", in)
			}
		}
		// a nil slot at signing time: Sign fails, or it really fills every slot
		for bad := 0; bad < n; bad++ {
			m3 := &cose.SignMessage{Headers: msg.Headers, Payload: payload}
			ss := make([]cose.Signer, n)
			for j, s := range msg.Signatures {
				if j == bad {
					m3.Signatures = append(m3.Signatures, nil)
				} else {
					m3.Signatures = append(m3.Signatures, &cose.Signature{Headers: s.Headers})
				}
				ss[j] = ks[j].Signer
			}
			var e error
			if guard(rec, "SignMessage.Sign(nil slot)", in, func() { e = m3.Sign(gen.Entropy, ext, ss...) }) {
				return
			}
			rec.Eval(1)
			rec.Class(fmt.Sprintf("n=%d/nil-slot-at=%d/sign-ok=%v", n, bad, e == nil))
			if e == nil {
				for j, s := range m3.Signatures {
					if s == nil || len(s.Signature) == 0 {
						rec.Violate("sign-slot-empty", fmt.Sprintf("n=%d/nil-slot=%d", n, bad), fmt.Sprintf("Sign returned nil although slot %d is nil or unsigned", j), in)
						break
					}
				}
			}
		}
		// a failing signer at each position: error reported, and Sign never claims success with an empty slot
		for bad := 0; bad < n; bad++ {
			m3 := &cose.SignMessage{Headers: msg.Headers, Payload: payload}
			ss := make([]cose.Signer, n)
			for j, s := range msg.Signatures {
				m3.Signatures = append(m3.Signatures, &cose.Signature{Headers: s.Headers})
				sp := &mon.SpySigner{Alg: ks[j].Alg}
				if j == bad {
					sp.Err = mon.ErrInjected
				}
				ss[j] = sp
			}
			var e error
			if guard(rec, "SignMessage.Sign(spy)", in, func() { e = m3.Sign(gen.Entropy, ext, ss...) }) {
				return
			}
			rec.Eval(1)
			rec.Class(fmt.Sprintf("n=%d/signer-fails-at=%d", n, bad))
			if e == nil {
				rec.Violate("sign-error-lost", fmt.Sprintf("n=%d/bad=%d", n, bad), "Sign returned nil although the signer at this position failed", in)
			}
			if _, me := m3.MarshalCBOR(); me == nil {
				rec.Violate("half-signed-encoded", fmt.Sprintf("n=%d/bad=%d", n, bad), "a COSE_Sign with a failed slot was encoded", in)
			}
		}
		// signer count mismatch
		for _, cnt := range []int{0, n - 1, n + 1} {
			if cnt < 0 || cnt == n {
				continue
			}
			m3 := &cose.SignMessage{Headers: msg.Headers, Payload: payload}
			for _, s := range msg.Signatures {
				m3.Signatures = append(m3.Signatures, &cose.Signature{Headers: s.Headers})
			}
			ss := make([]cose.Signer, cnt)
			for j := range ss {
				ss[j] = &mon.SpySigner{Alg: ks[j%n].Alg}
			}
			var e error
			if guard(rec, "SignMessage.Sign(count)", in, func() { e = m3.Sign(gen.Entropy, ext, ss...) }) {
				return
			}
			rec.Eval(1)
			rec.Class(fmt.Sprintf("n=%d/signers=%d", n, cnt))
			if e == nil {
				rec.Violate("sign-count", fmt.Sprintf("n=%d/signers=%d", n, cnt), "Sign accepted a signer count different from the number of signatures", in)
			}
		}
		rec.Sample(fmt.Sprintf("n=%d", n), map[string]any{"algs": fmt.Sprint(func() []string {
			var a []string
			for _, k := range ks {
				a = append(a, k.Name)
			}
			return a
		}()), "external": ext})
	})

	// ---- many signers: every single position, no subsets (n beyond the complete enumeration) ----
	type ljob struct{ n, rep int }
	var ljobs []ljob
	for _, n := range []int{7, 8, 9, 10, 11, 12, 13, 15, 16, 17, 23, 31, 32, 33, 47, 64, 65, 100} {
		for rep := 0; rep < c.N(2, 12); rep++ {
			ljobs = append(ljobs, ljob{n, rep})
		}
	}
	mon.Parallel(c.Workers, len(ljobs), func(w, ji int) {
		n, rep := ljobs[ji].n, ljobs[ji].rep
		r := mon.NewRand(uint64(c.Seed)).Sub(uint64(57000 + ji))
		ks := make([]*gen.AlgKey, n)
		for j := range ks {
			ks[j] = c.Keys.Keys[mon.Pick(r, 0, 3, 3)]
		}
		ext := gen.External(r)
		payload := gen.Payload(r, false)
		msg := &cose.SignMessage{Headers: cose.Headers{Protected: cose.ProtectedHeader{int64(3): "a/b"}, Unprotected: cose.UnprotectedHeader{}}, Payload: payload}
		signers := make([]cose.Signer, n)
		for j, k := range ks {
			msg.Signatures = append(msg.Signatures, &cose.Signature{Headers: cose.Headers{Protected: cose.ProtectedHeader{int64(1): k.Alg, int64(91000 + j): int64(j)}, Unprotected: cose.UnprotectedHeader{}}})
			signers[j] = k.Signer
		}
		in := map[string]any{"n": n, "rep": rep, "external": ext, "family": "many-signers"}
		var err error
		if guard(rec, "SignMessage.Sign", in, func() { err = msg.Sign(gen.Entropy, ext, signers...) }) {
			return
		}
		rec.Eval(1)
		rec.Event("SignMessage.Sign(many)")
		if err != nil {
			rec.Violate("sign", fmt.Sprintf("n=%d", n), "Sign with matching signers failed: "+err.Error(), in)
			return
		}
		target := msg
		if rep%2 == 1 {
			wire, merr := msg.MarshalCBOR()
			var d cose.SignMessage
			if merr != nil || d.UnmarshalCBOR(wire) != nil {
				rec.Violate("unmarshal", fmt.Sprintf("n=%d", n), "own encoding of a fully signed COSE_Sign refused", in)
				return
			}
			target = &d
		}
		vs := make([]cose.Verifier, n)
		vk := make([]VKey, n)
		for j, k := range ks {
			vs[j] = k.Verifier
			vk[j] = VKey{int64(k.Alg), k.Pub}
		}
		verify := func(what string, m *cose.SignMessage, v []cose.Verifier, want bool) {
			var e error
			inn := map[string]any{"n": n, "rep": rep, "case": what, "family": "many-signers"}
			if guard(rec, "SignMessage.Verify", inn, func() { e = m.Verify(ext, v...) }) {
				return
			}
			rec.Eval(1)
			rec.Event("SignMessage.Verify(many)")
			if (e == nil) != want {
				rec.Violate("verdict-differs", fmt.Sprintf("n=%d/%s", n, strings.SplitN(what, "=", 2)[0]), fmt.Sprintf("library: %v, expected acceptance: %v (%s)", e, want, what), inn)
			}
		}
		if wire, merr := msg.MarshalCBOR(); merr == nil && !RefSignVerdict(wire, ext, vk) {
			rec.HarnessError("C11: reference refuses a freshly signed many-signer message")
			return
		}
		rec.Class(fmt.Sprintf("n=%d/many/decoded=%v", n, rep%2 == 1))
		verify("all-good", target, vs, true)
		for j := 0; j < n; j++ {
			// corrupted signature at j
			keep := target.Signatures[j].Signature
			target.Signatures[j].Signature = flipBit(keep, r)
			verify(fmt.Sprintf("corrupt-at=%d", j), target, vs, false)
			target.Signatures[j].Signature = nil
			verify(fmt.Sprintf("empty-at=%d", j), target, vs, false)
			target.Signatures[j].Signature = keep
			// a verifier of the right algorithm but another key at j
			other, e := gen.NewAlgKey(ks[j].Alg, r.Sub(uint64(j)))
			if e == nil {
				arr := append([]cose.Verifier{}, vs...)
				arr[j] = other.Verifier
				verify(fmt.Sprintf("wrong-key-at=%d", j), target, arr, false)
			}
			// a refusing spy at j among accepting spies
			spies := make([]cose.Verifier, n)
			for q := range spies {
				sv := &mon.SpyVerifier{Alg: ks[q].Alg, Index: q}
				if q == j {
					sv.Err = cose.ErrVerification
				}
				spies[q] = sv
			}
			verify(fmt.Sprintf("spy-refuses-at=%d", j), target, spies, false)
		}
		verify("all-good-again", target, vs, true)
		verify("one-missing", target, vs[:n-1], false)
		// positional spies: every index called exactly once with its own signature
		var log []mon.VerifyCall
		spies := make([]cose.Verifier, n)
		for q := range spies {
			spies[q] = &mon.SpyVerifier{Alg: ks[q].Alg, Index: q, Log: &log}
		}
		verify("all-spies-accept", target, spies, true)
		seen := map[int]bool{}
		for _, call := range log {
			if seen[call.Index] || !eqBytes(call.Sig, target.Signatures[call.Index].Signature) {
				rec.Violate("position-mixup", fmt.Sprintf("n=%d/many", n), fmt.Sprintf("verifier %d called twice or with another slot's signature", call.Index), in)
			}
			seen[call.Index] = true
		}
		if len(seen) != n {
			rec.Violate("all-or-nothing", fmt.Sprintf("n=%d/many/calls", n), fmt.Sprintf("only %d of %d verifiers were consulted although Verify returned", len(seen), n), in)
		}
	})

	// n = 0 and empty signatures through encoder / decoder
	k := c.Keys.Keys[0]
	zero := &cose.SignMessage{Headers: cose.Headers{Protected: cose.ProtectedHeader{}, Unprotected: cose.UnprotectedHeader{}}, Payload: []byte("p")}
	in := map[string]any{"case": "zero signatures"}
	rec.Eval(4)
	rec.Class("n=0/encode-sign-verify-decode")
	if _, err := zero.MarshalCBOR(); !errors.Is(err, cose.ErrNoSignatures) {
		rec.Violate("zero-signatures", "marshal", fmt.Sprintf("MarshalCBOR with zero signatures: %v", err), in)
	}
	if err := zero.Sign(gen.Entropy, nil); err == nil {
		rec.Violate("zero-signatures", "sign", "Sign with zero signatures returned nil", in)
	}
	if err := zero.Verify(nil); err == nil {
		rec.Violate("zero-signatures", "verify", "Verify with zero signatures returned nil", in)
	}
	if err := zero.Verify(nil, k.Verifier); err == nil {
		rec.Violate("zero-signatures", "verify-surplus", "Verify with zero signatures and one verifier returned nil", in)
	}
	// wire: zero signatures; empty / nil signature inside a COSE_Signature at each position
	for n := 0; n <= 4; n++ {
		for bad := -1; bad < n; bad++ {
			if n > 0 && bad == -1 {
				continue
			}
			for _, form := range []string{"empty", "null"} {
				wm := &gen.WSign{L: gen.WLayer{}, Payload: []byte("p")}
				for j := 0; j < n; j++ {
					a := int64(-7)
					s := &gen.WSignature{L: gen.WLayer{ProtMap: refcbor.NMap(refcbor.NInt(1), refcbor.NInt(a))}, Sig: mon.FixedSig}
					if j == bad {
						s.Sig = []byte{}
						if form == "null" {
							s.Sig = nil
						}
					}
					wm.Sigs = append(wm.Sigs, s)
				}
				b := wm.Bytes()
				var m cose.SignMessage
				var err error
				inn := map[string]any{"wire": mon.FullHex(b), "n": n, "empty_at": bad, "form": form}
				if guard(rec, "SignMessage.UnmarshalCBOR", inn, func() { err = m.UnmarshalCBOR(b) }) {
					continue
				}
				rec.Eval(1)
				rec.Class(fmt.Sprintf("decode/n=%d/empty-at=%d/%s", n, bad, form))
				if err == nil {
					rec.Violate("decoded-empty", fmt.Sprintf("n=%d/bad=%d/%s", n, bad, form), "decoder accepted a COSE_Sign with zero signatures or an empty signature", inn)
				}
			}
		}
	}
	// a signatures array with a non-signature element (null, undefined, [], h'') at each position;
	// and a nil *Signature entry on the Go side
	for n := 1; n <= 4; n++ {
		for bad := 0; bad < n; bad++ {
			for name, elem := range map[string]*Node{"null": refcbor.NNull(), "undefined": refcbor.NUndef(), "empty-array": refcbor.NArr(), "bstr": refcbor.NBstr([]byte{}), "int": refcbor.NInt(0), "two-array": refcbor.NArr(refcbor.NBstr([]byte{}), refcbor.NMap())} {
				var sigs []*Node
				for j := 0; j < n; j++ {
					if j == bad {
						sigs = append(sigs, elem)
						continue
					}
					sigs = append(sigs, refcbor.NArr(refcbor.NBstr([]byte{0xa1, 0x01, 0x26}), refcbor.NMap(), refcbor.NBstr(mon.FixedSig)))
				}
				b := refcbor.Encode(refcbor.NTag(98, refcbor.NArr(refcbor.NBstr([]byte{}), refcbor.NMap(), refcbor.NBstr([]byte("p")), refcbor.NArr(sigs...))))
				var m cose.SignMessage
				var err error
				inn := map[string]any{"wire": mon.FullHex(b), "n": n, "bad_element_at": bad, "element": name}
				if guard(rec, "SignMessage.UnmarshalCBOR", inn, func() { err = m.UnmarshalCBOR(b) }) {
					continue
				}
				rec.Eval(1)
				rec.Class(fmt.Sprintf("decode/n=%d/non-signature-element=%s/at=%d", n, name, bad))
				if err == nil {
					rec.Violate("decoded-empty", fmt.Sprintf("n=%d/element=%s", n, name), "decoder accepted a COSE_Sign whose signatures array holds an element that is not a COSE_Signature", inn)
				}
			}
			// Go side: nil entry
			m := &cose.SignMessage{Headers: cose.Headers{Protected: cose.ProtectedHeader{}, Unprotected: cose.UnprotectedHeader{}}, Payload: []byte("p")}
			vs := make([]cose.Verifier, n)
			for j := 0; j < n; j++ {
				if j == bad {
					m.Signatures = append(m.Signatures, nil)
				} else {
					m.Signatures = append(m.Signatures, &cose.Signature{Headers: cose.Headers{Protected: cose.ProtectedHeader{int64(1): k.Alg}}, Signature: mon.FixedSig})
				}
				vs[j] = &mon.SpyVerifier{Alg: k.Alg}
			}
			inn := map[string]any{"n": n, "nil_entry_at": bad}
			var out []byte
			var merr, verr error
			if guard(rec, "SignMessage with nil entry", inn, func() {
				out, merr = m.MarshalCBOR()
				verr = m.Verify(nil, vs...)
			}) {
				continue
			}
			rec.Eval(2)
			rec.Class(fmt.Sprintf("n=%d/nil-entry-at=%d", n, bad))
			if merr == nil {
				rec.Violate("empty-signature-encoded", fmt.Sprintf("n=%d/nil-entry", n), "MarshalCBOR emitted a COSE_Sign with a nil signature entry: "+hexs(out), inn)
			}
			if verr == nil {
				rec.Violate("empty-signature-verified", fmt.Sprintf("n=%d/nil-entry", n), "Verify returned nil with a nil signature entry", inn)
			}
		}
	}
	rec.Require("SignMessage.Verify", 300)
	rec.RequireClasses(100)
	rec.Extra("grid", "for every n in 1..6: all 2^n corrupted subsets, all 2^n-1 emptied subsets, all transpositions, rotation, missing/surplus verifier, wrong key at each index, failing verifier/signer at each index - enumerated completely; header contents, keys and payloads are seeded samples")
}

// talkativeVerifier is a Verifier whose type has more methods than the interface.
type talkativeVerifier struct {
	cose.Verifier
	id []byte
}

func (t talkativeVerifier) KeyID() []byte            { return t.id }
func (t talkativeVerifier) Kid() []byte              { return t.id }
func (t talkativeVerifier) ID() string               { return string(t.id) }
func (t talkativeVerifier) String() string           { return "verifier " + string(t.id) }
func (t talkativeVerifier) Public() crypto.PublicKey { return nil }
func (t talkativeVerifier) Header() cose.Headers {
	return cose.Headers{Protected: cose.ProtectedHeader{int64(4): t.id}}
}
