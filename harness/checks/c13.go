package checks

import (
	"fmt"
	"strings"

	"github.com/fxamacker/cbor/v2"

	cose "github.com/veraison/go-cose"

	"verif/harness/gen"
	"verif/harness/mon"
	"verif/harness/refcbor"
	"verif/harness/refcose"
)

// C13 - generic header parameter rules are enforced identically on encode
// and decode. Monitor: MarshalCBOR / UnmarshalCBOR verdicts of both bucket
// codecs and of every message type; oracle: three-way agreement between the
// encode verdict (any Go spelling), the decode verdict and the reference
// rules (appendix A.2).

func init() {
	register(&Check{
		ID:    "C13",
		Level: "exploration",
		Rule: "complete grid: 23 labels (16 registered, 258-260, unknown +/- int, tstr) x 20 value kinds x {protected, unprotected} x {encode, decode} x 10 Go integer spellings of the label; all IV / Partial IV pairs (same bucket, across buckets, spellings mixed); crit x {names present label, absent label, label only in the other bucket, differently spelt label, text label, empty, non-label entries}; duplicate labels under different spellings; " +
			"each header set is also carried through Sign1Message, UntaggedSign1Message, SignMessage (body and signature layer), Signature and Countersignature codecs. Thorough adds random multi-parameter sets. Every cell is non-trivial (three verdicts compared); distinct = grid cell.",
		Assume: []string{"content-type strings in the three-verdict grid are clear-cut (a/b, ab, empty, leading/trailing space); for 21 texts whose status RFC 9052 leaves open only encode/decode symmetry is judged", "Go-specific values (nil slices, RawMessage, Tag, typed containers, named types, unsigned integers above 2^63-1) have no reference verdict on acceptance: only produced => conforming and decodable"},
		Run:    runC13,
	})
}

type c13value struct {
	name string
	goV  func(r *mon.Rand) any
	wire func(r *mon.Rand) *Node
}

func c13csGo() *cose.Countersignature {
	return &cose.Countersignature{Headers: cose.Headers{Protected: cose.ProtectedHeader{int64(1): cose.AlgorithmES256}, Unprotected: cose.UnprotectedHeader{}}, Signature: []byte{1, 2, 3}}
}

func c13csWire() *Node {
	return refcbor.NArr(refcbor.NBstr([]byte{0xa1, 0x01, 0x26}), refcbor.NMap(), refcbor.NBstr([]byte{1, 2, 3}))
}

func c13values() []c13value {
	k := func(v any, n *Node) (func(*mon.Rand) any, func(*mon.Rand) *Node) {
		return func(*mon.Rand) any { return v }, func(*mon.Rand) *Node { return refcbor.Clone(n) }
	}
	mk := func(name string, v any, n *Node) c13value {
		g, w := k(v, n)
		return c13value{name, g, w}
	}
	return []c13value{
		mk("nint", int64(-7), refcbor.NInt(-7)),
		mk("zero", int64(0), refcbor.NInt(0)),
		mk("uint", int64(42), refcbor.NInt(42)),
		mk("uint-go-unsigned", uint16(42), refcbor.NInt(42)),
		mk("big-within-int64", int64(1)<<40, refcbor.NInt(1<<40)),
		mk("tstr-plain", "ab", refcbor.NTstr("ab")),
		mk("tstr-type-subtype", "a/b", refcbor.NTstr("a/b")),
		mk("tstr-leading-space", " a/b", refcbor.NTstr(" a/b")),
		mk("tstr-trailing-space", "a/b ", refcbor.NTstr("a/b ")),
		mk("tstr-empty", "", refcbor.NTstr("")),
		mk("tstr-two-slashes", "a/b/c", refcbor.NTstr("a/b/c")),
		mk("tstr-double-slash", "a//b", refcbor.NTstr("a//b")),
		mk("tstr-three-slashes", "application/x/y/z", refcbor.NTstr("application/x/y/z")),
		mk("tstr-with-parameter", "a/b;c=d", refcbor.NTstr("a/b;c=d")),
		mk("tstr-with-parameter-trailing-space", "a/b; c=d ", refcbor.NTstr("a/b; c=d ")),
		mk("tstr-with-parameter-leading-space", " a/b;c=d", refcbor.NTstr(" a/b;c=d")),
		mk("bstr", []byte{1, 2}, refcbor.NBstr([]byte{1, 2})),
		mk("bstr-empty", []byte{}, refcbor.NBstr([]byte{})),
		mk("array-of-labels", []any{int64(4)}, refcbor.NArr(refcbor.NInt(4))),
		mk("array-empty", []any{}, refcbor.NArr()),
		mk("map", map[any]any{int64(1): int64(2)}, refcbor.NMap(refcbor.NInt(1), refcbor.NInt(2))),
		mk("bool", true, refcbor.NBool(true)),
		mk("null", nil, refcbor.NNull()),
		mk("float", 1.5, refcbor.NFloat64(1.5)),
		mk("simple-value", cbor.SimpleValue(99), refcbor.NSimple(99)),
		mk("simple-value-small", cbor.SimpleValue(16), refcbor.NSimple(16)),
		{"countersignature", func(*mon.Rand) any { return c13csGo() }, func(*mon.Rand) *Node { return c13csWire() }},
		{"countersignature-list", func(*mon.Rand) any { return []*cose.Countersignature{c13csGo(), c13csGo()} }, func(*mon.Rand) *Node { return refcbor.NArr(c13csWire(), c13csWire()) }},
	}
}

var c13labels = []any{int64(1), int64(2), int64(3), int64(4), int64(5), int64(6), int64(7), int64(9), int64(11), int64(12), int64(15), int64(16), int64(32), int64(33), int64(34), int64(35),
	int64(258), int64(259), int64(260), int64(99), int64(-99), int64(70000), "x"}

// headerSet is one header set in both representations.
type headerSet struct {
	name       string
	goProt     map[any]any
	goUnprot   map[any]any
	wireProt   *Node // map node (nil = empty)
	wireUnprot *Node
}

func encVerdictBucket(rec *mon.Recorder, m map[any]any, protected bool, in map[string]any) (ok, ran bool) {
	var err error
	if guard(rec, "header.MarshalCBOR", in, func() {
		if protected {
			_, err = cose.ProtectedHeader(m).MarshalCBOR()
		} else {
			_, err = cose.UnprotectedHeader(m).MarshalCBOR()
		}
	}) {
		return false, false
	}
	return err == nil, true
}

func decVerdictBucket(rec *mon.Recorder, wire []byte, protected bool, in map[string]any) (ok, ran bool) {
	var err error
	if guard(rec, "header.UnmarshalCBOR", in, func() {
		if protected {
			var h cose.ProtectedHeader
			err = h.UnmarshalCBOR(wire)
		} else {
			var h cose.UnprotectedHeader
			err = h.UnmarshalCBOR(wire)
		}
	}) {
		return false, false
	}
	return err == nil, true
}

func wireBucket(m *Node, protected bool) []byte {
	if m == nil {
		m = refcbor.NMap()
	}
	if protected {
		if len(m.Kids) == 0 {
			return []byte{0x40}
		}
		return refcbor.Encode(refcbor.NBstr(refcbor.Encode(m)))
	}
	return refcbor.Encode(m)
}

// c13produced applies the reference-free half of the property to an encoder
// call: whatever the bucket encoder produces must obey the rules (judged on
// the produced bytes by the reference) and must be accepted by the decoder.
func c13produced(rec *mon.Recorder, cell string, goMap map[any]any, protected bool, in map[string]any) {
	var out []byte
	var err error
	if guard(rec, "header.MarshalCBOR", in, func() {
		if protected {
			out, err = cose.ProtectedHeader(goMap).MarshalCBOR()
		} else {
			out, err = cose.UnprotectedHeader(goMap).MarshalCBOR()
		}
	}) || err != nil {
		return
	}
	rec.Eval(1)
	rec.Event("produced-buckets")
	kind := refcose.KUnprotected
	if protected {
		kind = refcose.KProtected
	}
	inn := map[string]any{"cell": cell, "go": fmt.Sprintf("%#v", goMap), "produced": hexs(out)}
	if werr := refcose.WellFormed(kind, out); werr != nil && !strings.Contains(werr.Error(), "within int64") {
		// (an integer label beyond int64 is a valid RFC 9052 label; it is judged by decodability below)
		rec.Violate("produced-nonconforming", cell, "the encoder produced a header that violates the rules: "+werr.Error(), inn)
		return
	}
	if d, ran := decVerdictBucket(rec, out, protected, inn); ran && !d {
		key := cell
		if shrunk, n := c13shrinkBigUints(out, protected); n > 0 {
			if d2, ran2 := decVerdictBucket(rec, shrunk, protected, inn); ran2 && d2 {
				// input class of known finding F2: the only obstacle is a header *value* that is a CBOR uint
				// above 2^63-1, which the decoder's int64 conversion cannot represent
				key = "unsigned-header-value-above-2^63-1-encoded-but-not-decodable"
				rec.Event("F2-witness")
			}
		}
		rec.Violate("produced-not-decodable", key, "the encoder produced a header its own decoder refuses ("+cell+")", inn)
	}
}

// c13shrinkBigUints returns the bucket encoding with every unsigned integer above 2^63-1 in value
// position (anywhere but a label of the top-level map) replaced by 1, and how many were replaced.
func c13shrinkBigUints(out []byte, protected bool) ([]byte, int) {
	n, err := refcbor.Parse(out)
	if err != nil {
		return nil, 0
	}
	m := n
	if protected {
		if n.Major != refcbor.Bstr || len(n.Str) == 0 {
			return nil, 0
		}
		if m, err = refcbor.Parse(n.Str); err != nil {
			return nil, 0
		}
	}
	if m.Major != refcbor.Map {
		return nil, 0
	}
	count := 0
	var walk func(x *Node)
	walk = func(x *Node) {
		if x.Major == refcbor.Uint && x.Arg > 1<<63-1 {
			x.Arg, x.Width = 1, 0
			count++
		}
		for _, k := range x.Kids {
			walk(k)
		}
	}
	for i := 1; i < len(m.Kids); i += 2 {
		walk(m.Kids[i])
	}
	if count == 0 {
		return nil, 0
	}
	return wireBucket(m, protected), count
}

// judgeBucket compares the three verdicts for a single-bucket header set.
func c13judgeBucket(rec *mon.Recorder, cell string, goMap map[any]any, wireMap *Node, protected bool) {
	in := map[string]any{"cell": cell, "go": fmt.Sprintf("%#v", goMap), "wire": hexs(wireBucket(wireMap, protected))}
	var refGo, refWire error
	if protected {
		refGo = refcose.HeaderRulesGo(goMap, nil, true, false)
		refWire = refcose.WellFormed(refcose.KProtected, wireBucket(wireMap, true))
	} else {
		refGo = refcose.HeaderRulesGo(nil, goMap, false, true)
		refWire = refcose.WellFormed(refcose.KUnprotected, wireBucket(wireMap, false))
	}
	if (refGo == nil) != (refWire == nil) {
		rec.HarnessError(fmt.Sprintf("C13: reference rules disagree between Go and wire variants for %s: go=%v wire=%v", cell, refGo, refWire))
		return
	}
	want := refGo == nil
	c13produced(rec, cell, goMap, protected, in)
	e, ran1 := encVerdictBucket(rec, goMap, protected, in)
	d, ran2 := decVerdictBucket(rec, wireBucket(wireMap, protected), protected, in)
	if !ran1 || !ran2 {
		return
	}
	rec.Eval(2)
	rec.Class(cell)
	rec.Event("cells")
	if n := rec.Events("cells"); n%1500 == 7 {
		rec.Sample(fmt.Sprintf("cell-%d", n), map[string]any{"cell": cell, "go": fmt.Sprintf("%#v", goMap), "wire": hexs(wireBucket(wireMap, protected)), "encode_ok": e, "decode_ok": d, "rules_ok": want})
	}
	if want {
		rec.Event("cells:conforming")
	} else {
		rec.Event("cells:violating")
	}
	why := ""
	if refGo != nil {
		why = refGo.Error()
	}
	if e != want {
		rec.Violate("encode-deviates", cell, fmt.Sprintf("encoder verdict %v, RFC 9052 section 3.1 rules say %v (%s)", e, want, why), in)
	}
	if d != want {
		rec.Violate("decode-deviates", cell, fmt.Sprintf("decoder verdict %v, RFC 9052 section 3.1 rules say %v (%s)", d, want, why), in)
	}
	if e != d && e == want {
		rec.Violate("asymmetric", cell, fmt.Sprintf("encode verdict %v but decode verdict %v for the same header set", e, d), in)
	}
}

// c13judgeLayer compares verdicts for a two-bucket layer through every
// message type (and, as reference, the layer rules).
func c13judgeLayer(rec *mon.Recorder, cell string, hs headerSet) {
	refGo := refcose.HeaderRulesGo(hs.goProt, hs.goUnprot, true, true)
	pb := wireBucket(hs.wireProt, true)
	pn, _ := refcbor.Parse(pb)
	un := hs.wireUnprot
	if un == nil {
		un = refcbor.NMap()
	}
	sig1 := refcbor.NTag(18, refcbor.NArr(pn, un, refcbor.NBstr([]byte("p")), refcbor.NBstr([]byte{1})))
	refWire := refcose.WellFormed(refcose.KSign1Tagged, refcbor.Encode(sig1))
	if (refGo == nil) != (refWire == nil) {
		rec.HarnessError(fmt.Sprintf("C13: reference rules disagree between Go and wire variants for layer %s: go=%v wire=%v", cell, refGo, refWire))
		return
	}
	want := refGo == nil
	why := ""
	if refGo != nil {
		why = refGo.Error()
	}
	hdr := func() cose.Headers { return cose.Headers{Protected: hs.goProt, Unprotected: hs.goUnprot} }
	okBody := cose.Headers{Protected: cose.ProtectedHeader{}, Unprotected: cose.UnprotectedHeader{}}
	sigOK := []byte{1}
	type codec struct {
		name string
		enc  func() error
		dec  func() error
	}
	g := refcbor.NArr(pn, un, refcbor.NBstr(sigOK))
	codecs := []codec{
		{"Sign1Message",
			func() error {
				_, err := (&cose.Sign1Message{Headers: hdr(), Payload: []byte("p"), Signature: sigOK}).MarshalCBOR()
				return err
			},
			func() error { var m cose.Sign1Message; return m.UnmarshalCBOR(refcbor.Encode(sig1)) }},
		{"UntaggedSign1Message",
			func() error {
				_, err := (&cose.UntaggedSign1Message{Headers: hdr(), Payload: []byte("p"), Signature: sigOK}).MarshalCBOR()
				return err
			},
			func() error { var m cose.UntaggedSign1Message; return m.UnmarshalCBOR(refcbor.Encode(sig1.Kids[0])) }},
		{"Signature",
			func() error { _, err := (&cose.Signature{Headers: hdr(), Signature: sigOK}).MarshalCBOR(); return err },
			func() error { var m cose.Signature; return m.UnmarshalCBOR(refcbor.Encode(g)) }},
		{"Countersignature",
			func() error {
				_, err := (&cose.Countersignature{Headers: hdr(), Signature: sigOK}).MarshalCBOR()
				return err
			},
			func() error { var m cose.Countersignature; return m.UnmarshalCBOR(refcbor.Encode(g)) }},
		{"SignMessage(body)",
			func() error {
				_, err := (&cose.SignMessage{Headers: hdr(), Payload: []byte("p"), Signatures: []*cose.Signature{{Headers: okBody, Signature: sigOK}}}).MarshalCBOR()
				return err
			},
			func() error {
				var m cose.SignMessage
				okSig := refcbor.NArr(refcbor.NBstr([]byte{}), refcbor.NMap(), refcbor.NBstr(sigOK))
				return m.UnmarshalCBOR(refcbor.Encode(refcbor.NTag(98, refcbor.NArr(pn, un, refcbor.NBstr([]byte("p")), refcbor.NArr(okSig)))))
			}},
		{"SignMessage(signature layer)",
			func() error {
				_, err := (&cose.SignMessage{Headers: okBody, Payload: []byte("p"), Signatures: []*cose.Signature{{Headers: okBody, Signature: sigOK}, {Headers: hdr(), Signature: sigOK}}}).MarshalCBOR()
				return err
			},
			func() error {
				var m cose.SignMessage
				okSig := refcbor.NArr(refcbor.NBstr([]byte{}), refcbor.NMap(), refcbor.NBstr(sigOK))
				return m.UnmarshalCBOR(refcbor.Encode(refcbor.NTag(98, refcbor.NArr(refcbor.NBstr([]byte{}), refcbor.NMap(), refcbor.NBstr([]byte("p")), refcbor.NArr(okSig, g)))))
			}},
		{"nested countersignature in an unprotected header",
			func() error {
				cs := &cose.Countersignature{Headers: hdr(), Signature: sigOK}
				_, err := (&cose.Sign1Message{Headers: cose.Headers{Unprotected: cose.UnprotectedHeader{int64(11): cs}}, Payload: []byte("p"), Signature: sigOK}).MarshalCBOR()
				return err
			},
			func() error {
				var m cose.Sign1Message
				return m.UnmarshalCBOR(refcbor.Encode(refcbor.NTag(18, refcbor.NArr(refcbor.NBstr([]byte{}), refcbor.NMap(refcbor.NInt(11), g), refcbor.NBstr([]byte("p")), refcbor.NBstr(sigOK)))))
			}},
	}
	// the same layer with one bucket's raw bytes retained (as after decoding a message and editing the
	// other bucket): only when that bucket is valid on its own, so raw and parsed agree
	protOK := refcose.HeaderRulesGo(hs.goProt, nil, true, false) == nil
	unprotOK := refcose.HeaderRulesGo(nil, hs.goUnprot, false, true) == nil
	if protOK && len(hs.goProt) > 0 {
		codecs = append(codecs, codec{"Sign1Message(raw protected retained)",
			func() error {
				h := hdr()
				h.RawProtected = pb
				_, err := (&cose.Sign1Message{Headers: h, Payload: []byte("p"), Signature: sigOK}).MarshalCBOR()
				return err
			},
			func() error { var m cose.Sign1Message; return m.UnmarshalCBOR(refcbor.Encode(sig1)) }})
	}
	if unprotOK && len(hs.goUnprot) > 0 {
		codecs = append(codecs, codec{"Signature(raw unprotected retained)",
			func() error {
				h := hdr()
				h.RawUnprotected = refcbor.Encode(un)
				_, err := (&cose.Signature{Headers: h, Signature: sigOK}).MarshalCBOR()
				return err
			},
			func() error { var m cose.Signature; return m.UnmarshalCBOR(refcbor.Encode(g)) }})
	}
	for _, cd := range codecs {
		in := map[string]any{"cell": cell, "codec": cd.name, "go_protected": fmt.Sprintf("%#v", hs.goProt), "go_unprotected": fmt.Sprintf("%#v", hs.goUnprot), "wire_layer": hexs(refcbor.Encode(sig1))}
		var eErr, dErr error
		if guard(rec, cd.name+".MarshalCBOR", in, func() { eErr = cd.enc() }) || guard(rec, cd.name+".UnmarshalCBOR", in, func() { dErr = cd.dec() }) {
			continue
		}
		rec.Eval(2)
		rec.Event("layer-cells")
		rec.Class(cell + "/" + cd.name)
		e, d := eErr == nil, dErr == nil
		if e != want {
			rec.Violate("encode-deviates", cell+"/"+cd.name, fmt.Sprintf("%s encoder verdict %v (%v), rules say %v (%s)", cd.name, e, eErr, want, why), in)
		}
		if d != want {
			rec.Violate("decode-deviates", cell+"/"+cd.name, fmt.Sprintf("%s decoder verdict %v (%v), rules say %v (%s)", cd.name, d, dErr, want, why), in)
		}
	}
}

func runC13(c *Ctx) {
	rec := c.Rec
	r := mon.NewRand(uint64(c.Seed)).Sub(131000)
	values := c13values()
	wireLabel := func(l any) *Node {
		if s, ok := l.(string); ok {
			return refcbor.NTstr(s)
		}
		return refcbor.NInt(l.(int64))
	}
	spell := func(l any, t int) (any, bool) {
		il, ok := l.(int64)
		if !ok {
			return l, t == 0
		}
		if !gen.Fits(il, t) {
			return nil, false
		}
		return gen.SpellIntAs(il, t), true
	}
	// ---- single-parameter grid, bucket codecs ----
	for _, l := range c13labels {
		for _, v := range values {
			for _, protected := range []bool{true, false} {
				for t := 0; t < gen.IntSpellings; t++ {
					gl, ok := spell(l, t)
					if !ok {
						continue
					}
					goMap := map[any]any{gl: v.goV(r)}
					wm := refcbor.NMap(wireLabel(l), v.wire(r))
					cell := fmt.Sprintf("label=%v/value=%s/protected=%v/spelling=%s", l, v.name, protected, gen.SpellNames[t])
					// crit needs a companion so that "array of labels" can be valid
					if il, isInt := l.(int64); isInt && il == 2 && v.name == "array-of-labels" {
						goMap[int64(4)] = []byte("kid")
						wm.Kids = append(wm.Kids, refcbor.NInt(4), refcbor.NBstr([]byte("kid")))
					}
					c13judgeBucket(rec, cell, goMap, wm, protected)
					if t == 0 {
						// the same set through every message type (other bucket empty)
						hs := headerSet{goProt: map[any]any{}, goUnprot: map[any]any{}}
						if protected {
							hs.goProt, hs.wireProt = goMap, wm
						} else {
							hs.goUnprot, hs.wireUnprot = goMap, wm
						}
						c13judgeLayer(rec, cell, hs)
					}
				}
			}
		}
	}
	// ---- integer VALUES under every Go spelling: the verdict depends on the number, not on its Go type ----
	for _, l := range c13labels {
		for _, iv := range []int64{0, 1, 42, 127, 255, 65535, -1, -7, -128} {
			for t := 0; t < gen.IntSpellings; t++ {
				if !gen.Fits(iv, t) {
					continue
				}
				for _, protected := range []bool{true, false} {
					goMap := map[any]any{l: gen.SpellIntAs(iv, t)}
					wm := refcbor.NMap(wireLabel(l), refcbor.NInt(iv))
					if il, isInt := l.(int64); isInt && il == 2 {
						continue // crit takes an array
					}
					c13judgeBucket(rec, fmt.Sprintf("int-value/label=%v/value=%d/valueSpelling=%s/protected=%v", l, iv, gen.SpellNames[t], protected), goMap, wm, protected)
				}
			}
		}
	}
	// ---- IV / Partial IV pairs ----
	for _, place := range []struct{ ivProt, pivProt bool }{{true, true}, {true, false}, {false, true}, {false, false}} {
		for t1 := 0; t1 < gen.IntSpellings; t1++ {
			for t2 := 0; t2 < gen.IntSpellings; t2++ {
				hs := headerSet{goProt: map[any]any{}, goUnprot: map[any]any{}, wireProt: refcbor.NMap(), wireUnprot: refcbor.NMap()}
				put := func(prot bool, l int64, t int) {
					gm, wm := hs.goUnprot, hs.wireUnprot
					if prot {
						gm, wm = hs.goProt, hs.wireProt
					}
					gm[gen.SpellIntAs(l, t)] = []byte{byte(l)}
					wm.Kids = append(wm.Kids, refcbor.NInt(l), refcbor.NBstr([]byte{byte(l)}))
				}
				put(place.ivProt, 5, t1)
				put(place.pivProt, 6, t2)
				cell := fmt.Sprintf("iv-pair/ivProtected=%v/pivProtected=%v/spellings=%s,%s", place.ivProt, place.pivProt, gen.SpellNames[t1], gen.SpellNames[t2])
				c13judgeLayer(rec, cell, hs)
				if place.ivProt == place.pivProt {
					if place.ivProt {
						c13judgeBucket(rec, cell+"/bucket", hs.goProt, hs.wireProt, true)
					} else {
						c13judgeBucket(rec, cell+"/bucket", hs.goUnprot, hs.wireUnprot, false)
					}
				}
			}
		}
	}
	// ---- crit combinations ----
	type critCase struct {
		name    string
		crit    func(t int) []any
		wire    []*Node
		present map[int64]bool // labels placed in protected
		unprot  map[int64]bool // labels placed in unprotected
	}
	critCases := []critCase{
		{"names-present", func(t int) []any { return []any{gen.SpellIntAs(4, t)} }, []*Node{refcbor.NInt(4)}, map[int64]bool{4: true}, nil},
		{"names-absent", func(t int) []any { return []any{gen.SpellIntAs(99, t)} }, []*Node{refcbor.NInt(99)}, map[int64]bool{4: true}, nil},
		{"names-absent-260-wraps-to-4-in-8-bits", func(t int) []any { return []any{gen.SpellIntAs(260, t)} }, []*Node{refcbor.NInt(260)}, map[int64]bool{4: true}, nil},
		{"names-absent-65540-wraps-to-4-in-16-bits", func(t int) []any { return []any{gen.SpellIntAs(65540, t)} }, []*Node{refcbor.NInt(65540)}, map[int64]bool{4: true}, nil},
		{"names-absent-2^32+4", func(t int) []any { return []any{gen.SpellIntAs(1<<32+4, t)} }, []*Node{refcbor.NInt(1<<32 + 4)}, map[int64]bool{4: true}, nil},
		{"names-absent-minus-252", func(t int) []any { return []any{gen.SpellIntAs(-252, t)} }, []*Node{refcbor.NInt(-252)}, map[int64]bool{4: true}, nil},
		{"names-absent-4294901759-wraps-to-minus-65537-in-32-bits", func(t int) []any { return []any{gen.SpellIntAs(4294901759, t)} }, []*Node{refcbor.NInt(4294901759)}, map[int64]bool{-65537: true}, nil},
		{"names-absent-65529-wraps-to-minus-7-in-16-bits", func(t int) []any { return []any{gen.SpellIntAs(65529, t)} }, []*Node{refcbor.NInt(65529)}, map[int64]bool{-7: true}, nil},
		{"names-absent-249-wraps-to-minus-7-in-8-bits", func(t int) []any { return []any{gen.SpellIntAs(249, t)} }, []*Node{refcbor.NInt(249)}, map[int64]bool{-7: true}, nil},
		{"names-absent-minus-65537-while-4294901759-present", func(t int) []any { return []any{gen.SpellIntAs(-65537, t)} }, []*Node{refcbor.NInt(-65537)}, map[int64]bool{4294901759: true}, nil},
		{"names-absent-minus-7-while-249-present", func(t int) []any { return []any{gen.SpellIntAs(-7, t)} }, []*Node{refcbor.NInt(-7)}, map[int64]bool{249: true}, nil},
		{"names-absent-2^31-while-minus-2^31-present", func(t int) []any { return []any{gen.SpellIntAs(1<<31, t)} }, []*Node{refcbor.NInt(1 << 31)}, map[int64]bool{-(1 << 31): true}, nil},
		{"names-absent-4-while-260-present", func(t int) []any { return []any{gen.SpellIntAs(4, t)} }, []*Node{refcbor.NInt(4)}, map[int64]bool{260: true}, nil},
		{"names-unprotected-only", func(t int) []any { return []any{gen.SpellIntAs(4, t)} }, []*Node{refcbor.NInt(4)}, nil, map[int64]bool{4: true}},
		{"names-present-and-repeated-in-unprotected", func(t int) []any { return []any{gen.SpellIntAs(4, t)} }, []*Node{refcbor.NInt(4)}, map[int64]bool{4: true}, map[int64]bool{4: true}},
		{"names-absent-0-while-text-label-present", func(t int) []any { return []any{gen.SpellIntAs(0, t)} }, []*Node{refcbor.NInt(0)}, nil, nil},
		{"names-present-0", func(t int) []any { return []any{gen.SpellIntAs(0, t)} }, []*Node{refcbor.NInt(0)}, map[int64]bool{0: true}, nil},
		{"names-two-present", func(t int) []any { return []any{gen.SpellIntAs(4, t), gen.SpellIntAs(33, (t+3)%10)} }, []*Node{refcbor.NInt(4), refcbor.NInt(33)}, map[int64]bool{4: true, 33: true}, nil},
		{"names-one-present-one-absent", func(t int) []any { return []any{gen.SpellIntAs(4, t), gen.SpellIntAs(34, t)} }, []*Node{refcbor.NInt(4), refcbor.NInt(34)}, map[int64]bool{4: true}, nil},
		{"names-itself", func(t int) []any { return []any{gen.SpellIntAs(2, t)} }, []*Node{refcbor.NInt(2)}, nil, nil},
		{"non-label-entry", func(t int) []any { return []any{[]byte{4}} }, []*Node{refcbor.NBstr([]byte{4})}, map[int64]bool{4: true}, nil},
		{"float-entry", func(t int) []any { return []any{4.0} }, []*Node{refcbor.NFloat64(4)}, map[int64]bool{4: true}, nil},
		{"text-entry-present", func(t int) []any { return []any{"x"} }, []*Node{refcbor.NTstr("x")}, nil, nil},
		{"text-entry-absent", func(t int) []any { return []any{"y"} }, []*Node{refcbor.NTstr("y")}, nil, nil},
		// integer label 0 and the empty text label are two labels
		{"names-absent-0-while-empty-text-label-present", func(t int) []any { return []any{gen.SpellIntAs(0, t)} }, []*Node{refcbor.NInt(0)}, nil, nil},
		{"names-absent-empty-text-while-0-present", func(t int) []any { return []any{""} }, []*Node{refcbor.NTstr("")}, map[int64]bool{0: true}, nil},
		{"empty-text-entry-present", func(t int) []any { return []any{""} }, []*Node{refcbor.NTstr("")}, nil, nil},
		{"names-0-and-empty-text-both-present", func(t int) []any { return []any{gen.SpellIntAs(0, t), ""} }, []*Node{refcbor.NInt(0), refcbor.NTstr("")}, map[int64]bool{0: true}, nil},
		{"names-absent-digit-text-while-int-present", func(t int) []any { return []any{"4"} }, []*Node{refcbor.NTstr("4")}, map[int64]bool{4: true}, nil},
	}
	for _, cc := range critCases {
		for tCrit := 0; tCrit < gen.IntSpellings; tCrit++ {
			for tLab := 0; tLab < gen.IntSpellings; tLab++ {
				for tKid := 0; tKid < gen.IntSpellings; tKid++ {
					hs := headerSet{goProt: map[any]any{}, goUnprot: map[any]any{}, wireProt: refcbor.NMap(), wireUnprot: refcbor.NMap()}
					hs.goProt[gen.SpellIntAs(2, tLab)] = cc.crit(tCrit)
					hs.wireProt.Kids = append(hs.wireProt.Kids, refcbor.NInt(2), refcbor.NArr(cc.wire...))
					for l := range cc.present {
						hs.goProt[gen.SpellIntAs(l, tKid)] = []byte("v")
						hs.wireProt.Kids = append(hs.wireProt.Kids, refcbor.NInt(l), refcbor.NBstr([]byte("v")))
					}
					for l := range cc.unprot {
						hs.goUnprot[gen.SpellIntAs(l, tKid)] = []byte("v")
						hs.wireUnprot.Kids = append(hs.wireUnprot.Kids, refcbor.NInt(l), refcbor.NBstr([]byte("v")))
					}
					if cc.name == "text-entry-present" || cc.name == "names-absent-0-while-text-label-present" {
						hs.goProt["x"] = int64(1)
						hs.wireProt.Kids = append(hs.wireProt.Kids, refcbor.NTstr("x"), refcbor.NInt(1))
					}
					if cc.name == "names-absent-0-while-empty-text-label-present" || cc.name == "empty-text-entry-present" || cc.name == "names-0-and-empty-text-both-present" {
						hs.goProt[""] = int64(1)
						hs.wireProt.Kids = append(hs.wireProt.Kids, refcbor.NTstr(""), refcbor.NInt(1))
					}
					// keep the wire map in a deterministic order
					cw, _ := refcbor.Parse(refcbor.Canon(hs.wireProt))
					hs.wireProt = cw
					cell := fmt.Sprintf("crit/%s/critSpelling=%s/labelSpelling=%s/otherSpelling=%s", cc.name, gen.SpellNames[tCrit], gen.SpellNames[tLab], gen.SpellNames[tKid])
					c13judgeBucket(rec, cell, hs.goProt, hs.wireProt, true)
					if tLab == 0 {
						c13judgeLayer(rec, cell, hs)
					}
				}
			}
		}
	}
	// ---- rule-bearing parameters two and three at a time in one bucket (a rule must hold whatever else is there) ----
	{
		type part struct {
			name string
			gm   map[any]any
			wm   []*Node
		}
		b1 := refcbor.NBstr([]byte{1})
		parts := []part{
			{"crit-valid", map[any]any{int64(2): []any{int64(4)}, int64(4): []byte{1}}, []*Node{refcbor.NInt(2), refcbor.NArr(refcbor.NInt(4)), refcbor.NInt(4), b1}},
			{"crit-absent-label", map[any]any{int64(2): []any{int64(99)}}, []*Node{refcbor.NInt(2), refcbor.NArr(refcbor.NInt(99))}},
			{"iv", map[any]any{int64(5): []byte{1}}, []*Node{refcbor.NInt(5), b1}},
			{"partial-iv", map[any]any{int64(6): []byte{1}}, []*Node{refcbor.NInt(6), b1}},
			{"content-type-ok", map[any]any{int64(3): "a/b"}, []*Node{refcbor.NInt(3), refcbor.NTstr("a/b")}},
			{"content-type-bad", map[any]any{int64(3): "ab"}, []*Node{refcbor.NInt(3), refcbor.NTstr("ab")}},
			{"typ-uint", map[any]any{int64(16): int64(7)}, []*Node{refcbor.NInt(16), refcbor.NInt(7)}},
			{"typ-bad", map[any]any{int64(16): []byte{1}}, []*Node{refcbor.NInt(16), b1}},
			{"alg-int", map[any]any{int64(1): int64(-7)}, []*Node{refcbor.NInt(1), refcbor.NInt(-7)}},
			{"alg-bstr", map[any]any{int64(1): []byte{1}}, []*Node{refcbor.NInt(1), b1}},
			{"kid-int", map[any]any{int64(4): int64(1)}, []*Node{refcbor.NInt(4), refcbor.NInt(1)}},
			{"countersignature0-int", map[any]any{int64(9): int64(1)}, []*Node{refcbor.NInt(9), refcbor.NInt(1)}},
			{"unknown", map[any]any{int64(99): "x"}, []*Node{refcbor.NInt(99), refcbor.NTstr("x")}},
			{"text-label", map[any]any{"t": int64(1)}, []*Node{refcbor.NTstr("t"), refcbor.NInt(1)}},
		}
		combine := func(idx ...int) {
			gm := map[any]any{}
			var kids []*Node
			name := ""
			seen := map[string]bool{}
			for _, i := range idx {
				for k, v := range parts[i].gm {
					if _, dup := gm[k]; dup {
						return // two parts set the same label: not a combination of distinct parameters
					}
					gm[k] = v
				}
				for j := 0; j+1 < len(parts[i].wm); j += 2 {
					ck := string(refcbor.Canon(parts[i].wm[j]))
					if seen[ck] {
						return
					}
					seen[ck] = true
					kids = append(kids, refcbor.Clone(parts[i].wm[j]), refcbor.Clone(parts[i].wm[j+1]))
				}
				name += parts[i].name + "+"
			}
			wm, _ := refcbor.Parse(refcbor.Canon(refcbor.NMap(kids...)))
			for _, protected := range []bool{true, false} {
				c13judgeBucket(rec, fmt.Sprintf("combination/%sprotected=%v", name, protected), gm, wm, protected)
			}
		}
		for a := 0; a < len(parts); a++ {
			for b := a + 1; b < len(parts); b++ {
				combine(a, b)
				for cc := b + 1; cc < len(parts); cc++ {
					combine(a, b, cc)
				}
			}
		}
	}
	// ---- duplicate labels under different spellings ----
	for _, l := range []int64{1, 4, 33, 99, 200} {
		for t1 := 0; t1 < gen.IntSpellings; t1++ {
			for t2 := t1 + 1; t2 < gen.IntSpellings; t2++ {
				if !gen.Fits(l, t1) || !gen.Fits(l, t2) {
					continue
				}
				for _, protected := range []bool{true, false} {
					var v1, v2 any = []byte{1}, []byte{2}
					if l == 1 {
						v1, v2 = int64(-7), int64(-7)
					}
					goMap := map[any]any{gen.SpellIntAs(l, t1): v1, gen.SpellIntAs(l, t2): v2}
					k2 := refcbor.NInt(l)
					k2.Width = 9
					n1, _ := refcose.GoToNode(v1, nil)
					n2, _ := refcose.GoToNode(v2, nil)
					wm := refcbor.NMap(refcbor.NInt(l), n1, k2, n2)
					c13judgeBucket(rec, fmt.Sprintf("duplicate/label=%d/%s+%s/protected=%v", l, gen.SpellNames[t1], gen.SpellNames[t2], protected), goMap, wm, protected)
				}
			}
		}
	}
	// ---- Go-specific values and labels that have no counterpart in the CBOR data model of section 3 ----
	// (no reference verdict on whether they must be accepted: only "produced => conforming and decodable")
	exotic := map[string]any{
		"nil-byte-slice":           []byte(nil),
		"RawMessage-int":           cbor.RawMessage{0x18, 0x2a},
		"RawMessage-bstr":          cbor.RawMessage{0x41, 0x01},
		"RawMessage-null":          cbor.RawMessage{0xf6},
		"RawMessage-array":         cbor.RawMessage{0x81, 0x04},
		"Tag-2-bstr":               cbor.Tag{Number: 2, Content: []byte{1}},
		"Tag-unknown":              cbor.Tag{Number: 999, Content: int64(1)},
		"typed-slice-int64":        []int64{4},
		"typed-slice-string":       []string{"a"},
		"typed-slice-int64-empty":  []int64{},
		"typed-slice-int-nil":      []int(nil),
		"typed-slice-string-empty": []string{},
		"typed-slice-any-nil":      []any(nil),
		"typed-map":                map[string]any{"a": int64(1)},
		"byte-array":               [3]byte{1, 2, 3},
		"ByteString":               cbor.ByteString("ab"),
		"pointer-to-bytes":         &[]byte{1},
		"nil-countersig":           (*cose.Countersignature)(nil),
		"empty-countersig-list":    []*cose.Countersignature{},
		"list-with-nil-countersig": []*cose.Countersignature{nil},
		"float32":                  float32(1.5),
		"named-string":             namedString("a/b"),
		"named-bytes":              namedBytes{1, 2},
		"uint64-2^63":              uint64(1) << 63,
		"uint64-max-in-array":      []any{^uint64(0)},
	}
	names := make([]string, 0, len(exotic))
	for n := range exotic {
		names = append(names, n)
	}
	sortStrings(names)
	for _, l := range c13labels {
		for _, n := range names {
			for _, protected := range []bool{true, false} {
				for _, t := range []int{0, 1, 9} {
					gl, ok := spell(l, t)
					if !ok {
						continue
					}
					goMap := map[any]any{gl: exotic[n]}
					if il, isInt := l.(int64); isInt && il == 2 {
						goMap[int64(4)] = []byte("kid")
					}
					cell := fmt.Sprintf("go-specific/label=%v/value=%s/protected=%v/spelling=%s", l, n, protected, gen.SpellNames[t])
					rec.Class(cell)
					c13produced(rec, cell, goMap, protected, map[string]any{"cell": cell})
				}
			}
		}
	}
	// labels of unsigned type above MaxInt64, alone and next to their wrapped counterpart
	for _, big := range []uint64{1 << 63, 1<<63 + 1, 1<<63 + 4, ^uint64(0)} {
		for _, protected := range []bool{true, false} {
			for _, withTwin := range []bool{false, true} {
				goMap := map[any]any{big: int64(1)}
				if withTwin {
					goMap[int64(big)] = int64(2)
				}
				if uint64(uint(big)) == big {
					goMap2 := map[any]any{uint(big): int64(1)}
					c13produced(rec, fmt.Sprintf("go-specific/label=uint(%d)/protected=%v", big, protected), goMap2, protected, map[string]any{})
				}
				cell := fmt.Sprintf("go-specific/label=uint64(%d)/twin=%v/protected=%v", big, withTwin, protected)
				rec.Class(cell)
				c13produced(rec, cell, goMap, protected, map[string]any{"cell": cell})
			}
		}
	}
	// ---- content type / typ texts whose status the property leaves open: only symmetry is judged ----
	for si, str := range []string{"a/b/c", "/", "a/", "/b", " ", "a /b", "a/ b", "a/b;x=1", "text/plain; charset=utf-8", "a/b; q=\"c/d\"", "\ta/b", "a/b\n", "\u00a0a/b", "a/b\u2003",
		"a\x00/b", "A/B", "a//b", "a/" + strings.Repeat("b", 70000), "\u00e9/\u00e8", "a\\b", "application/cose; cose-type=\"cose-sign1\""} {
		for _, l := range []int64{3, 16, 99} {
			for _, protected := range []bool{true, false} {
				cell := fmt.Sprintf("open-text/%d/label=%d/protected=%v", si, l, protected)
				short := str
				if len(short) > 40 {
					short = short[:40] + "..."
				}
				in := map[string]any{"cell": cell, "text": short}
				encOK, ran1 := encVerdictBucket(rec, map[any]any{l: str}, protected, in)
				decOK, ran2 := decVerdictBucket(rec, wireBucket(refcbor.NMap(refcbor.NInt(l), refcbor.NTstr(str)), protected), protected, in)
				if !ran1 || !ran2 {
					continue
				}
				rec.Eval(1)
				rec.Class(fmt.Sprintf("%s/enc=%v", cell, encOK))
				rec.Event("open-text-symmetry")
				if encOK != decOK {
					rec.Violate("asymmetric", cell, fmt.Sprintf("text %q under label %d: encoder verdict %v, decoder verdict %v", short, l, encOK, decOK), in)
				}
				if l == 99 && !encOK {
					rec.Violate("asymmetric", cell+"/unregistered", "a text value under an unregistered label was refused", in)
				}
				if l == 16 && protected {
					h := cose.ProtectedHeader{}
					if _, err := h.SetType(str); err != nil {
						rec.Violate("setter", "SetType-refuses-text", "SetType refused a text string (its documented rule is tstr / uint): "+err.Error(), in)
					}
				}
			}
		}
	}
	// ---- the setter helpers of the protected header agree with the encoder's rule for the same label ----
	{
		type sv struct {
			name string
			v    any
		}
		var svs []sv
		for _, v := range values {
			svs = append(svs, sv{v.name, v.goV(r)})
		}
		for _, n := range names {
			svs = append(svs, sv{"go-specific-" + n, exotic[n]})
		}
		for t := 0; t < gen.IntSpellings; t++ {
			for _, iv := range []int64{0, 5, 127, -1, -128} {
				if gen.Fits(iv, t) {
					svs = append(svs, sv{fmt.Sprintf("int%d-as-%s", iv, gen.SpellNames[t]), gen.SpellIntAs(iv, t)})
				}
			}
		}
		svs = append(svs, sv{"uint64-max", ^uint64(0)}, sv{"tstr-space-only", " "})
		for _, x := range svs {
			for _, pre := range []bool{false, true} {
				cell := fmt.Sprintf("setter/SetType/value=%s/preset=%v", x.name, pre)
				in := map[string]any{"cell": cell}
				h := cose.ProtectedHeader{}
				if pre {
					h[int64(16)] = "old/value"
					h[int64(1)] = cose.AlgorithmES256
				}
				before := mon.DeepHashValue(h)
				var ret any
				var err error
				if guard(rec, "SetType", in, func() { ret, err = h.SetType(x.v) }) {
					continue
				}
				rec.Eval(1)
				rec.Class(cell)
				rec.Event("setter:SetType")
				encOK, ran := encVerdictBucket(rec, map[any]any{int64(16): x.v}, true, in)
				if !ran {
					continue
				}
				if err != nil {
					if mon.DeepHashValue(h) != before {
						rec.Violate("setter", "refused-but-modified", "SetType returned an error and changed the header map", in)
					}
					if encOK {
						rec.Violate("setter", "stricter-than-encoder", fmt.Sprintf("SetType refused (%v) a value the protected-header encoder accepts under label 16", err), in)
					}
					continue
				}
				got, present := h[int64(16)]
				if !present || mon.DeepHashValue(got) != mon.DeepHashValue(x.v) || mon.DeepHashValue(ret) != mon.DeepHashValue(x.v) || len(h) != map[bool]int{false: 1, true: 2}[pre] {
					rec.Violate("setter", "wrong-placement", "SetType succeeded but the map does not hold exactly the given value under label 16", in)
				}
				// whatever the setter let in, the encoder decides by the generic rule
				c13judgeGoOnly(rec, cell, h, in)
			}
		}
		for _, a := range []cose.Algorithm{cose.AlgorithmES256, cose.AlgorithmEdDSA, cose.AlgorithmPS512, cose.AlgorithmReserved, cose.Algorithm(-65535), cose.Algorithm(1 << 40), cose.Algorithm(-1 << 40)} {
			cell := fmt.Sprintf("setter/SetAlgorithm/%d", int64(a))
			h := cose.ProtectedHeader{int64(4): []byte("kid")}
			in := map[string]any{"cell": cell}
			var got cose.Algorithm
			var err error
			if guard(rec, "SetAlgorithm", in, func() { h.SetAlgorithm(a); got, err = h.Algorithm() }) {
				continue
			}
			rec.Eval(1)
			rec.Class(cell)
			rec.Event("setter:SetAlgorithm")
			if err != nil || got != a || len(h) != 2 || h[int64(1)] != a {
				rec.Violate("setter", "SetAlgorithm", fmt.Sprintf("after SetAlgorithm(%d) the header reports %d (err=%v), map size %d", int64(a), int64(got), err, len(h)), in)
			}
			c13judgeGoOnly(rec, cell, h, in)
		}
		// (SetCWTClaims' own iss/sub type rule is not among the rules the property lists: only its
		//  all-or-nothing effect on the header map is judged)
		for _, x := range svs {
			for _, claim := range []any{int64(1), int64(2), int64(3), int(1), int(2), "iss"} {
				cell := fmt.Sprintf("setter/SetCWTClaims/claim=%T(%v)/value=%s", claim, claim, x.name)
				in := map[string]any{"cell": cell}
				h := cose.ProtectedHeader{int64(1): cose.AlgorithmES256}
				before := mon.DeepHashValue(h)
				claims := cose.CWTClaims{claim: x.v}
				var err error
				if guard(rec, "SetCWTClaims", in, func() { _, err = h.SetCWTClaims(claims) }) {
					continue
				}
				rec.Eval(1)
				rec.Class(cell)
				rec.Event("setter:SetCWTClaims")
				if err != nil {
					rec.Event("setter:SetCWTClaims:refused")
					if mon.DeepHashValue(h) != before {
						rec.Violate("setter", "refused-but-modified", "SetCWTClaims returned an error and changed the header map", in)
					}
					continue
				}
				if mon.DeepHashValue(h[int64(15)]) != mon.DeepHashValue(claims) || len(h) != 2 {
					rec.Violate("setter", "wrong-placement", "SetCWTClaims succeeded but label 15 does not hold exactly the given claims", in)
				}
			}
		}
	}
	rec.Exhaustive = !c.Thorough
	// ---- random multi-parameter sets ----
	nRand := c.N(4000, 300000)
	mon.Parallel(c.Workers, nRand, func(w, i int) {
		rr := mon.NewRand(uint64(c.Seed)).Sub(uint64(132000 + i))
		hs := headerSet{goProt: map[any]any{}, goUnprot: map[any]any{}, wireProt: refcbor.NMap(), wireUnprot: refcbor.NMap()}
		used := map[string]bool{}
		n := 1 + rr.Intn(5)
		for j := 0; j < n; j++ {
			l := c13labels[rr.Intn(len(c13labels))]
			v := values[rr.Intn(len(values))]
			prot := rr.Bool()
			key := fmt.Sprintf("%v/%v", l, prot)
			if used[key] {
				continue
			}
			used[key] = true
			gl := l
			if il, ok := l.(int64); ok {
				gl = gen.SpellInt(rr, il)
			}
			gm, wm := hs.goUnprot, hs.wireUnprot
			if prot {
				gm, wm = hs.goProt, hs.wireProt
			}
			gm[gl] = v.goV(rr)
			wm.Kids = append(wm.Kids, wireLabel(l), v.wire(rr))
		}
		c13judgeLayer(rec, fmt.Sprintf("random/%d", i%50), hs)
	})
	// ---- the IV rule is a rule per layer: IV in one layer and Partial IV in ANOTHER layer of the same message
	// (body and a signer, two signers, a message and a countersignature in its header) is conforming in both
	// directions ----
	{
		iv, piv := []byte("iv-value"), []byte("piv")
		for first := 0; first < 2; first++ { // which of the two the first layer holds
			for b1 := 0; b1 < 2; b1++ { // bucket in the first layer
				for b2 := 0; b2 < 2; b2++ { // bucket in the second layer
					la, lb := int64(5), int64(6)
					va, vb := iv, piv
					if first == 1 {
						la, lb, va, vb = 6, 5, piv, iv
					}
					mkH := func(label int64, v []byte, bucket int, alg bool) cose.Headers {
						h := cose.Headers{Protected: cose.ProtectedHeader{}, Unprotected: cose.UnprotectedHeader{}}
						if alg {
							h.Protected[int64(1)] = cose.AlgorithmES256
						}
						if label != 0 {
							if bucket == 0 {
								h.Protected[label] = v
							} else {
								h.Unprotected[label] = v
							}
						}
						return h
					}
					type built struct {
						name string
						enc  func() ([]byte, error)
						dec  func(b []byte) error
					}
					sig := []byte{1, 2, 3}
					cases := []built{
						{"body+second-signer", func() ([]byte, error) {
							m := &cose.SignMessage{Headers: mkH(la, va, b1, false), Payload: []byte("p"), Signatures: []*cose.Signature{{Headers: mkH(0, nil, 0, true), Signature: sig}, {Headers: mkH(lb, vb, b2, true), Signature: sig}}}
							return m.MarshalCBOR()
						}, func(b []byte) error { var m cose.SignMessage; return m.UnmarshalCBOR(b) }},
						{"first-signer+third-signer", func() ([]byte, error) {
							m := &cose.SignMessage{Headers: mkH(0, nil, 0, false), Payload: []byte("p"), Signatures: []*cose.Signature{{Headers: mkH(la, va, b1, true), Signature: sig}, {Headers: mkH(0, nil, 0, true), Signature: sig}, {Headers: mkH(lb, vb, b2, true), Signature: sig}}}
							return m.MarshalCBOR()
						}, func(b []byte) error { var m cose.SignMessage; return m.UnmarshalCBOR(b) }},
						{"sign1+countersignature-in-its-header", func() ([]byte, error) {
							h := mkH(la, va, b1, true)
							h.Unprotected[int64(11)] = &cose.Countersignature{Headers: mkH(lb, vb, b2, true), Signature: sig}
							m := &cose.Sign1Message{Headers: h, Payload: []byte("p"), Signature: sig}
							return m.MarshalCBOR()
						}, func(b []byte) error { var m cose.Sign1Message; return m.UnmarshalCBOR(b) }},
					}
					for _, cs := range cases {
						cell := fmt.Sprintf("iv-pair-across-layers/%s/first=%d/bucket1=%d/bucket2=%d", cs.name, la, b1, b2)
						in := map[string]any{"cell": cell}
						var out []byte
						var eerr, derr error
						if guard(rec, "iv pair across layers", in, func() {
							out, eerr = cs.enc()
							if eerr == nil {
								derr = cs.dec(out)
							}
						}) {
							continue
						}
						rec.Eval(1)
						rec.Event("iv-pair-across-layers")
						rec.Class(cell)
						if eerr != nil {
							rec.Violate("refused-conforming", cell, "a message whose layers each obey the IV rule is refused on encode: "+eerr.Error(), in)
						} else if derr != nil {
							rec.Violate("produced-not-decodable", cell, "encoded, then refused by the decoder: "+derr.Error()+" "+hexs(out), in)
						}
					}
				}
			}
		}
	}
	rec.Require("cells", 5000)
	rec.Require("cells:conforming", 1000)
	rec.Require("cells:violating", 1000)
	rec.RequireClasses(5000)
}

// c13judgeGoOnly: a Go-side protected map with no prepared wire twin: the encoder verdict must
// equal the reference rules' verdict, and whatever is produced must be conforming and decodable.
func c13judgeGoOnly(rec *mon.Recorder, cell string, goMap map[any]any, in map[string]any) {
	if _, err := refcose.GoToNode(map[any]any(goMap), nil); err != nil {
		c13produced(rec, cell, goMap, true, in) // outside the CBOR data model: only "produced => conforming"
		return
	}
	ref := refcose.HeaderRulesGo(goMap, nil, true, false)
	ok, ran := encVerdictBucket(rec, goMap, true, in)
	if !ran {
		return
	}
	if ok != (ref == nil) {
		rec.Violate("encoder-vs-rules", cell, fmt.Sprintf("protected-header encoder verdict %v, reference rules say %v", ok, ref), in)
	}
	c13produced(rec, cell, goMap, true, in)
}

type namedString string
type namedBytes []byte
