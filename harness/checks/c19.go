package checks

import (
	"fmt"
	"strings"

	cose "github.com/veraison/go-cose"

	"verif/harness/gen"
	"verif/harness/mon"
	"verif/harness/refcbor"
	"verif/harness/refcose"
)

// C19 - decoding depends only on the input bytes: atomic, history-free, no
// aliasing. Monitor: deep-hash comparison of destination values across
// decode histories and after scribbling over input and output buffers.

func init() {
	register(&Check{
		ID:    "C19",
		Level: "exploration",
		Rule: "for each of the 7 message/signature/countersignature/header-bucket decoders: histories of 2..6 decodes into ONE destination variable, drawn from valid inputs of different shapes (more/fewer headers, payload nil/non-nil, 1 vs 4 signatures, nested countersignatures) and invalid inputs failing at each stage (prefix, CBOR syntax/truncation, empty signature, protected header, unprotected header, IV rule across buckets, a later signature of a COSE_Sign, nested countersignature); " +
			"after every step: a failed decode leaves the destination's deep hash unchanged, a successful one equals decoding the same bytes into a zero value; then the input buffer (exact capacity) and a previously returned MarshalCBOR output are overwritten with 0xFF and the value's deep hash, re-encoding and Verify verdict must not change. Distinct = (decoder, history shape = sequence of ok / failure-stage).",
		Assume: []string{"deep hash covers exported and unexported fields, maps, slices (with capacity tails for the unchanged-on-failure and aliasing monitors)"},
		Run:    runC19,
	})
}

type c19decoder struct {
	name   string
	kind   refcose.Kind
	fresh  func() any
	decode func(dst any, b []byte) error
	encode func(v any) ([]byte, error)
}

func c19decoders() []c19decoder {
	return []c19decoder{
		{"Sign1Message", refcose.KSign1Tagged, func() any { return &cose.Sign1Message{} },
			func(d any, b []byte) error { return d.(*cose.Sign1Message).UnmarshalCBOR(b) }, func(v any) ([]byte, error) { return v.(*cose.Sign1Message).MarshalCBOR() }},
		{"UntaggedSign1Message", refcose.KSign1Untagged, func() any { return &cose.UntaggedSign1Message{} },
			func(d any, b []byte) error { return d.(*cose.UntaggedSign1Message).UnmarshalCBOR(b) }, func(v any) ([]byte, error) { return v.(*cose.UntaggedSign1Message).MarshalCBOR() }},
		{"SignMessage", refcose.KSignTagged, func() any { return &cose.SignMessage{} },
			func(d any, b []byte) error { return d.(*cose.SignMessage).UnmarshalCBOR(b) }, func(v any) ([]byte, error) { return v.(*cose.SignMessage).MarshalCBOR() }},
		{"Signature", refcose.KSignature, func() any { return &cose.Signature{} },
			func(d any, b []byte) error { return d.(*cose.Signature).UnmarshalCBOR(b) }, func(v any) ([]byte, error) { return v.(*cose.Signature).MarshalCBOR() }},
		{"Countersignature", refcose.KSignature, func() any { return &cose.Countersignature{} },
			func(d any, b []byte) error { return d.(*cose.Countersignature).UnmarshalCBOR(b) }, func(v any) ([]byte, error) { return v.(*cose.Countersignature).MarshalCBOR() }},
		{"ProtectedHeader", refcose.KProtected, func() any { return &cose.ProtectedHeader{} },
			func(d any, b []byte) error { return d.(*cose.ProtectedHeader).UnmarshalCBOR(b) }, func(v any) ([]byte, error) { return v.(*cose.ProtectedHeader).MarshalCBOR() }},
		{"UnprotectedHeader", refcose.KUnprotected, func() any { return &cose.UnprotectedHeader{} },
			func(d any, b []byte) error { return d.(*cose.UnprotectedHeader).UnmarshalCBOR(b) }, func(v any) ([]byte, error) { return v.(*cose.UnprotectedHeader).MarshalCBOR() }},
	}
}

type c19input struct {
	stage    string // "ok" or the failure stage
	b        []byte
	baseline string // deep hash of the value a fresh destination got before any history ran
}

// c19pool builds valid and invalid inputs for one decoder kind.
func c19pool(r *mon.Rand, kind refcose.Kind, n int) []c19input {
	var pool []c19input
	items := gen.ValidCorpus(r, n*8, 30)
	var valid [][]byte
	for _, it := range items {
		if it.Kind == kind {
			valid = append(valid, it.Bytes)
		}
	}
	for _, v := range valid {
		pool = append(pool, c19input{stage: "ok", b: v})
	}
	if kind == refcose.KSign1Tagged || kind == refcose.KSign1Untagged {
		// COSE_Sign1 messages that look like hash envelopes - label 258 in the protected header - and break the
		// envelope rules (governed labels in the unprotected bucket, odd digest length): plain Sign1 decoders
		// take them today; whichever way a decoder decides, it decides before it touches the destination
		for i, un := range []*Node{refcbor.NMap(refcbor.NInt(260), refcbor.NTstr("loc")), refcbor.NMap(refcbor.NInt(3), refcbor.NInt(0)), refcbor.NMap(refcbor.NInt(258), refcbor.NInt(-16)), refcbor.NMap(refcbor.NInt(259), refcbor.NTstr("a/b")), refcbor.NMap()} {
			prot := refcbor.NMap(refcbor.NInt(1), refcbor.NInt(-7), refcbor.NInt(258), refcbor.NInt(mon.Pick(r, int64(-16), int64(-44), int64(99))), refcbor.NInt(4), refcbor.NBstr([]byte{byte(i)}))
			wm := &gen.WSign1{L: gen.WLayer{ProtMap: prot, Unprot: un}, Payload: r.Bytes(mon.Pick(r, 32, 31, 64, 5)), Sig: r.Bytes(64), Tagged: kind == refcose.KSign1Tagged}
			pool = append(pool, c19input{stage: "ok", b: wm.Bytes()})
		}
	}
	for vi, v := range valid {
		if vi >= n {
			break
		}
		t, err := gen.ParseTree(v)
		if err != nil {
			continue
		}
		add := func(stage string, f func(t *gen.Tree, body *Node) bool) {
			cl := t.Clone()
			body := cl.Root
			if body.Major == refcbor.Tag {
				body = body.Kids[0]
			}
			ok := false
			func() {
				defer func() { recover() }()
				ok = f(cl, body)
			}()
			if ok {
				func() {
					defer func() { recover() }()
					pool = append(pool, c19input{stage: stage, b: cl.Seal()})
				}()
			}
		}
		// generic failures
		for _, one := range []byte{0x00, 0x40, 0x80, 0x83, 0xa0, 0xd2, 0xd8, 0xf6, 0xff} {
			pool = append(pool, c19input{stage: "one-byte", b: []byte{one}})
		}
		pool = append(pool, c19input{stage: "truncated", b: v[:len(v)/2]}, c19input{stage: "trailing", b: append(append([]byte{}, v...), 0)}, c19input{stage: "empty", b: []byte{}})
		if len(v) > 0 {
			bad := append([]byte{}, v...)
			bad[0] ^= 0x20
			pool = append(pool, c19input{stage: "prefix", b: bad})
		}
		isMsg := kind == refcose.KSign1Tagged || kind == refcose.KSign1Untagged || kind == refcose.KSignTagged || kind == refcose.KSignature
		if !isMsg {
			add("bad-value", func(t *gen.Tree, body *Node) bool {
				m := body
				if kind == refcose.KProtected {
					m = t.Emb[body]
				}
				if m == nil || m.Major != refcbor.Map {
					return false
				}
				m.Kids = append(m.Kids, refcbor.NInt(4), refcbor.NInt(1)) // kid must be bstr
				return true
			})
			if kind == refcose.KUnprotected {
				add("bad-nested-countersignature", func(t *gen.Tree, body *Node) bool {
					body.Kids = append(body.Kids, refcbor.NInt(7), refcbor.NArr(refcbor.NBstr([]byte{}), refcbor.NMap(refcbor.NInt(4), refcbor.NInt(1)), refcbor.NBstr([]byte{1})))
					return true
				})
			}
			continue
		}
		sigIdx := len(body0(t).Kids) - 1
		add("empty-signature", func(t *gen.Tree, body *Node) bool {
			s := body.Kids[sigIdx]
			if s.Major == refcbor.Array {
				if len(s.Kids) == 0 {
					return false
				}
				s = s.Kids[len(s.Kids)-1].Kids[2]
			}
			s.Str = []byte{}
			return true
		})
		add("protected-header", func(t *gen.Tree, body *Node) bool {
			m := t.Emb[body.Kids[0]]
			if m == nil {
				delete(t.Emb, body.Kids[0])
				body.Kids[0].Str = []byte{0x80}
				return true
			}
			m.Kids = append(m.Kids, refcbor.NInt(4), refcbor.NInt(1))
			return true
		})
		add("unprotected-header", func(t *gen.Tree, body *Node) bool {
			u := body.Kids[1]
			u.Kids = append(u.Kids, refcbor.NInt(2), refcbor.NArr(refcbor.NInt(1))) // crit not allowed here
			return true
		})
		add("iv-across-buckets", func(t *gen.Tree, body *Node) bool {
			m := t.Emb[body.Kids[0]]
			if m == nil {
				return false
			}
			strip := func(x *Node) {
				var kids []*Node
				for i := 0; i+1 < len(x.Kids); i += 2 {
					if v, ok := x.Kids[i].Int64(); ok && (v == 5 || v == 6) {
						continue
					}
					kids = append(kids, x.Kids[i], x.Kids[i+1])
				}
				x.Kids = kids
			}
			strip(m)
			strip(body.Kids[1])
			m.Kids = append(m.Kids, refcbor.NInt(5), refcbor.NBstr([]byte{1}))
			body.Kids[1].Kids = append(body.Kids[1].Kids, refcbor.NInt(6), refcbor.NBstr([]byte{2}))
			return true
		})
		add("nested-countersignature", func(t *gen.Tree, body *Node) bool {
			u := body.Kids[1]
			var kids []*Node
			for i := 0; i+1 < len(u.Kids); i += 2 {
				if v, ok := u.Kids[i].Int64(); ok && (v == 7 || v == 11) {
					continue
				}
				kids = append(kids, u.Kids[i], u.Kids[i+1])
			}
			u.Kids = append(kids, refcbor.NInt(11), refcbor.NArr(refcbor.NBstr([]byte{}), refcbor.NMap(), refcbor.NBstr([]byte{})))
			return true
		})
		// structurally fine, semantically odd: values a stricter decoder might one day refuse (a typ naming
		// another COSE structure, a certificate thumbprint that does not match the chain next to it, an
		// expired CWT, a content type with parameters). Whichever way a decoder decides about them, it
		// decides before it touches the destination.
		stripL := func(x *Node, labels ...int64) {
			var kids []*Node
			for i := 0; i+1 < len(x.Kids); i += 2 {
				drop := false
				if v, ok := x.Kids[i].Int64(); ok {
					for _, l := range labels {
						drop = drop || v == l
					}
				}
				if !drop {
					kids = append(kids, x.Kids[i], x.Kids[i+1])
				}
			}
			x.Kids = kids
		}
		for oi, odd := range []struct {
			name   string
			prot   bool
			labels []int64
			kids   []*Node
		}{
			{"typ-names-cose-sign", true, []int64{16}, []*Node{refcbor.NInt(16), refcbor.NTstr(`application/cose; cose-type="cose-sign"`)}},
			{"typ-names-cose-sign1", true, []int64{16}, []*Node{refcbor.NInt(16), refcbor.NTstr(`application/cose; cose-type="cose-sign1"`)}},
			{"typ-names-cose-mac", false, []int64{16}, []*Node{refcbor.NInt(16), refcbor.NTstr(`application/cose; cose-type="cose-mac0"`)}},
			{"typ-coap-cose-sign", true, []int64{16}, []*Node{refcbor.NInt(16), refcbor.NInt(98)}},
			{"content-type-cose-sign", true, []int64{3}, []*Node{refcbor.NInt(3), refcbor.NTstr(`application/cose; cose-type="cose-sign"`)}},
			{"x5t-not-matching-x5chain", false, []int64{33, 34}, []*Node{refcbor.NInt(34), refcbor.NArr(refcbor.NInt(-16), refcbor.NBstr(make([]byte, 32))), refcbor.NInt(33), refcbor.NBstr([]byte("0\x82\x01\x0a not a certificate"))}},
			{"x5t-not-matching-x5chain-protected", true, []int64{33, 34}, []*Node{refcbor.NInt(34), refcbor.NArr(refcbor.NInt(-16), refcbor.NBstr(make([]byte, 32))), refcbor.NInt(33), refcbor.NArr(refcbor.NBstr([]byte("cert-1")), refcbor.NBstr([]byte("cert-2")))}},
			{"x5t-truncated-hash", false, []int64{33, 34}, []*Node{refcbor.NInt(34), refcbor.NArr(refcbor.NInt(-15), refcbor.NBstr(make([]byte, 8))), refcbor.NInt(33), refcbor.NBstr([]byte("cert"))}},
			{"x5u-not-https", false, []int64{35}, []*Node{refcbor.NInt(35), refcbor.NTstr("http://example.com/cert")}},
			{"cwt-expired", true, []int64{15}, []*Node{refcbor.NInt(15), refcbor.NMap(refcbor.NInt(4), refcbor.NInt(1), refcbor.NInt(5), refcbor.NInt(2))}},
			{"kid-empty", false, []int64{4}, []*Node{refcbor.NInt(4), refcbor.NBstr([]byte{})}},
			{"alg-of-another-family", false, []int64{1}, []*Node{refcbor.NInt(1), refcbor.NInt(5)}},
		} {
			odd := odd
			if (vi+oi)%3 != 0 {
				continue
			}
			add("odd:"+odd.name, func(t *gen.Tree, body *Node) bool {
				layer := body
				if kind == refcose.KSignTagged && oi%2 == 1 && len(body.Kids) == 4 && len(body.Kids[3].Kids) > 0 {
					layer = body.Kids[3].Kids[len(body.Kids[3].Kids)-1] // the last signer instead of the body
				}
				m := t.Emb[layer.Kids[0]]
				u := layer.Kids[1]
				if odd.prot && m != nil {
					stripL(m, odd.labels...)
					stripL(u, odd.labels...)
					m.Kids = append(m.Kids, odd.kids...)
					return true
				}
				stripL(u, odd.labels...)
				if m != nil {
					stripL(m, odd.labels...)
				}
				u.Kids = append(u.Kids, odd.kids...)
				return true
			})
		}
		add("payload-type", func(t *gen.Tree, body *Node) bool {
			if len(body.Kids) != 4 {
				return false
			}
			body.Kids[2] = refcbor.NTstr("text")
			return true
		})
		if kind == refcose.KSignTagged {
			add("later-signature-header", func(t *gen.Tree, body *Node) bool {
				s := body.Kids[3]
				if len(s.Kids) == 0 {
					return false
				}
				// several good signatures followed by one with a bad unprotected header
				good := refcbor.Clone(s.Kids[0])
				bad := refcbor.NArr(refcbor.NBstr([]byte{}), refcbor.NMap(refcbor.NInt(4), refcbor.NInt(1)), refcbor.NBstr([]byte{1}))
				s.Kids = append(s.Kids, good, good, bad)
				return true
			})
			add("no-signatures", func(t *gen.Tree, body *Node) bool { body.Kids[3].Kids = nil; return true })
		}
	}
	return pool
}

func body0(t *gen.Tree) *Node {
	n := t.Root
	if n.Major == refcbor.Tag {
		n = n.Kids[0]
	}
	return n
}

func exact(b []byte) []byte {
	out := make([]byte, len(b))
	copy(out, b)
	return out[:len(out):len(out)]
}

func runC19(c *Ctx) {
	rec := c.Rec
	decs := c19decoders()
	nHist := c.N(3000, 150000)
	for di := range decs {
		d := decs[di]
		pool := c19pool(mon.NewRand(uint64(c.Seed)).Sub(uint64(191000+di)), d.kind, c.N(40, 400))
		var oks, bads []c19input
		for _, p := range pool {
			// classify by what the decoder really does with it (fresh destination)
			dst := d.fresh()
			var err error
			if guard(rec, d.name+".UnmarshalCBOR", map[string]any{"input": mon.FullHex(p.b)}, func() { err = d.decode(dst, exact(p.b)) }) {
				continue
			}
			if err == nil {
				p.stage = "ok"
				p.baseline = mon.DeepHashValue(dst)
				oks = append(oks, p)
			} else {
				if p.stage == "ok" {
					p.stage = "refused-valid"
				}
				bads = append(bads, p)
			}
		}
		if len(oks) < 3 || len(bads) < 3 {
			rec.Inconclusive(fmt.Sprintf("%s: pool too small (ok=%d bad=%d)", d.name, len(oks), len(bads)))
			continue
		}
		rec.Extra("pool_"+d.name, map[string]int{"ok": len(oks), "failing": len(bads)})
		mon.Parallel(c.Workers, nHist, func(w, hi int) {
			r := mon.NewRand(uint64(c.Seed)).Sub(uint64(192000 + di*1000003 + hi))
			steps := 2 + r.Intn(5)
			dst := d.fresh()
			shape := make([]string, 0, steps)
			var hist []string
			var lastOK *c19input
			for s := 0; s < steps; s++ {
				var in c19input
				if r.Intn(5) < 3 {
					in = oks[r.Intn(len(oks))]
				} else {
					in = bads[r.Intn(len(bads))]
				}
				// between two decodes the application may have edited the value it got; the next decode
				// of the very same bytes (or of any other) must still depend on the bytes only
				if lastOK != nil && r.Intn(3) == 0 {
					shape = append(shape, "edit:"+c19edit(dst, r))
					rec.Event("destination-edited-between-decodes")
					if r.Bool() {
						in = *lastOK
						shape = append(shape, "same-bytes")
					}
				}
				buf := exact(in.b)
				hist = append(hist, mon.FullHex(in.b))
				input := map[string]any{"decoder": d.name, "history": hist, "step": s}
				before := mon.DeepHash(dst)
				var err error
				if guard(rec, d.name+".UnmarshalCBOR", input, func() { err = d.decode(dst, buf) }) {
					return
				}
				rec.Eval(1)
				rec.Event(d.name)
				if err != nil {
					shape = append(shape, in.stage)
					if in.stage == "ok" {
						rec.Violate("history-dependent", d.name+"/used-refuses", "bytes accepted into a fresh destination are refused into a previously used one: "+err.Error()+" (history shape "+strings.Join(shape, ",")+")", input)
						return
					}
					if mon.DeepHash(dst) != before {
						rec.Violate("failed-decode-modified-destination", d.name+"/"+in.stage, "a failing decode changed the destination (history shape "+strings.Join(shape, ",")+")", input)
						return
					}
					continue
				}
				shape = append(shape, "ok")
				keep := in
				lastOK = &keep
				fresh := d.fresh()
				if e := d.decode(fresh, exact(in.b)); e != nil {
					rec.Violate("history-dependent", d.name+"/fresh-refuses", "bytes accepted into a used destination are refused into a fresh one: "+e.Error(), input)
					return
				}
				if in.baseline != "" && mon.DeepHashValue(fresh) != in.baseline {
					rec.Violate("history-dependent", d.name+"/global-state", "decoding the same bytes into a fresh destination gives another value than it did before the histories ran: some state outlives a decode (history shape "+strings.Join(shape, ",")+")", input)
					return
				}
				if mon.DeepHashValue(dst) != mon.DeepHashValue(fresh) {
					rec.Violate("history-dependent", d.name, "decoding into a previously used variable gives another value than decoding into a fresh one (history shape "+strings.Join(shape, ",")+")", input)
					return
				}
				// aliasing: scribble over the input buffer, then over a returned encoding
				snap := mon.DeepHash(dst)
				out1, e1 := d.encode(dst)
				copy1 := append([]byte(nil), out1...)
				for i := range buf {
					buf[i] = 0xff
				}
				if mon.DeepHash(dst) != snap {
					rec.Violate("aliases-input", d.name, "overwriting the input buffer changed the decoded value", input)
					return
				}
				out2, e2 := d.encode(dst)
				if (e1 == nil) != (e2 == nil) || !eqBytes(out2, copy1) {
					rec.Violate("aliases-input", d.name+"/encoding", "overwriting the input buffer changed the re-encoding", input)
					return
				}
				for i := range out1 {
					out1[i] = 0xff
				}
				if mon.DeepHash(dst) != snap {
					rec.Violate("aliases-output", d.name, "overwriting a returned encoding changed the decoded value", input)
					return
				}
				out3, _ := d.encode(dst)
				if !eqBytes(out3, copy1) {
					rec.Violate("aliases-output", d.name+"/encoding", "overwriting a returned encoding changed the next encoding", input)
					return
				}
				for i := range out2 {
					out2[i] = 0xff
				}
				if mon.DeepHash(dst) != snap {
					rec.Violate("aliases-output", d.name+"/second", "overwriting the second returned encoding changed the decoded value", input)
					return
				}
				rec.Event("aliasing-probes")
			}
			rec.Class(d.name + "/" + strings.Join(shape, ","))
			if hi%700 == 0 {
				rec.Sample(d.name, map[string]any{"history_shape": strings.Join(shape, ","), "last_input": hist[len(hist)-1]})
			}
		})
	}
	// Verify verdict must survive scribbling (reference-signed messages)
	nV := c.N(600, 20000)
	mon.Parallel(c.Workers, nV, func(w, i int) {
		r := mon.NewRand(uint64(c.Seed)).Sub(uint64(195000 + i))
		m := c07build(c, r, i*5) // i*5 % 5 == 0: tagged Sign1
		buf := exact(m.bytes)
		var d cose.Sign1Message
		in := map[string]any{"wire": mon.FullHex(m.bytes)}
		if d.UnmarshalCBOR(buf) != nil {
			return
		}
		if err := d.Verify(m.ext, m.keys[0].Verifier); err != nil {
			return // C07's business
		}
		for j := range buf {
			buf[j] = 0xff
		}
		rec.Eval(1)
		rec.Event("verify-after-scribble")
		if err := d.Verify(m.ext, m.keys[0].Verifier); err != nil {
			rec.Violate("aliases-input", "Sign1Message/verify", "overwriting the input buffer made a verified message fail: "+err.Error(), in)
		}
		// a second, unrelated decode must not disturb the first value either
		var other cose.Sign1Message
		m2 := c07build(c, r, i*5+5)
		_ = other.UnmarshalCBOR(exact(m2.bytes))
		if err := d.Verify(m.ext, m.keys[0].Verifier); err != nil {
			rec.Violate("shared-state", "Sign1Message/verify-after-other-decode", "decoding another message made a verified message fail: "+err.Error(), in)
		}
	})
	for _, d := range decs {
		rec.Require(d.name, 1000)
	}
	rec.Require("aliasing-probes", 2000)
	rec.RequireClasses(300)
}

// c19edit changes a previously decoded value the way an application might between two decodes
// (parsed header maps edited or replaced while the retained raw bytes stay, payload and
// signature touched) and names the edit.
func c19edit(dst any, r *mon.Rand) string {
	editMap := func(m map[any]any) {
		if m == nil {
			return
		}
		for k := range m {
			if r.Bool() {
				delete(m, k)
				break
			}
		}
		m[int64(99)] = "stale"
	}
	editHeaders := func(h *cose.Headers) string {
		switch r.Intn(5) {
		case 0:
			editMap(h.Protected)
			editMap(h.Unprotected)
			return "maps-edited"
		case 1:
			h.Protected = cose.ProtectedHeader{int64(1): cose.AlgorithmPS512, "stale": true}
			h.Unprotected = cose.UnprotectedHeader{int64(4): []byte("stale")}
			return "maps-replaced"
		case 2:
			h.Protected, h.Unprotected = nil, nil
			return "maps-nil"
		case 3:
			// values edited IN PLACE (the map entries stay, what they point to changes): a byte flipped in
			// every byte string, an element replaced in every list, an entry added to every nested map
			for _, m := range []map[any]any{h.Protected, h.Unprotected} {
				for _, v := range m {
					switch x := v.(type) {
					case []byte:
						if len(x) > 0 {
							x[0] ^= 0xff
						}
					case []any:
						if len(x) > 0 {
							x[0] = "edited-in-place"
						}
					case map[any]any:
						x["edited-in-place"] = true
					}
				}
			}
			return "nested-values-edited-in-place"
		default:
			// the application assembles something new in the same variable
			if h.Protected == nil {
				h.Protected = cose.ProtectedHeader{}
			}
			if h.Unprotected == nil {
				h.Unprotected = cose.UnprotectedHeader{}
			}
			h.Protected[int64(5)] = []byte("iv")
			h.Unprotected[int64(6)] = []byte("piv")
			h.Protected[int64(1)] = cose.AlgorithmES256
			return "iv-and-partial-iv-across-buckets"
		}
	}
	switch v := dst.(type) {
	case *cose.Sign1Message:
		v.Payload = append(v.Payload, 'x')
		return editHeaders(&v.Headers)
	case *cose.UntaggedSign1Message:
		v.Signature = append(v.Signature, 0)
		return editHeaders(&v.Headers)
	case *cose.SignMessage:
		if len(v.Signatures) > 0 && v.Signatures[0] != nil {
			editHeaders(&v.Signatures[0].Headers)
		}
		return editHeaders(&v.Headers)
	case *cose.Signature:
		return editHeaders(&v.Headers)
	case *cose.Countersignature:
		return editHeaders(&v.Headers)
	case *cose.ProtectedHeader:
		editMap(*v)
		return "map-edited"
	case *cose.UnprotectedHeader:
		editMap(*v)
		return "map-edited"
	}
	return "none"
}
