package checks

import (
	"bufio"
	"encoding/binary"
	"encoding/hex"
	"encoding/json"
	"fmt"
	"os"
	"os/exec"
	"path/filepath"
	"strconv"
	"strings"
	"sync"
	"sync/atomic"
	"syscall"
	"time"

	cose "github.com/veraison/go-cose"

	"verif/harness/gen"
	"verif/harness/mon"
	"verif/harness/refcbor"
)

// C06 - no input makes a decoder or a follow-up operation panic or hang.
// Monitor: liveness of a child process that runs the real decoders and the
// follow-up operations; a recovered panic, a fatal runtime error or a stalled
// cursor (re-confirmed alone) is a violation. Wall-clock watchdogs never
// decide on their own: a stalled/crashed input is re-run alone with a
// generous limit and only a repeat failure counts.

func init() {
	register(&Check{
		ID:    "C06",
		Level: "exploration",
		Rule: "inputs: structural-fault, splice and byte-level mutants of valid messages of all shapes (C05's corpus), the COSE_Key mutation grid (every parameter of valid EC2/OKP/symmetric/custom keys replaced by every CBOR type and coordinate length class, plus structural faults), random bytes and regression inputs; " +
			"each input goes to all 9 decoding entry points in isolated child processes (cursor file + watchdog); every accepted value is re-encoded, verified (with and without external data), countersigned (full and abbreviated), its nested countersignatures verified/encoded, header accessors called; keys are converted to public/private keys, signers, verifiers and used once. " +
			"Non-trivial = (entry point, accepted?, follow-ups reached); distinct classes count entry point x input family x accepted.",
		Assume: []string{"a hang is only reported when the same input stalls again alone for 120 s (a loaded machine cannot raise an alarm)", "Go runtime fatal errors (stack overflow, concurrent map access) terminate the child and are attributed through the cursor file"},
		Run:    runC06,
	})
	childModes["c06"] = c06child
}

var c06entries = []string{"Sign1Message", "UntaggedSign1Message", "SignMessage", "Signature", "Countersignature", "ProtectedHeader", "UnprotectedHeader", "Key", "VerifyHashEnvelope"}

type c06input struct {
	family string
	data   []byte
}

// c06inputs builds the seeded input list.
func c06inputs(c *Ctx) []c06input {
	r := mon.NewRand(uint64(c.Seed)).Sub(91000)
	var out []c06input
	add := func(f string, b []byte) { out = append(out, c06input{f, b}) }
	// regression inputs and tiny inputs
	for _, h := range []string{"a20102206161", "", "00", "ff", "f6", "40", "a0", "80", "d2", "d284", "d28440a0f640", "d28440a0f641ff", "8440a04040", "83", "8340a040", "8340a041ff",
		"d8628440a0f680", "d8628440a0408183", "a10100", "a101022001", "a1010200", "a401022001215820", "a2010120f6", "a20101200a", "a3010120062140", "a301012006235820"} {
		b, _ := hex.DecodeString(h)
		add("regression", b)
	}
	// every input of one and of two bytes, and every three-byte input that starts like a tag, an array
	// head or a byte-string head (a decoder that peels a prefix must still check what is left)
	for a := 0; a < 256; a++ {
		add("exhaustive-1-byte", []byte{byte(a)})
		for b := 0; b < 256; b++ {
			add("exhaustive-2-bytes", []byte{byte(a), byte(b)})
		}
	}
	for _, pre := range [][]byte{{0xd9, 0xd9}, {0xd8, 0x62}, {0xd8, 0x12}, {0xd2, 0x84}, {0xd2, 0x83}, {0x84, 0x40}, {0x83, 0x40}, {0xa1, 0x01}, {0x58, 0x01}, {0x9f, 0xff}, {0xbf, 0xff}, {0xc0, 0x60}, {0xd9, 0x00}, {0xda, 0x00}, {0xdb, 0x00}} {
		for b := 0; b < 256; b++ {
			add("exhaustive-3-bytes-after-prefix", []byte{pre[0], pre[1], byte(b)})
		}
	}
	// the self-described-CBOR tag (55799) alone, repeated, and in front of valid encodings of every kind
	for _, h := range []string{"d9d9f7", "d9d9f7d9d9f7", "d9d9f7d2", "d9d9f7d284", "d9d9f784", "d9d9f783", "d9d9f7a0", "d9d9f740", "d9d9f7d9d9f7d9d9f7", "d9d9f7d862", "d2d9d9f7"} {
		b, _ := hex.DecodeString(h)
		add("self-described-tag", b)
	}
	for _, item := range gen.ValidCorpus(r.Sub(7), 60, 20) {
		add("self-described-tag", append([]byte{0xd9, 0xd9, 0xf7}, item.Bytes...))
		add("self-described-tag", append([]byte{0xd9, 0xd9, 0xf7, 0xd9, 0xd9, 0xf7}, item.Bytes...))
	}
	// inputs whose honest cost is linear in their size, large enough that a quadratic step (a scan per
	// entry instead of a lookup) turns milliseconds into minutes: a protected header with 120 000
	// parameters all listed in crit, the same number of unprotected parameters, of COSE_Sign signatures
	// (empty headers), and of key parameters
	{
		const big = 120000
		pm := refcbor.NMap()
		crit := refcbor.NArr()
		for i := 0; i < big; i++ {
			pm.Kids = append(pm.Kids, refcbor.NInt(int64(100000+i)), refcbor.NInt(0))
			crit.Kids = append(crit.Kids, refcbor.NInt(int64(100000+i)))
		}
		pmCrit := refcbor.Clone(pm)
		pmCrit.Kids = append([]*Node{refcbor.NInt(1), refcbor.NInt(-7), refcbor.NInt(2), crit}, pmCrit.Kids...)
		canon, _ := refcbor.Parse(refcbor.Canon(pmCrit))
		add("linear-cost/protected-all-critical", (&gen.WSign1{L: gen.WLayer{ProtMap: canon, Unprot: refcbor.NMap()}, Payload: []byte("p"), Sig: []byte{1, 2, 3}, Tagged: true}).Bytes())
		add("linear-cost/protected-all-critical-bucket", refcbor.Encode(refcbor.NBstr(refcbor.Encode(canon))))
		add("linear-cost/unprotected-many", (&gen.WSign1{L: gen.WLayer{ProtMap: refcbor.NMap(refcbor.NInt(1), refcbor.NInt(-7)), Unprot: pm}, Payload: []byte("p"), Sig: []byte{1, 2, 3}, Tagged: true}).Bytes())
		km := refcbor.NMap(refcbor.NInt(1), refcbor.NInt(4), refcbor.NInt(-1), refcbor.NBstr([]byte("0123456789abcdef")))
		for i := 0; i < big; i++ {
			km.Kids = append(km.Kids, refcbor.NInt(int64(-100000-i)), refcbor.NInt(0))
		}
		add("linear-cost/key-many-parameters", refcbor.Encode(km))
	}
	// integers at the ends of their ranges in every position where a number selects something (alg, kty,
	// crv, key_ops entries, the hash-envelope labels, content type), and CWT claims of every registered
	// shape incl. the three forms of the confirmation claim (RFC 8747: COSE_Key, Encrypted_COSE_Key, kid)
	{
		ext := []*Node{refcbor.NInt(-1 << 63), refcbor.NInt(-1<<63 + 1), refcbor.NInt(1<<63 - 1), {Major: refcbor.Uint, Arg: 1 << 63}, {Major: refcbor.Uint, Arg: ^uint64(0)}, {Major: refcbor.Nint, Arg: ^uint64(0)}, {Major: refcbor.Nint, Arg: 1 << 63},
			refcbor.NInt(-1 << 31), refcbor.NInt(1 << 31), refcbor.NInt(-1<<31 - 1), refcbor.NInt(1 << 32), refcbor.NInt(-1 << 15), refcbor.NInt(1 << 16), refcbor.NInt(-256), refcbor.NInt(-257), refcbor.NInt(255), refcbor.NInt(256), refcbor.NInt(0)}
		x32 := refcbor.NBstr(r.Bytes(32))
		for _, v := range ext {
			for _, pos := range []int64{1, 3, -1, 4} {
				km := refcbor.NMap(refcbor.NInt(1), refcbor.NInt(2), refcbor.NInt(3), refcbor.NInt(-7), refcbor.NInt(-1), refcbor.NInt(1), refcbor.NInt(-2), x32, refcbor.NInt(-3), x32)
				om := refcbor.NMap(refcbor.NInt(1), refcbor.NInt(1), refcbor.NInt(3), refcbor.NInt(-8), refcbor.NInt(-1), refcbor.NInt(6), refcbor.NInt(-2), x32)
				for _, m := range []*Node{km, om} {
					val := v
					if pos == 4 {
						val = refcbor.NArr(v, refcbor.NInt(2))
						m.Kids = append(m.Kids, refcbor.NInt(4), val)
					} else {
						for i := 0; i+1 < len(m.Kids); i += 2 {
							if k, ok := m.Kids[i].Int64(); ok && k == pos {
								m.Kids[i+1] = val
							}
						}
					}
					add("extreme-integers/key", refcbor.Encode(m))
				}
			}
			for _, label := range []int64{1, 3, 16, 258, 259, 260, 15} {
				pm := refcbor.NMap(refcbor.NInt(1), refcbor.NInt(-7), refcbor.NInt(258), refcbor.NInt(-16))
				replaced := false
				for i := 0; i+1 < len(pm.Kids); i += 2 {
					if k, _ := pm.Kids[i].Int64(); k == label {
						pm.Kids[i+1] = v
						replaced = true
					}
				}
				if !replaced {
					pm.Kids = append(pm.Kids, refcbor.NInt(label), v)
				}
				for _, plen := range []int{32, 0, 64} {
					add("extreme-integers/envelope", (&gen.WSign1{L: gen.WLayer{ProtMap: pm, Unprot: refcbor.NMap()}, Payload: make([]byte, plen), Sig: mon.FixedSig, Tagged: true}).Bytes())
				}
				add("extreme-integers/bucket", refcbor.Encode(refcbor.NBstr(refcbor.Encode(pm))))
				add("extreme-integers/bucket", refcbor.Encode(refcbor.NMap(refcbor.NInt(label), v)))
			}
		}
		key := refcbor.NMap(refcbor.NInt(1), refcbor.NInt(2), refcbor.NInt(-1), refcbor.NInt(1), refcbor.NInt(-2), x32, refcbor.NInt(-3), x32)
		cnfs := []*Node{
			refcbor.NMap(refcbor.NInt(1), key), refcbor.NMap(refcbor.NInt(3), refcbor.NBstr([]byte("kid"))), refcbor.NMap(refcbor.NInt(2), refcbor.NArr(refcbor.NBstr(nil), refcbor.NMap(), refcbor.NBstr([]byte{1}))),
			refcbor.NMap(refcbor.NInt(1), refcbor.NBstr(refcbor.Encode(key))), refcbor.NMap(), refcbor.NMap(refcbor.NInt(1), refcbor.NNull()), refcbor.NMap(refcbor.NInt(1), refcbor.NMap()), refcbor.NMap(refcbor.NInt(1), refcbor.NInt(1)),
			refcbor.NMap(refcbor.NInt(1), key, refcbor.NInt(3), refcbor.NBstr([]byte("kid"))), refcbor.NMap(refcbor.NTstr("jwk"), refcbor.NMap()), refcbor.NBstr([]byte("cnf")), refcbor.NArr(key), refcbor.NNull(), refcbor.NInt(1),
			refcbor.NMap(refcbor.NInt(1), refcbor.NMap(refcbor.NInt(1), refcbor.NTstr("EC2"))), refcbor.NMap(refcbor.NInt(4), refcbor.NInt(0)),
		}
		others := [][2]*Node{{refcbor.NInt(1), refcbor.NTstr("iss")}, {refcbor.NInt(1), refcbor.NInt(1)}, {refcbor.NInt(2), refcbor.NBstr([]byte("sub"))}, {refcbor.NInt(3), refcbor.NArr(refcbor.NTstr("aud"))}, {refcbor.NInt(4), refcbor.NFloat64(1.5)},
			{refcbor.NInt(4), refcbor.NTstr("exp")}, {refcbor.NInt(5), refcbor.NInt(-1 << 63)}, {refcbor.NInt(6), {Major: refcbor.Tag, Arg: 1, Kids: []*Node{refcbor.NInt(1)}}}, {refcbor.NInt(7), refcbor.NTstr("cti")}, {refcbor.NInt(7), refcbor.NBstr(nil)},
			{refcbor.NInt(9), refcbor.NTstr("scope")}, {refcbor.NInt(10), refcbor.NBstr([]byte("nonce"))}, {refcbor.NInt(-1 << 63), refcbor.NInt(0)}, {refcbor.NTstr(""), refcbor.NNull()}}
		for ci, cnf := range cnfs {
			for oi := -1; oi < len(others); oi++ {
				if oi >= 0 && (ci+oi)%3 != 0 {
					continue
				}
				claims := refcbor.NMap(refcbor.NInt(8), cnf)
				if oi >= 0 {
					claims.Kids = append(claims.Kids, others[oi][0], others[oi][1])
				}
				pm := refcbor.NMap(refcbor.NInt(1), refcbor.NInt(-7), refcbor.NInt(15), claims)
				add("cwt-claims/protected", (&gen.WSign1{L: gen.WLayer{ProtMap: pm, Unprot: refcbor.NMap()}, Payload: []byte("p"), Sig: mon.FixedSig, Tagged: true}).Bytes())
				add("cwt-claims/unprotected", (&gen.WSign1{L: gen.WLayer{ProtMap: refcbor.NMap(refcbor.NInt(1), refcbor.NInt(-7)), Unprot: refcbor.NMap(refcbor.NInt(15), claims)}, Payload: []byte("p"), Sig: mon.FixedSig}).Bytes())
				add("cwt-claims/bucket", refcbor.Encode(refcbor.NBstr(refcbor.Encode(pm))))
				add("cwt-claims/bucket", refcbor.Encode(refcbor.NMap(refcbor.NInt(15), claims)))
			}
		}
		for _, o := range others {
			claims := refcbor.NMap(o[0], o[1])
			add("cwt-claims/bucket", refcbor.Encode(refcbor.NBstr(refcbor.Encode(refcbor.NMap(refcbor.NInt(1), refcbor.NInt(-7), refcbor.NInt(15), claims)))))
			add("cwt-claims/protected", (&gen.WSign1{L: gen.WLayer{ProtMap: refcbor.NMap(refcbor.NInt(1), refcbor.NInt(-7), refcbor.NInt(15), claims), Unprot: refcbor.NMap()}, Payload: []byte("p"), Sig: mon.FixedSig, Tagged: true}).Bytes())
		}
	}
	for n := 0; n < c.N(4000, 100000); n++ {
		add("random", r.Bytes(1+r.Intn(60)))
	}
	// message mutants
	bases := gen.ValidCorpus(r.Sub(1), c.N(1800, 40000), 35)
	perBase := c.N(60, 110)
	for bi, base := range bases {
		add("valid", base.Bytes)
		t, err := gen.ParseTree(base.Bytes)
		if err != nil {
			continue
		}
		ns := len(t.Sites())
		for j := 0; j < perBase; j++ {
			op := gen.FaultOps[(j+bi)%len(gen.FaultOps)]
			if b, _, ok := gen.ApplyFault(t, r.Intn(ns), op, r); ok {
				add("fault:"+op, b)
				if j%5 == 0 {
					if t2, err := gen.ParseTree(b); err == nil {
						if b2, _, ok2 := gen.ApplyFault(t2, r.Intn(len(t2.Sites())), gen.FaultOps[r.Intn(len(gen.FaultOps))], r); ok2 {
							add("fault-pair", b2)
						}
					}
				}
			}
		}
		for _, sp := range c05splices(r, t) {
			add("splice", sp.b)
		}
		for _, m := range gen.ByteEdits(r, base.Bytes, false, 12) {
			add("byte-"+m.Op, m.Data)
		}
	}
	// hash envelopes (the 9th entry point gets inputs that reach its own rule checks)
	heZoo := []*Node{refcbor.NTstr(""), refcbor.NTstr(" "), refcbor.NTstr("a"), refcbor.NTstr("text/plain"), refcbor.NInt(0), refcbor.NInt(-1), refcbor.NInt(-16), refcbor.NInt(-43), refcbor.NInt(-44), refcbor.NInt(99),
		{Major: refcbor.Nint, Arg: 1 << 63}, refcbor.NBstr([]byte{}), refcbor.NBstr([]byte{1}), refcbor.NNull(), refcbor.NBool(true), refcbor.NArr(), refcbor.NArr(refcbor.NTstr("")), refcbor.NMap(), refcbor.NFloat64(1)}
	for hi := 0; hi < c.N(6, 200); hi++ {
		for _, ha := range []int64{-16, -43, -44, 99} {
			base := refcbor.NMap(refcbor.NInt(1), refcbor.NInt(-7), refcbor.NInt(258), refcbor.NInt(ha), refcbor.NInt(259), refcbor.NTstr("text/plain"), refcbor.NInt(260), refcbor.NTstr("loc"))
			plen := map[int64]int{-16: 32, -43: 48, -44: 64, 99: 5}[ha]
			for _, pl := range []int{plen, 0, plen - 1, plen + 1} {
				if pl < 0 {
					continue
				}
				payload := r.Bytes(pl)
				if payload == nil {
					payload = []byte{}
				}
				wm := &gen.WSign1{L: gen.WLayer{ProtMap: refcbor.Clone(base), Unprot: refcbor.NMap()}, Payload: payload, Sig: r.Bytes(64), Tagged: true}
				add("hashenv-valid", wm.Bytes())
				for e := 1; e < len(base.Kids); e += 2 {
					for _, z := range heZoo {
						m := refcbor.Clone(base)
						m.Kids[e] = z
						w2 := &gen.WSign1{L: gen.WLayer{ProtMap: m, Unprot: refcbor.NMap()}, Payload: payload, Sig: r.Bytes(64), Tagged: true}
						add("hashenv-grid", w2.Bytes())
						// the same value in the unprotected bucket
						u := refcbor.NMap(refcbor.Clone(base.Kids[e-1]), z)
						w3 := &gen.WSign1{L: gen.WLayer{ProtMap: refcbor.Clone(base), Unprot: u}, Payload: payload, Sig: r.Bytes(64), Tagged: true}
						add("hashenv-grid-unprotected", w3.Bytes())
					}
				}
			}
		}
	}
	// every registered header label x a zoo of plain and structured values, in both buckets and inside a message
	{
		hz := gen.KeyValueZoo(r)
		for _, str := range []string{";", ";charset=utf-8", "/", "a/", "/b", " ", "a/b;c=d", "a/b/c", "\x00/\x00", "é/ü", strings.Repeat("a/", 40), strings.Repeat("x", 5000) + "/y"} {
			hz = append(hz, refcbor.NTstr(str))
		}
		hz = append(hz, &Node{Major: refcbor.Tstr, Str: []byte{0xff, 0xfe, '/', 'a'}}) // invalid UTF-8
		for _, a := range []int64{-16, -15, -14, -43, -44, -18, -45, 0, 1, 99, -65536, 1 << 40} {
			hz = append(hz, refcbor.NArr(refcbor.NInt(a), refcbor.NBstr(r.Bytes(32))), refcbor.NArr(refcbor.NInt(a), refcbor.NBstr([]byte{})), refcbor.NArr(refcbor.NInt(a)))
		}
		hz = append(hz, refcbor.NArr(refcbor.NTstr("sha-256"), refcbor.NBstr(r.Bytes(32))), refcbor.NArr(refcbor.NBstr(r.Bytes(10)), refcbor.NBstr(r.Bytes(10))), refcbor.NArr(refcbor.NArr(), refcbor.NArr()))
		// (maps keyed by small negative integers holding byte strings, lists of them, nested maps: the shapes
		//  of verifiable-data-structure proofs and similar registered parameters)
		for _, kk := range []int64{-1, -2, 1, 2} {
			hz = append(hz, refcbor.NMap(refcbor.NInt(kk), refcbor.NBstr([]byte{0})), refcbor.NMap(refcbor.NInt(kk), refcbor.NArr(refcbor.NBstr([]byte{0}))), refcbor.NMap(refcbor.NInt(kk), refcbor.NMap(refcbor.NInt(kk), refcbor.NNull())), refcbor.NMap(refcbor.NInt(kk), refcbor.NInt(1)))
		}
		labels := []int64{258, 259, 260, 256, 257, 261, -1, -65537, 262, 263, 264, 265, 266, 267, 268, 269, 270, 390, 391, 392, 393, 394, 395, 396, 397, 398, 399, 400}
		for l := int64(0); l <= 40; l++ {
			labels = append(labels, l)
		}
		for _, l := range labels {
			for _, v := range hz {
				u := refcbor.NMap(refcbor.NInt(l), v)
				add("label-value-grid/unprotected", refcbor.Encode(u))
				add("label-value-grid/protected", refcbor.Encode(refcbor.NBstr(refcbor.Encode(u))))
				wm := &gen.WSign1{L: gen.WLayer{ProtMap: refcbor.NMap(refcbor.NInt(1), refcbor.NInt(-7), refcbor.NInt(l), v), Unprot: refcbor.NMap(refcbor.NInt(l), v)}, Payload: []byte("p"), Sig: []byte{1, 2, 3}, Tagged: true}
				add("label-value-grid/sign1", wm.Bytes())
				wm2 := &gen.WSign1{L: gen.WLayer{ProtMap: refcbor.NMap(refcbor.NInt(1), refcbor.NInt(-7), refcbor.NInt(258), refcbor.NInt(-16), refcbor.NInt(l), v)}, Payload: make([]byte, 32), Sig: []byte{1, 2, 3}, Tagged: true}
				add("label-value-grid/hash-envelope", wm2.Bytes())
			}
		}
	}
	// content-type-shaped texts (type "/" subtype parameters, with empty parts and blanks everywhere) under
	// the labels whose value is a media type or a location
	for _, ty := range []string{"", "a", "text", " "} {
		for _, sub := range []string{"", " ", "\t", "b", "plain"} {
			for _, par := range []string{"", ";", ";x", "; charset=utf-8", " ;v=1", ";;", "\t", ";charset=\"a/b\""} {
				for _, tail := range []string{"", " ", "\t"} {
					v := refcbor.NTstr(ty + "/" + sub + par + tail)
					for _, l := range []int64{3, 16, 259, 260} {
						u := refcbor.NMap(refcbor.NInt(l), v)
						add("media-type-texts/unprotected", refcbor.Encode(u))
						add("media-type-texts/protected", refcbor.Encode(refcbor.NBstr(refcbor.Encode(u))))
						wm := &gen.WSign1{L: gen.WLayer{ProtMap: refcbor.NMap(refcbor.NInt(1), refcbor.NInt(-7), refcbor.NInt(l), v), Unprot: refcbor.NMap()}, Payload: []byte("p"), Sig: []byte{1, 2, 3}, Tagged: true}
						add("media-type-texts/sign1", wm.Bytes())
						wm2 := &gen.WSign1{L: gen.WLayer{ProtMap: refcbor.NMap(refcbor.NInt(1), refcbor.NInt(-7), refcbor.NInt(258), refcbor.NInt(-16), refcbor.NInt(l), v)}, Payload: make([]byte, 32), Sig: []byte{1, 2, 3}, Tagged: true}
						add("media-type-texts/hash-envelope", wm2.Bytes())
					}
				}
			}
		}
	}
	// key grid
	zoo := gen.KeyValueZoo(r)
	rounds := c.N(14, 300)
	for round := 0; round < rounds; round++ {
		for _, key := range gen.ValidKeys(r) {
			add("key-valid", refcbor.Encode(gen.KeyMap(key)))
			for i := range key {
				for _, z := range zoo {
					mk := append([]gen.KeyEntry{}, key...)
					mk[i] = gen.KeyEntry{Label: key[i].Label, Value: z}
					add("key-grid", refcbor.Encode(gen.KeyMap(mk)))
				}
				// drop the entry / duplicate it / use its value under another label
				mk := append(append([]gen.KeyEntry{}, key[:i]...), key[i+1:]...)
				add("key-drop", refcbor.Encode(gen.KeyMap(mk)))
				// two entries replaced at once (e.g. y as a bool together with an off-curve x)
				if round%3 == 1 {
					smallZoo := []*Node{refcbor.NBool(true), refcbor.NBool(false), refcbor.NNull(), refcbor.NInt(1), refcbor.NBstr([]byte{}), refcbor.NTstr("x")}
					for j := range key {
						if j == i {
							continue
						}
						for _, a := range smallZoo {
							for zi := len(zoo) - 17; zi < len(zoo); zi += 2 {
								mk2 := append([]gen.KeyEntry{}, key...)
								mk2[i] = gen.KeyEntry{Label: key[i].Label, Value: a}
								mk2[j] = gen.KeyEntry{Label: key[j].Label, Value: zoo[zi]}
								add("key-pair-grid", refcbor.Encode(gen.KeyMap(mk2)))
							}
						}
					}
				}
				// drop one entry and replace another (e.g. seed-only OKP key with a wrong-length d)
				if round%2 == 0 {
					for j := range mk {
						for zi := len(zoo) - 17; zi < len(zoo); zi++ { // the byte-string length classes
							mk2 := append([]gen.KeyEntry{}, mk...)
							mk2[j] = gen.KeyEntry{Label: mk[j].Label, Value: zoo[zi]}
							add("key-drop+grid", refcbor.Encode(gen.KeyMap(mk2)))
						}
					}
				}
				mk2 := append(append([]gen.KeyEntry{}, key...), key[i])
				add("key-dup", refcbor.Encode(gen.KeyMap(mk2)))
			}
			if t, err := gen.ParseTree(refcbor.Encode(gen.KeyMap(key))); err == nil {
				ns := len(t.Sites())
				for j := 0; j < 40; j++ {
					if b, _, ok := gen.ApplyFault(t, r.Intn(ns), gen.FaultOps[r.Intn(len(gen.FaultOps))], r); ok {
						add("key-fault", b)
					}
				}
			}
			for _, m := range gen.ByteEdits(r, refcbor.Encode(gen.KeyMap(key)), false, 20) {
				add("key-byte-"+m.Op, m.Data)
			}
		}
	}
	return out
}

type c06summary struct {
	Calls     map[string]int64 `json:"calls"`
	Accepted  map[string]int64 `json:"accepted"`
	Followups map[string]int64 `json:"followups"`
	Processed int64            `json:"processed"`
}

type c06line struct {
	Index   int         `json:"index"`
	Entry   string      `json:"entry,omitempty"`
	Panic   string      `json:"panic,omitempty"`
	Stack   string      `json:"stack,omitempty"`
	Summary *c06summary `json:"summary,omitempty"`
}

func writeBatch(path string, inputs []c06input) error {
	f, err := os.Create(path)
	if err != nil {
		return err
	}
	w := bufio.NewWriter(f)
	var l [4]byte
	for _, in := range inputs {
		binary.LittleEndian.PutUint32(l[:], uint32(len(in.data)))
		w.Write(l[:])
		w.Write(in.data)
	}
	if err := w.Flush(); err != nil {
		return err
	}
	return f.Close()
}

func readBatch(path string) ([][]byte, error) {
	b, err := os.ReadFile(path)
	if err != nil {
		return nil, err
	}
	var out [][]byte
	for len(b) >= 4 {
		n := int(binary.LittleEndian.Uint32(b))
		b = b[4:]
		if n > len(b) {
			return nil, fmt.Errorf("corrupt batch")
		}
		out = append(out, b[:n:n])
		b = b[n:]
	}
	return out, nil
}

func readCursor(path string) int {
	b, err := os.ReadFile(path)
	if err != nil || len(b) < 8 {
		return -1
	}
	return int(int64(binary.LittleEndian.Uint64(b)))
}

// c06nilReceivers: every method of the message types called on a nil pointer (a variable that was
// declared but never assigned, a lookup that found nothing) returns an error; it does not panic.
func c06nilReceivers(rec *mon.Recorder, keys *gen.KeyRing) {
	k := keys.Keys[0]
	b := []byte{0xd2, 0x84, 0x40, 0xa0, 0x41, 0x01, 0x41, 0x02}
	parent := &cose.Sign1Message{Headers: cose.Headers{Protected: cose.ProtectedHeader{int64(1): k.Alg}}, Payload: []byte("p"), Signature: []byte{1}}
	var s1 *cose.Sign1Message
	var u1 *cose.UntaggedSign1Message
	var sm *cose.SignMessage
	var sg *cose.Signature
	var cs *cose.Countersignature
	var ph *cose.ProtectedHeader
	var uh *cose.UnprotectedHeader
	var hd *cose.Headers
	var ky *cose.Key
	calls := map[string]func(){
		"Sign1Message.MarshalCBOR":           func() { _, _ = s1.MarshalCBOR() },
		"Sign1Message.UnmarshalCBOR":         func() { _ = s1.UnmarshalCBOR(b) },
		"Sign1Message.Sign":                  func() { _ = s1.Sign(gen.Entropy, nil, k.Signer) },
		"Sign1Message.Verify":                func() { _ = s1.Verify(nil, k.Verifier) },
		"UntaggedSign1Message.MarshalCBOR":   func() { _, _ = u1.MarshalCBOR() },
		"UntaggedSign1Message.UnmarshalCBOR": func() { _ = u1.UnmarshalCBOR(b[1:]) },
		"UntaggedSign1Message.Sign":          func() { _ = u1.Sign(gen.Entropy, nil, k.Signer) },
		"UntaggedSign1Message.Verify":        func() { _ = u1.Verify(nil, k.Verifier) },
		"SignMessage.MarshalCBOR":            func() { _, _ = sm.MarshalCBOR() },
		"SignMessage.UnmarshalCBOR":          func() { _ = sm.UnmarshalCBOR(b) },
		"SignMessage.Sign":                   func() { _ = sm.Sign(gen.Entropy, nil, k.Signer) },
		"SignMessage.Verify":                 func() { _ = sm.Verify(nil, k.Verifier) },
		"Signature.MarshalCBOR":              func() { _, _ = sg.MarshalCBOR() },
		"Signature.UnmarshalCBOR":            func() { _ = sg.UnmarshalCBOR(b[1:]) },
		"Signature.Sign":                     func() { _ = sg.Sign(gen.Entropy, k.Signer, []byte{0x40}, []byte("p"), nil) },
		"Signature.Verify":                   func() { _ = sg.Verify(k.Verifier, []byte{0x40}, []byte("p"), nil) },
		"Countersignature.MarshalCBOR":       func() { _, _ = cs.MarshalCBOR() },
		"Countersignature.UnmarshalCBOR":     func() { _ = cs.UnmarshalCBOR(b[1:]) },
		"Countersignature.Sign":              func() { _ = cs.Sign(gen.Entropy, k.Signer, parent, nil) },
		"Countersignature.Verify":            func() { _ = cs.Verify(k.Verifier, parent, nil) },
		"ProtectedHeader.UnmarshalCBOR":      func() { _ = ph.UnmarshalCBOR([]byte{0x40}) },
		"UnprotectedHeader.UnmarshalCBOR":    func() { _ = uh.UnmarshalCBOR([]byte{0xa0}) },
		"UnprotectedHeader.UnmarshalCBOR(nil data)": func() {
			var h cose.UnprotectedHeader
			_ = h.UnmarshalCBOR(nil)
		},
		"ProtectedHeader.UnmarshalCBOR(nil data)": func() {
			var h cose.ProtectedHeader
			_ = h.UnmarshalCBOR(nil)
		},
		"Key.UnmarshalCBOR(nil data)": func() {
			var kk cose.Key
			_ = kk.UnmarshalCBOR(nil)
		},
		"SignMessage.Sign(nil slot)": func() {
			m := &cose.SignMessage{Payload: []byte("p"), Signatures: []*cose.Signature{nil}}
			_ = m.Sign(gen.Entropy, nil, k.Signer)
			_ = m.Verify(nil, k.Verifier)
			_, _ = m.MarshalCBOR()
		},
		"nil signer / verifier": func() {
			m := &cose.Sign1Message{Headers: cose.Headers{Protected: cose.ProtectedHeader{int64(1): k.Alg}}, Payload: []byte("p")}
			defer func() { _ = recover() }() // a nil key interface is a caller error: not judged
			_ = m.Sign(gen.Entropy, nil, nil)
		},
	}
	_, _, _ = hd, ky, parent
	names := make([]string, 0, len(calls))
	for n := range calls {
		names = append(names, n)
	}
	sortStrings(names)
	for _, n := range names {
		in := map[string]any{"call": n, "receiver": "nil pointer"}
		guard(rec, "nil receiver: "+n, in, calls[n])
		rec.Eval(1)
		rec.Event("nil-receiver-calls")
		rec.Class("nil-receiver/" + n)
	}
}

func runC06(c *Ctx) {
	rec := c.Rec
	c06nilReceivers(rec, c.Keys)
	inputs := c06inputs(c)
	rec.Extra("inputs", len(inputs))
	rec.MaxSamples = 14
	fam := map[string]int{}
	for _, in := range inputs {
		fam[in.family]++
	}
	rec.Extra("input_families", fam)
	dir, err := os.MkdirTemp("", "verif-c06-")
	if err != nil {
		rec.HarnessError("C06: " + err.Error())
		return
	}
	defer os.RemoveAll(dir)
	self, err := os.Executable()
	if err != nil {
		rec.HarnessError("C06: " + err.Error())
		return
	}
	nb := c.Workers
	var wg sync.WaitGroup
	var mu sync.Mutex
	total := c06summary{Calls: map[string]int64{}, Accepted: map[string]int64{}, Followups: map[string]int64{}}
	var confirmed atomic.Int64
	stallLimit := 30 * time.Second
	aloneLimit := 120 * time.Second
	if v, err := time.ParseDuration(os.Getenv("VERIF_C06_STALL")); err == nil && v > 0 {
		// only used to exercise the watchdog itself quickly
		stallLimit, aloneLimit = v, 4*v
	}
	for b := 0; b < nb; b++ {
		lo, hi := b*len(inputs)/nb, (b+1)*len(inputs)/nb
		if lo == hi {
			continue
		}
		wg.Add(1)
		go func(b, lo, hi int) {
			defer wg.Done()
			batch := inputs[lo:hi]
			bpath := filepath.Join(dir, fmt.Sprintf("batch-%d.bin", b))
			if err := writeBatch(bpath, batch); err != nil {
				rec.HarnessError("C06: " + err.Error())
				return
			}
			start := 0
			for attempt := 0; start < len(batch) && attempt < 200; attempt++ {
				if confirmed.Load() >= 3 {
					// enough confirmed crashes/hangs: the verdict is settled, stop spending watchdog time
					return
				}
				cpath := filepath.Join(dir, fmt.Sprintf("cursor-%d-%d", b, attempt))
				opath := filepath.Join(dir, fmt.Sprintf("out-%d-%d.jsonl", b, attempt))
				status := c06runChild(self, c.Seed, bpath, cpath, opath, start, -1, stallLimit)
				c06collect(rec, opath, batch, &mu, &total)
				if status == "ok" {
					break
				}
				// crashed or stalled: the cursor names the suspect; confirm it alone
				sus := readCursor(cpath)
				if sus < start || sus >= len(batch) {
					rec.HarnessError(fmt.Sprintf("C06: child %s without a usable cursor (batch %d, start %d, cursor %d)", status, b, start, sus))
					return
				}
				rec.Event("suspect-rerun")
				c2 := filepath.Join(dir, fmt.Sprintf("cursor-%d-%d-alone", b, attempt))
				o2 := filepath.Join(dir, fmt.Sprintf("out-%d-%d-alone.jsonl", b, attempt))
				st2 := c06runChild(self, c.Seed, bpath, c2, o2, sus, sus, aloneLimit)
				c06collect(rec, o2, batch, &mu, &total)
				if st2 != "ok" {
					kind := "crash"
					if st2 == "stalled" {
						kind = "hang"
					}
					log, _ := os.ReadFile(o2 + ".stderr")
					confirmed.Add(1)
					rec.Violate(kind, fmt.Sprintf("%s/%x", batch[sus].family, truncate(batch[sus].data, 24)),
						fmt.Sprintf("child process %s on this input, twice (second time alone): %s", st2, firstLines(string(log), 25)),
						map[string]any{"family": batch[sus].family, "input": mon.FullHex(batch[sus].data)})
				} else {
					rec.Event("suspect-not-confirmed")
				}
				start = sus + 1
			}
		}(b, lo, hi)
	}
	wg.Wait()
	if c.Thorough && confirmed.Load() == 0 {
		runFuzzStage(c, 25000000)
	}
	mu.Lock()
	defer mu.Unlock()
	rec.Eval(int(total.Processed))
	for _, e := range c06entries {
		rec.EventN(e, int(total.Calls[e]))
		rec.EventN(e+":accepted", int(total.Accepted[e]))
	}
	for f, n := range total.Followups {
		rec.EventN("followup:"+f, int(n))
		rec.Class("followup/" + f)
	}
	for _, e := range c06entries {
		if total.Accepted[e] > 0 {
			rec.Class("accepted/" + e)
		}
		rec.Class("called/" + e)
		rec.Require(e+":accepted", 5)
	}
	for f := range fam {
		rec.Class("family/" + f)
	}
	if total.Processed < int64(len(inputs)) && confirmed.Load() == 0 {
		rec.Inconclusive(fmt.Sprintf("only %d of %d inputs were processed", total.Processed, len(inputs)))
	}
	seenFam := map[string]bool{}
	for _, in := range inputs {
		if !seenFam[in.family] && len(in.data) > 0 {
			seenFam[in.family] = true
			rec.Sample("input/"+in.family, map[string]any{"family": in.family, "input": hexs(in.data)})
		}
	}
}

func truncate(b []byte, n int) []byte {
	if len(b) > n {
		return b[:n]
	}
	return b
}

// c06runChild runs one child over batch[start..] (or only index `only`) and
// returns "ok", "crashed" or "stalled".
func c06runChild(self string, seed int64, bpath, cpath, opath string, start, only int, stall time.Duration) string {
	_ = os.WriteFile(cpath, make([]byte, 8), 0o644)
	cmd := exec.Command(self, "child", "c06", bpath, cpath, opath, strconv.Itoa(start), strconv.Itoa(only), strconv.FormatInt(seed, 10))
	errf, _ := os.Create(opath + ".stderr")
	cmd.Stdout = errf
	cmd.Stderr = errf
	cmd.Env = append(os.Environ(), "GOTRACEBACK=all")
	if err := cmd.Start(); err != nil {
		return "crashed"
	}
	done := make(chan error, 1)
	go func() { done <- cmd.Wait() }()
	last := -2
	lastChange := time.Now()
	tick := time.NewTicker(500 * time.Millisecond)
	defer tick.Stop()
	for {
		select {
		case err := <-done:
			errf.Close()
			if err != nil {
				return "crashed"
			}
			return "ok"
		case <-tick.C:
			cur := readCursor(cpath)
			if cur != last {
				last, lastChange = cur, time.Now()
			} else if time.Since(lastChange) > stall {
				_ = cmd.Process.Signal(syscall.SIGQUIT)
				select {
				case <-done:
				case <-time.After(10 * time.Second):
					_ = cmd.Process.Kill()
					<-done
				}
				errf.Close()
				return "stalled"
			}
		}
	}
}

func c06collect(rec *mon.Recorder, opath string, batch []c06input, mu *sync.Mutex, total *c06summary) {
	f, err := os.Open(opath)
	if err != nil {
		return
	}
	defer f.Close()
	sc := bufio.NewScanner(f)
	sc.Buffer(make([]byte, 1<<20), 1<<24)
	for sc.Scan() {
		var l c06line
		if json.Unmarshal(sc.Bytes(), &l) != nil {
			continue
		}
		if l.Summary != nil {
			mu.Lock()
			total.Processed += l.Summary.Processed
			for k, v := range l.Summary.Calls {
				total.Calls[k] += v
			}
			for k, v := range l.Summary.Accepted {
				total.Accepted[k] += v
			}
			for k, v := range l.Summary.Followups {
				total.Followups[k] += v
			}
			mu.Unlock()
			continue
		}
		if l.Panic != "" && l.Index >= 0 && l.Index < len(batch) {
			in := batch[l.Index]
			rec.Violate("panic", l.Entry+"/"+firstLines(l.Panic, 1), "recovered panic in "+l.Entry+": "+l.Panic+"\n"+firstLines(l.Stack, 18),
				map[string]any{"entry": l.Entry, "family": in.family, "input": mon.FullHex(in.data)})
		}
	}
}

// ------------------------------------------------------------------ child --

func c06child(args []string) int {
	if len(args) < 6 {
		return 3
	}
	batch, err := readBatch(args[0])
	if err != nil {
		fmt.Println("child: ", err)
		return 3
	}
	cur, err := os.OpenFile(args[1], os.O_WRONLY, 0o644)
	if err != nil {
		return 3
	}
	outf, err := os.OpenFile(args[2], os.O_CREATE|os.O_WRONLY|os.O_APPEND, 0o644)
	if err != nil {
		return 3
	}
	out := bufio.NewWriter(outf)
	start, _ := strconv.Atoi(args[3])
	only, _ := strconv.Atoi(args[4])
	seed, _ := strconv.ParseInt(args[5], 10, 64)
	keys, err := gen.NewKeyRing(mon.NewRand(uint64(seed)).Sub(1))
	if err != nil {
		fmt.Println("child: key ring:", err)
		return 3
	}
	sum := &c06summary{Calls: map[string]int64{}, Accepted: map[string]int64{}, Followups: map[string]int64{}}
	env := &c06env{keys: keys, sum: sum}
	var cb [8]byte
	end := len(batch)
	if only >= 0 {
		start, end = only, only+1
	}
	for i := start; i < end; i++ {
		binary.LittleEndian.PutUint64(cb[:], uint64(i))
		cur.WriteAt(cb[:], 0)
		for _, e := range c06entries {
			entry := e
			env.cur = entry
			p, v, st := mon.Try(func() { env.run(entry, batch[i]) })
			if p {
				b, _ := json.Marshal(c06line{Index: i, Entry: env.cur, Panic: fmt.Sprint(v), Stack: st})
				out.Write(b)
				out.WriteByte('\n')
				out.Flush()
			}
		}
		sum.Processed++
	}
	b, _ := json.Marshal(c06line{Index: -1, Summary: sum})
	out.Write(b)
	out.WriteByte('\n')
	out.Flush()
	outf.Close()
	return 0
}

type c06env struct {
	customAlg int
	keys      *gen.KeyRing
	sum       *c06summary
	cur       string // entry point / follow-up currently running (for attribution)
}

func (e *c06env) fu(name string) {
	e.sum.Followups[name]++
	e.cur = name
}

func (e *c06env) verifierFor(h cose.ProtectedHeader) cose.Verifier {
	if a, err := h.Algorithm(); err == nil {
		if k, ok := e.keys.By[a]; ok {
			return k.Verifier
		}
		// an algorithm the library has no implementation for: the application brings its own verifier.
		// Every other time it is one that also offers the digest entry point.
		e.customAlg++
		if e.customAlg%2 == 0 {
			return &mon.SpyDigestVerifier{SpyVerifier: mon.SpyVerifier{Alg: a, Err: cose.ErrVerification}}
		}
		return &mon.SpyVerifier{Alg: a, Err: cose.ErrVerification}
	}
	return e.keys.Keys[0].Verifier
}

var c06ext = [][]byte{nil, []byte("external")}

func (e *c06env) countersigsIn(u cose.UnprotectedHeader, parent any) {
	for _, label := range []int64{7, 11} {
		v, ok := u[label]
		if !ok {
			continue
		}
		var list []*cose.Countersignature
		switch x := v.(type) {
		case *cose.Countersignature:
			list = []*cose.Countersignature{x}
		case []*cose.Countersignature:
			list = x
		}
		for _, cs := range list {
			e.fu("nested.Countersignature.MarshalCBOR")
			_, _ = cs.MarshalCBOR()
			for _, ext := range c06ext {
				e.fu("nested.Countersignature.Verify")
				var ph cose.ProtectedHeader
				if cs != nil {
					ph = cs.Headers.Protected
				}
				_ = cs.Verify(e.verifierFor(ph), parent, ext)
			}
			if cs != nil {
				e.countersigsIn(cs.Headers.Unprotected, cs)
			}
		}
	}
}

func (e *c06env) asParent(parent any) {
	k := e.keys.Keys[0]
	for _, ext := range c06ext {
		e.fu("Countersignature.Sign(over decoded value)")
		cs := &cose.Countersignature{Headers: cose.Headers{Protected: cose.ProtectedHeader{int64(1): k.Alg}}}
		if err := cs.Sign(gen.Entropy, k.Signer, parent, ext); err == nil {
			e.fu("Countersignature.Verify(over decoded value)")
			_ = cs.Verify(k.Verifier, parent, ext)
		}
		e.fu("Countersign0(over decoded value)")
		if sig, err := cose.Countersign0(gen.Entropy, k.Signer, parent, ext); err == nil {
			e.fu("VerifyCountersign0(over decoded value)")
			_ = cose.VerifyCountersign0(k.Verifier, parent, ext, sig)
		}
	}
}

func (e *c06env) headerAccessors(h cose.ProtectedHeader) {
	e.fu("ProtectedHeader.Algorithm")
	_, _ = h.Algorithm()
	e.fu("ProtectedHeader.Critical")
	_, _ = h.Critical()
	e.fu("ProtectedHeader.PayloadHashAlgorithm")
	_, _ = h.PayloadHashAlgorithm()
}

func (e *c06env) run(entry string, b []byte) {
	e.sum.Calls[entry]++
	switch entry {
	case "Sign1Message", "UntaggedSign1Message":
		var m cose.Sign1Message
		var err error
		if entry == "Sign1Message" {
			err = m.UnmarshalCBOR(b)
		} else {
			err = (*cose.UntaggedSign1Message)(&m).UnmarshalCBOR(b)
		}
		if err != nil {
			return
		}
		e.sum.Accepted[entry]++
		e.fu(entry + ".MarshalCBOR")
		if entry == "Sign1Message" {
			_, _ = m.MarshalCBOR()
		} else {
			_, _ = (*cose.UntaggedSign1Message)(&m).MarshalCBOR()
		}
		for _, ext := range c06ext {
			e.fu(entry + ".Verify")
			_ = m.Verify(ext, e.verifierFor(m.Headers.Protected))
			_ = m.Verify(ext, e.keys.Keys[3].Verifier)
		}
		e.headerAccessors(m.Headers.Protected)
		e.asParent(&m)
		e.asParent(m)
		e.countersigsIn(m.Headers.Unprotected, &m)
		// re-sign after clearing the signature
		e.fu(entry + ".Sign(after clearing signature)")
		m2 := m
		m2.Signature = nil
		_ = m2.Sign(gen.Entropy, nil, e.keys.Keys[0].Signer)
	case "SignMessage":
		var m cose.SignMessage
		if m.UnmarshalCBOR(b) != nil {
			return
		}
		e.sum.Accepted[entry]++
		e.fu("SignMessage.MarshalCBOR")
		_, _ = m.MarshalCBOR()
		vs := make([]cose.Verifier, len(m.Signatures))
		for i, s := range m.Signatures {
			vs[i] = e.verifierFor(s.Headers.Protected)
		}
		for _, ext := range c06ext {
			e.fu("SignMessage.Verify")
			_ = m.Verify(ext, vs...)
			_ = m.Verify(ext)
			_ = m.Verify(ext, vs[:len(vs)-1]...)
		}
		bp, _ := m.Headers.MarshalProtected()
		for i, s := range m.Signatures {
			e.fu("Signature.Verify(from decoded COSE_Sign)")
			_ = s.Verify(vs[i], bp, m.Payload, nil)
			e.fu("Signature.MarshalCBOR(from decoded COSE_Sign)")
			_, _ = s.MarshalCBOR()
			e.headerAccessors(s.Headers.Protected)
			e.asParent(s)
			e.countersigsIn(s.Headers.Unprotected, s)
		}
		e.headerAccessors(m.Headers.Protected)
		e.asParent(&m)
		e.asParent(m)
		e.countersigsIn(m.Headers.Unprotected, &m)
	case "Signature":
		var s cose.Signature
		if s.UnmarshalCBOR(b) != nil {
			return
		}
		e.sum.Accepted[entry]++
		e.fu("Signature.MarshalCBOR")
		_, _ = s.MarshalCBOR()
		for _, ext := range c06ext {
			e.fu("Signature.Verify")
			_ = s.Verify(e.verifierFor(s.Headers.Protected), []byte{0x40}, []byte("payload"), ext)
			_ = s.Verify(e.verifierFor(s.Headers.Protected), nil, []byte("payload"), ext)
			_ = s.Verify(e.verifierFor(s.Headers.Protected), []byte{0x5f, 0xff}, nil, ext)
		}
		e.headerAccessors(s.Headers.Protected)
		e.asParent(&s)
		e.asParent(s)
		e.countersigsIn(s.Headers.Unprotected, &s)
	case "Countersignature":
		var s cose.Countersignature
		if s.UnmarshalCBOR(b) != nil {
			return
		}
		e.sum.Accepted[entry]++
		e.fu("Countersignature.MarshalCBOR")
		_, _ = s.MarshalCBOR()
		parent := &cose.Sign1Message{Headers: cose.Headers{Protected: cose.ProtectedHeader{int64(1): cose.AlgorithmES256}}, Payload: []byte("p"), Signature: []byte{1}}
		for _, ext := range c06ext {
			e.fu("Countersignature.Verify")
			_ = s.Verify(e.verifierFor(s.Headers.Protected), parent, ext)
			_ = s.Verify(e.verifierFor(s.Headers.Protected), *parent, ext)
			_ = s.Verify(e.verifierFor(s.Headers.Protected), nil, ext)
		}
		e.headerAccessors(s.Headers.Protected)
		e.asParent(&s)
		e.asParent(s)
		e.countersigsIn(s.Headers.Unprotected, &s)
	case "ProtectedHeader":
		var h cose.ProtectedHeader
		if h.UnmarshalCBOR(b) != nil {
			return
		}
		e.sum.Accepted[entry]++
		e.fu("ProtectedHeader.MarshalCBOR")
		_, _ = h.MarshalCBOR()
		e.headerAccessors(h)
	case "UnprotectedHeader":
		var h cose.UnprotectedHeader
		if h.UnmarshalCBOR(b) != nil {
			return
		}
		e.sum.Accepted[entry]++
		e.fu("UnprotectedHeader.MarshalCBOR")
		_, _ = h.MarshalCBOR()
		parent := &cose.Sign1Message{Headers: cose.Headers{Protected: cose.ProtectedHeader{int64(1): cose.AlgorithmES256}}, Payload: []byte("p"), Signature: []byte{1}}
		e.countersigsIn(h, parent)
	case "Key":
		var k cose.Key
		if k.UnmarshalCBOR(b) != nil {
			return
		}
		e.sum.Accepted[entry]++
		e.fu("Key.MarshalCBOR")
		_, _ = k.MarshalCBOR()
		e.fu("Key.PublicKey")
		_, _ = k.PublicKey()
		e.fu("Key.PrivateKey")
		_, _ = k.PrivateKey()
		e.fu("Key.AlgorithmOrDefault")
		_, _ = k.AlgorithmOrDefault()
		e.fu("Key.accessors")
		k.EC2()
		k.OKP()
		k.Symmetric()
		for _, l := range []any{int64(-99999), "no such label", int(-1), uint8(3), 1.5, nil} {
			k.ParamBytes(l)
			k.ParamInt(l)
			k.ParamUint(l)
			k.ParamString(l)
			k.ParamBool(l)
		}
		for l := range k.Params {
			k.ParamBytes(l)
			k.ParamInt(l)
			k.ParamUint(l)
			k.ParamString(l)
			k.ParamBool(l)
		}
		msg := []byte("message")
		var sig []byte
		e.fu("Key.Signer")
		if s, err := k.Signer(); err == nil {
			e.fu("Key.Signer.Sign")
			s.Algorithm()
			sig, _ = s.Sign(gen.Entropy, msg)
		}
		e.fu("Key.Verifier")
		if v, err := k.Verifier(); err == nil {
			e.fu("Key.Verifier.Verify")
			v.Algorithm()
			_ = v.Verify(msg, sig)
			_ = v.Verify(msg, make([]byte, 64))
			// a whole message under this verifier
			m := &cose.Sign1Message{Headers: cose.Headers{Protected: cose.ProtectedHeader{int64(1): v.Algorithm()}}, Payload: msg, Signature: make([]byte, 64)}
			_ = m.Verify(nil, v)
		}
	case "VerifyHashEnvelope":
		e.cur = "VerifyHashEnvelope"
		for _, k := range []*gen.AlgKey{e.keys.Keys[0], e.keys.Keys[3]} {
			if m, err := cose.VerifyHashEnvelope(k.Verifier, b); err == nil && m != nil {
				e.sum.Accepted[entry]++
			}
		}
		// acceptance needs a valid signature: count decodable envelopes that reached the rule check
		var probe cose.Sign1Message
		if probe.UnmarshalCBOR(b) == nil {
			e.sum.Accepted[entry]++
			if a, err := probe.Headers.Protected.Algorithm(); err == nil {
				// a verifier of the message's own algorithm that accepts: everything behind the signature
				// check (the envelope rules, the digest-length rule) runs on the hostile values
				if m, err := cose.VerifyHashEnvelope(&mon.SpyVerifier{Alg: a}, b); err == nil && m != nil {
					_, _ = m.MarshalCBOR()
					for _, l := range []int64{258, 259, 260} {
						_ = fmt.Sprint(m.Headers.Protected[l])
					}
				}
				if k, ok := e.keys.By[a]; ok {
					_, _ = cose.VerifyHashEnvelope(k.Verifier, b)
				}
			}
		}
	}
}
