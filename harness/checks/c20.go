package checks

import (
	"context"
	"crypto"
	"errors"
	"fmt"
	"io"

	cose "github.com/veraison/go-cose"

	"verif/harness/gen"
	"verif/harness/mon"
	"verif/harness/refcbor"
)

// C20 - a failing signer or entropy source never yields a usable or
// half-signed message. Monitors: return values and message state after each
// fault vector; refcbor parse of any bytes emitted.

func init() {
	register(&Check{
		ID:    "C20",
		Level: "fault_enumeration",
		Rule: "every assignment of {ok, error, error-with-bytes, empty signature (nil), empty signature (zero-length), error of a Temporary()/Timeout() type, wrapped context.DeadlineExceeded, io.EOF with half a signature} to each key call of Sign1Message.Sign, Sign1, UntaggedSign1Message.Sign, Sign1Untagged, Signature.Sign, Countersignature.Sign, Countersign0, SignHashEnvelope (1 call each) and SignMessage.Sign with n = 1..4 signers (8^n vectors), with spy signers; " +
			"every assignment of {ok, ErrVerification, other error} to each verifier call of Sign1/Untagged/Signature/Countersignature/VerifyCountersign0/VerifyHashEnvelope and SignMessage.Verify n = 1..4 (4^n with a panicking verifier as fourth outcome, plain and digest-capable verifiers); " +
			"real built-in signers of all 7 algorithms with entropy readers failing after 0/1/8/31/64 bytes, EOF, and one-byte-at-a-time readers. Distinct = (entry point, fault vector). Thorough repeats the grid over random header content.",
		Assume: []string{"Countersign0 returns a bare signature, not a message: an empty signature from a misbehaving signer is not judged there", "go1.23 standard library honours the caller's entropy reader for ECDSA and RSA-PSS"},
		Run:    runC20,
	})
}

const (
	fOK = iota
	fErr
	fErrBytes
	fEmptyNil
	fEmptyZero
	fErrTemporary // an error whose type has Temporary()/Timeout() = true (the shape of net and context errors)
	fErrDeadline  // context.DeadlineExceeded wrapped with %w
	fErrBytesEOF  // io.EOF together with bytes (a half-written result)
	nSignFaults
)

// temporaryErr looks like a transient transport error; it wraps ErrInjected.
type temporaryErr struct{}

func (temporaryErr) Error() string   { return "injected temporary failure" }
func (temporaryErr) Temporary() bool { return true }
func (temporaryErr) Timeout() bool   { return true }
func (temporaryErr) Unwrap() error   { return mon.ErrInjected }

var errDeadline = fmt.Errorf("remote signer: %w", context.DeadlineExceeded)

// failingFault reports whether fault f makes the signer return an error, and which.
func failingFault(f int) (bool, error) {
	switch f {
	case fErr, fErrBytes:
		return true, mon.ErrInjected
	case fErrTemporary:
		return true, temporaryErr{}
	case fErrDeadline:
		return true, errDeadline
	case fErrBytesEOF:
		return true, io.EOF
	}
	return false, nil
}

var faultNames = []string{"ok", "err", "err+bytes", "empty-nil", "empty-zero", "err-temporary", "err-deadline", "eof+bytes"}

func faultSigner(alg cose.Algorithm, f int) *mon.SpySigner {
	s := &mon.SpySigner{Alg: alg}
	switch f {
	case fErr:
		s.Err = mon.ErrInjected
	case fErrBytes:
		s.Err = mon.ErrInjected
		s.Out = append([]byte{}, mon.FixedSig...)
	case fEmptyZero:
		s.Out = []byte{}
	case fErrTemporary, fErrDeadline:
		_, s.Err = failingFault(f)
	case fErrBytesEOF:
		s.Err = io.EOF
		s.Out = append([]byte{}, mon.FixedSig[:len(mon.FixedSig)/2]...)
	}
	return s
}

// nilSigner returns (nil, nil): an empty signature without error.
type nilSigner struct {
	alg   cose.Algorithm
	calls int
}

func (n *nilSigner) Algorithm() cose.Algorithm { return n.alg }
func (n *nilSigner) Sign(io.Reader, []byte) ([]byte, error) {
	n.calls++
	return nil, nil
}

// c20alsoVerifier makes mkSigner return signers that implement cose.Verifier as well (a key object
// serving both roles); the C20 workload runs sequentially, so a package variable is enough.
var c20alsoVerifier bool

// signerVerifier is a signer whose type also offers Verify (and accepts everything).
type signerVerifier struct{ cose.Signer }

func (signerVerifier) Verify(content, signature []byte) error { return nil }

func mkSigner(alg cose.Algorithm, f int) cose.Signer {
	var s cose.Signer
	if f == fEmptyNil {
		s = &nilSigner{alg: alg}
	} else {
		s = faultSigner(alg, f)
	}
	if c20alsoVerifier {
		return signerVerifier{s}
	}
	return s
}

// noEmptySig parses emitted bytes and reports whether any signature bstr in
// the envelope (top level) is empty.
func noEmptySig(b []byte) (ok bool, why string) {
	n, err := refcbor.Parse(b)
	if err != nil {
		return false, "emitted bytes are not CBOR: " + err.Error()
	}
	if n.Major == refcbor.Tag {
		n = n.Kids[0]
	}
	if n.Major != refcbor.Array {
		return false, "emitted item is not an array"
	}
	last := n.Kids[len(n.Kids)-1]
	switch last.Major {
	case refcbor.Bstr:
		if len(last.Str) == 0 {
			return false, "empty signature emitted"
		}
	case refcbor.Array:
		if len(last.Kids) == 0 {
			return false, "no signatures emitted"
		}
		for _, g := range last.Kids {
			if g.Major != refcbor.Array || len(g.Kids) != 3 || g.Kids[2].Major != refcbor.Bstr || len(g.Kids[2].Str) == 0 {
				return false, "empty signature emitted in COSE_Sign"
			}
		}
	default:
		return false, "signature position holds neither bstr nor array"
	}
	return true, ""
}

func runC20(c *Ctx) {
	rec := c.Rec
	rounds := 1
	if c.Thorough {
		rounds = 60
	}
	alg := cose.AlgorithmES256
	for round := 0; round < rounds; round++ {
		r := mon.NewRand(uint64(c.Seed)).Sub(uint64(71000 + round))
		// header shapes of the single-call entry points (round 0; the random headers of the later rounds get the
		// retained-unprotected-bytes shape only): every fault meets headers with and without retained raw bytes,
		// with and without alg, with nil maps
		shape := "plain"
		mkHeaders := func() cose.Headers {
			if round == 0 {
				h := cose.Headers{Protected: cose.ProtectedHeader{int64(1): alg}, Unprotected: cose.UnprotectedHeader{int64(4): []byte("kid")}}
				switch shape {
				case "raw-unprotected":
					h.RawUnprotected = []byte{0xa1, 0x04, 0x43, 'k', 'i', 'd'}
				case "raw-unprotected-only":
					h.Unprotected = nil
					h.RawUnprotected = []byte{0xa1, 0x04, 0x43, 'k', 'i', 'd'}
				case "raw-both":
					h.RawProtected = []byte{0x43, 0xa1, 0x01, 0x26}
					h.RawUnprotected = []byte{0xa1, 0x04, 0x43, 'k', 'i', 'd'}
				case "raw-unprotected-empty-map":
					h.RawUnprotected = []byte{0xa0}
				case "no-alg":
					h.Protected = cose.ProtectedHeader{}
				case "nil-maps":
					h = cose.Headers{}
				}
				return h
			}
			h := c01headers(r, alg, 0, mon.Pick(r, 0, 3, 6), 0)
			for _, m := range []map[any]any{h.Protected, h.Unprotected} {
				for k := range m {
					if nl, ok := refNorm(k); ok && (nl == 3 || nl == 2) {
						delete(m, k)
					}
				}
			}
			if shape == "raw-unprotected" {
				if b, err := h.Unprotected.MarshalCBOR(); err == nil {
					h.RawUnprotected = b
				}
			}
			return h
		}
		payload := []byte("payload")
		ext := gen.External(r)
		parent := &cose.Sign1Message{Headers: cose.Headers{Protected: cose.ProtectedHeader{int64(1): alg}}, Payload: []byte("parent"), Signature: mon.FixedSig}

		// ---------- single-call signing entry points ----------
		// (every fault twice: with a plain signer and with a signer that is a Verifier as well)
		shapes := []string{"plain", "raw-unprotected"}
		if round == 0 {
			shapes = []string{"plain", "raw-unprotected", "raw-unprotected-only", "raw-both", "raw-unprotected-empty-map", "no-alg", "nil-maps"}
		}
		for _, sh := range shapes {
			shape = sh
			for ff := 0; ff < 2*nSignFaults; ff++ {
				f := ff % nSignFaults
				c20alsoVerifier = ff >= nSignFaults
				failing, wantErr := failingFault(f)
				empty := f == fEmptyNil || f == fEmptyZero
				type result struct {
					err     error
					bytes   []byte // bytes returned by a helper (nil for methods)
					stored  []byte // signature stored in the object (methods)
					marshal func() ([]byte, error)
					helper  bool
					bare    bool // returns a bare signature (Countersign0)
				}
				entries := map[string]func() result{
					"Sign1Message.Sign": func() result {
						m := &cose.Sign1Message{Headers: mkHeaders(), Payload: payload}
						err := m.Sign(gen.Entropy, ext, mkSigner(alg, f))
						return result{err: err, stored: m.Signature, marshal: m.MarshalCBOR}
					},
					"UntaggedSign1Message.Sign": func() result {
						m := &cose.UntaggedSign1Message{Headers: mkHeaders(), Payload: payload}
						err := m.Sign(gen.Entropy, ext, mkSigner(alg, f))
						return result{err: err, stored: m.Signature, marshal: m.MarshalCBOR}
					},
					"Sign1": func() result {
						b, err := cose.Sign1(gen.Entropy, mkSigner(alg, f), mkHeaders(), payload, ext)
						return result{err: err, bytes: b, helper: true}
					},
					"Sign1Untagged": func() result {
						b, err := cose.Sign1Untagged(gen.Entropy, mkSigner(alg, f), mkHeaders(), payload, ext)
						return result{err: err, bytes: b, helper: true}
					},
					"Signature.Sign": func() result {
						s := &cose.Signature{Headers: mkHeaders()}
						err := s.Sign(gen.Entropy, mkSigner(alg, f), []byte{0x40}, payload, ext)
						return result{err: err, stored: s.Signature, marshal: s.MarshalCBOR}
					},
					"Countersignature.Sign": func() result {
						s := &cose.Countersignature{Headers: mkHeaders()}
						err := s.Sign(gen.Entropy, mkSigner(alg, f), parent, ext)
						return result{err: err, stored: s.Signature, marshal: s.MarshalCBOR}
					},
					"Countersign0": func() result {
						b, err := cose.Countersign0(gen.Entropy, mkSigner(alg, f), parent, ext)
						return result{err: err, bytes: b, helper: true, bare: true}
					},
					"SignHashEnvelope": func() result {
						b, err := cose.SignHashEnvelope(gen.Entropy, mkSigner(alg, f), mkHeaders(), cose.HashEnvelopePayload{HashAlgorithm: cose.AlgorithmSHA256, HashValue: make([]byte, 32)})
						return result{err: err, bytes: b, helper: true}
					},
				}
				for name, run := range entries {
					in := map[string]any{"entry": name, "fault": faultNames[f], "round": round, "external": ext, "headers": shape}
					var res result
					if guard(rec, name, in, func() { res = run() }) {
						continue
					}
					rec.Eval(1)
					rec.Event(name)
					key := name + "/" + faultNames[f]
					if shape != "plain" {
						key += "/headers=" + shape
					}
					if c20alsoVerifier {
						key += "/signer-is-also-a-verifier"
					}
					rec.Class(key)
					if failing {
						if res.err == nil {
							rec.Violate("error-lost", key, "the signer failed but the signing call returned nil", in)
							continue
						}
						if !errors.Is(res.err, wantErr) {
							rec.Violate("error-replaced", key, "the signing call did not return the signer's error: "+res.err.Error(), in)
						}
						if len(res.bytes) > 0 {
							rec.Violate("bytes-with-error", key, fmt.Sprintf("the signing call returned %d bytes together with an error", len(res.bytes)), in)
						}
						if len(res.stored) > 0 {
							rec.Violate("signature-stored-on-error", key, "a signature was stored although the signer failed", in)
						}
						if res.marshal != nil {
							if b, e := res.marshal(); e == nil {
								rec.Violate("half-signed-serialised", key, "the object serialises although its signer failed: "+hexs(b), in)
							}
						}
						continue
					}
					if empty {
						// Sign may report success, but nothing with an empty signature may be emitted
						if res.helper && !res.bare {
							if res.err == nil || len(res.bytes) > 0 {
								rec.Violate("empty-signature-emitted", key, fmt.Sprintf("helper returned err=%v and %d bytes for a signer that produced an empty signature: %s", res.err, len(res.bytes), hexs(res.bytes)), in)
							}
						}
						if res.marshal != nil {
							if b, e := res.marshal(); e == nil {
								rec.Violate("empty-signature-emitted", key, "encoder emitted a message with an empty signature: "+hexs(b), in)
							}
						}
						continue
					}
					// fault-free: must succeed and emit a complete message
					if res.err != nil {
						rec.Violate("ok-vector-failed", key, "fault-free signing failed: "+res.err.Error(), in)
						continue
					}
					out := res.bytes
					if res.marshal != nil {
						var e error
						if out, e = res.marshal(); e != nil {
							rec.Violate("ok-vector-failed", key, "fully signed object does not serialise: "+e.Error(), in)
							continue
						}
					}
					if !res.bare {
						if ok, why := noEmptySig(out); !ok {
							rec.Violate("empty-signature-emitted", key, why+": "+hexs(out), in)
						}
					} else if len(out) == 0 {
						rec.Violate("ok-vector-failed", key, "Countersign0 returned no signature", in)
					}
				}
			}
		}
		shape = "plain"

		c20alsoVerifier = false
		// ---------- SignMessage.Sign, n = 1..4: 5^n vectors ----------
		for n := 1; n <= 4; n++ {
			total := 1
			for j := 0; j < n; j++ {
				total *= nSignFaults
			}
			for v := 0; v < total; v++ {
				vec := make([]int, n)
				x := v
				name := ""
				for j := 0; j < n; j++ {
					vec[j] = x % nSignFaults
					x /= nSignFaults
					name += faultNames[vec[j]] + ","
				}
				m := &cose.SignMessage{Headers: cose.Headers{Protected: cose.ProtectedHeader{}, Unprotected: cose.UnprotectedHeader{}}, Payload: payload}
				signers := make([]cose.Signer, n)
				for j := 0; j < n; j++ {
					m.Signatures = append(m.Signatures, &cose.Signature{Headers: mkHeaders()})
					signers[j] = mkSigner(alg, vec[j])
				}
				in := map[string]any{"entry": "SignMessage.Sign", "n": n, "vector": name, "round": round}
				var err error
				if guard(rec, "SignMessage.Sign", in, func() { err = m.Sign(gen.Entropy, ext, signers...) }) {
					continue
				}
				rec.Eval(1)
				rec.Event("SignMessage.Sign")
				key := fmt.Sprintf("SignMessage.Sign/n=%d/%s", n, name)
				rec.Class(key)
				if round == 0 && v%211 == 17 {
					st := []string{}
					for _, sg := range m.Signatures {
						st = append(st, fmt.Sprintf("%d bytes", len(sg.Signature)))
					}
					rec.Sample(key, map[string]any{"vector": name, "sign_error": errStr(err), "slots_after_call": st})
				}
				first := -1
				anyEmpty := false
				var firstWant error
				for j, f := range vec {
					if fails, want := failingFault(f); first < 0 && fails {
						first, firstWant = j, want
					}
					if first < 0 && (f == fEmptyNil || f == fEmptyZero) {
						anyEmpty = true
					}
				}
				out, merr := m.MarshalCBOR()
				if first >= 0 {
					if err == nil {
						rec.Violate("error-lost", key, fmt.Sprintf("signer %d failed but Sign returned nil", first), in)
						continue
					}
					if !errors.Is(err, firstWant) {
						rec.Violate("error-replaced", key, "Sign did not return the signer's error: "+err.Error(), in)
					}
					if len(m.Signatures[first].Signature) > 0 {
						rec.Violate("signature-stored-on-error", key, fmt.Sprintf("slot %d holds a signature although its signer failed", first), in)
					}
					if merr == nil {
						rec.Violate("half-signed-serialised", key, "half-signed COSE_Sign serialises: "+hexs(out), in)
					}
					continue
				}
				if anyEmpty {
					if merr == nil {
						rec.Violate("empty-signature-emitted", key, "COSE_Sign with an empty signature serialises: "+hexs(out), in)
					}
					continue
				}
				if err != nil || merr != nil {
					rec.Violate("ok-vector-failed", key, fmt.Sprintf("fault-free signing failed: sign=%v marshal=%v", err, merr), in)
					continue
				}
				if ok, why := noEmptySig(out); !ok {
					rec.Violate("empty-signature-emitted", key, why, in)
				}
			}
		}

		// ---------- verifier faults ----------
		errOther := errors.New("verifier backend unavailable")
		// (besides plain failures: errors that WRAP the sentinels the library itself interprets - a verifier
		//  backend may well report "algorithm not supported" or an EOF of its own)
		vfaults := []error{nil, cose.ErrVerification, errOther, fmt.Errorf("backend: %w", cose.ErrAlgorithmNotSupported), fmt.Errorf("backend: %w", cose.ErrAlgorithmMismatch),
			fmt.Errorf("backend: %w", cose.ErrEmptySignature), fmt.Errorf("backend: %w", cose.ErrMissingPayload), fmt.Errorf("backend: %w", cose.ErrAlgorithmNotFound), io.EOF}
		vnames := []string{"ok", "ErrVerification", "other-error", "wraps-ErrAlgorithmNotSupported", "wraps-ErrAlgorithmMismatch", "wraps-ErrEmptySignature", "wraps-ErrMissingPayload", "wraps-ErrAlgorithmNotFound", "EOF"}
		hashEnv := func() []byte {
			wm := &gen.WSign1{L: gen.WLayer{ProtMap: refcbor.NMap(refcbor.NInt(1), refcbor.NInt(int64(alg)), refcbor.NInt(258), refcbor.NInt(-16))}, Payload: make([]byte, 32), Sig: mon.FixedSig, Tagged: true}
			return wm.Bytes()
		}()
		// (hash algorithms the library has no digest size for: SHA-256/64, SHA-512/256, SHA-1, SHAKE128, SHAKE256, unassigned)
		hashEnvUnknown := func() []byte {
			wm := &gen.WSign1{L: gen.WLayer{ProtMap: refcbor.NMap(refcbor.NInt(1), refcbor.NInt(int64(alg)), refcbor.NInt(258), refcbor.NInt([]int64{-15, -17, -14, -18, -45, -100}[round%6]))}, Payload: make([]byte, 20), Sig: mon.FixedSig, Tagged: true}
			return wm.Bytes()
		}()
		for f, fe := range vfaults {
			ventries := map[string]func(v cose.Verifier) error{
				"Sign1Message.Verify": func(v cose.Verifier) error {
					return (&cose.Sign1Message{Headers: mkHeaders(), Payload: payload, Signature: mon.FixedSig}).Verify(ext, v)
				},
				"UntaggedSign1Message.Verify": func(v cose.Verifier) error {
					return (&cose.UntaggedSign1Message{Headers: mkHeaders(), Payload: payload, Signature: mon.FixedSig}).Verify(ext, v)
				},
				"Signature.Verify": func(v cose.Verifier) error {
					return (&cose.Signature{Headers: mkHeaders(), Signature: mon.FixedSig}).Verify(v, []byte{0x40}, payload, ext)
				},
				"Countersignature.Verify": func(v cose.Verifier) error {
					return (&cose.Countersignature{Headers: mkHeaders(), Signature: mon.FixedSig}).Verify(v, parent, ext)
				},
				"VerifyCountersign0": func(v cose.Verifier) error { return cose.VerifyCountersign0(v, parent, ext, mon.FixedSig) },
				"VerifyHashEnvelope(unknown hash alg)": func(v cose.Verifier) error {
					m, err := cose.VerifyHashEnvelope(v, hashEnvUnknown)
					if err == nil && m == nil {
						return errors.New("nil message without error")
					}
					if err != nil && m != nil {
						return fmt.Errorf("message returned together with error: %w", err)
					}
					return err
				},
				"VerifyHashEnvelope": func(v cose.Verifier) error {
					m, err := cose.VerifyHashEnvelope(v, hashEnv)
					if err == nil && m == nil {
						return errors.New("nil message without error")
					}
					if err != nil && m != nil {
						return fmt.Errorf("message returned together with error: %w", err)
					}
					return err
				},
			}
			for name, run := range ventries {
				in := map[string]any{"entry": name, "fault": vnames[f], "round": round}
				spy := &mon.SpyVerifier{Alg: alg, Err: fe}
				var err error
				if guard(rec, name, in, func() { err = run(spy) }) {
					continue
				}
				rec.Eval(1)
				rec.Event(name)
				key := name + "/" + vnames[f]
				rec.Class(key)
				if spy.Calls != 1 {
					rec.Violate("verifier-not-consulted", key, fmt.Sprintf("verifier called %d times", spy.Calls), in)
					continue
				}
				if fe == nil && err != nil {
					rec.Violate("ok-vector-failed", key, "verifier accepted but the call failed: "+err.Error(), in)
				}
				if fe != nil && (err == nil || !errors.Is(err, fe)) {
					rec.Violate("verifier-error-lost", key, fmt.Sprintf("verifier returned %q, the call returned %v", fe, err), in)
				}
				if f == 0 {
					// a verifier that crashes: the panic reaches the caller or becomes an error, never success
					for _, dc := range []bool{false, true} {
						var pv cose.Verifier = &mon.SpyVerifier{Alg: alg, Panic: "verifier backend crashed"}
						if dc {
							pv = &mon.SpyDigestVerifier{SpyVerifier: mon.SpyVerifier{Alg: alg, Panic: "verifier backend crashed"}}
						}
						var perr error
						panicked, _, _ := mon.Try(func() { perr = run(pv) })
						rec.Eval(1)
						rec.Class(fmt.Sprintf("%s/panic/digest=%v/propagated=%v", name, dc, panicked))
						if !panicked && perr == nil {
							rec.Violate("verifier-error-lost", name+"/panic", "the verifier panicked and the call returned nil", in)
						}
					}
				}
			}
		}
		// (4^n vectors: ok, ErrVerification, other error, panic; with plain verifiers and with verifiers that
		//  also offer VerifyDigest; in round 0 all slots carry byte-identical protected headers)
		for _, digestCapable := range []bool{false, true} {
			for n := 1; n <= 4; n++ {
				K := len(vfaults) + 1 // every verifier fault, plus a panic
				if n == 4 {
					K = 4 // (n = 4 keeps to ok / ErrVerification / other / panic: 9^4 adds nothing over 9^3)
				}
				total := 1
				for j := 0; j < n; j++ {
					total *= K
				}
				for v := 0; v < total; v++ {
					m := &cose.SignMessage{Headers: cose.Headers{Protected: cose.ProtectedHeader{}, Unprotected: cose.UnprotectedHeader{}}, Payload: payload}
					vs := make([]cose.Verifier, n)
					x := v
					name := ""
					firstBad := -1 // index into vfaults, K-1 = panic
					for j := 0; j < n; j++ {
						f := x % K
						x /= K
						m.Signatures = append(m.Signatures, &cose.Signature{Headers: mkHeaders(), Signature: mon.FixedSig})
						sv := mon.SpyVerifier{Alg: alg}
						if f < K-1 {
							sv.Err = vfaults[f]
							name += vnames[f] + ","
						} else {
							sv.Panic = "verifier backend crashed"
							name += "panic,"
						}
						if digestCapable {
							vs[j] = &mon.SpyDigestVerifier{SpyVerifier: sv}
						} else {
							vs[j] = &sv
						}
						if firstBad < 0 && f != 0 {
							firstBad = f
						}
					}
					in := map[string]any{"entry": "SignMessage.Verify", "n": n, "vector": name, "round": round, "digest_capable_verifiers": digestCapable}
					var err error
					panicked, _, _ := mon.Try(func() { err = m.Verify(ext, vs...) })
					rec.Eval(1)
					rec.Event("SignMessage.Verify")
					key := fmt.Sprintf("SignMessage.Verify/n=%d/digest=%v/%s", n, digestCapable, name)
					rec.Class(key)
					switch {
					case firstBad < 0:
						if err != nil || panicked {
							rec.Violate("ok-vector-failed", key, fmt.Sprintf("all verifiers accepted but Verify failed: %v (panicked=%v)", err, panicked), in)
						}
					case firstBad == K-1:
						if !panicked && err == nil {
							rec.Violate("verifier-error-lost", key, "a verifier panicked and Verify returned nil", in)
						}
					default:
						if panicked {
							rec.Event("SignMessage.Verify:later-panic-reached") // verifiers after a failing one were still consulted: not judged
						} else {
							injected := false
							for _, fe := range vfaults[1:] {
								if err != nil && errors.Is(err, fe) {
									injected = true
								}
							}
							if err == nil || !injected {
								rec.Violate("verifier-error-lost", key, fmt.Sprintf("a verifier failed, Verify returned %v", err), in)
							}
						}
					}
				}
			}
		}

		// ---------- real signers with failing entropy ----------
		type rf struct {
			name    string
			after   int
			oneByte bool
			err     error
			once    bool
			partial bool
		}
		readers := []rf{{"never", -1, false, nil, false, false}, {"fail@0", 0, false, nil, false, false}, {"fail@1", 1, false, nil, false, false}, {"fail@8", 8, false, nil, false, false}, {"fail@31", 31, false, nil, false, false}, {"fail@64", 64, false, nil, false, false}, {"EOF@0", 0, false, io.EOF, false, false}, {"one-byte-reads", -1, true, nil, false, false}, {"one-byte-reads-fail@8", 8, true, nil, false, false},
			// a glitch: one call returns a few bytes TOGETHER with an error, every later call works again
			{"bytes+error@4-once", 4, false, nil, true, true}, {"bytes+error@20-once", 20, false, nil, true, true}, {"bytes+EOF@9-once", 9, false, io.ErrUnexpectedEOF, true, true}, {"error@6-once", 6, false, nil, true, false}}
		for _, k := range c.Keys.Keys {
			for _, rd := range readers {
				for _, entry := range []string{"Sign1Message.Sign", "Sign1", "SignMessage.Sign(n=2)", "Countersignature.Sign", "Countersign0", "SignHashEnvelope", "via-crypto.Signer"} {
					fr := &mon.FaultReader{Src: gen.Entropy, After: rd.after, OneByte: rd.oneByte, Err: rd.err, Once: rd.once, Partial: rd.partial}
					in := map[string]any{"entry": entry, "alg": k.Name, "reader": rd.name, "round": round}
					key := fmt.Sprintf("entropy/%s/%s/%s", entry, k.Name, rd.name)
					h := cose.Headers{Protected: cose.ProtectedHeader{int64(1): k.Alg}, Unprotected: cose.UnprotectedHeader{}}
					signer := k.Signer
					var err error
					var out []byte
					var verify func() error
					var stored func() []byte
					var marshal func() ([]byte, error)
					if guard(rec, key, in, func() {
						switch entry {
						case "via-crypto.Signer":
							// generic crypto.Signer path (ASN.1 conversion for ECDSA)
							s2, e := cose.NewSigner(k.Alg, wrapCrypto{k.Priv})
							if e != nil {
								err = e
								return
							}
							m := &cose.Sign1Message{Headers: h, Payload: payload}
							err = m.Sign(fr, nil, s2)
							stored = func() []byte { return m.Signature }
							marshal = m.MarshalCBOR
							verify = func() error { return m.Verify(nil, k.Verifier) }
						case "Sign1Message.Sign":
							m := &cose.Sign1Message{Headers: h, Payload: payload}
							err = m.Sign(fr, nil, signer)
							stored = func() []byte { return m.Signature }
							marshal = m.MarshalCBOR
							verify = func() error { return m.Verify(nil, k.Verifier) }
						case "Sign1":
							out, err = cose.Sign1(fr, signer, h, payload, nil)
							verify = func() error {
								var d cose.Sign1Message
								if e := d.UnmarshalCBOR(out); e != nil {
									return e
								}
								return d.Verify(nil, k.Verifier)
							}
						case "SignMessage.Sign(n=2)":
							m := &cose.SignMessage{Headers: cose.Headers{Protected: cose.ProtectedHeader{}, Unprotected: cose.UnprotectedHeader{}}, Payload: payload}
							m.Signatures = []*cose.Signature{{Headers: h}, {Headers: cose.Headers{Protected: cose.ProtectedHeader{int64(1): k.Alg, int64(4): []byte("2")}}}}
							err = m.Sign(fr, nil, signer, signer)
							stored = func() []byte {
								// the slot after the last filled one
								for _, s := range m.Signatures {
									if len(s.Signature) == 0 {
										return nil
									}
								}
								return m.Signatures[1].Signature
							}
							marshal = m.MarshalCBOR
							verify = func() error { return m.Verify(nil, k.Verifier, k.Verifier) }
						case "Countersignature.Sign":
							cs := &cose.Countersignature{Headers: h}
							err = cs.Sign(fr, signer, parent, nil)
							stored = func() []byte { return cs.Signature }
							marshal = cs.MarshalCBOR
							verify = func() error { return cs.Verify(k.Verifier, parent, nil) }
						case "Countersign0":
							out, err = cose.Countersign0(fr, signer, parent, nil)
							verify = func() error { return cose.VerifyCountersign0(k.Verifier, parent, nil, out) }
						case "SignHashEnvelope":
							out, err = cose.SignHashEnvelope(fr, signer, h, cose.HashEnvelopePayload{HashAlgorithm: cose.AlgorithmSHA256, HashValue: make([]byte, 32)})
							verify = func() error { _, e := cose.VerifyHashEnvelope(k.Verifier, out); return e }
						}
					}) {
						continue
					}
					rec.Eval(1)
					rec.Event("entropy-fault-cases")
					consulted := fr.Calls > 0
					rec.Class(fmt.Sprintf("%s/consulted=%v/err=%v", key, consulted, err != nil))
					if round == 0 && rec.Events("entropy-fault-cases")%90 == 11 {
						rec.Sample(key, map[string]any{"entry": entry, "alg": k.Name, "reader": rd.name, "reader_calls": fr.Calls, "bytes_delivered": fr.Read_, "sign_error": errStr(err), "bytes_returned": len(out)})
					}
					if consulted {
						rec.Event("entropy-reader-consulted")
					}
					if err != nil {
						rec.Event("entropy-fault-surfaced")
						if len(out) > 0 {
							rec.Violate("bytes-with-error", key, "bytes returned together with an error", in)
						}
						if stored != nil && len(stored()) > 0 && entry != "SignMessage.Sign(n=2)" {
							rec.Violate("signature-stored-on-error", key, "a signature was stored although signing failed", in)
						}
						if marshal != nil {
							if b, e := marshal(); e == nil {
								rec.Violate("half-signed-serialised", key, "object serialises after a failed signing: "+hexs(b), in)
							}
						}
						continue
					}
					// signing reported success: an entropy failure answered to a multi-byte read is one the
					// standard library's signing primitives report (io.ReadFull); it must not have been lost
					if fr.FailedLen > 1 {
						rec.Violate("error-lost", key, fmt.Sprintf("the entropy source answered a %d-byte read with an error (after %d bytes) and the signing call returned nil", fr.FailedLen, fr.Read_), in)
						continue
					}
					// the result must be complete and valid
					if marshal != nil {
						b, e := marshal()
						if e != nil {
							rec.Violate("ok-vector-failed", key, "signed object does not serialise: "+e.Error(), in)
							continue
						}
						if ok, why := noEmptySig(b); !ok {
							rec.Violate("empty-signature-emitted", key, why, in)
						}
					}
					if e := verify(); e != nil {
						rec.Violate("invalid-signature-after-entropy-fault", key, "signing reported success under entropy reader "+rd.name+" but the result does not verify: "+e.Error(), in)
					}
				}
			}
		}

	}
	rec.Exhaustive = true
	// ---------- built-in signers over an opaque crypto.Signer (HSM / KMS shim) that misbehaves ----------
	{
		kr := c.Keys
		behaviours := []struct {
			name string
			out  []byte
			err  error
		}{
			{"empty-nil", nil, nil}, {"empty-zero", []byte{}, nil}, {"error", nil, mon.ErrInjected}, {"error+bytes", mon.FixedSig, mon.ErrInjected},
			{"error-temporary", nil, temporaryErr{}}, {"eof+bytes", mon.FixedSig[:7], io.EOF}, {"panic", nil, errPanicMarker},
		}
		parent := &cose.Sign1Message{Headers: cose.Headers{Protected: cose.ProtectedHeader{int64(1): cose.AlgorithmES256}}, Payload: []byte("parent"), Signature: mon.FixedSig}
		for _, k := range kr.Keys {
			for _, bh := range behaviours {
				op := &opaqueSigner{pub: k.Pub, out: bh.out, err: bh.err}
				signer, nerr := cose.NewSigner(k.Alg, op)
				if nerr != nil {
					rec.Violate("opaque-signer", "NewSigner/"+k.Name, "NewSigner refused an opaque crypto.Signer with a matching public key: "+nerr.Error(), nil)
					continue
				}
				hd := func() cose.Headers {
					return cose.Headers{Protected: cose.ProtectedHeader{int64(1): k.Alg}, Unprotected: cose.UnprotectedHeader{}}
				}
				type res struct {
					err    error
					bytes  []byte
					stored []byte
					emit   func() ([]byte, error)
				}
				entries := map[string]func() res{
					"Sign1Message.Sign": func() res {
						m := &cose.Sign1Message{Headers: hd(), Payload: []byte("p")}
						e := m.Sign(gen.Entropy, nil, signer)
						return res{err: e, stored: m.Signature, emit: m.MarshalCBOR}
					},
					"Sign1": func() res {
						b, e := cose.Sign1(gen.Entropy, signer, hd(), []byte("p"), nil)
						return res{err: e, bytes: b}
					},
					"SignMessage.Sign": func() res {
						m := &cose.SignMessage{Headers: cose.Headers{Protected: cose.ProtectedHeader{}, Unprotected: cose.UnprotectedHeader{}}, Payload: []byte("p"), Signatures: []*cose.Signature{{Headers: hd()}}}
						e := m.Sign(gen.Entropy, nil, signer)
						return res{err: e, stored: m.Signatures[0].Signature, emit: m.MarshalCBOR}
					},
					"Countersignature.Sign": func() res {
						cs := &cose.Countersignature{Headers: hd()}
						e := cs.Sign(gen.Entropy, signer, parent, nil)
						return res{err: e, stored: cs.Signature, emit: cs.MarshalCBOR}
					},
					"SignHashEnvelope": func() res {
						b, e := cose.SignHashEnvelope(gen.Entropy, signer, hd(), cose.HashEnvelopePayload{HashAlgorithm: cose.AlgorithmSHA256, HashValue: make([]byte, 32)})
						return res{err: e, bytes: b}
					},
				}
				for name, run := range entries {
					key := fmt.Sprintf("opaque-signer/%s/%s/%s", k.Name, bh.name, name)
					in := map[string]any{"cell": key}
					var r res
					if bh.err == errPanicMarker {
						// a key that crashes: the panic reaches the caller or becomes an error; never success
						panicked, _, _ := mon.Try(func() { r = run() })
						rec.Eval(1)
						rec.Event("opaque-signer-cases")
						rec.Class(fmt.Sprintf("%s/propagated=%v", key, panicked))
						if !panicked && r.err == nil {
							rec.Violate("error-lost", key, "the opaque key panicked and the signing call returned nil", in)
						}
						if !panicked && r.err != nil && (len(r.bytes) > 0 || len(r.stored) > 0) {
							rec.Violate("bytes-with-error", key, "the signing call failed but left signature bytes", in)
						}
						continue
					}
					if guard(rec, name, in, func() { r = run() }) {
						continue
					}
					rec.Eval(1)
					rec.Event("opaque-signer-cases")
					rec.Class(key)
					if r.err == nil {
						if bh.err != nil {
							rec.Violate("error-lost", key, fmt.Sprintf("the opaque key returned (%d bytes, %v) and the signing call returned nil", len(bh.out), bh.err), in)
							continue
						}
						// an empty signature without error: a method may return nil, but nothing with an empty (or
						// made-up) signature may be returned by a helper or emitted by an encoder
						if len(r.bytes) > 0 {
							rec.Violate("empty-signature-emitted", key, "a Sign helper returned a message although the key produced an empty signature: "+hexs(r.bytes), in)
						}
						if len(r.stored) > 0 {
							rec.Violate("empty-signature-emitted", key, fmt.Sprintf("the key produced an empty signature but %d signature bytes were stored", len(r.stored)), in)
						}
						if r.emit != nil {
							if out, e := r.emit(); e == nil {
								rec.Violate("empty-signature-emitted", key, "an object signed with an empty signature serialises: "+hexs(out), in)
							}
						}
						continue
					}
					if len(r.bytes) > 0 || len(r.stored) > 0 {
						rec.Violate("bytes-with-error", key, fmt.Sprintf("the signing call failed but left %d returned / %d stored signature bytes", len(r.bytes), len(r.stored)), in)
					}
					if r.emit != nil {
						if out, e := r.emit(); e == nil {
							rec.Violate("half-signed-serialised", key, "an object whose signing failed serialises: "+hexs(out), in)
						}
					}
				}
			}
		}
	}
	// ---------- a signer that succeeds although something around it hiccupped ----------
	// (a DER-shaped result from an application signer is just bytes to the library; an entropy source that
	// fails once while the signer carries on is the signer's business): the call is a clean success, or a
	// clean failure that stores and emits nothing - never an error together with a stored signature
	{
		derLike := []byte{0x30, 0x44, 0x02, 0x20}
		derLike = append(derLike, bytesOf(0x11, 32)...)
		derLike = append(derLike, 0x02, 0x20)
		derLike = append(derLike, bytesOf(0x22, 32)...)
		type variant struct {
			name   string
			signer func() cose.Signer
			rand   func() io.Reader
			// what the signer's Sign method does decides the outcome (the library asks nothing else of it)
			mustFail, mustSucceed bool
		}
		variants := []variant{
			{"der-shaped-output", func() cose.Signer { return &mon.SpySigner{Alg: alg, Out: derLike} }, func() io.Reader { return gen.Entropy }, false, false},
			{"der-shaped-output/ES384", func() cose.Signer { return &mon.SpySigner{Alg: cose.AlgorithmES384, Out: derLike} }, func() io.Reader { return gen.Entropy }, false, false},
			{"entropy-fails-once/best-effort-signer", func() cose.Signer { return &mon.SpySigner{Alg: alg, ReadN: 8, BestEffortRand: true} }, func() io.Reader { return &mon.FaultReader{Src: gen.Entropy, After: 0, Once: true} }, false, false},
			{"entropy-fails-once-after-4/best-effort-signer", func() cose.Signer { return &mon.SpySigner{Alg: alg, ReadN: 16, BestEffortRand: true} }, func() io.Reader { return &mon.FaultReader{Src: gen.Entropy, After: 4, Once: true} }, false, false},
			{"entropy-always-fails/best-effort-signer", func() cose.Signer { return &mon.SpySigner{Alg: alg, ReadN: 8, BestEffortRand: true} }, func() io.Reader { return &mon.FaultReader{Src: gen.Entropy, After: 0} }, false, false},
			// signers that also have a SignDigest method which behaves differently from Sign
			{"sign-fails/sign-digest-would-work", func() cose.Signer {
				return &twoFacedSigner{SpySigner: mon.SpySigner{Alg: alg, Err: mon.ErrInjected}, digestOut: bytesOf(0x33, 64)}
			}, func() io.Reader { return gen.Entropy }, true, false},
			{"sign-works/sign-digest-fails", func() cose.Signer {
				return &twoFacedSigner{SpySigner: mon.SpySigner{Alg: alg}, digestErr: mon.ErrInjected}
			}, func() io.Reader { return gen.Entropy }, false, true},
			{"sign-works/sign-digest-panics", func() cose.Signer {
				return &twoFacedSigner{SpySigner: mon.SpySigner{Alg: alg}, digestPanics: true}
			}, func() io.Reader { return gen.Entropy }, false, true},
		}
		parent := &cose.Sign1Message{Headers: cose.Headers{Protected: cose.ProtectedHeader{int64(1): alg}}, Payload: []byte("parent"), Signature: mon.FixedSig}
		for _, v := range variants {
			sg := v.signer()
			hd := func() cose.Headers {
				return cose.Headers{Protected: cose.ProtectedHeader{int64(1): sg.Algorithm()}, Unprotected: cose.UnprotectedHeader{}}
			}
			type res struct {
				err    error
				bytes  []byte
				stored []byte
				emit   func() ([]byte, error)
			}
			entries := map[string]func() res{
				"Sign1Message.Sign": func() res {
					m := &cose.Sign1Message{Headers: hd(), Payload: []byte("p")}
					e := m.Sign(v.rand(), nil, sg)
					return res{err: e, stored: m.Signature, emit: m.MarshalCBOR}
				},
				"Sign1": func() res {
					b, e := cose.Sign1(v.rand(), sg, hd(), []byte("p"), nil)
					return res{err: e, bytes: b}
				},
				"Signature.Sign": func() res {
					s := &cose.Signature{Headers: hd()}
					e := s.Sign(v.rand(), sg, []byte{0x40}, []byte("p"), nil)
					return res{err: e, stored: s.Signature, emit: s.MarshalCBOR}
				},
				"SignMessage.Sign": func() res {
					m := &cose.SignMessage{Headers: cose.Headers{Protected: cose.ProtectedHeader{}, Unprotected: cose.UnprotectedHeader{}}, Payload: []byte("p"), Signatures: []*cose.Signature{{Headers: hd()}}}
					e := m.Sign(v.rand(), nil, sg)
					return res{err: e, stored: m.Signatures[0].Signature, emit: m.MarshalCBOR}
				},
				"Countersignature.Sign": func() res {
					cs := &cose.Countersignature{Headers: hd()}
					e := cs.Sign(v.rand(), sg, parent, nil)
					return res{err: e, stored: cs.Signature, emit: cs.MarshalCBOR}
				},
				"Countersign0": func() res {
					b, e := cose.Countersign0(v.rand(), sg, parent, nil)
					return res{err: e, bytes: b}
				},
				"SignHashEnvelope": func() res {
					b, e := cose.SignHashEnvelope(v.rand(), sg, hd(), cose.HashEnvelopePayload{HashAlgorithm: cose.AlgorithmSHA256, HashValue: make([]byte, 32)})
					return res{err: e, bytes: b}
				},
			}
			for name, run := range entries {
				key := "succeeding-signer/" + v.name + "/" + name
				in := map[string]any{"cell": key}
				var r res
				if guard(rec, name, in, func() { r = run() }) {
					continue
				}
				rec.Eval(1)
				rec.Event("succeeding-signer-cases")
				rec.Class(fmt.Sprintf("%s/ok=%v", key, r.err == nil))
				if v.mustFail && r.err == nil {
					rec.Violate("error-lost", key, fmt.Sprintf("the signer's Sign failed, yet the call succeeded (stored %s, returned %s)", hexs(r.stored), hexs(r.bytes)), in)
					continue
				}
				if v.mustSucceed && r.err != nil {
					rec.Violate("ok-vector-failed", key, "the signer's Sign works, yet the call failed: "+r.err.Error(), in)
					continue
				}
				if r.err == nil {
					if r.emit != nil {
						if _, e := r.emit(); e != nil {
							rec.Violate("ok-vector-failed", key, "signing succeeded but the object does not serialise: "+e.Error(), in)
						}
					}
					continue
				}
				if len(r.bytes) > 0 || len(r.stored) > 0 {
					rec.Violate("signature-stored-on-error", key, fmt.Sprintf("the call returned %v together with %d returned / %d stored signature bytes", r.err, len(r.bytes), len(r.stored)), in)
				}
				if r.emit != nil {
					if out, e := r.emit(); e == nil {
						rec.Violate("half-signed-serialised", key, "the call failed but the object serialises: "+hexs(out), in)
					}
				}
			}
		}
	}
	// ---------- signing an object that already holds a signature ----------
	// the call fails and keeps the old signature, or it succeeds and holds exactly what the new signer
	// returned: never a mixture, never an empty slot
	{
		old := append([]byte{}, mon.FixedSig...)
		fresh := []byte("a-new-signature-of-another-length")
		parent := &cose.Sign1Message{Headers: cose.Headers{Protected: cose.ProtectedHeader{int64(1): alg}}, Payload: []byte("parent"), Signature: mon.FixedSig}
		hd := func() cose.Headers {
			return cose.Headers{Protected: cose.ProtectedHeader{int64(1): alg}, Unprotected: cose.UnprotectedHeader{}}
		}
		for _, f := range []int{fOK, fErr, fErrBytes, fEmptyNil} {
			type again struct {
				name string
				run  func(sg cose.Signer) (error, []byte)
			}
			for _, a := range []again{
				{"Sign1Message.Sign", func(sg cose.Signer) (error, []byte) {
					m := &cose.Sign1Message{Headers: hd(), Payload: []byte("p"), Signature: append([]byte{}, old...)}
					e := m.Sign(gen.Entropy, nil, sg)
					return e, m.Signature
				}},
				{"Signature.Sign", func(sg cose.Signer) (error, []byte) {
					m := &cose.Signature{Headers: hd(), Signature: append([]byte{}, old...)}
					e := m.Sign(gen.Entropy, sg, []byte{0x40}, []byte("p"), nil)
					return e, m.Signature
				}},
				{"Countersignature.Sign", func(sg cose.Signer) (error, []byte) {
					m := &cose.Countersignature{Headers: hd(), Signature: append([]byte{}, old...)}
					e := m.Sign(gen.Entropy, sg, parent, nil)
					return e, m.Signature
				}},
				{"SignMessage.Sign", func(sg cose.Signer) (error, []byte) {
					m := &cose.SignMessage{Headers: cose.Headers{Protected: cose.ProtectedHeader{}, Unprotected: cose.UnprotectedHeader{}}, Payload: []byte("p"), Signatures: []*cose.Signature{{Headers: hd(), Signature: append([]byte{}, old...)}}}
					e := m.Sign(gen.Entropy, nil, sg)
					return e, m.Signatures[0].Signature
				}},
			} {
				sg := mkSigner(alg, f)
				if sp, ok := sg.(*mon.SpySigner); ok && f == fOK {
					sp.Out = fresh
				}
				key := "sign-again/" + a.name + "/" + faultNames[f]
				in := map[string]any{"cell": key}
				var err error
				var stored []byte
				if guard(rec, a.name, in, func() { err, stored = a.run(sg) }) {
					continue
				}
				rec.Eval(1)
				rec.Event("sign-again-cases")
				rec.Class(fmt.Sprintf("%s/refused=%v", key, err != nil))
				switch {
				case err != nil && !eqBytes(stored, old):
					rec.Violate("signature-stored-on-error", key, fmt.Sprintf("signing again failed (%v) but the stored signature changed to %s", err, hexs(stored)), in)
				case err == nil && f == fOK && !eqBytes(stored, fresh):
					rec.Violate("signature-stored-on-error", key, "signing again succeeded but the slot does not hold the new signer's bytes: "+hexs(stored), in)
				case err == nil && f != fOK && !eqBytes(stored, old):
					rec.Violate("error-lost", key, fmt.Sprintf("the signer failed or returned nothing, the call returned nil and the slot now holds %s", hexs(stored)), in)
				}
			}
		}
	}
	// ---------- a received object, its signature cleared, signed again by a failing signer ----------
	// both header buckets still hold the bytes they were received with; the object must not serialise
	{
		a := int64(alg)
		for _, f := range []int{fErr, fErrBytes, fEmptyNil} {
			for k := 0; k < 12; k++ {
				r := mon.NewRand(uint64(c.Seed)).Sub(uint64(2040000 + k))
				l := gen.RandLayer(r, gen.LayerOpts{Alg: &a, MaxProt: 3, MaxUnprot: 3, ScramblePct: 50})
				if k%2 == 0 && len(l.Unprot.Kids) == 0 {
					l.Unprot = refcbor.NMap(refcbor.NInt(4), refcbor.NBstr([]byte("kid")))
				}
				parent := &cose.Sign1Message{Headers: cose.Headers{Protected: cose.ProtectedHeader{int64(1): alg}}, Payload: []byte("parent"), Signature: mon.FixedSig}
				type resign struct {
					name string
					run  func(sg cose.Signer) (err error, stored []byte, emit func() ([]byte, error), ok bool)
				}
				for _, rs := range []resign{
					{"Sign1Message", func(sg cose.Signer) (error, []byte, func() ([]byte, error), bool) {
						var m cose.Sign1Message
						if m.UnmarshalCBOR((&gen.WSign1{L: l, Payload: []byte("p"), Sig: mon.FixedSig, Tagged: true}).Bytes()) != nil {
							return nil, nil, nil, false
						}
						m.Signature = nil
						e := m.Sign(gen.Entropy, nil, sg)
						return e, m.Signature, m.MarshalCBOR, true
					}},
					{"UntaggedSign1Message", func(sg cose.Signer) (error, []byte, func() ([]byte, error), bool) {
						var m cose.UntaggedSign1Message
						if m.UnmarshalCBOR((&gen.WSign1{L: l, Payload: []byte("p"), Sig: mon.FixedSig}).Bytes()) != nil {
							return nil, nil, nil, false
						}
						m.Signature = m.Signature[:0]
						e := m.Sign(gen.Entropy, nil, sg)
						return e, m.Signature, m.MarshalCBOR, true
					}},
					{"Signature", func(sg cose.Signer) (error, []byte, func() ([]byte, error), bool) {
						var m cose.Signature
						if m.UnmarshalCBOR((&gen.WSignature{L: l, Sig: mon.FixedSig}).Bytes()) != nil {
							return nil, nil, nil, false
						}
						m.Signature = nil
						e := m.Sign(gen.Entropy, sg, []byte{0x40}, []byte("p"), nil)
						return e, m.Signature, m.MarshalCBOR, true
					}},
					{"Countersignature", func(sg cose.Signer) (error, []byte, func() ([]byte, error), bool) {
						var m cose.Countersignature
						if m.UnmarshalCBOR((&gen.WSignature{L: l, Sig: mon.FixedSig}).Bytes()) != nil {
							return nil, nil, nil, false
						}
						m.Signature = []byte{}
						e := m.Sign(gen.Entropy, sg, parent, nil)
						return e, m.Signature, m.MarshalCBOR, true
					}},
					{"SignMessage", func(sg cose.Signer) (error, []byte, func() ([]byte, error), bool) {
						var m cose.SignMessage
						body := gen.RandLayer(r, gen.LayerOpts{MaxProt: 2, MaxUnprot: 2, ScramblePct: 50})
						if m.UnmarshalCBOR((&gen.WSign{L: body, Payload: []byte("p"), Sigs: []*gen.WSignature{{L: l, Sig: mon.FixedSig}}}).Bytes()) != nil {
							return nil, nil, nil, false
						}
						m.Signatures[0].Signature = nil
						e := m.Sign(gen.Entropy, nil, sg)
						return e, m.Signatures[0].Signature, m.MarshalCBOR, true
					}},
				} {
					sg := mkSigner(alg, f)
					key := "received-resigned/" + rs.name + "/" + faultNames[f]
					in := map[string]any{"cell": key, "case": k}
					var err error
					var stored []byte
					var emit func() ([]byte, error)
					var ok bool
					if guard(rec, rs.name+".Sign(received, cleared)", in, func() { err, stored, emit, ok = rs.run(sg) }) || !ok {
						continue
					}
					rec.Eval(1)
					rec.Event("received-resigned-cases")
					rec.Class(fmt.Sprintf("%s/refused=%v/unprot-empty=%v", key, err != nil, len(l.Unprot.Kids) == 0))
					if len(stored) > 0 {
						rec.Violate("signature-stored-on-error", key, fmt.Sprintf("the signer failed (call returned %v) and the slot holds %s", err, hexs(stored)), in)
						continue
					}
					var out []byte
					var merr error
					if guard(rec, rs.name+".MarshalCBOR(after failed signing)", in, func() { out, merr = emit() }) {
						continue
					}
					if merr == nil {
						rec.Violate("half-signed-serialised", key, "signing failed, yet the object serialises: "+hexs(out), in)
					}
				}
			}
		}
	}
	// ---------- SignHashEnvelope with a working signer and inputs something later in the call may object to ----------
	// (text that is not UTF-8, a nested map holding one key in two Go spellings, values no decoder would take
	// back): whatever is decided, the answer is bytes or an error, never both
	{
		type oddCase struct {
			name string
			h    cose.Headers
			p    cose.HashEnvelopePayload
		}
		base := func() cose.HashEnvelopePayload {
			return cose.HashEnvelopePayload{HashAlgorithm: cose.AlgorithmSHA256, HashValue: make([]byte, 32)}
		}
		with := func(f func(p *cose.HashEnvelopePayload)) cose.HashEnvelopePayload { p := base(); f(&p); return p }
		emptyH := func() cose.Headers {
			return cose.Headers{Protected: cose.ProtectedHeader{}, Unprotected: cose.UnprotectedHeader{}}
		}
		withU := func(k, v any) cose.Headers { h := emptyH(); h.Unprotected[k] = v; return h }
		withP := func(k, v any) cose.Headers { h := emptyH(); h.Protected[k] = v; return h }
		for _, oc := range []oddCase{
			{"location-not-utf8", emptyH(), with(func(p *cose.HashEnvelopePayload) { p.Location = "loc\xff\xfe" })},
			{"content-type-not-utf8", emptyH(), with(func(p *cose.HashEnvelopePayload) { p.PreimageContentType = "text/\xc3plain" })},
			{"text-value-not-utf8", withU(int64(99), "\xff"), base()},
			{"text-label-not-utf8", withU("\xfe", int64(1)), base()},
			{"protected-text-value-not-utf8", withP(int64(99), "a\xc0\xaf"), base()},
			{"nested-map-one-key-two-spellings", withU(int64(99), map[any]any{int64(1): "a", int(1): "b"}), base()},
			{"nested-map-in-protected-two-spellings", withP(int64(99), map[any]any{int8(2): 1, uint16(2): 2}), base()},
			{"value-uint64-above-int64", withU(int64(99), uint64(1)<<63), base()},
			{"nested-text-not-utf8", withU(int64(99), []any{"ok", "\xff"}), base()},
			{"hash-value-nil", emptyH(), with(func(p *cose.HashEnvelopePayload) { p.HashValue = nil })},
			{"kid-empty", withU(int64(4), []byte{}), base()},
		} {
			for _, f := range []int{fOK} {
				sg := mkSigner(alg, f)
				key := "hash-envelope-odd-input/" + oc.name
				in := map[string]any{"cell": key}
				var out []byte
				var err error
				if guard(rec, "SignHashEnvelope(odd input)", in, func() { out, err = cose.SignHashEnvelope(gen.Entropy, sg, oc.h, oc.p) }) {
					continue
				}
				rec.Eval(1)
				rec.Event("hash-envelope-odd-input-cases")
				rec.Class(fmt.Sprintf("%s/refused=%v", key, err != nil))
				if err != nil && len(out) > 0 {
					rec.Violate("bytes-with-error", key, fmt.Sprintf("SignHashEnvelope returned %d bytes together with the error %v", len(out), err), in)
				}
				if err == nil && len(out) == 0 {
					rec.Violate("error-lost", key, "SignHashEnvelope returned neither bytes nor an error", in)
				}
			}
		}
	}
	rec.Require("received-resigned-cases", 50)
	rec.Require("opaque-signer-cases", 100)
	rec.Require("entropy-fault-surfaced", 50)
	rec.Require("entropy-reader-consulted", 100)
	rec.RequireClasses(1000)
}

// wrapCrypto hides the concrete key type so NewSigner takes the generic path.
type wrapCrypto struct{ k cryptoSigner }

func (w wrapCrypto) Public() cryptoPublicKey { return w.k.Public() }
func (w wrapCrypto) Sign(r io.Reader, d []byte, o cryptoSignerOpts) ([]byte, error) {
	return w.k.Sign(r, d, o)
}

// opaqueSigner is a crypto.Signer that is none of the standard library's key types (the shape of an
// HSM or KMS shim) and answers with a fixed result.
type opaqueSigner struct {
	pub crypto.PublicKey
	out []byte
	err error
}

func (o *opaqueSigner) Public() crypto.PublicKey { return o.pub }
func (o *opaqueSigner) Sign(io.Reader, []byte, crypto.SignerOpts) ([]byte, error) {
	if o.err == errPanicMarker {
		panic("key backend crashed")
	}
	return o.out, o.err
}

var errPanicMarker = errors.New("panic marker")

// twoFacedSigner is a Signer that also offers SignDigest, with another behaviour than Sign.
type twoFacedSigner struct {
	mon.SpySigner
	digestOut    []byte
	digestErr    error
	digestPanics bool
}

func (t *twoFacedSigner) SignDigest(io.Reader, []byte) ([]byte, error) {
	if t.digestPanics {
		panic("SignDigest is not to be called")
	}
	return t.digestOut, t.digestErr
}
