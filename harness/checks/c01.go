package checks

import (
	"errors"
	"fmt"
	"verif/harness/refcbor"

	cose "github.com/veraison/go-cose"

	"verif/harness/gen"
	"verif/harness/mon"
	"verif/harness/refcrypto"
)

// C01 - sign => verify, in memory and after the wire, for every structure.
// Monitor: the chain of real API calls; oracle: each step's error.

func init() {
	register(&Check{
		ID:    "C01",
		Level: "exploration",
		Rule: "seeded chains sign -> verify -> marshal -> unmarshal -> verify -> detach -> re-attach -> verify over Sign1 (method, helper), Untagged (method, helper), COSE_Sign with 1..6 mixed-algorithm signers, " +
			"stand-alone Signature, full countersignatures over the 4 parent kinds (pointer/value, constructed / library-decoded / reference-encoded non-canonical parents), Countersign0, countersignatures carried in unprotected headers (single, list), hash envelopes; " +
			"all 7 algorithms incl. signers/verifiers obtained through COSE_Key; header maps 0..40 entries, protected size classes, payload boundary lengths, external nil/empty/non-empty, alg present/injected/absent+external. " +
			"Non-trivial = the chain reached its last Verify; distinct = (structure, parent kind, by-value, alg, protected size class, payload class, external class, decoded?, detached).",
		Assume: []string{"crypto/rand and the Go standard library primitives are sound"},
		Run:    runC01,
	})
}

type c01env struct {
	c   *Ctx
	rec *mon.Recorder
}

func payloadClass(n int) string {
	switch {
	case n == 0:
		return "0"
	case n < 24:
		return "1-23"
	case n < 256:
		return "24-255"
	case n < 65536:
		return "256-65535"
	}
	return ">=65536"
}

// pickSV returns signer and verifier of a key, sometimes the ones obtained
// through cose.Key.
func pickSV(r *mon.Rand, k *gen.AlgKey) (cose.Signer, cose.Verifier, string) {
	if k.KeySigner != nil && r.Intn(3) == 0 {
		return k.KeySigner, k.KeyVerifier, "viaKey"
	}
	return k.Signer, k.Verifier, "direct"
}

// headersFor draws a layer for a signer with algorithm alg; mode 0: alg in the
// protected header, 1: absent (injected when no external data), 2: absent and
// external data supplied.
func c01headers(r *mon.Rand, alg cose.Algorithm, mode int, maxEntries, fill int) cose.Headers {
	var ap *cose.Algorithm
	if mode == 0 {
		ap = &alg
	}
	prot, iv := gen.GoHeader(r, gen.HeaderOpts{Protected: true, MaxEntries: maxEntries, Alg: ap, AlgSpell: r.Intn(5), FillTo: fill}, false)
	unprot, _ := gen.GoHeader(r, gen.HeaderOpts{MaxEntries: maxEntries / 2}, iv != 0)
	// nil and empty maps are both "no parameters"
	if len(prot) == 0 && r.Bool() {
		prot = nil
	}
	if len(unprot) == 0 && r.Bool() {
		unprot = nil
	}
	return cose.Headers{Protected: prot, Unprotected: unprot}
}

func c01fill(r *mon.Rand, thorough bool) int {
	switch r.Intn(12) {
	case 0, 1:
		return 12 + r.Intn(8)
	case 2, 3:
		return 235 + r.Intn(20)
	case 4:
		if thorough || r.Intn(4) == 0 {
			return 65500 + r.Intn(40)
		}
	}
	return 0
}

func runC01(c *Ctx) {
	rec := c.Rec
	n := c.N(6000, 300000)
	mon.Parallel(c.Workers, n, func(w, i int) {
		r := mon.NewRand(uint64(c.Seed)).Sub(uint64(7000 + i))
		k := c.Keys.Pick(r)
		signer, verifier, via := pickSV(r, k)
		if i%23 == 5 {
			// hand-built / decoded COSE_Keys with every Algorithm field: whenever both a signer and a
			// verifier come out of the same key, they must work together
			if s2, v2, name, ok := c01keyVariant(r, c); ok {
				signer, verifier, via = s2, v2, name
				k = &gen.AlgKey{Alg: s2.Algorithm(), Name: s2.Algorithm().String()}
			}
		}
		if i%29 == 7 {
			if odd, err := gen.OddRSA(mon.Pick(r, cose.AlgorithmPS256, cose.AlgorithmPS384, cose.AlgorithmPS512)); err == nil {
				k = odd[r.Intn(2)]
				signer, verifier, via = k.Signer, k.Verifier, "odd-rsa-size"
			}
		}
		if i%31 == 9 && k.Priv != nil {
			// the same private key behind an opaque crypto.Signer (an HSM / KMS wrapper): the library's
			// generic path for that key family
			if ws, err := cose.NewSigner(k.Alg, refcrypto.WrapSigner{K: k.Priv}); err == nil {
				signer, verifier, via = ws, k.Verifier, "opaque-crypto.Signer"
			} else {
				rec.Violate("chain:new-signer", "opaque/"+k.Name, "NewSigner refused an opaque crypto.Signer over a matching key: "+err.Error(), map[string]any{"alg": k.Name})
			}
		}
		mode := r.Intn(3)
		ext := gen.External(r)
		if mode == 2 && len(ext) == 0 {
			ext = r.Bytes(1 + r.Intn(40))
		}
		maxEntries := mon.Pick(r, 0, 2, 5, 8, 40)
		h := c01headers(r, k.Alg, mode, maxEntries, c01fill(r, c.Thorough))
		payload := gen.Payload(r, c.Thorough || i%50 == 0)
		base := fmt.Sprintf("alg=%s/%s/mode=%d/payload=%s/ext=%s", k.Name, via, mode, payloadClass(len(payload)), gen.ExternalClass(ext))
		in := map[string]any{"case": i, "alg": k.Name, "via": via, "algmode": mode, "protected": describeHeader(h.Protected), "unprotected": describeHeader(h.Unprotected), "payload_len": len(payload), "external": ext}
		e := &c01env{c, rec}
		switch i % 10 {
		case 0, 1:
			e.sign1(r, in, base, h, payload, ext, signer, verifier, i%2 == 0, false)
		case 2:
			e.sign1(r, in, base, h, payload, ext, signer, verifier, r.Bool(), true)
		case 3, 4:
			e.signN(r, in, i, payload, ext)
		case 5, 6, 7:
			e.countersign(r, in, base, i, payload, ext, k, signer, verifier)
		case 8:
			e.hashEnvelope(r, in, base, h, k, signer, verifier)
		case 9:
			e.signatureAlone(r, in, base, h, payload, ext, signer, verifier)
		}
	})
	rec.Require("chain-complete", int64(n/4))
	rec.RequireClasses(150)
}

func (e *c01env) fail(step, cls string, err error, in map[string]any) {
	e.rec.Violate("chain:"+step, cls, fmt.Sprintf("step %q failed: %v", step, err), in)
}

// sign1 runs the COSE_Sign1 chain. helper selects the Sign1/Sign1Untagged helpers.
func (e *c01env) sign1(r *mon.Rand, in map[string]any, base string, h cose.Headers, payload, ext []byte, signer cose.Signer, verifier cose.Verifier, tagged, helper bool) {
	rec := e.rec
	kind := "sign1"
	if !tagged {
		kind = "untagged"
	}
	if helper {
		kind += "-helper"
	}
	in["structure"] = kind
	var wire []byte
	var err error
	msg := &cose.Sign1Message{Headers: h, Payload: payload}
	if !helper && c01useCtor(rec, in) {
		msg = cose.NewSign1Message()
		c01fillHeaders(&msg.Headers, h)
		msg.Payload = payload
	}
	if helper {
		if guard(rec, kind, in, func() {
			if tagged {
				wire, err = cose.Sign1(gen.Entropy, signer, h, payload, ext)
			} else {
				wire, err = cose.Sign1Untagged(gen.Entropy, signer, h, payload, ext)
			}
		}) {
			return
		}
		rec.Eval(1)
		rec.Event(kind)
		if err != nil {
			rec.Event("sign-refused")
			rec.Sample("sign-refused", map[string]any{"err": err.Error(), "in": in})
			return
		}
	} else {
		if guard(rec, kind+".Sign", in, func() { err = msg.Sign(gen.Entropy, ext, signer) }) {
			return
		}
		rec.Eval(1)
		rec.Event(kind + ".Sign")
		if err != nil {
			rec.Event("sign-refused")
			rec.Sample("sign-refused", map[string]any{"err": err.Error(), "in": in})
			return
		}
		if guard(rec, kind+".Verify", in, func() { err = msg.Verify(ext, verifier) }) {
			return
		}
		if err != nil {
			e.fail("verify-in-memory", kind, err, in)
			return
		}
		if guard(rec, kind+".MarshalCBOR", in, func() {
			if tagged {
				wire, err = msg.MarshalCBOR()
			} else {
				wire, err = (*cose.UntaggedSign1Message)(msg).MarshalCBOR()
			}
		}) {
			return
		}
		if err != nil {
			e.fail("marshal", kind, err, in)
			return
		}
	}
	in["wire"] = mon.FullHex(wire)
	var dec cose.Sign1Message
	if guard(rec, kind+".UnmarshalCBOR", in, func() {
		if tagged {
			err = dec.UnmarshalCBOR(wire)
		} else {
			err = (*cose.UntaggedSign1Message)(&dec).UnmarshalCBOR(wire)
		}
	}) {
		return
	}
	if err != nil {
		e.fail("unmarshal", kind, err, in)
		return
	}
	if guard(rec, kind+".Verify", in, func() { err = dec.Verify(ext, verifier) }) {
		return
	}
	if err != nil {
		e.fail("verify-after-wire", kind, err, in)
		return
	}
	// detached payload: send nil, verifier restores it
	det := dec
	det.Payload = nil
	var wire2 []byte
	if guard(rec, kind+".MarshalCBOR(detached)", in, func() {
		if tagged {
			wire2, err = det.MarshalCBOR()
		} else {
			wire2, err = (*cose.UntaggedSign1Message)(&det).MarshalCBOR()
		}
	}) {
		return
	}
	if err != nil {
		e.fail("marshal-detached", kind, err, in)
		return
	}
	var dec2 cose.Sign1Message
	if guard(rec, kind+".UnmarshalCBOR(detached)", in, func() {
		if tagged {
			err = dec2.UnmarshalCBOR(wire2)
		} else {
			err = (*cose.UntaggedSign1Message)(&dec2).UnmarshalCBOR(wire2)
		}
	}) {
		return
	}
	if err != nil {
		e.fail("unmarshal-detached", kind, err, in)
		return
	}
	if dec2.Payload != nil {
		e.fail("detached-payload-not-nil", kind, errors.New("payload sent as nil decoded as non-nil"), in)
		return
	}
	if verr := dec2.Verify(ext, verifier); !errors.Is(verr, cose.ErrMissingPayload) {
		e.fail("detached-verify-without-payload", kind, fmt.Errorf("want ErrMissingPayload, got %v", verr), in)
		return
	}
	dec2.Payload = payload
	if guard(rec, kind+".Verify(detached)", in, func() { err = dec2.Verify(ext, verifier) }) {
		return
	}
	if err != nil {
		e.fail("verify-detached", kind, err, in)
		return
	}
	content, _ := protContentOf(&dec.Headers)
	rec.Event("chain-complete")
	rec.Class(kind + "/" + base + "/size=" + gen.SizeClass(len(content)))
	rec.Sample(kind, map[string]any{"wire": hexs(wire), "alg": in["alg"], "external": ext})
}

// signN runs the COSE_Sign chain with 1..6 signers of mixed algorithms.
func (e *c01env) signN(r *mon.Rand, in map[string]any, i int, payload, ext []byte) {
	rec := e.rec
	n := 1 + (i/10)%6
	in["structure"] = fmt.Sprintf("sign-n%d", n)
	body := c01headers(r, 0, 1, mon.Pick(r, 0, 3, 8), c01fill(r, false))
	delete(body.Protected, int64(1))
	msg := &cose.SignMessage{Headers: body, Payload: payload}
	if c01useCtor(rec, in) {
		msg = cose.NewSignMessage()
		c01fillHeaders(&msg.Headers, body)
		msg.Payload = payload
	}
	signers := make([]cose.Signer, n)
	verifiers := make([]cose.Verifier, n)
	algs := ""
	for j := 0; j < n; j++ {
		k := e.c.Keys.Pick(r)
		s, v, _ := pickSV(r, k)
		signers[j], verifiers[j] = s, v
		mode := r.Intn(2)
		if len(ext) > 0 {
			mode = r.Intn(3)
		}
		msg.Signatures = append(msg.Signatures, &cose.Signature{Headers: c01headers(r, k.Alg, mode, mon.Pick(r, 0, 2, 6), mon.Pick(r, 0, 0, 14, 240))})
		algs += k.Name + ","
	}
	in["algs"] = algs
	if n >= 2 && (i/60)%4 == 1 {
		// one identity signing in several slots (its kid in each of them, in either bucket)
		for j, sg := range msg.Signatures {
			if sg.Headers.Unprotected == nil {
				sg.Headers.Unprotected = cose.UnprotectedHeader{}
			}
			if sg.Headers.Protected == nil {
				sg.Headers.Protected = cose.ProtectedHeader{}
			}
			for _, mm := range []map[any]any{sg.Headers.Unprotected, sg.Headers.Protected} {
				for key := range mm {
					if nl, ok := refNorm(key); ok && nl == 4 {
						delete(mm, key)
					}
				}
			}
			if (i/240+j)%2 == 0 {
				sg.Headers.Unprotected[int64(4)] = []byte("one-identity")
			} else {
				sg.Headers.Protected[int64(4)] = []byte("one-identity")
			}
		}
		rec.Event("same-kid-in-several-slots")
	}
	var err error
	if n >= 2 && (i/60)%4 == 2 {
		// a first attempt in which a later signer fails, then the caller corrects what is to be signed (other
		// payload, other external data) and signs again with working signers: if that second call reports
		// success, the message verifies like any other
		broken := append([]cose.Signer{}, signers...)
		at := 1 + (i/240)%(n-1)
		broken[at] = &mon.SpySigner{Alg: signers[at].Algorithm(), Err: mon.ErrInjected}
		var e1 error
		if guard(rec, "SignMessage.Sign(first attempt, a later signer fails)", in, func() { e1 = msg.Sign(gen.Entropy, ext, broken...) }) {
			return
		}
		if e1 == nil {
			e.fail("failing-signer-not-reported", "sign", nil, in)
			return
		}
		payload = append(append([]byte{}, payload...), []byte("-corrected")...)
		msg.Payload = payload
		if (i/240)%2 == 1 {
			ext = append(append([]byte{}, ext...), 'x')
		}
		in["second_attempt"] = true
		rec.Event("sign-retried-after-partial-failure")
	}
	if guard(rec, "SignMessage.Sign", in, func() { err = msg.Sign(gen.Entropy, ext, signers...) }) {
		return
	}
	rec.Eval(1)
	rec.Event("SignMessage.Sign")
	if err != nil {
		rec.Event("sign-refused")
		rec.Sample("sign-refused", map[string]any{"err": err.Error(), "in": in})
		return
	}
	kind := "sign"
	if guard(rec, "SignMessage.Verify", in, func() { err = msg.Verify(ext, verifiers...) }) {
		return
	}
	if err != nil {
		e.fail("verify-in-memory", kind, err, in)
		return
	}
	var wire []byte
	if guard(rec, "SignMessage.MarshalCBOR", in, func() { wire, err = msg.MarshalCBOR() }) {
		return
	}
	if err != nil {
		e.fail("marshal", kind, err, in)
		return
	}
	in["wire"] = mon.FullHex(wire)
	var dec cose.SignMessage
	if guard(rec, "SignMessage.UnmarshalCBOR", in, func() { err = dec.UnmarshalCBOR(wire) }) {
		return
	}
	if err != nil {
		e.fail("unmarshal", kind, err, in)
		return
	}
	if guard(rec, "SignMessage.Verify", in, func() { err = dec.Verify(ext, verifiers...) }) {
		return
	}
	if err != nil {
		e.fail("verify-after-wire", kind, err, in)
		return
	}
	det := dec
	det.Payload = nil
	var wire2 []byte
	if guard(rec, "SignMessage.MarshalCBOR(detached)", in, func() { wire2, err = det.MarshalCBOR() }) {
		return
	}
	if err != nil {
		e.fail("marshal-detached", kind, err, in)
		return
	}
	var dec2 cose.SignMessage
	if err = dec2.UnmarshalCBOR(wire2); err != nil {
		e.fail("unmarshal-detached", kind, err, in)
		return
	}
	dec2.Payload = payload
	if guard(rec, "SignMessage.Verify(detached)", in, func() { err = dec2.Verify(ext, verifiers...) }) {
		return
	}
	if err != nil {
		e.fail("verify-detached", kind, err, in)
		return
	}
	// each decoded Signature also verifies stand-alone against the decoded body
	bodyProt, _ := dec.Headers.MarshalProtected()
	for j, s := range dec.Signatures {
		if guard(rec, "Signature.Verify", in, func() { err = s.Verify(verifiers[j], bodyProt, payload, ext) }) {
			return
		}
		if err != nil {
			e.fail(fmt.Sprintf("signature-%d-verify-standalone", j), kind, err, in)
			return
		}
	}
	// the same message as a peer with another CBOR encoder would send it (a wider head on the body's
	// protected byte string; the signed content is unchanged): it verifies as a whole and signer by signer,
	// and a slot signed again through Signature.Sign with the received body bytes verifies through
	// SignMessage.Verify (the two API levels agree on what is signed)
	if t, perr := gen.ParseTree(wire); perr == nil && t.Root.Major == refcbor.Tag && len(t.Root.Kids[0].Kids) == 4 {
		bp := t.Root.Kids[0].Kids[0]
		bp.Width = refcbor.FitWidth(uint64(len(bp.Str)), mon.Pick(r, 2, 3, 5, 9))
		wide := t.Seal()
		var dw cose.SignMessage
		if err = dw.UnmarshalCBOR(wide); err != nil {
			e.fail("unmarshal-wide-body-head", kind, err, in)
			return
		}
		if guard(rec, "SignMessage.Verify(wide body head)", in, func() { err = dw.Verify(ext, verifiers...) }) {
			return
		}
		if err != nil {
			e.fail("verify-wide-body-head", kind, err, in)
			return
		}
		rawBody, _ := dw.Headers.MarshalProtected()
		for j, s := range dw.Signatures {
			if guard(rec, "Signature.Verify(wide body head)", in, func() { err = s.Verify(verifiers[j], rawBody, payload, ext) }) {
				return
			}
			if err != nil {
				e.fail(fmt.Sprintf("signature-%d-verify-standalone-wide-body-head", j), kind, err, in)
				return
			}
		}
		dw.Signatures[0].Signature = nil
		if guard(rec, "Signature.Sign(wide body head)", in, func() { err = dw.Signatures[0].Sign(gen.Entropy, signers[0], rawBody, payload, ext) }) {
			return
		}
		if err != nil {
			e.fail("signature-0-sign-again-standalone", kind, err, in)
			return
		}
		if guard(rec, "SignMessage.Verify(after stand-alone signing)", in, func() { err = dw.Verify(ext, verifiers...) }) {
			return
		}
		if err != nil {
			e.fail("verify-after-standalone-signing-wide-body-head", kind, err, in)
			return
		}
		rec.Event("wide-body-head-chains")
	}
	rec.Event("chain-complete")
	rec.Class(fmt.Sprintf("sign/n=%d/payload=%s/ext=%s/algs=%s", n, payloadClass(len(payload)), gen.ExternalClass(ext), algs))
	rec.Sample("sign", map[string]any{"wire": hexs(wire), "algs": algs})
}

// signatureAlone: Signature.Sign used stand-alone with a caller-supplied body.
func (e *c01env) signatureAlone(r *mon.Rand, in map[string]any, base string, h cose.Headers, payload, ext []byte, signer cose.Signer, verifier cose.Verifier) {
	rec := e.rec
	in["structure"] = "signature-standalone"
	bodyH := cose.Headers{Protected: cose.ProtectedHeader{int64(3): "a/b"}}
	if r.Bool() {
		bodyH.Protected = nil
	}
	bodyProt, err := bodyH.MarshalProtected()
	if err != nil {
		rec.HarnessError("C01: " + err.Error())
		return
	}
	sig := &cose.Signature{Headers: h}
	if c01useCtor(rec, in) {
		sig = cose.NewSignature()
		c01fillHeaders(&sig.Headers, h)
	}
	if guard(rec, "Signature.Sign", in, func() { err = sig.Sign(gen.Entropy, signer, bodyProt, payload, ext) }) {
		return
	}
	rec.Eval(1)
	rec.Event("Signature.Sign")
	if err != nil {
		rec.Event("sign-refused")
		rec.Sample("sign-refused", map[string]any{"err": err.Error(), "in": in})
		return
	}
	if err = sig.Verify(verifier, bodyProt, payload, ext); err != nil {
		e.fail("verify-in-memory", "signature", err, in)
		return
	}
	wire, err := sig.MarshalCBOR()
	if err != nil {
		e.fail("marshal", "signature", err, in)
		return
	}
	in["wire"] = mon.FullHex(wire)
	var dec cose.Signature
	if guard(rec, "Signature.UnmarshalCBOR", in, func() { err = dec.UnmarshalCBOR(wire) }) {
		return
	}
	if err != nil {
		e.fail("unmarshal", "signature", err, in)
		return
	}
	if err = dec.Verify(verifier, bodyProt, payload, ext); err != nil {
		e.fail("verify-after-wire", "signature", err, in)
		return
	}
	rec.Event("chain-complete")
	rec.Class("signature-standalone/" + base)
}

// parentFor builds a signed parent of the requested kind. It returns the
// parent as the library type (pointer) plus a function re-deriving it after a
// wire round trip when decoded is requested.
func (e *c01env) parentFor(r *mon.Rand, kind int, decoded int, payload, ext []byte, in map[string]any) (any, string, bool) {
	rec := e.rec
	k := e.c.Keys.Pick(r)
	h := c01headers(r, k.Alg, 0, mon.Pick(r, 0, 3, 6), mon.Pick(r, 0, 0, 15, 240))
	var err error
	switch kind {
	case 0: // Sign1Message
		if decoded == 2 {
			// reference-encoded parent with non-canonical protected bytes, signed by the reference signer
			a := int64(k.Alg)
			wm := &gen.WSign1{L: gen.RandLayer(r, gen.LayerOpts{Alg: &a, MaxProt: 4, MaxUnprot: 2, ScramblePct: 50}), Payload: payload, Tagged: true}
			wm.L.ProtWidth = mon.Pick(r, 1, 2, 3, 5, 9)
			wm.Sig = gen.RefSign(k.Ref(), wm.TBS(nil, payload))
			var m cose.Sign1Message
			if err = m.UnmarshalCBOR(wm.Bytes()); err != nil {
				rec.Event("parent-refused")
				return nil, "", false
			}
			if err = m.Verify(nil, k.Verifier); err != nil {
				e.fail("reference-signed-parent-verify", "sign1-parent", err, in)
				return nil, "", false
			}
			return &m, "Sign1Message", true
		}
		m := &cose.Sign1Message{Headers: h, Payload: payload}
		if err = m.Sign(gen.Entropy, nil, k.Signer); err != nil {
			rec.Event("parent-refused")
			return nil, "", false
		}
		if decoded == 1 {
			b, err := m.MarshalCBOR()
			if err != nil {
				e.fail("parent-marshal", "sign1-parent", err, in)
				return nil, "", false
			}
			var d cose.Sign1Message
			if err = d.UnmarshalCBOR(b); err != nil {
				e.fail("parent-unmarshal", "sign1-parent", err, in)
				return nil, "", false
			}
			return &d, "Sign1Message", true
		}
		return m, "Sign1Message", true
	case 1, 2: // SignMessage, or one of its Signatures
		m := &cose.SignMessage{Headers: cose.Headers{Protected: cose.ProtectedHeader{int64(3): "a/b"}, Unprotected: cose.UnprotectedHeader{}}, Payload: payload}
		k2 := e.c.Keys.Pick(r)
		m.Signatures = []*cose.Signature{{Headers: h}, {Headers: c01headers(r, k2.Alg, 0, 2, 0)}}
		if err = m.Sign(gen.Entropy, nil, k.Signer, k2.Signer); err != nil {
			rec.Event("parent-refused")
			return nil, "", false
		}
		if decoded >= 1 {
			b, err := m.MarshalCBOR()
			if err != nil {
				e.fail("parent-marshal", "sign-parent", err, in)
				return nil, "", false
			}
			var d cose.SignMessage
			if err = d.UnmarshalCBOR(b); err != nil {
				e.fail("parent-unmarshal", "sign-parent", err, in)
				return nil, "", false
			}
			m = &d
		}
		if kind == 1 {
			return m, "SignMessage", true
		}
		return m.Signatures[r.Intn(2)], "Signature", true
	default: // Countersignature as parent
		inner := &cose.Sign1Message{Headers: c01headers(r, k.Alg, 0, 2, 0), Payload: payload}
		if err = inner.Sign(gen.Entropy, nil, k.Signer); err != nil {
			rec.Event("parent-refused")
			return nil, "", false
		}
		cs := &cose.Countersignature{Headers: h}
		if err = cs.Sign(gen.Entropy, k.Signer, inner, nil); err != nil {
			rec.Event("parent-refused")
			return nil, "", false
		}
		if decoded >= 1 {
			b, err := cs.MarshalCBOR()
			if err != nil {
				e.fail("parent-marshal", "countersignature-parent", err, in)
				return nil, "", false
			}
			var d cose.Countersignature
			if err = d.UnmarshalCBOR(b); err != nil {
				e.fail("parent-unmarshal", "countersignature-parent", err, in)
				return nil, "", false
			}
			cs = &d
		}
		return cs, "Countersignature", true
	}
}

func byValue(p any) any {
	switch x := p.(type) {
	case *cose.Sign1Message:
		return *x
	case *cose.SignMessage:
		return *x
	case *cose.Signature:
		return *x
	case *cose.Countersignature:
		return *x
	}
	return p
}

// countersign runs full and abbreviated countersignature chains.
func (e *c01env) countersign(r *mon.Rand, in map[string]any, base string, i int, payload, ext []byte, k *gen.AlgKey, signer cose.Signer, verifier cose.Verifier) {
	rec := e.rec
	pk := (i / 10) % 4
	decoded := (i / 40) % 3
	if pk != 0 && decoded == 2 {
		decoded = 1
	}
	parentPtr, pname, ok := e.parentFor(r, pk, decoded, payload, ext, in)
	if !ok {
		return
	}
	val := (i/120)%2 == 1
	parent := parentPtr
	if val {
		parent = byValue(parentPtr)
	}
	abbreviated := i%10 == 7
	in["structure"] = fmt.Sprintf("countersign/parent=%s/byvalue=%v/decoded=%d/abbr=%v", pname, val, decoded, abbreviated)
	cls := fmt.Sprintf("countersign/parent=%s/byvalue=%v/decoded=%d/abbr=%v/alg=%s/ext=%s", pname, val, decoded, abbreviated, k.Name, gen.ExternalClass(ext))
	var err error
	if abbreviated {
		var sig []byte
		if guard(rec, "Countersign0", in, func() { sig, err = cose.Countersign0(gen.Entropy, signer, parent, ext) }) {
			return
		}
		rec.Eval(1)
		rec.Event("Countersign0")
		if err != nil {
			rec.Event("sign-refused")
			rec.Sample("sign-refused", map[string]any{"err": err.Error(), "in": in})
			return
		}
		if guard(rec, "VerifyCountersign0", in, func() { err = cose.VerifyCountersign0(verifier, parent, ext, sig) }) {
			return
		}
		if err != nil {
			e.fail("verify-countersign0", cls, err, in)
			return
		}
		// carried in the parent's unprotected header as a bstr and round-tripped (Sign1 parents)
		if p1, ok := parentPtr.(*cose.Sign1Message); ok && len(p1.Headers.RawUnprotected) == 0 {
			cp := *p1
			cp.Headers.Unprotected = cose.UnprotectedHeader{}
			for kk, vv := range p1.Headers.Unprotected {
				cp.Headers.Unprotected[kk] = vv
			}
			delete(cp.Headers.Unprotected, int64(12))
			for kk := range cp.Headers.Unprotected {
				if nl, ok := refNorm(kk); ok && (nl == 12 || nl == 9) {
					delete(cp.Headers.Unprotected, kk)
				}
			}
			cp.Headers.Unprotected[int64(12)] = sig
			b, err := cp.MarshalCBOR()
			if err != nil {
				e.fail("marshal-with-countersign0", cls, err, in)
				return
			}
			var d cose.Sign1Message
			if err = d.UnmarshalCBOR(b); err != nil {
				e.fail("unmarshal-with-countersign0", cls, err, in)
				return
			}
			got, _ := d.Headers.Unprotected[int64(12)].([]byte)
			if err = cose.VerifyCountersign0(verifier, &d, ext, got); err != nil {
				e.fail("verify-countersign0-after-wire", cls, err, in)
				return
			}
		}
		rec.Event("chain-complete")
		rec.Class(cls)
		return
	}
	mode := r.Intn(2)
	if len(ext) > 0 {
		mode = r.Intn(3)
	}
	cs := &cose.Countersignature{Headers: c01headers(r, k.Alg, mode, mon.Pick(r, 0, 2, 5), mon.Pick(r, 0, 0, 14, 240))}
	if c01useCtor(rec, in) {
		hh := cs.Headers
		cs = cose.NewCountersignature()
		c01fillHeaders(&cs.Headers, hh)
	}
	if guard(rec, "Countersignature.Sign", in, func() { err = cs.Sign(gen.Entropy, signer, parent, ext) }) {
		return
	}
	rec.Eval(1)
	rec.Event("Countersignature.Sign")
	if err != nil {
		rec.Event("sign-refused")
		rec.Sample("sign-refused", map[string]any{"err": err.Error(), "in": in})
		return
	}
	if guard(rec, "Countersignature.Verify", in, func() { err = cs.Verify(verifier, parent, ext) }) {
		return
	}
	if err != nil {
		e.fail("verify-in-memory", cls, err, in)
		return
	}
	// pointer and value parents are interchangeable
	other := parentPtr
	if !val {
		other = byValue(parentPtr)
	}
	if err = cs.Verify(verifier, other, ext); err != nil {
		e.fail("verify-pointer-vs-value", cls, err, in)
		return
	}
	wire, err := cs.MarshalCBOR()
	if err != nil {
		e.fail("marshal", cls, err, in)
		return
	}
	in["wire"] = mon.FullHex(wire)
	var dec cose.Countersignature
	if guard(rec, "Countersignature.UnmarshalCBOR", in, func() { err = dec.UnmarshalCBOR(wire) }) {
		return
	}
	if err != nil {
		e.fail("unmarshal", cls, err, in)
		return
	}
	if err = dec.Verify(verifier, parent, ext); err != nil {
		e.fail("verify-after-wire", cls, err, in)
		return
	}
	// carried inside the parent's unprotected header (single / list), whole parent round-tripped
	if p1, ok := parentPtr.(*cose.Sign1Message); ok && len(p1.Headers.RawUnprotected) == 0 {
		cp := *p1
		cp.Headers.Unprotected = cose.UnprotectedHeader{}
		for kk, vv := range p1.Headers.Unprotected {
			if nl, ok := refNorm(kk); ok && (nl == 7 || nl == 11) {
				continue
			}
			cp.Headers.Unprotected[kk] = vv
		}
		label := mon.Pick(r, int64(7), int64(11))
		list := r.Bool()
		k2 := e.c.Keys.Pick(r)
		cs2 := &cose.Countersignature{Headers: c01headers(r, k2.Alg, 0, 2, 0)}
		if list {
			if err = cs2.Sign(gen.Entropy, k2.Signer, parent, ext); err != nil {
				rec.Event("sign-refused")
				return
			}
			cp.Headers.Unprotected[label] = []*cose.Countersignature{cs, cs2}
		} else {
			cp.Headers.Unprotected[label] = cs
		}
		b, err := cp.MarshalCBOR()
		if err != nil {
			e.fail("marshal-with-countersignature", cls, err, in)
			return
		}
		var d cose.Sign1Message
		if guard(rec, "Sign1Message.UnmarshalCBOR(with countersignature)", in, func() { err = d.UnmarshalCBOR(b) }) {
			return
		}
		if err != nil {
			e.fail("unmarshal-with-countersignature", cls, err, in)
			return
		}
		var got []*cose.Countersignature
		switch v := d.Headers.Unprotected[label].(type) {
		case *cose.Countersignature:
			got = []*cose.Countersignature{v}
		case []*cose.Countersignature:
			got = v
		}
		want := 1
		if list {
			want = 2
		}
		if len(got) != want {
			e.fail("countersignature-header-shape", cls, fmt.Errorf("decoded %d countersignatures (%T), want %d", len(got), d.Headers.Unprotected[label], want), in)
			return
		}
		if err = got[0].Verify(verifier, &d, ext); err != nil {
			e.fail("verify-from-decoded-header", cls, err, in)
			return
		}
		if list {
			if err = got[1].Verify(k2.Verifier, &d, ext); err != nil {
				e.fail("verify-from-decoded-header-list", cls, err, in)
				return
			}
		}
		cls += fmt.Sprintf("/inheader=%d/list=%v", label, list)
	}
	rec.Event("chain-complete")
	rec.Class(cls)
	rec.Sample("countersign-"+pname, map[string]any{"countersignature": hexs(wire), "structure": in["structure"]})
}

func refNorm(l any) (int64, bool) {
	switch v := l.(type) {
	case int:
		return int64(v), true
	case int8:
		return int64(v), true
	case int16:
		return int64(v), true
	case int32:
		return int64(v), true
	case int64:
		return v, true
	case uint:
		return int64(v), true
	case uint8:
		return int64(v), true
	case uint16:
		return int64(v), true
	case uint32:
		return int64(v), true
	case uint64:
		return int64(v), true
	}
	return 0, false
}

// hashEnvelope runs SignHashEnvelope -> VerifyHashEnvelope.
func (e *c01env) hashEnvelope(r *mon.Rand, in map[string]any, base string, h cose.Headers, k *gen.AlgKey, signer cose.Signer, verifier cose.Verifier) {
	rec := e.rec
	in["structure"] = "hash-envelope"
	// content type (3) is not allowed in hash envelopes
	for _, m := range []map[any]any{h.Protected, h.Unprotected} {
		for kk := range m {
			if nl, ok := refNorm(kk); ok && nl == 3 {
				delete(m, kk)
			}
		}
	}
	// crit may name label 3 that was just removed: drop crit as well
	for kk := range h.Protected {
		if nl, ok := refNorm(kk); ok && nl == 2 {
			delete(h.Protected, kk)
		}
	}
	ha := mon.Pick(r, cose.AlgorithmSHA256, cose.AlgorithmSHA384, cose.AlgorithmSHA512)
	msgBytes := r.Bytes(r.Intn(100))
	hv := refcrypto.Digest(map[cose.Algorithm]cryptoHash{cose.AlgorithmSHA256: hSHA256, cose.AlgorithmSHA384: hSHA384, cose.AlgorithmSHA512: hSHA512}[ha], msgBytes)
	p := cose.HashEnvelopePayload{HashAlgorithm: ha, HashValue: hv}
	if r.Intn(5) == 0 {
		// a hash algorithm this library has no implementation for: any digest length goes
		p.HashAlgorithm = mon.Pick(r, cose.Algorithm(-15), cose.Algorithm(-18), cose.Algorithm(-65540), cose.Algorithm(70001))
		ha = p.HashAlgorithm
		p.HashValue = r.Bytes(1 + r.Intn(70))
	}
	if r.Bool() {
		p.PreimageContentType = mon.Pick[any](r, "text/plain", uint64(50), int64(60), "x")
	}
	if r.Bool() {
		p.Location = mon.Pick(r, "https://example.com/x", "https://example.com/a", "loc", "https://bucket.example/50%off.bin", "s3://my bucket/key", "://", "file:///tmp/x", "urn:uuid:6e8bc430-9c3a-11d9-9669-0800200c9a66", "http://[::1]:80/%zz", "h\u00e9llo://\u65e5\u672c", " leading-space")
	}
	var env []byte
	var err error
	rawBase := r.Intn(3) == 0
	if rawBase {
		// base headers taken from a decoded message: both raw buckets are set
		pre := &cose.Sign1Message{Headers: h, Payload: []byte("previous")}
		if err = pre.Sign(gen.Entropy, nil, signer); err == nil {
			var b []byte
			if b, err = pre.MarshalCBOR(); err == nil {
				var d cose.Sign1Message
				if err = d.UnmarshalCBOR(b); err == nil {
					h = d.Headers
				}
			}
		}
		if err != nil {
			rec.Event("sign-refused")
			return
		}
		in["base_headers"] = "decoded (raw buckets set)"
	}
	if guard(rec, "SignHashEnvelope", in, func() { env, err = cose.SignHashEnvelope(gen.Entropy, signer, h, p) }) {
		return
	}
	rec.Eval(1)
	rec.Event("SignHashEnvelope")
	if err != nil {
		rec.Event("sign-refused")
		rec.Sample("sign-refused", map[string]any{"err": err.Error(), "in": in})
		return
	}
	in["wire"] = mon.FullHex(env)
	var m *cose.Sign1Message
	if guard(rec, "VerifyHashEnvelope", in, func() { m, err = cose.VerifyHashEnvelope(verifier, env) }) {
		return
	}
	if err != nil || m == nil {
		e.fail("verify-hash-envelope", "hash-envelope", err, in)
		return
	}
	// the message VerifyHashEnvelope hands back is the verified message: it verifies again as a plain
	// COSE_Sign1 and serialises to the very bytes that were verified
	if guard(rec, "Sign1Message.Verify(returned by VerifyHashEnvelope)", in, func() { err = m.Verify(nil, verifier) }) {
		return
	}
	if err != nil {
		e.fail("verify-message-returned-by-VerifyHashEnvelope", "hash-envelope", err, in)
		return
	}
	var again []byte
	if guard(rec, "Sign1Message.MarshalCBOR(returned by VerifyHashEnvelope)", in, func() { again, err = m.MarshalCBOR() }) {
		return
	}
	if err != nil || !eqBytes(again, env) {
		e.fail("marshal-message-returned-by-VerifyHashEnvelope-differs-from-the-verified-bytes", "hash-envelope", err, in)
		return
	}
	rec.Event("chain-complete")
	rec.Class(fmt.Sprintf("hash-envelope/alg=%s/hash=%v/ct=%T/loc=%v/rawbase=%v", k.Name, ha, p.PreimageContentType, p.Location != "", rawBase))
	rec.Sample("hash-envelope", map[string]any{"wire": hexs(env)})
}

// c01keyVariant builds a COSE_Key for a real EC key pair with a chosen
// Algorithm field (unset, matching or another ECDSA algorithm), hand-built or
// decoded, and returns the signer and verifier it yields (if it yields both).
func c01keyVariant(r *mon.Rand, c *Ctx) (cose.Signer, cose.Verifier, string, bool) {
	ci := r.Intn(3)
	base := c.Keys.Keys[ci] // ES256/P-256, ES384/P-384, ES512/P-521
	ck, err := cose.NewKeyFromPrivate(base.Priv)
	if err != nil {
		return nil, nil, "", false
	}
	algs := []cose.Algorithm{0, cose.AlgorithmES256, cose.AlgorithmES384, cose.AlgorithmES512}
	ck.Algorithm = algs[r.Intn(4)]
	name := fmt.Sprintf("key-variant/crv=%d/alg=%d", ci+1, int64(ck.Algorithm))
	if r.Bool() {
		b, err := ck.MarshalCBOR()
		if err != nil {
			return nil, nil, "", false
		}
		var d cose.Key
		if d.UnmarshalCBOR(b) != nil {
			return nil, nil, "", false
		}
		ck = &d
		name += "/decoded"
	}
	s, e1 := ck.Signer()
	v, e2 := ck.Verifier()
	if e1 != nil || e2 != nil {
		return nil, nil, "", false
	}
	return s, v, name, true
}

// c01useCtor decides (from the case index, so that the PRNG stream is untouched) whether the object
// is obtained from the library's New* constructor and filled entry by entry, instead of a literal.
func c01useCtor(rec *mon.Recorder, in map[string]any) bool {
	i, _ := in["case"].(int)
	use := i%3 == 1
	if use {
		rec.Event("built-through-constructor")
		in["constructor"] = true
	}
	return use
}

// c01fillHeaders copies a generated header set into constructor-made (non-nil, empty) maps; the
// algorithm goes through SetAlgorithm when it is spelt with the customary int64 label.
func c01fillHeaders(dst *cose.Headers, src cose.Headers) {
	for k, v := range src.Protected {
		if a, isAlg := v.(cose.Algorithm); isAlg && k == any(int64(1)) {
			dst.Protected.SetAlgorithm(a)
			continue
		}
		dst.Protected[k] = v
	}
	for k, v := range src.Unprotected {
		dst.Unprotected[k] = v
	}
	dst.RawProtected, dst.RawUnprotected = src.RawProtected, src.RawUnprotected
}
