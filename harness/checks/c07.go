package checks

import (
	"crypto/sha256"
	"fmt"
	"math"

	cose "github.com/veraison/go-cose"

	"verif/harness/gen"
	"verif/harness/mon"
	"verif/harness/refcbor"
	"verif/harness/refcose"
)

// C07 - any valid encoding of a conforming message is accepted and verifies.
// The reference implementation builds the structure, chooses an encoding,
// and signs its own wire bytes with stdlib crypto; the library must decode
// and verify it (including nested countersignatures taken from the decoded
// message).

func init() {
	register(&Check{
		ID:    "C07",
		Level: "exploration",
		Rule: "reference-built conforming COSE_Sign1 (tagged/untagged), COSE_Sign (1..4 signers), stand-alone COSE_Signature/Countersignature, with nested full countersignatures (single and list, depth <= 3), signed by the reference signer over its own wire bytes; " +
			"encoder choices per message: per-item head widths (1/2/3/5/9), per-map key order, h''/h'a0' (also non-shortest empty map), wide payload/signature/list heads, tags/floats/simple values inside protected values; all 7 algorithms; external nil/empty/non-empty. " +
			"Expected verdict is always accept + verify; decoded header labels/plain values must match the reference tree. Distinct = (kind, alg, encoder-choice vector hash class, nesting shape).",
		Assume: []string{"documented limits (DESIGN.md section 3): definite lengths, labels and integers within int64, no tags in envelope or unprotected values, shortest heads for the tag and the 4-/3-arrays of COSE structures, nested map keys restricted to what the Go data model can hold"},
		Run:    runC07,
	})
}

// csPlan says how to find and verify one countersignature in a decoded value.
type csPlan struct {
	label int64
	index int // -1: single object, else index in the list
	key   *gen.AlgKey
	ext   []byte
	kids  []*csPlan
}

// refMsg is a reference-built, reference-signed message with its expectations.
type refMsg struct {
	kind     string
	bytes    []byte
	ext      []byte
	payload  []byte
	keys     []*gen.AlgKey
	plans    []*csPlan   // countersignatures on the body layer
	sigPlans [][]*csPlan // COSE_Sign: countersignatures on each signature layer
	layers   []*gen.WLayer
	choice   string // encoder-choice class
	shape    string // nesting shape
}

// c07countersign adds reference-signed countersignatures (depth levels) over
// the parent described by pf into layer l, and returns the plans.
func c07countersign(c *Ctx, r *mon.Rand, l *gen.WLayer, pf ParentFields, depth, scramble int, ext []byte) []*csPlan {
	label := mon.Pick(r, int64(7), int64(11))
	plans := c07countersignUnder(c, r, l, pf, depth, scramble, ext, label)
	if r.Intn(4) == 0 {
		// the other countersignature label in the same header as well
		plans = append(plans, c07countersignUnder(c, r, l, pf, depth, scramble, ext, 18-label)...)
	}
	return plans
}

func c07countersignUnder(c *Ctx, r *mon.Rand, l *gen.WLayer, pf ParentFields, depth, scramble int, ext []byte, label int64) []*csPlan {
	list := r.Bool()
	n := 1
	if list {
		n = 1 + r.Intn(3)
	}
	var plans []*csPlan
	var nodes []*Node
	for i := 0; i < n; i++ {
		k := c.Keys.Pick(r)
		a := int64(k.Alg)
		var ap *int64
		if len(ext) == 0 || r.Intn(3) != 0 {
			ap = &a
		}
		cl := gen.RandLayer(r, gen.LayerOpts{Alg: ap, MaxProt: 2, MaxUnprot: 2, ScramblePct: scramble})
		tbs := refcose.CountersignStructure(pf.Kind, false, true, pf.Prot, cl.Content(), ext, pf.Payload, pf.Sig)
		sig := gen.RefSign(k.Ref(), tbs)
		p := &csPlan{label: label, index: i, key: k, ext: ext}
		if !list {
			p.index = -1
		}
		if depth > 1 && r.Bool() {
			p.kids = c07countersign(c, r, &cl, ParentFields{Kind: refcose.PCountersignature, Prot: cl.Content(), Payload: sig}, depth-1, scramble, ext)
		}
		ws := &gen.WSignature{L: cl, Sig: sig, SigWidth: mon.Pick(r, 0, 0, 2, 3)}
		nodes = append(nodes, ws.Node())
		plans = append(plans, p)
	}
	if list {
		arr := refcbor.NArr(nodes...)
		if r.Chance(scramble) {
			arr.Width = refcbor.FitWidth(uint64(n), mon.Pick(r, 2, 3, 5, 9))
		}
		l.AddUnprot(label, arr)
	} else {
		l.AddUnprot(label, nodes[0])
	}
	return plans
}

func c07build(c *Ctx, r *mon.Rand, i int) *refMsg {
	scramble := mon.Pick(r, 0, 20, 50, 80, 100)
	ext := gen.External(r)
	payload := gen.Payload(r, false)
	m := &refMsg{ext: ext, payload: payload}
	mkLayer := func(k *gen.AlgKey, maxProt int) gen.WLayer {
		a := int64(k.Alg)
		var ap *int64
		if len(ext) == 0 || r.Intn(3) != 0 {
			ap = &a
		}
		fill := 0
		switch r.Intn(10) {
		case 0:
			fill = 12 + r.Intn(8)
		case 1:
			fill = 235 + r.Intn(20)
		case 2:
			if c.Thorough {
				fill = 65500 + r.Intn(40)
			}
		}
		l := gen.RandLayer(r, gen.LayerOpts{Alg: ap, MaxProt: maxProt, MaxUnprot: 3, ScramblePct: scramble, FillTo: fill})
		if ap == nil && r.Bool() {
			// the algorithm travels in the unprotected bucket (the protected one is empty or silent about it and
			// external data is supplied): as conforming as any other placement
			has := false
			for k := 0; k+1 < len(l.Unprot.Kids); k += 2 {
				if v, ok := l.Unprot.Kids[k].Int64(); ok && v == 1 {
					has = true
				}
			}
			if !has {
				l.AddUnprot(int64(1), refcbor.NInt(a))
			}
		}
		if r.Intn(50) == 0 {
			// a header value with thousands of elements (unprotected, where the envelope decoder reads it)
			l.AddUnprot(int64(99001), gen.HugeValue(r))
		}
		return l
	}
	depth := 0
	if r.Intn(3) == 0 {
		depth = 1 + r.Intn(3)
	}
	m.shape = fmt.Sprintf("depth=%d", depth)
	switch i % 5 {
	case 0, 1:
		k := c.Keys.Pick(r)
		m.keys = []*gen.AlgKey{k}
		wm := &gen.WSign1{L: mkLayer(k, 5), Payload: payload, PayloadWidth: mon.Pick(r, 0, 0, 2, 3, 5, 9), SigWidth: mon.Pick(r, 0, 0, 3, 5), Tagged: i%5 == 0}
		wm.Sig = gen.RefSign(k.Ref(), wm.TBS(ext, payload))
		if depth > 0 {
			m.plans = c07countersign(c, r, &wm.L, ParentFields{Kind: refcose.PSign1, Prot: wm.L.Content(), Payload: payload, Sig: wm.Sig}, depth, scramble, ext)
		}
		m.kind = "sign1"
		if !wm.Tagged {
			m.kind = "untagged"
		}
		m.bytes = wm.Bytes()
		m.layers = []*gen.WLayer{&wm.L}
	case 2, 3:
		n := 1 + r.Intn(4)
		wm := &gen.WSign{Payload: payload, PayloadWidth: mon.Pick(r, 0, 0, 2, 5), SigsWidth: mon.Pick(r, 0, 0, 2, 3, 9)}
		wm.L = gen.RandLayer(r, gen.LayerOpts{MaxProt: 4, MaxUnprot: 3, ScramblePct: scramble, FillTo: mon.Pick(r, 0, 0, 0, 14, 240)})
		for j := 0; j < n; j++ {
			k := c.Keys.Pick(r)
			m.keys = append(m.keys, k)
			wm.Sigs = append(wm.Sigs, &gen.WSignature{L: mkLayer(k, 3), SigWidth: mon.Pick(r, 0, 0, 3)})
		}
		m.sigPlans = make([][]*csPlan, n)
		for j := range wm.Sigs {
			wm.Sigs[j].Sig = gen.RefSign(m.keys[j].Ref(), wm.TBS(j, ext, payload))
			if depth > 0 && r.Bool() {
				m.sigPlans[j] = c07countersign(c, r, &wm.Sigs[j].L, ParentFields{Kind: refcose.PSignature, Prot: wm.Sigs[j].L.Content(), Payload: wm.Sigs[j].Sig}, depth, scramble, ext)
			}
		}
		if depth > 0 {
			m.plans = c07countersign(c, r, &wm.L, ParentFields{Kind: refcose.PSign, Prot: wm.L.Content(), Payload: payload}, depth, scramble, ext)
		}
		m.kind = fmt.Sprintf("sign-n%d", n)
		if i%9 == 4 {
			// the same COSE_Signature twice (two copies merged by an aggregator): the structure rules say
			// nothing about repeated entries, each is a signature like any other
			j := i / 9 % n
			wm.Sigs = append(wm.Sigs, wm.Sigs[j])
			m.keys = append(m.keys, m.keys[j])
			m.sigPlans = append(m.sigPlans, m.sigPlans[j])
			m.kind += "+repeated-entry"
		}
		m.bytes = wm.Bytes()
		m.layers = []*gen.WLayer{&wm.L}
		for _, s := range wm.Sigs {
			m.layers = append(m.layers, &s.L)
		}
	default:
		// stand-alone COSE_Signature over a given body
		k := c.Keys.Pick(r)
		m.keys = []*gen.AlgKey{k}
		ws := &gen.WSignature{L: mkLayer(k, 4), SigWidth: mon.Pick(r, 0, 0, 3)}
		ws.Sig = gen.RefSign(k.Ref(), refcose.SignatureStructure([]byte{}, ws.L.Content(), ext, payload))
		if depth > 0 {
			m.plans = c07countersign(c, r, &ws.L, ParentFields{Kind: refcose.PSignature, Prot: ws.L.Content(), Payload: ws.Sig}, depth, scramble, ext)
		}
		m.kind = "signature"
		m.bytes = ws.Bytes()
		m.layers = []*gen.WLayer{&ws.L}
	}
	// encoder-choice class: scramble level + whether the outcome is canonical + a small hash of the head-width pattern
	canon, _ := refcbor.IsCanonical(m.bytes)
	h := sha256.Sum256(widthPattern(m.bytes))
	m.choice = fmt.Sprintf("scramble=%d/canonical=%v/widths=%x", scramble, canon, h[:1])
	return m
}

// widthPattern lists the head widths of all items (the encoder-choice vector).
func widthPattern(b []byte) []byte {
	n, err := refcbor.Parse(b)
	if err != nil {
		return nil
	}
	var out []byte
	refcbor.Walk(n, func(x *Node) bool {
		out = append(out, byte(x.Width))
		return true
	})
	return out
}

// c07verifyPlans verifies the countersignatures found in a decoded header
// against the decoded parent.
func c07verifyPlans(rec *mon.Recorder, unprot cose.UnprotectedHeader, parent any, plans []*csPlan, in map[string]any, path string) bool {
	for _, p := range plans {
		var cs *cose.Countersignature
		switch v := unprot[p.label].(type) {
		case *cose.Countersignature:
			if p.index == -1 {
				cs = v
			}
		case []*cose.Countersignature:
			if p.index >= 0 && p.index < len(v) {
				cs = v[p.index]
			}
		}
		where := fmt.Sprintf("%s/%d[%d]", path, p.label, p.index)
		if cs == nil {
			rec.Violate("countersignature-lost", "decoded-shape", fmt.Sprintf("countersignature at %s not found in the decoded header (got %T)", where, unprot[p.label]), in)
			return false
		}
		var err error
		if guard(rec, "Countersignature.Verify", in, func() { err = cs.Verify(p.key.Verifier, parent, p.ext) }) {
			return false
		}
		rec.Event("Countersignature.Verify")
		if err != nil {
			rec.Violate("countersignature-not-verified", "nested", fmt.Sprintf("reference-signed countersignature at %s does not verify: %v", where, err), in)
			return false
		}
		if len(p.kids) > 0 && !c07verifyPlans(rec, cs.Headers.Unprotected, cs, p.kids, in, where) {
			return false
		}
	}
	return true
}

// plainEq compares a decoded Go header value with the reference node when the
// node is "plain" (no tags, simple values, short floats or out-of-range ints);
// ok=false means not comparable.
func plainEq(v any, n *Node) (equal, comparable bool) {
	plain := true
	refcbor.Walk(n, func(x *Node) bool {
		switch {
		case x.Major == refcbor.Tag:
			plain = false
		case x.Major == refcbor.Prim && x.Width < 9 && !(x.Width <= 1 && (x.Arg == 20 || x.Arg == 21 || x.Arg == 22)):
			plain = false
		case x.Major == refcbor.Prim && x.Width == 9 && math.IsNaN(math.Float64frombits(x.Arg)):
			plain = false
		case x.IsInt():
			if _, ok := x.Int64(); !ok {
				plain = false
			}
		case x.Major == refcbor.Map:
			for i := 0; i+1 < len(x.Kids); i += 2 {
				if !x.Kids[i].IsInt() && x.Kids[i].Major != refcbor.Tstr {
					plain = false
				}
			}
		}
		return plain
	})
	if !plain {
		return false, false
	}
	g, err := refcose.GoToNode(v, gen.Custom)
	if err != nil {
		return false, false
	}
	return eqBytes(refcbor.Canon(g), refcbor.Canon(n)), true
}

func c07compareHeaders(rec *mon.Recorder, prot cose.ProtectedHeader, unprot cose.UnprotectedHeader, l *gen.WLayer, in map[string]any) {
	cmp := func(goMap map[any]any, m *Node, bucket string) {
		want := 0
		if m != nil {
			want = len(m.Kids) / 2
		}
		if len(goMap) != want {
			rec.Violate("header-lost", bucket, fmt.Sprintf("%s bucket decoded with %d entries, the wire has %d", bucket, len(goMap), want), in)
			return
		}
		if m == nil {
			return
		}
		for i := 0; i+1 < len(m.Kids); i += 2 {
			var key any
			if v, ok := m.Kids[i].Int64(); ok {
				key = v
			} else if m.Kids[i].Major == refcbor.Tstr {
				key = string(m.Kids[i].Str)
			} else {
				continue
			}
			gv, ok := goMap[key]
			if !ok {
				rec.Violate("header-lost", bucket, fmt.Sprintf("label %v missing from the decoded %s bucket", key, bucket), in)
				return
			}
			if il, isInt := key.(int64); isInt && (il == 7 || il == 11) && bucket == "unprotected" {
				continue // typed countersignature objects are checked by verification
			}
			if eq, comparable := plainEq(gv, m.Kids[i+1]); comparable {
				rec.Event("header-values-compared")
				if !eq {
					rec.Violate("header-value-changed", bucket, fmt.Sprintf("label %v decoded as %v, the wire says %s", key, gv, refcbor.Diag(m.Kids[i+1])), in)
					return
				}
			}
		}
	}
	var pm *Node
	if len(l.Content()) > 0 {
		pm, _ = refcbor.Parse(l.Content())
	}
	cmp(prot, pm, "protected")
	cmp(unprot, l.Unprot, "unprotected")
}

func runC07(c *Ctx) {
	rec := c.Rec
	n := c.N(6000, 300000)
	mon.Parallel(c.Workers, n, func(w, i int) {
		r := mon.NewRand(uint64(c.Seed)).Sub(uint64(101000 + i))
		m := c07build(c, r, i)
		algs := ""
		for _, k := range m.keys {
			algs += k.Name + ","
		}
		in := map[string]any{"case": i, "kind": m.kind, "algs": algs, "wire": mon.FullHex(m.bytes), "external": m.ext, "encoder_choices": m.choice, "nesting": m.shape}
		rec.Eval(1)
		rec.Event("messages")
		var err error
		cls := fmt.Sprintf("%s/%s/%s/%s/ext=%s", m.kind, algs, m.choice, m.shape, gen.ExternalClass(m.ext))
		switch {
		case m.kind == "sign1" || m.kind == "untagged":
			var d cose.Sign1Message
			if guard(rec, "Sign1.UnmarshalCBOR", in, func() {
				if m.kind == "sign1" {
					err = d.UnmarshalCBOR(m.bytes)
				} else {
					err = (*cose.UntaggedSign1Message)(&d).UnmarshalCBOR(m.bytes)
				}
			}) {
				return
			}
			if err != nil {
				rec.Violate("refused", m.kind, "conforming message refused by the decoder: "+err.Error(), in)
				return
			}
			if guard(rec, "Sign1.Verify", in, func() { err = d.Verify(m.ext, m.keys[0].Verifier) }) {
				return
			}
			rec.Event("Verify")
			if err != nil {
				rec.Violate("not-verified", m.kind, "reference-signed message does not verify: "+err.Error(), in)
				return
			}
			c07compareHeaders(rec, d.Headers.Protected, d.Headers.Unprotected, m.layers[0], in)
			if !c07verifyPlans(rec, d.Headers.Unprotected, &d, m.plans, in, "body") {
				return
			}
		case m.kind == "signature":
			var s cose.Signature
			if guard(rec, "Signature.UnmarshalCBOR", in, func() { err = s.UnmarshalCBOR(m.bytes) }) {
				return
			}
			if err != nil {
				rec.Violate("refused", m.kind, "conforming COSE_Signature refused by the decoder: "+err.Error(), in)
				return
			}
			if guard(rec, "Signature.Verify", in, func() { err = s.Verify(m.keys[0].Verifier, []byte{0x40}, m.payload, m.ext) }) {
				return
			}
			rec.Event("Verify")
			if err != nil {
				rec.Violate("not-verified", m.kind, "reference-signed COSE_Signature does not verify: "+err.Error(), in)
				return
			}
			// the same bytes through the Countersignature decoder
			var cs cose.Countersignature
			if err = cs.UnmarshalCBOR(m.bytes); err != nil {
				rec.Violate("refused", "countersignature", "conforming COSE_Countersignature refused by the decoder: "+err.Error(), in)
				return
			}
			c07compareHeaders(rec, s.Headers.Protected, s.Headers.Unprotected, m.layers[0], in)
			if !c07verifyPlans(rec, s.Headers.Unprotected, &s, m.plans, in, "signature") {
				return
			}
		default:
			var d cose.SignMessage
			if guard(rec, "SignMessage.UnmarshalCBOR", in, func() { err = d.UnmarshalCBOR(m.bytes) }) {
				return
			}
			if err != nil {
				rec.Violate("refused", "sign", "conforming COSE_Sign refused by the decoder: "+err.Error(), in)
				return
			}
			vs := make([]cose.Verifier, len(m.keys))
			for j, k := range m.keys {
				vs[j] = k.Verifier
			}
			if guard(rec, "SignMessage.Verify", in, func() { err = d.Verify(m.ext, vs...) }) {
				return
			}
			rec.Event("Verify")
			if err != nil {
				rec.Violate("not-verified", "sign", "reference-signed COSE_Sign does not verify: "+err.Error(), in)
				return
			}
			// the per-signer route an application takes to learn WHICH signer is valid: every decoded
			// COSE_Signature verified on its own with the body's protected bytes as received
			bodyProt, perr := d.Headers.MarshalProtected()
			for j, s := range d.Signatures {
				var e error
				if perr != nil {
					break
				}
				if guard(rec, "Signature.Verify(per signer)", in, func() { e = s.Verify(vs[j], bodyProt, d.Payload, m.ext) }) {
					return
				}
				rec.Event("Signature.Verify(per signer)")
				if e != nil {
					rec.Violate("not-verified", "sign/per-signer", fmt.Sprintf("signature %d of a reference-signed COSE_Sign does not verify through Signature.Verify with the received body protected bytes: %v", j, e), in)
					return
				}
			}
			c07compareHeaders(rec, d.Headers.Protected, d.Headers.Unprotected, m.layers[0], in)
			for j, s := range d.Signatures {
				c07compareHeaders(rec, s.Headers.Protected, s.Headers.Unprotected, m.layers[1+j], in)
				if !c07verifyPlans(rec, s.Headers.Unprotected, s, m.sigPlans[j], in, fmt.Sprintf("signature[%d]", j)) {
					return
				}
			}
			if !c07verifyPlans(rec, d.Headers.Unprotected, &d, m.plans, in, "body") {
				return
			}
		}
		rec.Event("accepted-and-verified")
		rec.Class(cls)
		rec.Sample(m.kind+"/"+m.shape, map[string]any{"wire": hexs(m.bytes), "choices": m.choice, "algs": algs})
	})
	rec.Require("accepted-and-verified", int64(n/2))
	rec.Require("Countersignature.Verify", 100)
	rec.RequireClasses(200)
}
