package checks

import (
	"fmt"
	"os"
	"os/exec"
	"path/filepath"
	"regexp"
	"strconv"
	"strings"
)

// runFuzzStage runs the native coverage-guided fuzz target (harness/fuzz) for
// a fixed number of executions as an extra workload generator of the thorough
// tiers of C05 and C06. The oracles live in the fuzz target and are the same
// runtime monitors; a failure is turned into a violation with the input the
// engine saved.
func runFuzzStage(c *Ctx, execs int) {
	rec := c.Rec
	dir := filepath.Join(os.Getenv("VERIF_DIR"), "harness")
	if _, err := os.Stat(filepath.Join(dir, "fuzz")); err != nil {
		rec.HarnessError("fuzz stage: harness directory not found (VERIF_DIR)")
		return
	}
	args := []string{"test", "-tags", "verif"}
	if mf := os.Getenv("VERIF_MODFLAG"); mf != "" {
		args = append(args, mf)
	}
	args = append(args, "-run", "^$", "-fuzz", "^FuzzDecoders$", "-fuzztime", fmt.Sprintf("%dx", execs), "./fuzz")
	cmd := exec.Command("go", args...)
	cmd.Dir = dir
	cmd.Env = append(os.Environ(), "GOFLAGS=-mod=mod", "GOPROXY=off", "GOSUMDB=off", "GOTOOLCHAIN=local")
	out, err := cmd.CombinedOutput()
	text := string(out)
	re := regexp.MustCompile(`execs: (\d+) .*new interesting: (\d+) \(total: (\d+)\)`)
	var done, interesting, total int
	for _, m := range re.FindAllStringSubmatch(text, -1) {
		done, _ = strconv.Atoi(m[1])
		interesting, _ = strconv.Atoi(m[2])
		total, _ = strconv.Atoi(m[3])
	}
	rec.EventN("fuzz-executions", done)
	rec.Eval(done)
	rec.Extra("native_fuzz", map[string]int{"executions": done, "new_interesting_inputs": interesting, "corpus_total": total})
	crashDir := filepath.Join(dir, "fuzz", "testdata")
	defer os.RemoveAll(crashDir)
	if err == nil {
		rec.Class("native-fuzz/completed")
		return
	}
	// a failure: find the saved input
	var input []byte
	if m := regexp.MustCompile(`Failing input written to (\S+)`).FindStringSubmatch(text); m != nil {
		if b, e := os.ReadFile(filepath.Join(dir, "fuzz", m[1])); e == nil {
			for _, line := range strings.Split(string(b), "\n") {
				if strings.HasPrefix(line, "[]byte(") {
					if s, e := strconv.Unquote(strings.TrimSuffix(strings.TrimPrefix(line, "[]byte("), ")")); e == nil {
						input = []byte(s)
					}
				}
			}
		}
	}
	in := map[string]any{"input": fmt.Sprintf("%x", input), "engine_output": firstLines(lastPart(text, 3000), 60)}
	switch {
	case strings.Contains(text, "VIOLATION-C05"):
		rec.Violate("accepted-ill-formed", "native-fuzz", "native fuzzing found an accepted ill-formed input: "+grepLine(text, "VIOLATION-C05"), in)
	case strings.Contains(text, "VIOLATION-C15"):
		rec.Violate("accepted-inconsistent-key", "native-fuzz", "native fuzzing found an accepted inconsistent key: "+grepLine(text, "VIOLATION-C15"), in)
	case strings.Contains(text, "panic:") || strings.Contains(text, "fatal error"):
		rec.Violate("panic", "native-fuzz/"+grepLine(text, "panic:"), "native fuzzing made a decoder or follow-up operation panic: "+grepLine(text, "panic:"), in)
	case strings.Contains(text, "hung or terminated unexpectedly") || strings.Contains(text, "deadline exceeded"):
		rec.Violate("hang", "native-fuzz", "native fuzzing worker hung or died on an input", in)
	default:
		rec.HarnessError("fuzz stage failed: " + firstLines(lastPart(text, 2000), 30))
	}
}

func lastPart(s string, n int) string {
	if len(s) > n {
		return s[len(s)-n:]
	}
	return s
}

func grepLine(text, needle string) string {
	for _, l := range strings.Split(text, "\n") {
		if strings.Contains(l, needle) {
			l = strings.TrimSpace(l)
			if len(l) > 300 {
				l = l[:300]
			}
			return l
		}
	}
	return ""
}
