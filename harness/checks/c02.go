package checks

import (
	"fmt"
	"strings"

	cose "github.com/veraison/go-cose"

	"verif/harness/gen"
	"verif/harness/mon"
	"verif/harness/refcbor"
	"verif/harness/refcose"
)

// C02 - the byte string handed to the signer / verifier is exactly the RFC
// 9052 Sig_structure. Monitor: spy Signer/Verifier recording `content`;
// oracle: byte equality with refcose's structure computed from the wire bytes
// (decoded messages) or from the canonical encoding of the Go header map
// (constructed ones), plus metamorphic equalities.

func init() {
	register(&Check{
		ID:    "C02",
		Level: "exploration",
		Rule: "seeded generator: constructed Sign1/Untagged/COSE_Sign(n<=6)/stand-alone Signature with Go header maps (all Go integer spellings, size classes across 23/24, 255/256, 65535/65536), " +
			"and reference-encoded wire messages with every protected-bstr head width (1/2/3/5/9), non-canonical inner maps, h''/h'a0'; Sign and Verify paths through a recording spy. " +
			"A case is non-trivial when the spy was actually invoked; distinct = (kind, path, constructed|decoded, body head width, sign head width, inner-map canonical?, size class, external class, signer position).",
		Assume: []string{"refcbor/refcose reproduce the 18 conformance vectors' tbsHex (self-test)", "spy Signer/Verifier receives content unmodified by Go's interface call"},
		Run:    runC02,
	})
}

func c02sizeTarget(r *mon.Rand, i int) int {
	// steer the encoded protected header into each length class
	switch i % 9 {
	case 0:
		return 0
	case 1:
		return 5 + r.Intn(10)
	case 2:
		return 12 + r.Intn(8) // around 23/24 once alg and label are added
	case 3:
		return 200 + r.Intn(40)
	case 4:
		return 240 + r.Intn(16) // around 255/256
	case 5:
		return 65500 + r.Intn(40) // around 65535/65536
	case 6:
		return 70000
	}
	return 0
}

func runC02(c *Ctx) {
	rec := c.Rec
	nCons := c.N(1200, 60000)
	nWire := c.N(1500, 80000)
	nSign := c.N(300, 12000)

	// ---- (a) constructed Sign1 / Untagged ----
	mon.Parallel(c.Workers, nCons, func(w, i int) {
		r := mon.NewRand(uint64(c.Seed)).Sub(uint64(1000 + i))
		algv := mon.Pick(r, cose.AlgorithmES256, cose.AlgorithmPS256, cose.Algorithm(-65537), cose.Algorithm(70000))
		ext := gen.External(r)
		var algOpt *cose.Algorithm
		mode := r.Intn(3) // 0: alg present, 1: absent (injection), 2: absent + external
		if mode == 0 {
			algOpt = &algv
		}
		if mode == 2 && len(ext) == 0 {
			ext = []byte("external")
		}
		fill := c02sizeTarget(r, i)
		if fill > 60000 && !c.Thorough && i%3 != 0 {
			fill = 300
		}
		prot, iv := gen.GoHeader(r, gen.HeaderOpts{Protected: true, MaxEntries: 6, Alg: algOpt, AlgSpell: r.Intn(5), FillTo: fill}, false)
		unprot, _ := gen.GoHeader(r, gen.HeaderOpts{MaxEntries: 4}, iv != 0)
		payload := gen.Payload(r, false)
		// forced length-prefix boundaries of payload and external_aad inside the Sig_structure
		bounds := []int{23, 24, 255, 256, 65535, 65536}
		switch i % 16 {
		case 3:
			payload = r.Bytes(bounds[(i/16)%6])
		case 7:
			if mode != 1 || true {
				ext = r.Bytes(bounds[(i/16)%6])
			}
		case 11:
			payload, ext = r.Bytes(bounds[(i/16)%6]), r.Bytes(bounds[(i/96)%6])
		}
		untagged := r.Bool()

		msg := &cose.Sign1Message{Headers: cose.Headers{Protected: prot, Unprotected: unprot}, Payload: payload}
		spy := &mon.SpySigner{Alg: algv}
		var err error
		input := map[string]any{"case": i, "protected": describeHeader(prot), "payload_len": len(payload), "external": ext, "untagged": untagged}
		if guard(rec, "Sign1.Sign", input, func() {
			if untagged {
				err = (*cose.UntaggedSign1Message)(msg).Sign(gen.Entropy, ext, spy)
			} else {
				err = msg.Sign(gen.Entropy, ext, spy)
			}
		}) {
			return
		}
		rec.Eval(1)
		rec.Event("Sign1Message.Sign")
		if err != nil {
			rec.Event("Sign1Message.Sign:error")
			// the generator only produces signable messages; a refusal is not C02's
			// business, but it is counted so a drift is visible
			rec.Sample("sign-refused", map[string]any{"err": err.Error(), "protected": describeHeader(prot)})
			return
		}
		if spy.Calls != 1 {
			rec.Violate("spy-calls", "sign1-constructed", fmt.Sprintf("signer invoked %d times by a successful Sign", spy.Calls), input)
			return
		}
		content, cerr := refcose.ProtectedContent(msg.Headers.Protected, gen.Custom)
		if cerr != nil {
			rec.HarnessError("C02: " + cerr.Error())
			return
		}
		want := refcose.Sign1Structure(content, ext, payload)
		cls := fmt.Sprintf("sign1/sign/constructed/size=%s/ext=%s/extlen=%s/payload=%s/untagged=%v", gen.SizeClass(len(content)), gen.ExternalClass(ext), boundaryClass(len(ext)), boundaryClass(len(payload)), untagged)
		rec.Class(cls)
		if !eqBytes(spy.Last(), want) {
			rec.Violate("tbs-mismatch", cls, fmt.Sprintf("signer got %s\nreference  %s", hexs(spy.Last()), hexs(want)), input)
			return
		}
		rec.Sample("sign1-constructed", map[string]any{"protected": describeHeader(msg.Headers.Protected), "tbs": hexs(want)})

		// verify path on the same object
		vspy := &mon.SpyVerifier{Alg: algv}
		if guard(rec, "Sign1.Verify", input, func() { err = msg.Verify(ext, vspy) }) {
			return
		}
		rec.Eval(1)
		rec.Event("Sign1Message.Verify")
		if err == nil && vspy.Calls == 1 {
			rec.Class(fmt.Sprintf("sign1/verify/constructed/size=%s/ext=%s", gen.SizeClass(len(content)), gen.ExternalClass(ext)))
			if !eqBytes(vspy.Last(), want) {
				rec.Violate("tbs-mismatch", "sign1-verify-constructed", fmt.Sprintf("verifier got %s\nreference    %s", hexs(vspy.Last()), hexs(want)), input)
			}
		} else {
			rec.Violate("verify-path", "sign1-verify-constructed", fmt.Sprintf("Verify on a just-signed message: err=%v, verifier calls=%d", err, vspy.Calls), input)
		}

		// the payload buffer edited in place between two calls: the second call must sign/verify the new content
		if len(msg.Payload) > 0 {
			msg.Payload[len(msg.Payload)/2] ^= 0x55
			want2 := refcose.Sign1Structure(content, ext, msg.Payload)
			vspy3 := &mon.SpyVerifier{Alg: algv}
			if guard(rec, "Sign1.Verify", input, func() { err = msg.Verify(ext, vspy3) }) {
				return
			}
			rec.Eval(1)
			if vspy3.Calls == 1 {
				rec.Class("sign1/verify/payload-edited-in-place")
				if !eqBytes(vspy3.Last(), want2) {
					rec.Violate("tbs-stale", "sign1-payload-edited-in-place", "after an in-place edit of the payload buffer the verifier still received the old ToBeSigned", input)
				}
			}
			msg.Payload[len(msg.Payload)/2] ^= 0x55
		}
		// metamorphic: other unprotected headers, tag/untag, nil vs empty external
		unprot2, _ := gen.GoHeader(r, gen.HeaderOpts{MaxEntries: 5}, iv != 0)
		m2 := &cose.Sign1Message{Headers: cose.Headers{Protected: msg.Headers.Protected, Unprotected: unprot2}, Payload: payload, Signature: msg.Signature}
		ext2 := ext
		if len(ext) == 0 {
			if ext == nil {
				ext2 = []byte{}
			} else {
				ext2 = nil
			}
		}
		vspy2 := &mon.SpyVerifier{Alg: algv}
		if guard(rec, "Sign1.Verify", input, func() { err = (*cose.UntaggedSign1Message)(m2).Verify(ext2, vspy2) }) {
			return
		}
		rec.Eval(1)
		if vspy2.Calls == 1 {
			rec.Class("sign1/metamorphic/unprotected+tag+nil-empty-external")
			if !eqBytes(vspy2.Last(), want) {
				rec.Violate("metamorphic", "sign1-unprotected-or-tag-or-external", "ToBeSigned changed with unprotected headers / tag / nil-vs-empty external:\n"+hexs(vspy2.Last())+"\n"+hexs(want), input)
			}
		}
	})

	// ---- (b) wire messages (Sign1), verify path and re-sign path ----
	mon.Parallel(c.Workers, nWire, func(w, i int) {
		r := mon.NewRand(uint64(c.Seed)).Sub(uint64(2000000 + i))
		alg := mon.Pick(r, int64(-7), int64(-37), int64(-65537), int64(70000))
		ext := gen.External(r)
		var algp *int64
		if r.Intn(3) != 0 {
			algp = &alg
		} else if len(ext) == 0 {
			ext = []byte{0xee}
		}
		fill := c02sizeTarget(r, i)
		if fill > 60000 && !c.Thorough && i%3 != 0 {
			fill = 250
		}
		lo := gen.LayerOpts{Alg: algp, MaxProt: 5, MaxUnprot: 3, ScramblePct: 40, FillTo: fill}
		l := gen.RandLayer(r, lo)
		l.ProtWidth = gen.HeadWidths[i%5]
		wm := &gen.WSign1{L: l, Payload: gen.Payload(r, false), PayloadWidth: mon.Pick(r, 0, 0, 2, 3, 5, 9), Sig: mon.FixedSig, SigWidth: mon.Pick(r, 0, 0, 3, 9), Tagged: r.Bool()}
		b := wm.Bytes()
		if i%20 == 7 && len(l.Content()) > 1 {
			// outside the documented limits: the protected bstr sent with indefinite length (two chunks).
			// The decoder may refuse it; if it accepts, ToBeSigned must still be the RFC structure.
			if t, err := gen.ParseTree(b); err == nil {
				body := t.Root
				if body.Major == refcbor.Tag {
					body = body.Kids[0]
				}
				c0 := l.Content()
				half := len(c0) / 2
				delete(t.Emb, body.Kids[0])
				body.Kids[0] = &refcbor.Node{Major: refcbor.Bstr, Indef: true, Str: c0, Kids: []*refcbor.Node{refcbor.NBstr(c0[:half]), refcbor.NBstr(c0[half:])}}
				b = t.Seal()
			}
		}
		canonInner := true
		if len(l.Content()) > 0 {
			canonInner, _ = refcbor.IsCanonical(l.Content())
		}
		input := map[string]any{"case": i, "wire": mon.FullHex(b), "external": ext}
		var msg cose.Sign1Message
		var err error
		if guard(rec, "Sign1.UnmarshalCBOR", input, func() {
			if wm.Tagged {
				err = msg.UnmarshalCBOR(b)
			} else {
				err = (*cose.UntaggedSign1Message)(&msg).UnmarshalCBOR(b)
			}
		}) {
			return
		}
		rec.Eval(1)
		rec.Event("Sign1Message.UnmarshalCBOR")
		if err != nil {
			// acceptance of every valid encoding is C07's property; here only counted
			rec.Event("Sign1Message.UnmarshalCBOR:refused")
			rec.Sample("wire-refused", map[string]any{"err": err.Error(), "wire": hexs(b)})
			return
		}
		want := wm.TBS(ext, wm.Payload)
		cls := fmt.Sprintf("sign1/verify/decoded/bodyw=%d/canon=%v/size=%s/ext=%s", refcbor.FitWidth(uint64(len(l.Content())), l.ProtWidth), canonInner, gen.SizeClass(len(l.Content())), gen.ExternalClass(ext))
		vspy := &mon.SpyVerifier{Alg: cose.Algorithm(alg)}
		if guard(rec, "Sign1.Verify", input, func() { err = msg.Verify(ext, vspy) }) {
			return
		}
		rec.Event("Sign1Message.Verify")
		if vspy.Calls == 1 {
			rec.Class(cls)
			if !eqBytes(vspy.Last(), want) {
				rec.Violate("tbs-mismatch", cls, fmt.Sprintf("verifier got %s\nreference    %s", hexs(vspy.Last()), hexs(want)), input)
				return
			}
			rec.Sample("sign1-decoded-w"+fmt.Sprint(l.ProtWidth), map[string]any{"wire": hexs(b), "tbs": hexs(want)})
		} else {
			rec.Event("Sign1Message.Verify:not-reached")
		}
		// sign path after clearing the signature (decoded message keeps raw bytes)
		msg.Signature = nil
		sspy := &mon.SpySigner{Alg: cose.Algorithm(alg)}
		if guard(rec, "Sign1.Sign", input, func() { err = msg.Sign(gen.Entropy, ext, sspy) }) {
			return
		}
		rec.Eval(1)
		rec.Event("Sign1Message.Sign(decoded)")
		if sspy.Calls == 1 {
			rec.Class("sign1/sign/decoded/" + fmt.Sprintf("bodyw=%d/canon=%v", l.ProtWidth, canonInner))
			if !eqBytes(sspy.Last(), want) {
				rec.Violate("tbs-mismatch", "sign1-sign-decoded", fmt.Sprintf("signer got %s\nreference  %s", hexs(sspy.Last()), hexs(want)), input)
			}
			// ... and what was signed is what the message then carries: the received protected bytes
			if err == nil {
				var out []byte
				var merr error
				if wm.Tagged {
					out, merr = msg.MarshalCBOR()
				} else {
					out, merr = (*cose.UntaggedSign1Message)(&msg).MarshalCBOR()
				}
				if merr == nil {
					if f, ok := sign1Fields(out, wm.Tagged); !ok || !eqBytes(f.Layer.protContent, l.Content()) {
						rec.Violate("tbs-mismatch", "sign1-sign-decoded/emitted", fmt.Sprintf("the message signed over protected content %s is emitted with %s", hexs(l.Content()), hexs(f.Layer.protContent)), input)
					}
				}
			}
		}
		// the application replaces the retained protected bytes by others (another encoding of the header, a
		// header taken from elsewhere - the algorithm stays the one of the parsed map): from then on those
		// bytes are what is verified, signed and emitted
		if i%3 == 0 {
			nm := refcbor.NMap(refcbor.NInt(1), refcbor.NInt(alg), refcbor.NInt(int64(70000+i)), refcbor.NBstr(r.Bytes(1+r.Intn(30))))
			nc := refcbor.Encode(nm)
			nb := refcbor.NBstr(nc)
			nb.Width = refcbor.FitWidth(uint64(len(nc)), gen.HeadWidths[(i/3)%5])
			msg.Headers.RawProtected = refcbor.Encode(nb)
			msg.Signature = append([]byte{}, mon.FixedSig...)
			want2 := refcose.Sign1Structure(nc, ext, wm.Payload)
			v2 := &mon.SpyVerifier{Alg: cose.Algorithm(alg)}
			if guard(rec, "Sign1.Verify(raw protected replaced)", input, func() { err = msg.Verify(ext, v2) }) {
				return
			}
			rec.Event("raw-protected-replaced-after-decoding")
			if v2.Calls == 1 && !eqBytes(v2.Last(), want2) {
				rec.Violate("tbs-mismatch", "sign1/verify/raw-protected-replaced", fmt.Sprintf("after RawProtected was replaced the verifier got %s\nreference %s", hexs(v2.Last()), hexs(want2)), input)
				return
			}
			msg.Signature = nil
			s2 := &mon.SpySigner{Alg: cose.Algorithm(alg)}
			if guard(rec, "Sign1.Sign(raw protected replaced)", input, func() { err = msg.Sign(gen.Entropy, ext, s2) }) {
				return
			}
			if s2.Calls == 1 && !eqBytes(s2.Last(), want2) {
				rec.Violate("tbs-mismatch", "sign1/sign/raw-protected-replaced", fmt.Sprintf("after RawProtected was replaced the signer got %s\nreference %s", hexs(s2.Last()), hexs(want2)), input)
			}
		}
	})

	// ---- (c) COSE_Sign: constructed and wire, every signer position ----
	mon.Parallel(c.Workers, nSign, func(w, i int) {
		r := mon.NewRand(uint64(c.Seed)).Sub(uint64(5000000 + i))
		n := 1 + i%6
		ext := gen.External(r)
		payload := gen.Payload(r, false)
		switch i % 12 {
		case 2, 3:
			payload = r.Bytes([]int{255, 256, 65535, 65536, 23, 24}[(i/12)%6])
		case 6, 7:
			ext = r.Bytes([]int{255, 256, 65535, 65536, 23, 24}[(i/12)%6])
		}
		if i%2 == 0 {
			// constructed
			bodyProt, iv := gen.GoHeader(r, gen.HeaderOpts{Protected: true, MaxEntries: 4, FillTo: mon.Pick(r, 0, 0, 14, 230, 250)}, false)
			bodyUn, _ := gen.GoHeader(r, gen.HeaderOpts{MaxEntries: 3}, iv != 0)
			m := &cose.SignMessage{Headers: cose.Headers{Protected: bodyProt, Unprotected: bodyUn}, Payload: payload}
			signers := make([]cose.Signer, n)
			spies := make([]*mon.SpySigner, n)
			for j := 0; j < n; j++ {
				a := cose.Algorithm(-7 - j)
				sp, siv := gen.GoHeader(r, gen.HeaderOpts{Protected: true, MaxEntries: 3, Alg: &a, AlgSpell: r.Intn(5), FillTo: mon.Pick(r, 0, 0, 16, 240)}, false)
				su, _ := gen.GoHeader(r, gen.HeaderOpts{MaxEntries: 2}, siv != 0)
				m.Signatures = append(m.Signatures, &cose.Signature{Headers: cose.Headers{Protected: sp, Unprotected: su}})
				if len(ext) > 0 && r.Intn(4) == 0 {
					// with external data a signer needs no header at all: a zero Signature (nil maps), possibly
					// right after a signer that has one - its sign_protected is the empty byte string
					m.Signatures[j] = &cose.Signature{}
					rec.Event("constructed:zero-value-signature-slot")
				}
				spies[j] = &mon.SpySigner{Alg: a}
				signers[j] = spies[j]
			}
			input := map[string]any{"case": i, "n": n, "body": describeHeader(bodyProt), "external": ext}
			var err error
			if guard(rec, "SignMessage.Sign", input, func() { err = m.Sign(gen.Entropy, ext, signers...) }) {
				return
			}
			rec.Eval(1)
			rec.Event("SignMessage.Sign")
			if err != nil {
				rec.Event("SignMessage.Sign:error")
				rec.Sample("sign-refused", map[string]any{"err": err.Error()})
				return
			}
			bc, e1 := refcose.ProtectedContent(bodyProt, gen.Custom)
			if e1 != nil {
				rec.HarnessError(e1.Error())
				return
			}
			vs := make([]cose.Verifier, n)
			vspies := make([]*mon.SpyVerifier, n)
			for j := 0; j < n; j++ {
				sc, e2 := refcose.ProtectedContent(m.Signatures[j].Headers.Protected, gen.Custom)
				if e2 != nil {
					rec.HarnessError(e2.Error())
					return
				}
				want := refcose.SignatureStructure(bc, sc, ext, payload)
				cls := fmt.Sprintf("sign/sign/constructed/n=%d/pos=%d/body=%s/sign=%s", n, j, gen.SizeClass(len(bc)), gen.SizeClass(len(sc)))
				rec.Class(cls)
				if spies[j].Calls != 1 || !eqBytes(spies[j].Last(), want) {
					rec.Violate("tbs-mismatch", cls, fmt.Sprintf("signer %d (calls=%d) got %s\nreference %s", j, spies[j].Calls, hexs(spies[j].Last()), hexs(want)), input)
				}
				vspies[j] = &mon.SpyVerifier{Alg: cose.Algorithm(-7 - j)}
				vs[j] = vspies[j]
			}
			if guard(rec, "SignMessage.Verify", input, func() { err = m.Verify(ext, vs...) }) {
				return
			}
			rec.Event("SignMessage.Verify")
			for j := 0; j < n && err == nil; j++ {
				sc, _ := refcose.ProtectedContent(m.Signatures[j].Headers.Protected, gen.Custom)
				want := refcose.SignatureStructure(bc, sc, ext, payload)
				if vspies[j].Calls != 1 || !eqBytes(vspies[j].Last(), want) {
					rec.Violate("tbs-mismatch", fmt.Sprintf("sign/verify/constructed/pos=%d", j), fmt.Sprintf("verifier %d got %s\nreference %s", j, hexs(vspies[j].Last()), hexs(want)), input)
				}
			}
			// a refused verification in between (external data left out, so a signer without alg cannot be
			// judged) changes nothing: the next verification with the external data hands each verifier the
			// very same structure again
			if err == nil && len(ext) > 0 {
				bodyBstr := refcbor.Encode(refcbor.NBstr(bc))
				for j := 0; j < n; j++ {
					sg := m.Signatures[j]
					if _, aerr := sg.Headers.Protected.Algorithm(); aerr == nil {
						continue
					}
					sc, _ := refcose.ProtectedContent(sg.Headers.Protected, gen.Custom)
					want := refcose.SignatureStructure(bc, sc, ext, payload)
					v0 := &mon.SpyVerifier{Alg: cose.Algorithm(-7 - j)}
					var e0, e1 error
					if guard(rec, "Signature.Verify(no external, no alg)", input, func() { e0 = sg.Verify(v0, bodyBstr, payload, nil) }) {
						return
					}
					v1 := &mon.SpyVerifier{Alg: cose.Algorithm(-7 - j)}
					if guard(rec, "Signature.Verify(after a refused one)", input, func() { e1 = sg.Verify(v1, bodyBstr, payload, ext) }) {
						return
					}
					rec.Event("verify-after-refused-verify")
					if e0 == nil || v0.Calls != 0 {
						rec.Violate("tbs-mismatch", "sign/verify/constructed/no-alg-no-external", fmt.Sprintf("a signer without alg verified without external data: err=%v, verifier calls=%d, content %s", e0, v0.Calls, hexs(v0.Last())), input)
					} else if e1 != nil || v1.Calls != 1 || !eqBytes(v1.Last(), want) {
						rec.Violate("tbs-mismatch", "sign/verify/constructed/after-refused", fmt.Sprintf("after a refused verification the verifier (calls=%d, err=%v) got %s\nreference %s", v1.Calls, e1, hexs(v1.Last()), hexs(want)), input)
					}
				}
			}
			// stand-alone Signature.Sign with the body protected bstr handed over with a wide head
			wprot := refcbor.NBstr(bc)
			wprot.Width = refcbor.FitWidth(uint64(len(bc)), gen.HeadWidths[i%5])
			sa := &cose.Signature{Headers: cose.Headers{Protected: cose.ProtectedHeader{int64(1): cose.Algorithm(-7)}}}
			ss := &mon.SpySigner{Alg: -7}
			if guard(rec, "Signature.Sign", input, func() { err = sa.Sign(gen.Entropy, ss, refcbor.Encode(wprot), payload, ext) }) {
				return
			}
			rec.Eval(1)
			rec.Event("Signature.Sign(stand-alone)")
			if err == nil && ss.Calls == 1 {
				want := refcose.SignatureStructure(bc, []byte{0xa1, 0x01, 0x26}, ext, payload)
				cls := fmt.Sprintf("signature/sign/standalone/bodyw=%d", wprot.Width)
				rec.Class(cls)
				if !eqBytes(ss.Last(), want) {
					rec.Violate("tbs-mismatch", cls, fmt.Sprintf("signer got %s\nreference %s", hexs(ss.Last()), hexs(want)), input)
				}
			}
			return
		}
		// wire COSE_Sign
		wm := &gen.WSign{L: gen.RandLayer(r, gen.LayerOpts{MaxProt: 4, MaxUnprot: 2, ScramblePct: 40, FillTo: mon.Pick(r, 0, 0, 14, 240)}), Payload: payload, SigsWidth: mon.Pick(r, 0, 0, 2, 3)}
		wm.L.ProtWidth = gen.HeadWidths[(i/2)%5]
		for j := 0; j < n; j++ {
			a := int64(-7 - j)
			sl := gen.RandLayer(r, gen.LayerOpts{Alg: &a, MaxProt: 3, MaxUnprot: 2, ScramblePct: 40, FillTo: mon.Pick(r, 0, 0, 15, 245)})
			sl.ProtWidth = gen.HeadWidths[(i/2+j+1)%5]
			wm.Sigs = append(wm.Sigs, &gen.WSignature{L: sl, Sig: mon.FixedSig, SigWidth: mon.Pick(r, 0, 0, 3)})
		}
		b := wm.Bytes()
		input := map[string]any{"case": i, "wire": mon.FullHex(b), "external": ext}
		var m cose.SignMessage
		var err error
		if guard(rec, "SignMessage.UnmarshalCBOR", input, func() { err = m.UnmarshalCBOR(b) }) {
			return
		}
		rec.Eval(1)
		rec.Event("SignMessage.UnmarshalCBOR")
		if err != nil {
			rec.Event("SignMessage.UnmarshalCBOR:refused")
			rec.Sample("wire-refused", map[string]any{"err": err.Error(), "wire": hexs(b)})
			return
		}
		vs := make([]cose.Verifier, n)
		vspies := make([]*mon.SpyVerifier, n)
		for j := range vs {
			vspies[j] = &mon.SpyVerifier{Alg: cose.Algorithm(-7 - j)}
			vs[j] = vspies[j]
		}
		if guard(rec, "SignMessage.Verify", input, func() { err = m.Verify(ext, vs...) }) {
			return
		}
		rec.Event("SignMessage.Verify")
		if err != nil {
			rec.Violate("verify-path", "sign/verify/decoded", "spy verifiers all accept but Verify failed: "+err.Error(), input)
			return
		}
		for j := 0; j < n; j++ {
			want := wm.TBS(j, ext, payload)
			cls := fmt.Sprintf("sign/verify/decoded/n=%d/pos=%d/bodyw=%d/signw=%d", n, j, wm.L.ProtWidth, wm.Sigs[j].L.ProtWidth)
			rec.Class(cls)
			if vspies[j].Calls != 1 || !eqBytes(vspies[j].Last(), want) {
				rec.Violate("tbs-mismatch", cls, fmt.Sprintf("verifier %d (calls=%d) got %s\nreference %s", j, vspies[j].Calls, hexs(vspies[j].Last()), hexs(want)), input)
			}
		}
		rec.Sample("sign-decoded", map[string]any{"wire": hexs(b), "tbs0": hexs(wm.TBS(0, ext, payload))})
	})

	// ---- (c+) signers kept from one received message while the same variable receives the next one:
	// each kept signer is still verified over the bytes of ITS message ----
	mon.Parallel(c.Workers, c.N(300, 6000), func(w, i int) {
		r := mon.NewRand(uint64(c.Seed)).Sub(uint64(5700000 + i))
		ext := gen.External(r)
		mk := func(n int, tagByte byte) (*gen.WSign, []byte) {
			payload := append([]byte{tagByte}, gen.Payload(r, false)...)
			wm := &gen.WSign{L: gen.RandLayer(r, gen.LayerOpts{MaxProt: 3, MaxUnprot: 2, ScramblePct: 40}), Payload: payload}
			wm.L.ProtWidth = gen.HeadWidths[(i+int(tagByte))%5]
			for j := 0; j < n; j++ {
				a := int64(-7)
				sl := gen.RandLayer(r, gen.LayerOpts{Alg: &a, MaxProt: 3, MaxUnprot: 2, ScramblePct: 40})
				sl.ProtWidth = gen.HeadWidths[(i+j)%5]
				wm.Sigs = append(wm.Sigs, &gen.WSignature{L: sl, Sig: mon.FixedSig})
			}
			return wm, payload
		}
		nA, nB := 1+i%4, 1+(i/4)%5
		wa, pa := mk(nA, 'A')
		wb, pb := mk(nB, 'B')
		ba, bb := wa.Bytes(), wb.Bytes()
		input := map[string]any{"case": i, "family": "kept signers", "first": mon.FullHex(ba), "second": mon.FullHex(bb), "external": ext}
		var m cose.SignMessage
		var err error
		if guard(rec, "SignMessage.UnmarshalCBOR", input, func() { err = m.UnmarshalCBOR(ba) }) || err != nil {
			return
		}
		keptBody, berr := m.Headers.MarshalProtected()
		keptPayload := m.Payload
		keptSigs := m.Signatures
		if berr != nil {
			return
		}
		third := ba
		if guard(rec, "SignMessage.UnmarshalCBOR(second)", input, func() {
			err = m.UnmarshalCBOR(bb)
			if err == nil && i%3 == 0 {
				err = m.UnmarshalCBOR(third)
			}
		}) || err != nil {
			return
		}
		rec.Eval(1)
		rec.Event("kept-signers-verified-after-next-decode")
		rec.Class(fmt.Sprintf("kept-signers/first=%d/second=%d/third=%v", nA, nB, i%3 == 0))
		for j, sg := range keptSigs {
			v := &mon.SpyVerifier{Alg: cose.AlgorithmES256}
			if guard(rec, "Signature.Verify(kept)", input, func() { err = sg.Verify(v, keptBody, keptPayload, ext) }) {
				return
			}
			want := wa.TBS(j, ext, pa)
			if err != nil || v.Calls != 1 || !eqBytes(v.Last(), want) {
				rec.Violate("tbs-mismatch", "sign/verify/kept-signer", fmt.Sprintf("signer %d kept from the first message, verified after the variable received the next one (err=%v, calls=%d): verifier got %s\nreference %s", j, err, v.Calls, hexs(v.Last()), hexs(want)), input)
				return
			}
		}
		// ... and the variable itself now holds the last message
		last, lp := wb, pb
		if i%3 == 0 {
			last, lp = wa, pa
		}
		for j, sg := range m.Signatures {
			v := &mon.SpyVerifier{Alg: cose.AlgorithmES256}
			body, _ := m.Headers.MarshalProtected()
			if guard(rec, "Signature.Verify(current)", input, func() { err = sg.Verify(v, body, m.Payload, ext) }) {
				return
			}
			if want := last.TBS(j, ext, lp); err != nil || v.Calls != 1 || !eqBytes(v.Last(), want) {
				rec.Violate("tbs-mismatch", "sign/verify/current-signer", fmt.Sprintf("signer %d of the message decoded last: verifier got %s\nreference %s", j, hexs(v.Last()), hexs(want)), input)
				return
			}
		}
	})
	rec.Require("kept-signers-verified-after-next-decode", 100)

	// ---- (d) very large payload / external data with every head width of the protected bstr ----
	// (sizes where an implementation might switch to a streaming or chunked construction)
	bigSizes := []int{1 << 20, 4<<20 - 1, 4 << 20, 4<<20 + 1}
	if c.Thorough {
		bigSizes = append(bigSizes, 8<<20, 16<<20+1, 32<<20)
	}
	type bigJob struct {
		size, width int
		where       string // which field is large
		structure   string
	}
	var bigJobs []bigJob
	for _, sz := range bigSizes {
		for _, wd := range gen.HeadWidths {
			for _, where := range []string{"payload", "external"} {
				for _, st := range []string{"sign1", "sign"} {
					bigJobs = append(bigJobs, bigJob{sz, wd, where, st})
				}
			}
		}
	}
	// ... and a protected header that is itself very large (a parameter holding 64 KiB / 16 MiB), written with
	// every head width: the Sig_structure carries it under the shortest head
	for _, sz := range []int{1 << 16, 1<<24 - 20, 1 << 24, 1<<24 + 1} {
		for _, wd := range gen.HeadWidths {
			bigJobs = append(bigJobs, bigJob{sz, wd, "protected", "sign1"})
		}
	}
	bigWorkers := c.Workers
	if bigWorkers > 4 {
		bigWorkers = 4 // each job holds several copies of the large field
	}
	mon.Parallel(bigWorkers, len(bigJobs), func(w, i int) {
		j := bigJobs[i]
		r := mon.NewRand(uint64(c.Seed)).Sub(uint64(6000000 + i))
		big := r.Bytes(j.size)
		payload, ext := []byte("small payload"), []byte("ext")
		if j.where == "payload" {
			payload = big
		} else {
			ext = big
		}
		alg := int64(-7)
		cls := fmt.Sprintf("%s/large-%s/size=%d/bodyw=%d", j.structure, j.where, j.size, j.width)
		input := map[string]any{"cell": cls}
		switch j.structure {
		case "sign1":
			l := gen.RandLayer(r, gen.LayerOpts{Alg: &alg, MaxProt: 3, MaxUnprot: 2, ScramblePct: 40})
			l.ProtWidth = j.width
			if j.where == "protected" {
				payload, ext = []byte("small payload"), []byte("ext")
				l.ProtMap.Kids = append(l.ProtMap.Kids, refcbor.NInt(int64(880000+i)), refcbor.NBstr(big))
			}
			wm := &gen.WSign1{L: l, Payload: payload, Sig: mon.FixedSig, Tagged: true}
			b := wm.Bytes()
			var msg cose.Sign1Message
			var err error
			if guard(rec, "Sign1.UnmarshalCBOR", input, func() { err = msg.UnmarshalCBOR(b) }) || err != nil {
				rec.Event("large:refused")
				return
			}
			want := wm.TBS(ext, payload)
			vspy := &mon.SpyVerifier{Alg: cose.Algorithm(alg)}
			if guard(rec, "Sign1.Verify", input, func() { err = msg.Verify(ext, vspy) }) {
				return
			}
			rec.Eval(1)
			rec.Event("large-field-cases")
			rec.Class(cls)
			if vspy.Calls != 1 || !eqBytes(vspy.Last(), want) {
				rec.Violate("tbs-mismatch", "large/"+cls, fmt.Sprintf("verifier (calls=%d) got %d bytes, reference %d bytes; first difference at %d", vspy.Calls, len(vspy.Last()), len(want), firstDiff(vspy.Last(), want)), input)
				return
			}
			msg.Signature = nil
			sspy := &mon.SpySigner{Alg: cose.Algorithm(alg)}
			if guard(rec, "Sign1.Sign", input, func() { err = msg.Sign(gen.Entropy, ext, sspy) }) {
				return
			}
			if sspy.Calls != 1 || !eqBytes(sspy.Last(), want) {
				rec.Violate("tbs-mismatch", "large/sign/"+cls, fmt.Sprintf("signer (calls=%d, err=%v) got %d bytes, reference %d bytes; first difference at %d", sspy.Calls, err, len(sspy.Last()), len(want), firstDiff(sspy.Last(), want)), input)
			}
			// constructed message of the same content
			cm := &cose.Sign1Message{Headers: cose.Headers{Protected: cose.ProtectedHeader{int64(1): cose.AlgorithmES256, int64(4): []byte("kid")}}, Payload: payload}
			cspy := &mon.SpySigner{Alg: cose.AlgorithmES256}
			if guard(rec, "Sign1.Sign(constructed)", input, func() { err = cm.Sign(gen.Entropy, ext, cspy) }) {
				return
			}
			cwant := refcose.Sign1Structure([]byte{0xa2, 0x01, 0x26, 0x04, 0x43, 'k', 'i', 'd'}, ext, payload)
			if cspy.Calls != 1 || !eqBytes(cspy.Last(), cwant) {
				rec.Violate("tbs-mismatch", "large/constructed/"+cls, fmt.Sprintf("signer (calls=%d, err=%v) got %d bytes, reference %d bytes; first difference at %d", cspy.Calls, err, len(cspy.Last()), len(cwant), firstDiff(cspy.Last(), cwant)), input)
			}
		case "sign":
			wm := &gen.WSign{L: gen.RandLayer(r, gen.LayerOpts{MaxProt: 3, MaxUnprot: 2, ScramblePct: 40}), Payload: payload}
			wm.L.ProtWidth = j.width
			for q := 0; q < 2; q++ {
				a := int64(-7 - q)
				sl := gen.RandLayer(r, gen.LayerOpts{Alg: &a, MaxProt: 2, MaxUnprot: 1, ScramblePct: 40})
				sl.ProtWidth = gen.HeadWidths[(i+q+1)%5]
				wm.Sigs = append(wm.Sigs, &gen.WSignature{L: sl, Sig: mon.FixedSig})
			}
			b := wm.Bytes()
			var m cose.SignMessage
			var err error
			if guard(rec, "SignMessage.UnmarshalCBOR", input, func() { err = m.UnmarshalCBOR(b) }) || err != nil {
				rec.Event("large:refused")
				return
			}
			vspies := []*mon.SpyVerifier{{Alg: -7}, {Alg: -8}}
			if guard(rec, "SignMessage.Verify", input, func() { err = m.Verify(ext, vspies[0], vspies[1]) }) {
				return
			}
			rec.Eval(1)
			rec.Event("large-field-cases")
			rec.Class(cls)
			for q := 0; q < 2; q++ {
				want := wm.TBS(q, ext, payload)
				if vspies[q].Calls != 1 || !eqBytes(vspies[q].Last(), want) {
					rec.Violate("tbs-mismatch", "large/"+cls, fmt.Sprintf("verifier %d (calls=%d, err=%v) got %d bytes, reference %d bytes; first difference at %d", q, vspies[q].Calls, err, len(vspies[q].Last()), len(want), firstDiff(vspies[q].Last(), want)), input)
					return
				}
			}
			for _, sg := range m.Signatures {
				sg.Signature = nil
			}
			sspies := []*mon.SpySigner{{Alg: -7}, {Alg: -8}}
			if guard(rec, "SignMessage.Sign", input, func() { err = m.Sign(gen.Entropy, ext, sspies[0], sspies[1]) }) {
				return
			}
			for q := 0; q < 2; q++ {
				want := wm.TBS(q, ext, payload)
				if sspies[q].Calls != 1 || !eqBytes(sspies[q].Last(), want) {
					rec.Violate("tbs-mismatch", "large/sign/"+cls, fmt.Sprintf("signer %d (calls=%d, err=%v) got %d bytes, reference %d bytes; first difference at %d", q, sspies[q].Calls, err, len(sspies[q].Last()), len(want), firstDiff(sspies[q].Last(), want)), input)
					return
				}
			}
		}
	})

	// ---- (e) arguments for which no Sig_structure exists: a key is never handed anything else ----
	// nil payload, empty signature on the verify side, a body_protected argument or a caller-supplied
	// RawProtected that is not exactly one definite-length byte string: the call fails without consulting
	// the key, or (where the bytes can be read as a byte string) the key sees the RFC structure over
	// that byte string's content with a shortest-form head.
	{
		type rawCase struct {
			name    string
			raw     []byte
			content []byte // content when the bytes are one well-formed definite bstr; nil = must be refused
		}
		a1 := []byte{0xa1, 0x01, 0x26}
		rawCases := []rawCase{
			{"map-not-bstr", []byte{0xa1, 0x01, 0x26}, nil},
			{"array", []byte{0x80}, nil},
			{"tstr", []byte{0x63, 0xa1, 0x01, 0x26}, nil},
			{"truncated", []byte{0x58, 0x05, 0xa1, 0x01, 0x26}, nil},
			{"trailing-byte", []byte{0x43, 0xa1, 0x01, 0x26, 0x00}, nil},
			{"indefinite", []byte{0x5f, 0x43, 0xa1, 0x01, 0x26, 0xff}, nil},
			{"null", []byte{0xf6}, nil},
			{"tagged-bstr", []byte{0xc1, 0x43, 0xa1, 0x01, 0x26}, nil},
			{"shortest", []byte{0x43, 0xa1, 0x01, 0x26}, a1},
			{"1-byte-length", []byte{0x58, 0x03, 0xa1, 0x01, 0x26}, a1},
			{"2-byte-length", []byte{0x59, 0x00, 0x03, 0xa1, 0x01, 0x26}, a1},
			{"4-byte-length", []byte{0x5a, 0, 0, 0, 0x03, 0xa1, 0x01, 0x26}, a1},
			{"8-byte-length", []byte{0x5b, 0, 0, 0, 0, 0, 0, 0, 0x03, 0xa1, 0x01, 0x26}, a1},
			{"8-byte-length-high-bits", []byte{0x5b, 0, 0, 0, 1, 0, 0, 0, 0x03, 0xa1, 0x01, 0x26}, nil},
		}
		payload := []byte("payload")
		for _, rc := range rawCases {
			for _, ext := range [][]byte{nil, []byte("ext")} {
				type call struct {
					name string
					sign func(s cose.Signer) error
					ver  func(v cose.Verifier) error
					want func() []byte
				}
				calls := []call{
					{"Sign1Message(RawProtected)",
						func(sg cose.Signer) error {
							return (&cose.Sign1Message{Headers: cose.Headers{RawProtected: rc.raw, Protected: cose.ProtectedHeader{int64(1): cose.AlgorithmES256}}, Payload: payload}).Sign(gen.Entropy, ext, sg)
						},
						func(v cose.Verifier) error {
							return (&cose.Sign1Message{Headers: cose.Headers{RawProtected: rc.raw, Protected: cose.ProtectedHeader{int64(1): cose.AlgorithmES256}}, Payload: payload, Signature: mon.FixedSig}).Verify(ext, v)
						},
						func() []byte { return refcose.Sign1Structure(rc.content, ext, payload) }},
					{"Signature(body_protected argument)",
						func(sg cose.Signer) error {
							return (&cose.Signature{Headers: cose.Headers{Protected: cose.ProtectedHeader{int64(1): cose.AlgorithmES256}}}).Sign(gen.Entropy, sg, rc.raw, payload, ext)
						},
						func(v cose.Verifier) error {
							return (&cose.Signature{Headers: cose.Headers{Protected: cose.ProtectedHeader{int64(1): cose.AlgorithmES256}}, Signature: mon.FixedSig}).Verify(v, rc.raw, payload, ext)
						},
						func() []byte { return refcose.SignatureStructure(rc.content, a1, ext, payload) }},
					{"Signature(RawProtected)",
						func(sg cose.Signer) error {
							return (&cose.Signature{Headers: cose.Headers{RawProtected: rc.raw, Protected: cose.ProtectedHeader{int64(1): cose.AlgorithmES256}}}).Sign(gen.Entropy, sg, []byte{0x40}, payload, ext)
						},
						func(v cose.Verifier) error {
							return (&cose.Signature{Headers: cose.Headers{RawProtected: rc.raw, Protected: cose.ProtectedHeader{int64(1): cose.AlgorithmES256}}, Signature: mon.FixedSig}).Verify(v, []byte{0x40}, payload, ext)
						},
						func() []byte { return refcose.SignatureStructure(nil, rc.content, ext, payload) }},
					{"SignMessage(body RawProtected)",
						func(sg cose.Signer) error {
							m := &cose.SignMessage{Headers: cose.Headers{RawProtected: rc.raw}, Payload: payload, Signatures: []*cose.Signature{{Headers: cose.Headers{Protected: cose.ProtectedHeader{int64(1): cose.AlgorithmES256}}}}}
							return m.Sign(gen.Entropy, ext, sg)
						},
						func(v cose.Verifier) error {
							m := &cose.SignMessage{Headers: cose.Headers{RawProtected: rc.raw}, Payload: payload, Signatures: []*cose.Signature{{Headers: cose.Headers{Protected: cose.ProtectedHeader{int64(1): cose.AlgorithmES256}}, Signature: mon.FixedSig}}}
							return m.Verify(ext, v)
						},
						func() []byte { return refcose.SignatureStructure(rc.content, a1, ext, payload) }},
				}
				for _, cl := range calls {
					sspy := &mon.SpySigner{Alg: cose.AlgorithmES256}
					vspy := &mon.SpyVerifier{Alg: cose.AlgorithmES256}
					cell := fmt.Sprintf("hostile-argument/%s/%s/ext=%s", cl.name, rc.name, gen.ExternalClass(ext))
					in := map[string]any{"cell": cell, "bytes": hexs(rc.raw)}
					var e1, e2 error
					if guard(rec, cl.name, in, func() { e1 = cl.sign(sspy); e2 = cl.ver(vspy) }) {
						continue
					}
					rec.Eval(2)
					rec.Event("hostile-argument-cases")
					rec.Class(cell)
					for _, side := range []struct {
						what  string
						calls int
						last  []byte
						err   error
					}{{"signer", sspy.Calls, sspy.Last(), e1}, {"verifier", vspy.Calls, vspy.Last(), e2}} {
						if side.calls == 0 {
							if side.err == nil {
								rec.Violate("no-structure", cell+"/"+side.what, "the call returned nil without consulting the key", in)
							}
							rec.Event("hostile-argument:refused")
							continue
						}
						rec.Event("hostile-argument:key-consulted")
						if rc.content == nil {
							rec.Violate("no-structure", cell+"/"+side.what, fmt.Sprintf("the %s was handed %s although the protected bytes are not one definite-length byte string", side.what, hexs(side.last)), in)
						} else if !eqBytes(side.last, cl.want()) {
							rec.Violate("tbs-mismatch", cell+"/"+side.what, fmt.Sprintf("%s got %s\nreference %s", side.what, hexs(side.last), hexs(cl.want())), in)
						}
					}
				}
			}
		}
		// nil payload (detached content not supplied) and empty signatures
		for _, ext := range [][]byte{nil, []byte("ext")} {
			hp := func() cose.Headers {
				return cose.Headers{Protected: cose.ProtectedHeader{int64(1): cose.AlgorithmES256}, Unprotected: cose.UnprotectedHeader{}}
			}
			type nc struct {
				name string
				run  func(sg cose.Signer, v cose.Verifier) error
			}
			ncs := []nc{
				{"Sign1Message.Sign(nil payload)", func(sg cose.Signer, v cose.Verifier) error {
					return (&cose.Sign1Message{Headers: hp()}).Sign(gen.Entropy, ext, sg)
				}},
				{"Sign1Message.Verify(nil payload)", func(sg cose.Signer, v cose.Verifier) error {
					return (&cose.Sign1Message{Headers: hp(), Signature: mon.FixedSig}).Verify(ext, v)
				}},
				{"Sign1Message.Verify(nil signature)", func(sg cose.Signer, v cose.Verifier) error {
					return (&cose.Sign1Message{Headers: hp(), Payload: payload}).Verify(ext, v)
				}},
				{"Sign1Message.Verify(empty signature)", func(sg cose.Signer, v cose.Verifier) error {
					return (&cose.Sign1Message{Headers: hp(), Payload: payload, Signature: []byte{}}).Verify(ext, v)
				}},
				{"UntaggedSign1Message.Verify(empty signature)", func(sg cose.Signer, v cose.Verifier) error {
					return (&cose.UntaggedSign1Message{Headers: hp(), Payload: payload, Signature: []byte{}}).Verify(ext, v)
				}},
				{"Sign1(nil payload)", func(sg cose.Signer, v cose.Verifier) error {
					_, err := cose.Sign1(gen.Entropy, sg, hp(), nil, ext)
					return err
				}},
				{"Signature.Sign(nil payload)", func(sg cose.Signer, v cose.Verifier) error {
					return (&cose.Signature{Headers: hp()}).Sign(gen.Entropy, sg, []byte{0x40}, nil, ext)
				}},
				{"Signature.Verify(nil payload)", func(sg cose.Signer, v cose.Verifier) error {
					return (&cose.Signature{Headers: hp(), Signature: mon.FixedSig}).Verify(v, []byte{0x40}, nil, ext)
				}},
				{"Signature.Verify(empty signature)", func(sg cose.Signer, v cose.Verifier) error {
					return (&cose.Signature{Headers: hp(), Signature: []byte{}}).Verify(v, []byte{0x40}, payload, ext)
				}},
				{"SignMessage.Sign(nil payload)", func(sg cose.Signer, v cose.Verifier) error {
					return (&cose.SignMessage{Signatures: []*cose.Signature{{Headers: hp()}}}).Sign(gen.Entropy, ext, sg)
				}},
				{"SignMessage.Verify(nil payload)", func(sg cose.Signer, v cose.Verifier) error {
					return (&cose.SignMessage{Signatures: []*cose.Signature{{Headers: hp(), Signature: mon.FixedSig}}}).Verify(ext, v)
				}},
				{"Countersignature.Verify(empty signature)", func(sg cose.Signer, v cose.Verifier) error {
					parent := &cose.Sign1Message{Headers: hp(), Payload: payload, Signature: mon.FixedSig}
					return (&cose.Countersignature{Headers: hp(), Signature: []byte{}}).Verify(v, parent, ext)
				}},
			}
			for _, x := range ncs {
				sspy := &mon.SpySigner{Alg: cose.AlgorithmES256}
				vspy := &mon.SpyVerifier{Alg: cose.AlgorithmES256}
				cell := "no-structure/" + x.name + "/ext=" + gen.ExternalClass(ext)
				in := map[string]any{"cell": cell}
				var err error
				if guard(rec, x.name, in, func() { err = x.run(sspy, vspy) }) {
					continue
				}
				rec.Eval(1)
				rec.Event("hostile-argument-cases")
				rec.Class(cell)
				// (with an empty signature the structure exists; only success is a violation there: an accepting
				//  spy verifier would mean a message without signature verifies)
				emptySig := strings.Contains(x.name, "signature)")
				if err == nil || (!emptySig && (sspy.Calls != 0 || vspy.Calls != 0)) {
					rec.Violate("no-structure", cell, fmt.Sprintf("err=%v, signer calls=%d, verifier calls=%d (a key was consulted, or the call succeeded, although there is no payload / signature to build the structure from)", err, sspy.Calls, vspy.Calls), in)
				}
			}
		}
	}

	// ---- (c') COSE_Signature layers decoded on their own (a peer's encoding: wide protected head, scrambled
	// map) attached to a locally built COSE_Sign body, signed and verified through the message-level API ----
	for i := 0; i < c.N(300, 10000); i++ {
		r := mon.NewRand(uint64(c.Seed)).Sub(uint64(6600000 + i))
		n := 1 + i%3
		ext := gen.External(r)
		payload := gen.Payload(r, false)
		bodyProt, iv := gen.GoHeader(r, gen.HeaderOpts{Protected: true, MaxEntries: 3}, false)
		bodyUn, _ := gen.GoHeader(r, gen.HeaderOpts{MaxEntries: 2}, iv != 0)
		m := &cose.SignMessage{Headers: cose.Headers{Protected: bodyProt, Unprotected: bodyUn}, Payload: payload}
		var layers []gen.WLayer
		ok := true
		for j := 0; j < n; j++ {
			a := int64(-7 - j)
			l := gen.RandLayer(r, gen.LayerOpts{Alg: &a, MaxProt: 3, MaxUnprot: 1, ScramblePct: 60})
			l.ProtWidth = gen.HeadWidths[(i+j)%5]
			ws := &gen.WSignature{L: l, Sig: mon.FixedSig}
			var sg cose.Signature
			if sg.UnmarshalCBOR(ws.Bytes()) != nil {
				ok = false
				break
			}
			sg.Signature = nil
			m.Signatures = append(m.Signatures, &sg)
			layers = append(layers, l)
		}
		if !ok {
			continue
		}
		input := map[string]any{"case": i, "family": "decoded signature layers on an in-memory body", "n": n, "external": ext}
		spies := make([]*mon.SpySigner, n)
		signers := make([]cose.Signer, n)
		for j := range spies {
			spies[j] = &mon.SpySigner{Alg: cose.Algorithm(-7 - j)}
			signers[j] = spies[j]
		}
		var err error
		if guard(rec, "SignMessage.Sign(decoded layers)", input, func() { err = m.Sign(gen.Entropy, ext, signers...) }) {
			continue
		}
		rec.Eval(1)
		rec.Event("decoded-layers-on-in-memory-body")
		if err != nil {
			continue
		}
		bc, e1 := refcose.ProtectedContent(bodyProt, gen.Custom)
		if e1 != nil {
			continue
		}
		vs := make([]cose.Verifier, n)
		vspies := make([]*mon.SpyVerifier, n)
		for j := 0; j < n; j++ {
			want := refcose.SignatureStructure(bc, layers[j].Content(), ext, payload)
			cls := fmt.Sprintf("sign/sign/decoded-layer-on-in-memory-body/pos=%d/signw=%d", j, layers[j].ProtWidth)
			rec.Class(cls)
			if spies[j].Calls != 1 || !eqBytes(spies[j].Last(), want) {
				rec.Violate("tbs-mismatch", cls, fmt.Sprintf("signer %d (calls=%d) got %s\nreference %s", j, spies[j].Calls, hexs(spies[j].Last()), hexs(want)), input)
			}
			vspies[j] = &mon.SpyVerifier{Alg: cose.Algorithm(-7 - j)}
			vs[j] = vspies[j]
		}
		if guard(rec, "SignMessage.Verify(decoded layers)", input, func() { err = m.Verify(ext, vs...) }) {
			continue
		}
		for j := 0; j < n && err == nil; j++ {
			want := refcose.SignatureStructure(bc, layers[j].Content(), ext, payload)
			if vspies[j].Calls != 1 || !eqBytes(vspies[j].Last(), want) {
				rec.Violate("tbs-mismatch", fmt.Sprintf("sign/verify/decoded-layer-on-in-memory-body/pos=%d", j), fmt.Sprintf("verifier %d got %s\nreference %s", j, hexs(vspies[j].Last()), hexs(want)), input)
			}
		}
	}
	// ---- (e') hash envelopes as a peer writes them, through VerifyHashEnvelope with a spy verifier ----
	for i := 0; i < c.N(400, 20000); i++ {
		r := mon.NewRand(uint64(c.Seed)).Sub(uint64(6500000 + i))
		alg := int64(-7)
		prot := refcbor.NMap(refcbor.NInt(1), refcbor.NInt(alg), refcbor.NInt(258), refcbor.NInt(mon.Pick(r, int64(-16), int64(-43), int64(-44))))
		if r.Bool() {
			prot.Kids = append(prot.Kids, refcbor.NInt(259), refcbor.NTstr("text/plain"))
		}
		if r.Bool() {
			prot.Kids = append(prot.Kids, refcbor.NInt(260), refcbor.NTstr("https://example.com/x"))
		}
		if r.Bool() {
			prot.Kids = append(prot.Kids, refcbor.NInt(4), refcbor.NBstr(gen.BytesValue(r)), refcbor.NTstr(gen.TextValue(r)+"-x"), gen.WireValue(r, 1, false))
		}
		gen.Scramble(r, prot, 70)
		ha, _ := refcose.Lookup(prot, 258).Int64()
		payload := r.Bytes(map[int64]int{-16: 32, -43: 48, -44: 64}[ha])
		wm := &gen.WSign1{L: gen.WLayer{ProtMap: prot, Unprot: refcbor.NMap(refcbor.NInt(4), refcbor.NBstr([]byte("k")))}, Payload: payload, Sig: mon.FixedSig, Tagged: true}
		wm.L.ProtWidth = gen.HeadWidths[i%5]
		b := wm.Bytes()
		in := map[string]any{"case": i, "family": "hash envelope as a peer writes it", "wire": mon.FullHex(b)}
		vspy := &mon.SpyVerifier{Alg: cose.Algorithm(alg)}
		var err error
		if guard(rec, "VerifyHashEnvelope", in, func() { _, err = cose.VerifyHashEnvelope(vspy, b) }) {
			continue
		}
		rec.Eval(1)
		rec.Event("VerifyHashEnvelope(spy)")
		canon, _ := refcbor.IsCanonical(wm.L.Content())
		rec.Class(fmt.Sprintf("hashenv/verify/bodyw=%d/canon=%v", wm.L.ProtWidth, canon))
		if vspy.Calls == 0 {
			rec.Event("VerifyHashEnvelope(spy):not-reached")
			continue
		}
		if want := wm.TBS(nil, payload); !eqBytes(vspy.Last(), want) {
			rec.Violate("tbs-mismatch", "hashenv/verify", fmt.Sprintf("verifier got %s\nreference    %s (err=%v)", hexs(vspy.Last()), hexs(want), err), in)
		}
	}
	// ---- (f) the Sign helpers with sparse headers: what the signer saw is what the message carries ----
	// (zero-value Headers, nil protected map, nil unprotected map, empty maps; with and without alg and
	// external data; the protected bytes inside the recorded ToBeSigned are the ones emitted)
	{
		type hv struct {
			name string
			mk   func() cose.Headers
		}
		hvs := []hv{
			{"zero-value", func() cose.Headers { return cose.Headers{} }},
			{"nil-protected", func() cose.Headers { return cose.Headers{Unprotected: cose.UnprotectedHeader{int64(4): []byte("k")}} }},
			{"nil-unprotected", func() cose.Headers { return cose.Headers{Protected: cose.ProtectedHeader{int64(3): "a/b"}} }},
			{"empty-maps", func() cose.Headers {
				return cose.Headers{Protected: cose.ProtectedHeader{}, Unprotected: cose.UnprotectedHeader{}}
			}},
			{"alg-given", func() cose.Headers {
				return cose.Headers{Protected: cose.ProtectedHeader{int64(1): cose.AlgorithmES256}}
			}},
			{"alg-in-unprotected-only", func() cose.Headers {
				return cose.Headers{Unprotected: cose.UnprotectedHeader{int64(1): cose.AlgorithmES256}}
			}},
		}
		for _, h := range hvs {
			for _, ext := range [][]byte{nil, {}, []byte("ext")} {
				for _, helper := range []string{"Sign1", "Sign1Untagged", "SignHashEnvelope", "Sign1Message.Sign+MarshalCBOR", "UntaggedSign1Message.Sign+MarshalCBOR"} {
					if helper == "SignHashEnvelope" && len(ext) > 0 {
						continue
					}
					spy := &mon.SpySigner{Alg: cose.AlgorithmES256}
					payload := []byte("payload")
					cell := fmt.Sprintf("helper/%s/headers=%s/ext=%s", helper, h.name, gen.ExternalClass(ext))
					in := map[string]any{"cell": cell}
					var out []byte
					var err error
					if guard(rec, helper, in, func() {
						switch helper {
						case "Sign1":
							out, err = cose.Sign1(gen.Entropy, spy, h.mk(), payload, ext)
						case "Sign1Untagged":
							out, err = cose.Sign1Untagged(gen.Entropy, spy, h.mk(), payload, ext)
						case "SignHashEnvelope":
							payload = make([]byte, 32)
							out, err = cose.SignHashEnvelope(gen.Entropy, spy, h.mk(), cose.HashEnvelopePayload{HashAlgorithm: cose.AlgorithmSHA256, HashValue: payload})
						case "Sign1Message.Sign+MarshalCBOR":
							m := &cose.Sign1Message{Headers: h.mk(), Payload: payload}
							if err = m.Sign(gen.Entropy, ext, spy); err == nil {
								out, err = m.MarshalCBOR()
							}
						default:
							m := &cose.UntaggedSign1Message{Headers: h.mk(), Payload: payload}
							if err = m.Sign(gen.Entropy, ext, spy); err == nil {
								out, err = m.MarshalCBOR()
							}
						}
					}) {
						continue
					}
					rec.Eval(1)
					rec.Event("helper-cases")
					rec.Class(fmt.Sprintf("%s/ok=%v", cell, err == nil))
					if err != nil {
						if spy.Calls != 0 && len(out) > 0 {
							rec.Violate("tbs-mismatch", cell+"/bytes-with-error", "bytes returned together with an error", in)
						}
						continue
					}
					n, perr := refcbor.Parse(out)
					if perr != nil {
						rec.Violate("tbs-mismatch", cell+"/unreadable", "emitted message is not CBOR", in)
						continue
					}
					for n.Major == refcbor.Tag {
						n = n.Kids[0]
					}
					if n.Major != refcbor.Array || len(n.Kids) != 4 || n.Kids[0].Major != refcbor.Bstr || spy.Calls != 1 {
						rec.Violate("tbs-mismatch", cell+"/shape", fmt.Sprintf("emitted message has an unexpected shape or the signer was called %d times", spy.Calls), in)
						continue
					}
					want := refcose.Sign1Structure(n.Kids[0].Str, ext, payload)
					if !eqBytes(spy.Last(), want) {
						rec.Violate("tbs-mismatch", cell, fmt.Sprintf("the signer got %s\nbut the emitted message (protected %s) calls for %s", hexs(spy.Last()), hexs(n.Kids[0].Str), hexs(want)), in)
					}
				}
			}
		}
	}
	rec.Require("helper-cases", 60)
	rec.Require("hostile-argument-cases", 100)
	rec.Require("large-field-cases", 60)
	rec.Require("Sign1Message.Sign", 100)
	rec.Require("Sign1Message.Verify", 100)
	rec.Require("SignMessage.Verify", 50)
	rec.RequireClasses(60)
}

// boundaryClass names lengths sitting exactly on a CBOR length-prefix boundary.
func boundaryClass(n int) string {
	switch n {
	case 23, 24, 255, 256, 65535, 65536:
		return fmt.Sprint(n)
	}
	return "other"
}

// firstDiff returns the index of the first differing byte (or the shorter length).
func firstDiff(a, b []byte) int {
	n := len(a)
	if len(b) < n {
		n = len(b)
	}
	for i := 0; i < n; i++ {
		if a[i] != b[i] {
			return i
		}
	}
	return n
}
