package gen

import (
	"crypto"
	"fmt"
	"math"
	"math/big"
	"time"

	"github.com/fxamacker/cbor/v2"
	cose "github.com/veraison/go-cose"

	"verif/harness/mon"
	"verif/harness/refcbor"
	"verif/harness/refcose"
	"verif/harness/refcrypto"
)

type Node = refcbor.Node

// Custom translates go-cose countersignature objects found in header maps
// into their expected wire form (raw bytes win over parsed maps, exactly as
// documented for Headers).
func Custom(v any) (*Node, error) {
	switch x := v.(type) {
	case *cose.Countersignature:
		if x == nil {
			return nil, fmt.Errorf("nil countersignature")
		}
		return countersigNode(x)
	case []*cose.Countersignature:
		kids := make([]*Node, 0, len(x))
		for _, c := range x {
			if c == nil {
				return nil, fmt.Errorf("nil countersignature in list")
			}
			n, err := countersigNode(c)
			if err != nil {
				return nil, err
			}
			kids = append(kids, n)
		}
		return refcbor.NArr(kids...), nil
	case cbor.ByteString:
		return refcbor.NBstr([]byte(x)), nil
	case cbor.SimpleValue:
		return refcbor.NSimple(byte(x)), nil
	case cose.CWTClaims:
		return refcose.GoToNode(map[any]any(x), Custom)
	case time.Time:
		return refcbor.NInt(x.Unix()), nil
	case big.Int:
		return bigNode(&x), nil
	case *big.Int:
		if x == nil {
			return refcbor.NNull(), nil
		}
		return bigNode(x), nil
	case cbor.Tag:
		// (the type is only pattern-matched to read Number and Content; no encoding logic of the
		// CBOR library is involved)
		c, err := refcose.GoToNode(x.Content, Custom)
		if err != nil {
			return nil, err
		}
		return refcbor.NTag(x.Number, c), nil
	}
	return nil, nil
}

// bigNode is the preferred serialisation of an arbitrary-size integer (RFC 8949 3.4.3): a plain
// integer when it fits 64 bits, else a bignum tag around the minimal big-endian magnitude.
func bigNode(x *big.Int) *Node {
	if x.Sign() >= 0 {
		if x.IsUint64() {
			return refcbor.NUint(x.Uint64())
		}
		return refcbor.NTag(2, refcbor.NBstr(x.Bytes()))
	}
	n := new(big.Int).Neg(x)
	n.Sub(n, big.NewInt(1)) // -1 - x
	if n.IsUint64() {
		return &Node{Major: refcbor.Nint, Arg: n.Uint64()}
	}
	return refcbor.NTag(3, refcbor.NBstr(n.Bytes()))
}

func countersigNode(c *cose.Countersignature) (*Node, error) {
	var prot, unprot *Node
	if len(c.Headers.RawProtected) > 0 {
		prot = refcbor.NRaw(c.Headers.RawProtected)
	} else {
		content, err := refcose.ProtectedContent(c.Headers.Protected, Custom)
		if err != nil {
			return nil, err
		}
		prot = refcbor.NBstr(content)
	}
	if len(c.Headers.RawUnprotected) > 0 {
		unprot = refcbor.NRaw(c.Headers.RawUnprotected)
	} else {
		n, err := refcose.GoToNode(map[any]any(c.Headers.Unprotected), Custom)
		if err != nil {
			return nil, err
		}
		if c.Headers.Unprotected == nil {
			n = refcbor.NMap()
		}
		unprot = n
	}
	return refcbor.NArr(prot, unprot, refcbor.NBstr(c.Signature)), nil
}

func init() {
	refcose.IsCountersig = func(v any) bool {
		c, ok := v.(*cose.Countersignature)
		return ok && c != nil
	}
	refcose.IsCountersigList = func(v any) bool {
		l, ok := v.([]*cose.Countersignature)
		if !ok || len(l) == 0 {
			return false
		}
		for _, c := range l {
			if c == nil {
				return false
			}
		}
		return true
	}
}

// ------------------------------------------------------ encoder choices ---

var widths = []int{1, 2, 3, 5, 9}

// widen picks a head width >= the shortest one for arg.
func widen(r *mon.Rand, arg uint64) int {
	w := widths[r.Intn(len(widths))]
	return refcbor.FitWidth(arg, w)
}

// Scramble applies encoder choices a peer is free to make, in place: with
// probability pct per item a non-shortest head; map entries shuffled.
// Items flagged by keepShort (COSE structure heads) are left alone.
func Scramble(r *mon.Rand, n *Node, pct int) {
	if n == nil || n.Raw != nil {
		return
	}
	switch n.Major {
	case refcbor.Uint, refcbor.Nint, refcbor.Tag:
		if r.Chance(pct) {
			n.Width = widen(r, n.Arg)
		}
	case refcbor.Bstr, refcbor.Tstr:
		if r.Chance(pct) {
			n.Width = widen(r, uint64(len(n.Str)))
		}
	case refcbor.Array:
		if r.Chance(pct) {
			n.Width = widen(r, uint64(len(n.Kids)))
		}
	case refcbor.Map:
		if r.Chance(pct) {
			n.Width = widen(r, uint64(len(n.Kids)/2))
		}
		np := len(n.Kids) / 2
		if np > 1 && r.Chance(70) {
			p := r.Perm(np)
			kids := make([]*Node, 0, len(n.Kids))
			for _, i := range p {
				kids = append(kids, n.Kids[2*i], n.Kids[2*i+1])
			}
			n.Kids = kids
		}
	}
	for _, k := range n.Kids {
		Scramble(r, k, pct)
	}
}

// -------------------------------------------------- wire-side generators --

// WireValue draws a header value directly in the CBOR data model, including
// items no Go-side encoder would produce: floats of all widths, simple
// values, and (when allowTags) tagged items. Integers stay within int64
// except negative values down to -2^64 which are allowed as values.
func WireValue(r *mon.Rand, depth int, allowTags bool) *Node {
	if depth <= 1 && r.Intn(40) == 0 {
		// a deeply nested value (inside the decoder's default nesting limit)
		v := refcbor.NInt(1)
		for d := 0; d < 6+r.Intn(15); d++ {
			if d%3 == 2 {
				v = refcbor.NMap(refcbor.NInt(int64(d)), v)
			} else {
				v = refcbor.NArr(v)
			}
		}
		return v
	}
	k := r.Intn(16)
	if depth >= 4 && k >= 10 {
		k = r.Intn(10)
	}
	switch k {
	case 0:
		return refcbor.NNull()
	case 1:
		return refcbor.NBool(r.Bool())
	case 2, 3:
		return refcbor.NInt(IntValue(r))
	case 4:
		switch r.Intn(3) {
		case 0:
			return refcbor.NFloat16Bits(mon.Pick(r, uint16(0x3c00), uint16(0x7bff), uint16(0x0000), uint16(0xc000), uint16(0x7c00), uint16(0x7e00), uint16(0xfe00)))
		case 1:
			return refcbor.NFloat32(mon.Pick(r, float32(1.5), float32(-3.25e10), float32(0)))
		}
		return refcbor.NFloat64(mon.Pick(r, 1.1, -2.5e300, 0.0, math.Inf(1), math.NaN()))
	case 5, 6:
		return refcbor.NTstr(TextValue(r))
	case 7, 8:
		return refcbor.NBstr(BytesValue(r))
	case 9:
		// simple values: unassigned ones and undefined
		return refcbor.NSimple(mon.Pick(r, byte(23), byte(16), byte(19), byte(32), byte(255)))
	case 10, 11:
		n := r.Intn(4)
		kids := make([]*Node, n)
		for i := range kids {
			kids[i] = WireValue(r, depth+1, allowTags)
		}
		return refcbor.NArr(kids...)
	case 12, 13:
		n := r.Intn(4)
		var kids []*Node
		seen := map[string]bool{}
		for i := 0; i < n; i++ {
			var key *Node
			switch r.Intn(4) {
			case 0, 1:
				key = refcbor.NInt(IntValue(r))
			case 2:
				key = refcbor.NTstr(TextValue(r))
			default:
				key = refcbor.NBool(r.Bool())
			}
			c := string(refcbor.Canon(key))
			if seen[c] {
				continue
			}
			seen[c] = true
			kids = append(kids, key, WireValue(r, depth+1, allowTags))
		}
		return refcbor.NMap(kids...)
	case 14:
		if allowTags {
			switch r.Intn(4) {
			case 0:
				return refcbor.NTag(0, refcbor.NTstr("2013-03-21T20:04:00Z"))
			case 1:
				return refcbor.NTag(1, refcbor.NInt(1363896240))
			case 2:
				// bignums of every size, incl. values that would also fit a plain integer
				b := r.Bytes(1 + r.Intn(10))
				if r.Bool() {
					b[0] |= 0x80
				}
				return refcbor.NTag(uint64(2+r.Intn(2)), refcbor.NBstr(b))
			default:
				return refcbor.NTag(uint64(1000+r.Intn(100)), WireValue(r, depth+1, false))
			}
		}
		return refcbor.NInt(IntValue(r))
	default:
		// negative integer below -2^63 (a bignum-range value, still major type 1)
		if r.Intn(4) == 0 {
			return &Node{Major: refcbor.Nint, Arg: uint64(math.MaxInt64) + 1 + uint64(r.Intn(1000))}
		}
		return refcbor.NInt(IntValue(r))
	}
}

// WireHeaderOpts steers WireHeader.
type WireHeaderOpts struct {
	Protected  bool
	MaxEntries int
	Alg        *int64 // label 1 value when set
	AlgText    string // when non-empty, label 1 carries this text instead
	ForbidIV   bool
	FillTo     int
}

// WireHeader draws a conforming header map as a CBOR tree (canonical order,
// shortest heads; apply Scramble for encoder choices). It returns which of
// 5/6 it used.
func WireHeader(r *mon.Rand, o WireHeaderOpts) (*Node, int64) {
	var kids []*Node
	used := map[string]bool{}
	put := func(k, v *Node) {
		c := string(refcbor.Canon(k))
		if used[c] {
			return
		}
		used[c] = true
		kids = append(kids, k, v)
	}
	var usedIV int64
	if o.AlgText != "" {
		put(refcbor.NInt(1), refcbor.NTstr(o.AlgText))
	} else if o.Alg != nil {
		put(refcbor.NInt(1), refcbor.NInt(*o.Alg))
	}
	n := 0
	if o.MaxEntries > 0 {
		n = r.Intn(o.MaxEntries + 1)
	}
	allowTags := o.Protected
	if o.MaxEntries >= 5 && r.Intn(12) == 0 {
		// a bucket with 24 or more parameters
		for j := 0; j < 24+r.Intn(20); j++ {
			put(refcbor.NInt(int64(200000+j*7)), WireValue(r, 2, allowTags))
		}
	}
	for i := 0; i < n; i++ {
		switch r.Intn(12) {
		case 0:
			if r.Bool() {
				put(refcbor.NInt(3), refcbor.NUint(uint64(r.Intn(70000))))
			} else {
				put(refcbor.NInt(3), refcbor.NTstr(mon.Pick(r, "application/cose", "text/plain", "a/b", "text/plain; charset=utf-8", "a/b;c=d", "application/EDI-X12", "Text/Plain", "a/B+json")))
			}
		case 1:
			put(refcbor.NInt(4), refcbor.NBstr(BytesValue(r)))
		case 2:
			if !o.ForbidIV && usedIV == 0 {
				usedIV = int64(5 + r.Intn(2))
				put(refcbor.NInt(usedIV), refcbor.NBstr(BytesValue(r)))
			}
		case 3:
			if r.Bool() {
				put(refcbor.NInt(16), refcbor.NUint(uint64(r.Intn(70000))))
			} else {
				put(refcbor.NInt(16), refcbor.NTstr(mon.Pick(r, "application/cose", "application/EDI-X12", "a/B+json")))
			}
		case 4:
			// CWT claims; RFC 8392 allows a NumericDate to be an integer or a floating-point number
			var iat *Node = refcbor.NInt(1700000000)
			if r.Intn(3) == 0 {
				iat = refcbor.NFloat64(1700000000.5)
			}
			put(refcbor.NInt(15), refcbor.NMap(refcbor.NInt(1), refcbor.NTstr("iss"), refcbor.NInt(4), refcbor.Clone(iat), refcbor.NInt(6), iat))
		case 5:
			// the RFC 9360 certificate parameters in every shape their CDDL allows: x5chain / x5bag as one
			// certificate or a list, x5t as [hash algorithm (int or text), hash value], x5u as text
			switch r.Intn(5) {
			case 0:
				put(refcbor.NInt(33), refcbor.NBstr(BytesValue(r)))
			case 1:
				put(refcbor.NInt(mon.Pick(r, int64(33), int64(32))), refcbor.NArr(refcbor.NBstr(BytesValue(r)), refcbor.NBstr(BytesValue(r))))
			case 2:
				put(refcbor.NInt(34), refcbor.NArr(refcbor.NInt(-16), refcbor.NBstr(r.Bytes(32))))
			case 3:
				put(refcbor.NInt(34), refcbor.NArr(refcbor.NTstr("sha-256"), refcbor.NBstr(r.Bytes(32))))
			default:
				put(refcbor.NInt(35), refcbor.NTstr("https://example.com/cert.pem"))
			}
		case 6:
			if !o.Protected {
				put(refcbor.NInt(mon.Pick(r, int64(9), int64(12))), refcbor.NBstr(BytesValue(r)))
			}
		case 7, 8:
			put(refcbor.NTstr(TextValue(r)), WireValue(r, 1, allowTags))
		default:
			l := unknownLabels[r.Intn(len(unknownLabels))]
			if r.Intn(3) == 0 {
				l = int64(300 + r.Intn(100000))
			}
			put(refcbor.NInt(l), WireValue(r, 1, allowTags))
		}
	}
	if o.Protected && len(kids) > 0 && r.Intn(3) == 0 && !used[string(refcbor.Canon(refcbor.NInt(2)))] {
		var crit []*Node
		for i := 0; i+1 < len(kids) && len(crit) < 2; i += 2 {
			if kids[i].Major == refcbor.Tstr || kids[i].IsInt() {
				crit = append(crit, refcbor.Clone(kids[i]))
			}
		}
		if len(crit) > 0 {
			put(refcbor.NInt(2), refcbor.NArr(crit...))
		}
	}
	if o.FillTo > 0 {
		put(refcbor.NInt(70000), refcbor.NBstr(r.Bytes(o.FillTo)))
	}
	m := refcbor.NMap(kids...)
	// canonical order as the starting point
	c, _ := refcbor.Parse(refcbor.Canon(m))
	stripSpans(c)
	return c, usedIV
}

func stripSpans(n *Node) {
	refcbor.Walk(n, func(x *Node) bool {
		x.Start, x.End = 0, 0
		if x.Major != refcbor.Prim {
			x.Width = 0
		}
		if x.Str != nil {
			x.Str = append([]byte{}, x.Str...)
		}
		return true
	})
}

// -------------------------------------------------- reference messages ----

// RefKey is a key the reference signer uses (stdlib only).
type RefKey struct {
	Alg  int64
	Priv crypto.Signer
	Pub  crypto.PublicKey
}

func (k *AlgKey) Ref() RefKey { return RefKey{int64(k.Alg), k.Priv, k.Pub} }

// ProtBstr builds the protected bstr node from a header map node: h” (or
// h'a0' when emptyAsA0) for an empty header, else the serialised map.
func ProtBstr(m *Node, emptyAsA0 bool) (*Node, []byte) {
	var content []byte
	if m == nil || len(m.Kids) == 0 {
		if emptyAsA0 {
			if m == nil {
				m = refcbor.NMap()
			}
			content = refcbor.Encode(m)
		} else {
			content = []byte{}
		}
	} else {
		content = refcbor.Encode(m)
	}
	return refcbor.NBstr(content), content
}

// RefSign signs a structure with the reference signer.
func RefSign(k RefKey, tbs []byte) []byte {
	sig, err := refcrypto.Sign(Entropy, k.Alg, k.Priv, tbs)
	if err != nil {
		panic(fmt.Sprintf("gen: reference signer failed: %v", err))
	}
	return sig
}

// HugeValue is a long array or a map with many pairs (4 097, 5 000 or 20 000 entries; well inside the
// CBOR library's default limits of 131 072). It is not part of WireValue: checks that multiply every
// base message by thousands of mutants would not fit in memory with such values; the checks that
// need it (conforming-message acceptance) add it explicitly.
func HugeValue(r *mon.Rand) *Node {
	n := mon.Pick(r, 4097, 5000, 20000)
	kids := make([]*Node, 0, 2*n)
	if r.Bool() {
		for j := 0; j < n; j++ {
			kids = append(kids, refcbor.NInt(int64(j&0xff)))
		}
		return refcbor.NArr(kids...)
	}
	for j := 0; j < n; j++ {
		kids = append(kids, refcbor.NInt(int64(j)), refcbor.NInt(int64(j&7)))
	}
	return refcbor.NMap(kids...)
}
