package gen

import (
	"verif/harness/mon"
	"verif/harness/refcbor"
	"verif/harness/refcose"
)

// The W* types describe COSE messages on the wire, with every encoder choice
// explicit. They are built and signed without go-cose.

// WLayer is one (protected, unprotected) pair.
type WLayer struct {
	ProtMap   *Node // nil or empty map => empty protected header
	EmptyA0   bool  // spell an empty protected header as h'a0' instead of h''
	ProtWidth int   // head width of the protected bstr (0 = shortest)
	Unprot    *Node // map node
	// cached
	content []byte
	built   bool
}

// Content returns the bytes inside the protected bstr (fixed at first use).
func (l *WLayer) Content() []byte {
	if !l.built {
		_, l.content = ProtBstr(l.ProtMap, l.EmptyA0)
		l.built = true
	}
	return l.content
}

// Reset forgets the cached content (after editing ProtMap).
func (l *WLayer) Reset() { l.built = false }

func (l *WLayer) protNode() *Node {
	n := refcbor.NBstr(l.Content())
	n.Width = refcbor.FitWidth(uint64(len(n.Str)), l.ProtWidth)
	return n
}

func (l *WLayer) unprotNode() *Node {
	if l.Unprot == nil {
		return refcbor.NMap()
	}
	return l.Unprot
}

func bstrW(b []byte, w int) *Node {
	if b == nil {
		return refcbor.NNull()
	}
	n := refcbor.NBstr(b)
	n.Width = refcbor.FitWidth(uint64(len(b)), w)
	return n
}

// WSign1 is a COSE_Sign1 on the wire.
type WSign1 struct {
	L            WLayer
	Payload      []byte // nil => null (detached)
	PayloadWidth int
	Sig          []byte
	SigWidth     int
	Tagged       bool
}

func (m *WSign1) Node() *Node {
	a := refcbor.NArr(m.L.protNode(), m.L.unprotNode(), bstrW(m.Payload, m.PayloadWidth), bstrW(m.Sig, m.SigWidth))
	if m.Tagged {
		return refcbor.NTag(18, a)
	}
	return a
}
func (m *WSign1) Bytes() []byte { return refcbor.Encode(m.Node()) }

// TBS is the reference Sig_structure for payload p (the attached payload or
// the detached one supplied by the verifier).
func (m *WSign1) TBS(external, p []byte) []byte {
	return refcose.Sign1Structure(m.L.Content(), external, p)
}

// WSignature is a COSE_Signature / COSE_Countersignature on the wire.
type WSignature struct {
	L        WLayer
	Sig      []byte
	SigWidth int
}

func (s *WSignature) Node() *Node {
	return refcbor.NArr(s.L.protNode(), s.L.unprotNode(), bstrW(s.Sig, s.SigWidth))
}
func (s *WSignature) Bytes() []byte { return refcbor.Encode(s.Node()) }

// WSign is a COSE_Sign on the wire.
type WSign struct {
	L            WLayer
	Payload      []byte
	PayloadWidth int
	Sigs         []*WSignature
	SigsWidth    int // head width of the signatures array
}

func (m *WSign) Node() *Node {
	var kids []*Node
	for _, s := range m.Sigs {
		kids = append(kids, s.Node())
	}
	arr := refcbor.NArr(kids...)
	arr.Width = refcbor.FitWidth(uint64(len(kids)), m.SigsWidth)
	return refcbor.NTag(98, refcbor.NArr(m.L.protNode(), m.L.unprotNode(), bstrW(m.Payload, m.PayloadWidth), arr))
}
func (m *WSign) Bytes() []byte { return refcbor.Encode(m.Node()) }

// TBS is the reference Sig_structure of signer i.
func (m *WSign) TBS(i int, external, p []byte) []byte {
	return refcose.SignatureStructure(m.L.Content(), m.Sigs[i].L.Content(), external, p)
}

// LayerOpts steers RandLayer.
type LayerOpts struct {
	Alg         *int64 // alg to place in the protected header (nil = none)
	MaxProt     int
	MaxUnprot   int
	ScramblePct int // probability (in %) of a non-shortest head per item
	FillTo      int
	NoWidths    bool // keep shortest bstr heads for protected
}

// RandLayer draws a conforming layer with random encoder choices.
func RandLayer(r *mon.Rand, o LayerOpts) WLayer {
	prot, iv := WireHeader(r, WireHeaderOpts{Protected: true, MaxEntries: o.MaxProt, Alg: o.Alg, FillTo: o.FillTo})
	unprot, _ := WireHeader(r, WireHeaderOpts{Protected: false, MaxEntries: o.MaxUnprot, ForbidIV: iv != 0})
	if iv != 0 && r.Intn(4) == 0 {
		// the IV (or the Partial IV) of the protected bucket repeated under the same label in the unprotected
		// one, as any other parameter may be (kid, content type, ... already are): the rule is about IV
		// *together with* Partial IV, and one of them twice is not that
		unprot.Kids = append(unprot.Kids, refcbor.NInt(iv), refcbor.NBstr(BytesValue(r)))
		if c, err := refcbor.Parse(refcbor.Canon(unprot)); err == nil {
			stripSpans(c)
			unprot = c
		}
	}
	if o.ScramblePct > 0 {
		Scramble(r, prot, o.ScramblePct)
		Scramble(r, unprot, o.ScramblePct)
	}
	l := WLayer{ProtMap: prot, Unprot: unprot}
	if len(prot.Kids) == 0 {
		l.EmptyA0 = r.Bool()
		if !l.EmptyA0 {
			l.ProtMap = nil
		}
	}
	if !o.NoWidths && r.Chance(o.ScramblePct) {
		l.ProtWidth = widths[r.Intn(len(widths))]
	}
	return l
}

// HeadWidths are the five possible head widths.
var HeadWidths = []int{1, 2, 3, 5, 9}

// AddUnprot inserts (or replaces) an entry of the unprotected map.
func (l *WLayer) AddUnprot(label int64, v *Node) {
	if l.Unprot == nil {
		l.Unprot = refcbor.NMap()
	}
	for i := 0; i+1 < len(l.Unprot.Kids); i += 2 {
		if x, ok := l.Unprot.Kids[i].Int64(); ok && x == label {
			l.Unprot.Kids[i+1] = v
			return
		}
	}
	l.Unprot.Kids = append(l.Unprot.Kids, refcbor.NInt(label), v)
}

// RemoveUnprot drops a label from the unprotected map.
func (l *WLayer) RemoveUnprot(label int64) {
	if l.Unprot == nil {
		return
	}
	for i := 0; i+1 < len(l.Unprot.Kids); i += 2 {
		if x, ok := l.Unprot.Kids[i].Int64(); ok && x == label {
			l.Unprot.Kids = append(l.Unprot.Kids[:i:i], l.Unprot.Kids[i+2:]...)
			return
		}
	}
}
