// Package gen holds the seeded generators of the supported data model
// (DESIGN.md section 3): keys, header maps (Go side and wire side), message
// specifications and their reference encodings.
package gen

import (
	"crypto"
	"crypto/ecdsa"
	"crypto/ed25519"
	"crypto/elliptic"
	"crypto/rand"
	"fmt"
	"math/big"

	cose "github.com/veraison/go-cose"

	"verif/harness/mon"
	"verif/harness/testkeys"
)

// AlgKey bundles one algorithm with a key pair and the library's built-in
// signer/verifier for it.
type AlgKey struct {
	Alg      cose.Algorithm
	Name     string
	Priv     crypto.Signer
	Pub      crypto.PublicKey
	Signer   cose.Signer
	Verifier cose.Verifier
	// ViaKey: signer/verifier obtained through cose.Key (NewKeyFromPrivate ->
	// Signer / NewKeyFromPublic -> Verifier); nil for RSA.
	KeySigner   cose.Signer
	KeyVerifier cose.Verifier
}

// ECKeyFromD builds the ECDSA key with private scalar d.
func ECKeyFromD(c elliptic.Curve, d *big.Int) *ecdsa.PrivateKey {
	x, y := c.ScalarBaseMult(d.Bytes())
	return &ecdsa.PrivateKey{PublicKey: ecdsa.PublicKey{Curve: c, X: x, Y: y}, D: new(big.Int).Set(d)}
}

// ECKey derives an ECDSA key from the PRNG.
func ECKey(c elliptic.Curve, r *mon.Rand) *ecdsa.PrivateKey {
	n := c.Params().N
	for {
		d := new(big.Int).SetBytes(r.Bytes((n.BitLen() + 7) / 8))
		d.Mod(d, n)
		if d.Sign() > 0 {
			return ECKeyFromD(c, d)
		}
	}
}

// EdKey derives an Ed25519 key from the PRNG.
func EdKey(r *mon.Rand) ed25519.PrivateKey {
	return ed25519.NewKeyFromSeed(r.Bytes(32))
}

// CurveFor returns the customary curve of an ECDSA algorithm.
func CurveFor(alg cose.Algorithm) elliptic.Curve {
	switch alg {
	case cose.AlgorithmES256:
		return elliptic.P256()
	case cose.AlgorithmES384:
		return elliptic.P384()
	case cose.AlgorithmES512:
		return elliptic.P521()
	}
	return nil
}

// AllAlgs lists the seven built-in algorithms.
var AllAlgs = []cose.Algorithm{
	cose.AlgorithmES256, cose.AlgorithmES384, cose.AlgorithmES512, cose.AlgorithmEdDSA,
	cose.AlgorithmPS256, cose.AlgorithmPS384, cose.AlgorithmPS512,
}

// NewAlgKey builds a key pair and built-in signer/verifier for alg. RSA keys
// are the fixed test keys (2048 for PS256/PS512, 3072 for PS384).
func NewAlgKey(alg cose.Algorithm, r *mon.Rand) (*AlgKey, error) {
	k := &AlgKey{Alg: alg, Name: alg.String()}
	switch alg {
	case cose.AlgorithmES256, cose.AlgorithmES384, cose.AlgorithmES512:
		p := ECKey(CurveFor(alg), r)
		k.Priv, k.Pub = p, &p.PublicKey
	case cose.AlgorithmEdDSA:
		p := EdKey(r)
		k.Priv, k.Pub = p, p.Public()
	case cose.AlgorithmPS256, cose.AlgorithmPS512:
		p := testkeys.RSA(2048)
		k.Priv, k.Pub = p, &p.PublicKey
	case cose.AlgorithmPS384:
		p := testkeys.RSA(3072)
		k.Priv, k.Pub = p, &p.PublicKey
	default:
		return nil, fmt.Errorf("gen: no key for %v", alg)
	}
	var err error
	if k.Signer, err = cose.NewSigner(alg, k.Priv); err != nil {
		return nil, fmt.Errorf("gen: NewSigner(%v): %w", alg, err)
	}
	if k.Verifier, err = cose.NewVerifier(alg, k.Pub); err != nil {
		return nil, fmt.Errorf("gen: NewVerifier(%v): %w", alg, err)
	}
	switch alg {
	case cose.AlgorithmPS256, cose.AlgorithmPS384, cose.AlgorithmPS512:
	default:
		ck, err := cose.NewKeyFromPrivate(k.Priv)
		if err != nil {
			return nil, fmt.Errorf("gen: NewKeyFromPrivate(%v): %w", alg, err)
		}
		if k.KeySigner, err = ck.Signer(); err != nil {
			return nil, fmt.Errorf("gen: Key.Signer(%v): %w", alg, err)
		}
		pk, err := cose.NewKeyFromPublic(k.Pub)
		if err != nil {
			return nil, fmt.Errorf("gen: NewKeyFromPublic(%v): %w", alg, err)
		}
		if k.KeyVerifier, err = pk.Verifier(); err != nil {
			return nil, fmt.Errorf("gen: Key.Verifier(%v): %w", alg, err)
		}
	}
	return k, nil
}

// KeyRing holds one AlgKey per built-in algorithm.
type KeyRing struct {
	Keys []*AlgKey
	By   map[cose.Algorithm]*AlgKey
}

// NewKeyRing derives a key ring from the PRNG.
func NewKeyRing(r *mon.Rand) (*KeyRing, error) {
	kr := &KeyRing{By: map[cose.Algorithm]*AlgKey{}}
	for _, a := range AllAlgs {
		k, err := NewAlgKey(a, r)
		if err != nil {
			return nil, err
		}
		kr.Keys = append(kr.Keys, k)
		kr.By[a] = k
	}
	return kr, nil
}

// OddRSA returns signer/verifier pairs for RSA keys whose modulus length is
// not a multiple of 8 bits (2049 and 2055 bits), for alg.
func OddRSA(alg cose.Algorithm) ([]*AlgKey, error) {
	var out []*AlgKey
	for _, bits := range []int{2049, 2055} {
		p := testkeys.RSA(bits)
		k := &AlgKey{Alg: alg, Name: fmt.Sprintf("%v-rsa%d", alg, bits), Priv: p, Pub: &p.PublicKey}
		var err error
		if k.Signer, err = cose.NewSigner(alg, p); err != nil {
			return nil, err
		}
		if k.Verifier, err = cose.NewVerifier(alg, &p.PublicKey); err != nil {
			return nil, err
		}
		out = append(out, k)
	}
	return out, nil
}

// Pick returns a pseudo-random key of the ring; cheap algorithms are
// favoured (RSA about one time in eight) so that volume stays high.
func (kr *KeyRing) Pick(r *mon.Rand) *AlgKey {
	if r.Intn(8) == 0 {
		return kr.Keys[4+r.Intn(3)]
	}
	return kr.Keys[r.Intn(4)]
}

// Entropy is the entropy source handed to real signers.
var Entropy = rand.Reader
