package gen

import (
	"fmt"

	"verif/harness/mon"
	"verif/harness/refcbor"
)

// ---------------------------------------------------------- byte level ----

// ByteMutant is one byte-level mutation of a base input.
type ByteMutant struct {
	Op   string
	Data []byte
}

// BitFlips returns every single-bit flip of b (8*len(b) mutants).
func BitFlips(b []byte) []ByteMutant {
	out := make([]ByteMutant, 0, 8*len(b))
	for i := range b {
		for bit := 0; bit < 8; bit++ {
			m := append([]byte{}, b...)
			m[i] ^= 1 << bit
			out = append(out, ByteMutant{"bitflip", m})
		}
	}
	return out
}

// ByteEdits returns insert / delete / truncate / replace mutants; when every
// is true one of each kind per offset, else `count` random ones.
func ByteEdits(r *mon.Rand, b []byte, every bool, count int) []ByteMutant {
	var out []ByteMutant
	one := func(i, kind int) {
		switch kind {
		case 0: // insert
			m := make([]byte, 0, len(b)+1)
			m = append(m, b[:i]...)
			m = append(m, mon.Pick(r, byte(0), byte(0xff), byte(0x40), byte(0x80), byte(0xa0), byte(r.Intn(256))))
			m = append(m, b[i:]...)
			out = append(out, ByteMutant{"insert", m})
		case 1: // delete
			if i < len(b) {
				m := make([]byte, 0, len(b))
				m = append(m, b[:i]...)
				m = append(m, b[i+1:]...)
				out = append(out, ByteMutant{"delete", m})
			}
		case 2: // truncate
			out = append(out, ByteMutant{"truncate", append([]byte{}, b[:i]...)})
		case 3: // replace
			if i < len(b) {
				m := append([]byte{}, b...)
				m[i] = byte(r.Intn(256))
				out = append(out, ByteMutant{"replace", m})
			}
		}
	}
	if every {
		for i := 0; i <= len(b); i++ {
			for k := 0; k < 4; k++ {
				one(i, k)
			}
		}
		return out
	}
	for c := 0; c < count; c++ {
		one(r.Intn(len(b)+1), r.Intn(4))
	}
	return out
}

// ----------------------------------------------------------- tree level ---

// Tree is a parsed CBOR item in which byte strings that wrap exactly one
// CBOR map (protected headers at any depth) are expanded, so that
// structural faults can be planted inside them as well.
type Tree struct {
	Root *Node
	Emb  map[*Node]*Node // bstr node -> tree of its content
}

// ParseTree parses b and expands embedded maps.
func ParseTree(b []byte) (*Tree, error) {
	n, err := refcbor.Parse(b)
	if err != nil {
		return nil, err
	}
	t := &Tree{Root: n, Emb: map[*Node]*Node{}}
	t.expand(n, 0)
	return t, nil
}

func (t *Tree) expand(n *Node, depth int) {
	if depth > 8 {
		return
	}
	refcbor.Walk(n, func(x *Node) bool {
		if x.Major == refcbor.Bstr && !x.Indef && len(x.Str) > 0 && x.Str[0]>>5 == refcbor.Map {
			if m, err := refcbor.Parse(x.Str); err == nil {
				t.Emb[x] = m
				t.expand(m, depth+1)
			}
		}
		return true
	})
}

// Site is a place where a fault can be planted.
type Site struct {
	N      *Node
	Parent *Node
	Index  int    // index in Parent.Kids (-1 for a root)
	Path   string // coarse position class
}

// Sites lists every node of the tree (including nodes inside expanded byte
// strings) with a coarse path used as position class.
func (t *Tree) Sites() []Site {
	var out []Site
	var rec func(n, parent *Node, idx int, path string)
	rec = func(n, parent *Node, idx int, path string) {
		out = append(out, Site{n, parent, idx, path})
		if emb, ok := t.Emb[n]; ok {
			rec(emb, nil, -1, path+"/emb")
		}
		for i, k := range n.Kids {
			var p string
			switch n.Major {
			case refcbor.Array:
				j := i
				if j > 3 {
					j = 3
				}
				p = fmt.Sprintf("%s/a%d", path, j)
			case refcbor.Map:
				if i%2 == 0 {
					p = path + "/mk"
				} else {
					p = path + "/mv"
				}
			case refcbor.Tag:
				p = path + "/t"
			default:
				p = path + "/c"
			}
			rec(k, n, i, p)
		}
	}
	rec(t.Root, nil, -1, "")
	return out
}

// Seal re-serialises expanded contents back into their byte strings
// (innermost first) and returns the encoding of the whole tree.
func (t *Tree) Seal() []byte {
	var seal func(n *Node)
	seal = func(n *Node) {
		refcbor.Walk(n, func(x *Node) bool {
			if emb, ok := t.Emb[x]; ok {
				seal(emb)
				x.Str = refcbor.Encode(emb)
			}
			return true
		})
	}
	seal(t.Root)
	return refcbor.Encode(t.Root)
}

// Clone deep-copies the tree (including expanded contents).
func (t *Tree) Clone() *Tree {
	c := &Tree{Emb: map[*Node]*Node{}}
	var cp func(n *Node) *Node
	cp = func(n *Node) *Node {
		x := *n
		if n.Str != nil {
			x.Str = append([]byte{}, n.Str...)
		}
		if n.Raw != nil {
			x.Raw = append([]byte{}, n.Raw...)
		}
		if n.Kids != nil {
			x.Kids = make([]*Node, len(n.Kids))
			for i, k := range n.Kids {
				x.Kids[i] = cp(k)
			}
		}
		if emb, ok := t.Emb[n]; ok {
			c.Emb[&x] = cp(emb)
		}
		return &x
	}
	c.Root = cp(t.Root)
	return c
}

// FaultOps names the structural fault operators.
var FaultOps = []string{
	"major", "arg", "width", "indef", "tag-wrap", "to-undefined", "to-null", "to-simple", "to-float",
	"dup-entry", "trailing-in-bstr", "array-add", "array-remove", "map-add", "map-remove", "swap-siblings",
	"to-tstr", "to-bstr", "to-empty-array", "to-empty-map", "to-int", "nest-deeper", "empty-bstr",
}

func replaceIn(s Site, t *Tree, repl *Node) bool {
	if s.Parent != nil {
		s.Parent.Kids[s.Index] = repl
		return true
	}
	// root of the whole tree or of an expanded content
	if t.Root == s.N {
		t.Root = repl
		return true
	}
	for b, emb := range t.Emb {
		if emb == s.N {
			t.Emb[b] = repl
			return true
		}
	}
	return false
}

// ApplyFault plants fault op at site index i of a clone of t and returns the
// re-serialised mutant; ok is false when the operator does not apply there.
func ApplyFault(t *Tree, siteIdx int, op string, r *mon.Rand) (out []byte, path string, ok bool) {
	c := t.Clone()
	sites := c.Sites()
	if siteIdx >= len(sites) {
		return nil, "", false
	}
	s := sites[siteIdx]
	n := s.N
	path = s.Path
	switch op {
	case "major":
		if n.Raw != nil {
			return nil, path, false
		}
		// rewrite only the major type bits of the head, keep everything after it
		enc := refcbor.Encode(n)
		nm := byte(r.Intn(8))
		if nm == n.Major {
			nm = (nm + 1) % 8
		}
		enc[0] = nm<<5 | enc[0]&0x1f
		delete(c.Emb, n)
		replaceIn(s, c, refcbor.NRaw(enc))
	case "arg":
		switch n.Major {
		case refcbor.Uint, refcbor.Nint, refcbor.Tag:
			n.Arg = mon.Pick(r, n.Arg+1, n.Arg-1, 0, 23, 24, 255, 256, 1<<63, ^uint64(0))
			n.Width = refcbor.FitWidth(n.Arg, n.Width)
		case refcbor.Bstr, refcbor.Tstr, refcbor.Array, refcbor.Map:
			// lie about the length: head says something else than what follows
			enc := refcbor.Encode(n)
			real := uint64(len(n.Str))
			if n.Major == refcbor.Array {
				real = uint64(len(n.Kids))
			} else if n.Major == refcbor.Map {
				real = uint64(len(n.Kids) / 2)
			}
			hl := len(refcbor.AppendHead(nil, n.Major, real, n.Width))
			lie := mon.Pick(r, real+1, real-1, 0, real+2)
			if lie == real || lie > 1<<20 {
				lie = real + 1
			}
			nh := refcbor.AppendHead(nil, n.Major, lie, 0)
			delete(c.Emb, n)
			replaceIn(s, c, refcbor.NRaw(append(nh, enc[hl:]...)))
		default:
			return nil, path, false
		}
	case "width":
		if n.Major == refcbor.Prim || n.Raw != nil {
			return nil, path, false
		}
		arg := n.Arg
		switch n.Major {
		case refcbor.Bstr, refcbor.Tstr:
			arg = uint64(len(n.Str))
		case refcbor.Array:
			arg = uint64(len(n.Kids))
		case refcbor.Map:
			arg = uint64(len(n.Kids) / 2)
		}
		w := mon.Pick(r, 2, 3, 5, 9)
		if refcbor.FitWidth(arg, w) == 0 {
			w = 9
		}
		n.Width = w
	case "indef":
		switch n.Major {
		case refcbor.Array, refcbor.Map:
			n.Indef = true
		case refcbor.Bstr, refcbor.Tstr:
			chunk := &Node{Major: n.Major, Str: n.Str}
			delete(c.Emb, n)
			replaceIn(s, c, &Node{Major: n.Major, Indef: true, Kids: []*Node{chunk}, Str: n.Str})
		default:
			return nil, path, false
		}
	case "tag-wrap":
		tagged := refcbor.NTag(mon.Pick(r, uint64(0), 1, 2, 3, 16, 17, 18, 19, 24, 32, 37, 61, 96, 97, 98, 256, 55799, 1000, 65535, 4294967296), n)
		replaceIn(s, c, tagged)
	case "to-undefined":
		delete(c.Emb, n)
		replaceIn(s, c, refcbor.NUndef())
	case "to-null":
		delete(c.Emb, n)
		replaceIn(s, c, refcbor.NNull())
	case "to-simple":
		delete(c.Emb, n)
		replaceIn(s, c, refcbor.NSimple(mon.Pick(r, byte(0), 19, 20, 21, 32, 255)))
	case "to-float":
		delete(c.Emb, n)
		replaceIn(s, c, mon.Pick(r, refcbor.NFloat64(1.5), refcbor.NFloat32(2), refcbor.NFloat16Bits(0x3c00), refcbor.NFloat16Bits(0x7e00)))
	case "to-tstr":
		delete(c.Emb, n)
		replaceIn(s, c, refcbor.NTstr(mon.Pick(r, "", "a", "a/b", "xyz", " a/b", "a/b ", "text/plain; charset=utf-8 ", " a/b;c=d", "a/b;c=d")))
	case "to-bstr":
		delete(c.Emb, n)
		replaceIn(s, c, refcbor.NBstr(mon.Pick(r, []byte{}, []byte{1}, []byte{0xa0}, []byte{0xa1, 1, 1})))
	case "empty-bstr":
		if n.Major != refcbor.Bstr {
			return nil, path, false
		}
		delete(c.Emb, n)
		n.Str = []byte{}
	case "to-empty-array":
		delete(c.Emb, n)
		replaceIn(s, c, refcbor.NArr())
	case "to-empty-map":
		delete(c.Emb, n)
		replaceIn(s, c, refcbor.NMap())
	case "to-int":
		delete(c.Emb, n)
		replaceIn(s, c, refcbor.NInt(mon.Pick(r, int64(0), 1, -1, 7, 255, -256, 1<<40)))
	case "dup-entry":
		if n.Major != refcbor.Map || len(n.Kids) < 2 {
			return nil, path, false
		}
		i := 2 * r.Intn(len(n.Kids)/2)
		k := refcbor.Clone(n.Kids[i])
		// same key, possibly re-spelt with another head width
		if k.Major != refcbor.Prim {
			arg := k.Arg
			if k.Major == refcbor.Bstr || k.Major == refcbor.Tstr {
				arg = uint64(len(k.Str))
			}
			k.Width = refcbor.FitWidth(arg, mon.Pick(r, 0, 2, 3, 5, 9))
		}
		v := refcbor.Clone(n.Kids[i+1])
		if r.Bool() {
			v = refcbor.NInt(0)
		}
		n.Kids = append(n.Kids, k, v)
	case "trailing-in-bstr":
		emb, ok := c.Emb[n]
		if !ok {
			return nil, path, false
		}
		// extra bytes after the wrapped map, inside the byte string
		delete(c.Emb, n)
		n.Str = append(refcbor.Encode(emb), mon.Pick(r, []byte{0}, []byte{0xa0}, []byte{0xff}, []byte{0xf6}, []byte{0x40, 0x40})...)
	case "array-add":
		if n.Major != refcbor.Array {
			return nil, path, false
		}
		extra := mon.Pick(r, refcbor.NInt(0), refcbor.NBstr([]byte{1}), refcbor.NNull(), refcbor.NMap())
		i := r.Intn(len(n.Kids) + 1)
		n.Kids = append(n.Kids[:i:i], append([]*Node{extra}, n.Kids[i:]...)...)
	case "array-remove":
		if n.Major != refcbor.Array || len(n.Kids) == 0 {
			return nil, path, false
		}
		i := r.Intn(len(n.Kids))
		n.Kids = append(n.Kids[:i:i], n.Kids[i+1:]...)
	case "map-add":
		if n.Major != refcbor.Map {
			return nil, path, false
		}
		k := mon.Pick(r, refcbor.NInt(int64(r.Intn(20))), refcbor.NTstr("k"), refcbor.NBstr([]byte{1}), refcbor.NArr(), refcbor.NFloat64(1), refcbor.NNull(),
			&Node{Major: refcbor.Uint, Arg: 1 << 63}, &Node{Major: refcbor.Nint, Arg: 1 << 63}, refcbor.NBool(true))
		v := mon.Pick(r, refcbor.NInt(1), refcbor.NBstr([]byte{2}), refcbor.NTstr("a/b"), refcbor.NArr(refcbor.NInt(1)), refcbor.NNull())
		n.Kids = append(n.Kids, k, v)
	case "map-remove":
		if n.Major != refcbor.Map || len(n.Kids) < 2 {
			return nil, path, false
		}
		i := 2 * r.Intn(len(n.Kids)/2)
		n.Kids = append(n.Kids[:i:i], n.Kids[i+2:]...)
	case "swap-siblings":
		if s.Parent == nil || len(s.Parent.Kids) < 2 {
			return nil, path, false
		}
		j := r.Intn(len(s.Parent.Kids))
		if j == s.Index {
			j = (j + 1) % len(s.Parent.Kids)
		}
		s.Parent.Kids[s.Index], s.Parent.Kids[j] = s.Parent.Kids[j], s.Parent.Kids[s.Index]
	case "nest-deeper":
		// wrap the item in many nested arrays (depth limits)
		d := mon.Pick(r, 1, 4, 16, 33, 64, 200)
		cur := n
		for i := 0; i < d; i++ {
			cur = refcbor.NArr(cur)
		}
		replaceIn(s, c, cur)
	default:
		return nil, path, false
	}
	defer func() {
		if rec := recover(); rec != nil {
			out, ok = nil, false
		}
	}()
	return c.Seal(), path, true
}
