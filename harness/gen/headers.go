package gen

import (
	"fmt"
	"math"
	"math/big"
	"time"

	"github.com/fxamacker/cbor/v2"
	cose "github.com/veraison/go-cose"

	"verif/harness/mon"
)

// SpellInt returns v spelt with a pseudo-randomly chosen Go integer type that
// can hold it (one of the 10 integer types).
func SpellInt(r *mon.Rand, v int64) any {
	return SpellIntAs(v, r.Intn(10))
}

// IntSpellings is the number of Go integer spellings.
const IntSpellings = 10

var SpellNames = [...]string{"int64", "int", "int32", "int16", "int8", "uint64", "uint", "uint32", "uint16", "uint8"}

// SpellIntAs spells v with type number t (see SpellNames); when v does not
// fit, int64 is used.
func SpellIntAs(v int64, t int) any {
	switch t {
	case 1:
		return int(v)
	case 2:
		if v >= math.MinInt32 && v <= math.MaxInt32 {
			return int32(v)
		}
	case 3:
		if v >= math.MinInt16 && v <= math.MaxInt16 {
			return int16(v)
		}
	case 4:
		if v >= math.MinInt8 && v <= math.MaxInt8 {
			return int8(v)
		}
	case 5:
		if v >= 0 {
			return uint64(v)
		}
	case 6:
		if v >= 0 {
			return uint(v)
		}
	case 7:
		if v >= 0 && v <= math.MaxUint32 {
			return uint32(v)
		}
	case 8:
		if v >= 0 && v <= math.MaxUint16 {
			return uint16(v)
		}
	case 9:
		if v >= 0 && v <= math.MaxUint8 {
			return uint8(v)
		}
	}
	return v
}

// Fits reports whether SpellIntAs(v, t) really has type t.
func Fits(v int64, t int) bool {
	return fmt.Sprintf("%T", SpellIntAs(v, t)) == SpellNames[t]
}

var interestingInts = []int64{0, 1, -1, 23, 24, -24, -25, 255, 256, -256, -257, 65535, 65536, -65536, -65537,
	math.MaxInt32, math.MinInt32, 1 << 32, -(1 << 32) - 1, math.MaxInt64, math.MinInt64, 10, 100, 1000}

// IntValue draws an integer, boundary values favoured.
func IntValue(r *mon.Rand) int64 {
	switch r.Intn(3) {
	case 0:
		return interestingInts[r.Intn(len(interestingInts))]
	case 1:
		return int64(r.Intn(2000)) - 1000
	}
	return int64(r.U64())
}

var sampleStrings = []string{"", "a", "aa", "kid-1", "application/cose", "text/plain", "héllo", "日本語", "x y", "a/b", "1", "-1", "4", "33", "99", "255", "7", "11", "9", "12", "2", "0",
	// well-formed UTF-8 that naive validity tests trip over: a genuine U+FFFD, 4-byte runes, NUL, BOM, combining marks,
	// line separators, the last code point, DEL
	"\ufffd", "a\ufffdb", "\U0001F600", "\x00", "a\x00b", "\ufeffbom", "e\u0301", "\u2028\u2029", "\U0010FFFF", "\x7f", "\u00a0", "\ud7ff\ue000"}

// TextValue draws a valid UTF-8 string.
func TextValue(r *mon.Rand) string {
	if r.Intn(4) == 0 {
		n := r.Intn(40)
		b := make([]byte, n)
		for i := range b {
			b[i] = byte('a' + r.Intn(26))
		}
		return string(b)
	}
	return sampleStrings[r.Intn(len(sampleStrings))]
}

// BytesValue draws a non-nil byte string; lengths cross the 23/24 boundary.
func BytesValue(r *mon.Rand) []byte {
	n := mon.Pick(r, 0, 1, 2, 8, 23, 24, 25, 32, 64)
	if r.Intn(4) == 0 {
		n = r.Intn(300)
	}
	if r.Intn(60) == 0 {
		n = 4096 + r.Intn(2000) // large values (kid, IV, x5chain...) cross allocation thresholds
	}
	b := r.Bytes(n)
	if b == nil {
		b = []byte{}
	}
	return b
}

// Value draws a header value of the Go-side data model (DESIGN.md section 3):
// what a decoder can produce, plus every Go integer spelling for integers.
func Value(r *mon.Rand, depth int) any {
	if depth <= 1 && r.Intn(40) == 0 {
		// a deeply nested value (well inside the CBOR library's default nesting limit of 32)
		var v any = int64(1)
		for d := 0; d < 6+r.Intn(15); d++ {
			if d%3 == 2 {
				v = map[any]any{int64(d): v}
			} else {
				v = []any{v}
			}
		}
		return v
	}
	if depth <= 1 && r.Intn(400) == 0 {
		// an array-valued parameter with several thousand elements
		n := mon.Pick(r, 4097, 5000)
		a := make([]any, n)
		for j := range a {
			a[j] = int64(j & 0xff)
		}
		return a
	}
	if depth <= 1 && r.Intn(400) == 0 {
		// a map-valued parameter with more than a thousand entries
		m := make(map[any]any, 1100)
		for j := 0; j < 1100; j++ {
			m[int64(j)] = int64(j)
		}
		return m
	}
	k := r.Intn(12)
	if depth >= 4 && k >= 9 {
		k = r.Intn(9)
	}
	switch k {
	case 0:
		return nil
	case 1:
		return r.Bool()
	case 2, 3:
		return SpellInt(r, IntValue(r))
	case 4:
		if r.Intn(5) == 0 {
			// a Go time value (whole seconds): the library's encoder writes it as an untagged epoch integer
			return time.Unix(int64(1600000000+r.Intn(200000000)), 0).UTC()
		}
		if r.Intn(5) == 0 {
			// a single-precision Go value
			return mon.Pick(r, float32(1.5), float32(-0.1), float32(3.4028235e38), float32(1e-40))
		}
		fs := []float64{0, 1.5, -2.25, 1e300, -1e-300, 3.4028234663852886e+38, 65504, 1.0e10}
		return fs[r.Intn(len(fs))]
	case 5, 6:
		return TextValue(r)
	case 7, 8:
		return BytesValue(r)
	case 9, 10:
		n := r.Intn(4)
		a := make([]any, n)
		for i := range a {
			a[i] = Value(r, depth+1)
		}
		return a
	default:
		n := r.Intn(4)
		m := make(map[any]any, n)
		for i := 0; i < n; i++ {
			if r.Bool() {
				m[IntValue(r)] = Value(r, depth+1)
			} else {
				m[TextValue(r)] = Value(r, depth+1)
			}
		}
		if r.Intn(6) == 0 {
			// a nested map keyed by byte strings (only labels of the header itself must be int / tstr)
			m[cbor.ByteString(r.Bytes(1+r.Intn(4)))] = Value(r, depth+1)
		}
		return m
	}
}

// HeaderOpts steers GoHeader.
type HeaderOpts struct {
	Protected  bool
	MaxEntries int             // upper bound on random extra entries
	Alg        *cose.Algorithm // when set, label 1 is added with this value
	AlgSpell   int             // Go spelling number of the alg label (0 = int64)
	NoIV       bool            // do not generate IV / Partial IV
	NoCrit     bool
	FillTo     int  // when > 0, add a filler so the encoded map is at least this long
	Plain      bool // only int64 labels and decoder-shaped values (for comparisons after decode)
}

var unknownLabels = []int64{8, 10, 13, 14, 17, 31, 36, 99, 255, 256, 257, 261, 1000, 65536, -1, -2, -24, -25, -256, -65537, math.MaxInt64, math.MinInt64}

// GoHeader draws a header bucket (as a plain map[any]any) that obeys the RFC
// 9052 section 3.1 rules, with labels spelt in random Go integer types.
// usedIV reports which of IV(5) / PartialIV(6) was placed (0 if none) so the
// caller can keep the other bucket compatible.
func GoHeader(r *mon.Rand, o HeaderOpts, forbidIV bool) (m map[any]any, usedIV int64) {
	m = map[any]any{}
	used := map[any]bool{}
	spell := func(l int64) any {
		if o.Plain {
			return l
		}
		return SpellInt(r, l)
	}
	put := func(l int64, v any) {
		if used[l] {
			return
		}
		used[l] = true
		m[spell(l)] = v
	}
	if o.Alg != nil {
		used[int64(1)] = true
		m[SpellIntAs(1, o.AlgSpell)] = *o.Alg
	}
	n := 0
	if o.MaxEntries > 0 {
		n = r.Intn(o.MaxEntries + 1)
	}
	if o.MaxEntries >= 30 && r.Bool() {
		// a bucket with 24 or more parameters (the map head needs a second byte)
		for j := 0; j < 24+r.Intn(20); j++ {
			put(int64(200000+j*7), Value(r, 2))
		}
	}
	for i := 0; i < n; i++ {
		switch r.Intn(12) {
		case 0: // content type
			if r.Bool() {
				put(3, SpellInt(r, int64(r.Intn(70000))))
			} else {
				put(3, mon.Pick(r, "application/cose", "text/plain", "a/b", "text/plain; charset=utf-8", "a/b;c=d", "application/EDI-X12", "Text/Plain", "a/B+json"))
			}
		case 1: // kid
			put(4, BytesValue(r))
		case 2: // IV or Partial IV
			if !o.NoIV && !forbidIV && usedIV == 0 {
				usedIV = int64(5 + r.Intn(2))
				put(usedIV, BytesValue(r))
			}
		case 3: // typ
			if r.Bool() {
				put(16, SpellInt(r, int64(r.Intn(70000))))
			} else {
				put(16, mon.Pick(r, "application/cose", "a/b"))
			}
		case 4: // CWT claims
			switch r.Intn(3) {
			case 0:
				put(15, map[any]any{int64(1): "issuer", int64(2): "subject", int64(6): int64(1700000000)})
			case 1:
				put(15, cose.CWTClaims{int64(1): "issuer", int64(2): "subject", int64(6): int64(1700000000)})
			default:
				// private-use claim keys whose bytewise order and length-first order differ
				put(15, cose.CWTClaims{int64(1): "issuer", int64(-70000): int64(1), "a": int64(2), "zz": []byte{3}, int64(100000): "x", int64(24): true})
			}
		case 5: // x5chain-like
			put(33, BytesValue(r))
		case 6:
			if !o.Protected {
				put(mon.Pick(r, int64(9), int64(12)), BytesValue(r))
			}
		case 7, 8: // text label
			s := TextValue(r)
			if !used[s] {
				used[s] = true
				m[s] = Value(r, 1)
			}
		default: // unknown integer label
			l := unknownLabels[r.Intn(len(unknownLabels))]
			if r.Intn(3) == 0 {
				l = int64(300 + r.Intn(100000))
			}
			put(l, Value(r, 1))
		}
	}
	if !o.Plain && o.MaxEntries > 0 && r.Intn(8) == 0 {
		// a certificate chain given the natural Go way, as a slice of byte slices
		chain := [][]byte{BytesValue(r)}
		if r.Bool() {
			chain = append(chain, BytesValue(r))
		}
		if len(chain) == 1 && r.Bool() {
			// the same single certificate as a generic one-element list
			put(mon.Pick(r, int64(33), int64(32)), []any{chain[0]})
		} else {
			put(mon.Pick(r, int64(33), int64(32)), chain)
		}
	}
	if o.Protected && !o.Plain && o.MaxEntries > 0 && r.Intn(8) == 0 {
		// values that are written with a CBOR tag. Tags are permitted inside protected header content
		// only (the envelope and the unprotected bucket are decoded with tags forbidden): integers
		// beyond 64 bits (bignums; magnitudes between 2^63 and 2^64 are left out, see known finding F1)
		// and explicitly tagged values, at the top level and nested.
		bigv := new(big.Int).Lsh(big.NewInt(1), uint(64+r.Intn(200)))
		bigv.Add(bigv, big.NewInt(int64(r.Intn(1000))))
		if r.Bool() {
			bigv.Neg(bigv)
		}
		switch r.Intn(4) {
		case 0:
			put(77001, bigv)
		case 1:
			put(77001, *bigv)
		case 2:
			put(77002, cbor.Tag{Number: 37, Content: r.Bytes(16)})
		default:
			put(77003, []any{cbor.Tag{Number: 1000, Content: int64(1700000000)}, map[any]any{int64(1): bigv}})
		}
	}
	if o.Protected && !o.NoCrit && len(m) > 0 && r.Intn(3) == 0 {
		// crit naming one or two labels that are present
		var crit []any
		for k := range used {
			if il, ok := k.(int64); ok && il == 2 {
				continue
			}
			crit = append(crit, k)
		}
		if len(crit) > 0 {
			// map iteration order above is random; order the entries for determinism
			sortAny(crit)
			if len(crit) > 2 {
				crit = crit[:2]
			}
			if !o.Plain {
				for i, c := range crit {
					if il, ok := c.(int64); ok {
						crit[i] = SpellInt(r, il)
					}
				}
			}
			put(2, crit)
		}
	}
	if o.FillTo > 0 {
		// filler entry under an unknown label; its length is tuned by the caller
		put(70000, r.Bytes(o.FillTo))
	}
	return m, usedIV
}

func sortAny(a []any) {
	key := func(v any) string { return fmt.Sprintf("%T:%v", v, v) }
	for i := 1; i < len(a); i++ {
		for j := i; j > 0 && key(a[j]) < key(a[j-1]); j-- {
			a[j], a[j-1] = a[j-1], a[j]
		}
	}
}

// SizeClass names the length class of an encoded protected header.
func SizeClass(n int) string {
	switch {
	case n == 0:
		return "0"
	case n < 24:
		return "1-23"
	case n < 256:
		return "24-255"
	case n < 65536:
		return "256-65535"
	}
	return ">=65536"
}

// PayloadLens are the boundary payload lengths of C01.
var PayloadLens = []int{0, 1, 23, 24, 255, 256, 65535, 65536}

// Payload draws a payload with a boundary or random length (non-nil).
func Payload(r *mon.Rand, allowHuge bool) []byte {
	var n int
	switch r.Intn(3) {
	case 0:
		n = PayloadLens[r.Intn(len(PayloadLens))]
		if !allowHuge && n >= 65535 && r.Intn(4) != 0 {
			n = 256
		}
	case 1:
		n = r.Intn(64)
	default:
		n = r.Intn(700)
	}
	b := r.Bytes(n)
	if b == nil {
		b = []byte{}
	}
	return b
}

// External draws external data: nil, empty, short or 256 bytes.
func External(r *mon.Rand) []byte {
	switch r.Intn(6) {
	case 0:
		return nil
	case 1:
		return []byte{}
	case 2:
		return r.Bytes(1 + r.Intn(64))
	case 3:
		return r.Bytes(256)
	case 4:
		// length-prefix boundaries of the external_aad bstr inside the Sig_structure
		n := Pick(r, 23, 24, 255, 255, 256, 65535, 65536)
		if n >= 65535 && r.Intn(3) != 0 {
			n = 255
		}
		return r.Bytes(n)
	}
	return nil
}

// Pick is mon.Pick for ints (keeps call sites short).
func Pick(r *mon.Rand, xs ...int) int { return xs[r.Intn(len(xs))] }

// ExternalClass names the class of external data.
func ExternalClass(e []byte) string {
	switch {
	case e == nil:
		return "nil"
	case len(e) == 0:
		return "empty"
	}
	return "nonempty"
}
