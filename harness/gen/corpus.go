package gen

import (
	"crypto/elliptic"
	"math/big"

	"verif/harness/mon"
	"verif/harness/refcbor"
	"verif/harness/refcose"
)

// CorpusItem is one valid encoding with the kind of decoder it is meant for.
type CorpusItem struct {
	Kind  refcose.Kind
	Name  string
	Bytes []byte
}

// nestedCountersig builds a COSE_Countersignature node whose own unprotected
// header may again carry countersignatures (depth levels).
func nestedCountersig(r *mon.Rand, depth int, scramble int) *Node {
	a := int64(-7)
	l := RandLayer(r, LayerOpts{Alg: &a, MaxProt: 2, MaxUnprot: 2, ScramblePct: scramble})
	if depth > 1 {
		addCountersigs(r, &l, depth-1, scramble)
	}
	s := &WSignature{L: l, Sig: r.Bytes(1 + r.Intn(70))}
	return s.Node()
}

// addCountersigs puts a single countersignature or a list under label 7 or 11.
func addCountersigs(r *mon.Rand, l *WLayer, depth, scramble int) {
	label := mon.Pick(r, int64(7), int64(11))
	if r.Intn(5) == 0 {
		// both countersignature labels in one header (a version-1 and a version-2 countersignature side by side)
		other := int64(18) - label
		if r.Bool() {
			l.AddUnprot(other, nestedCountersig(r, depth, scramble))
		} else {
			l.AddUnprot(other, refcbor.NArr(nestedCountersig(r, depth, scramble), nestedCountersig(r, depth, scramble)))
		}
	}
	if r.Bool() {
		l.AddUnprot(label, nestedCountersig(r, depth, scramble))
		return
	}
	n := 1 + r.Intn(4)
	kids := make([]*Node, n)
	for i := range kids {
		kids[i] = nestedCountersig(r, depth, scramble)
	}
	arr := refcbor.NArr(kids...)
	if r.Chance(scramble) {
		arr.Width = refcbor.FitWidth(uint64(n), mon.Pick(r, 2, 3, 5))
	}
	l.AddUnprot(label, arr)
}

// ValidCorpus draws valid encodings of every kind (signatures are arbitrary
// non-empty bytes: well-formedness does not depend on their validity).
func ValidCorpus(r *mon.Rand, n int, scramble int) []CorpusItem {
	var out []CorpusItem
	for i := 0; i < n; i++ {
		a := mon.Pick(r, int64(-7), int64(-8), int64(-37), int64(-36))
		var ap *int64
		if r.Intn(4) != 0 {
			ap = &a
		}
		lo := LayerOpts{Alg: ap, MaxProt: 4, MaxUnprot: 3, ScramblePct: scramble}
		payload := r.Bytes(mon.Pick(r, 0, 1, 5, 23, 24, 40, 40, 4096, 5000))
		if payload == nil {
			payload = []byte{}
		}
		if r.Intn(6) == 0 {
			payload = nil
		}
		sig := func() []byte { return r.Bytes(mon.Pick(r, 1, 8, 64, 96, 132, 132, 512, 4200)) }
		switch i % 6 {
		case 0, 1:
			l := RandLayer(r, lo)
			if r.Intn(3) == 0 {
				addCountersigs(r, &l, 1+r.Intn(3), scramble)
			}
			m := &WSign1{L: l, Payload: payload, PayloadWidth: mon.Pick(r, 0, 0, 2, 3), Sig: sig(), SigWidth: mon.Pick(r, 0, 0, 3), Tagged: i%6 == 0}
			k, name := refcose.KSign1Untagged, "sign1-untagged"
			if m.Tagged {
				k, name = refcose.KSign1Tagged, "sign1"
			}
			out = append(out, CorpusItem{k, name, m.Bytes()})
		case 2:
			l := RandLayer(r, LayerOpts{MaxProt: 3, MaxUnprot: 2, ScramblePct: scramble})
			if r.Intn(4) == 0 {
				addCountersigs(r, &l, 1+r.Intn(2), scramble)
			}
			m := &WSign{L: l, Payload: payload, SigsWidth: mon.Pick(r, 0, 0, 2)}
			for j := 0; j < 1+r.Intn(3); j++ {
				sl := RandLayer(r, lo)
				if r.Intn(4) == 0 {
					addCountersigs(r, &sl, 1+r.Intn(2), scramble)
				}
				m.Sigs = append(m.Sigs, &WSignature{L: sl, Sig: sig()})
			}
			out = append(out, CorpusItem{refcose.KSignTagged, "sign", m.Bytes()})
		case 3:
			l := RandLayer(r, lo)
			if r.Intn(3) == 0 {
				addCountersigs(r, &l, 1+r.Intn(2), scramble)
			}
			s := &WSignature{L: l, Sig: sig()}
			out = append(out, CorpusItem{refcose.KSignature, "signature", s.Bytes()})
		case 4:
			l := RandLayer(r, lo)
			n := refcbor.NBstr(l.Content())
			n.Width = refcbor.FitWidth(uint64(len(n.Str)), l.ProtWidth)
			out = append(out, CorpusItem{refcose.KProtected, "protected", refcbor.Encode(n)})
		case 5:
			l := RandLayer(r, lo)
			if r.Intn(2) == 0 {
				addCountersigs(r, &l, 1+r.Intn(3), scramble)
			}
			u := l.Unprot
			if u == nil {
				u = refcbor.NMap()
			}
			out = append(out, CorpusItem{refcose.KUnprotected, "unprotected", refcbor.Encode(u)})
		}
	}
	return out
}

// ------------------------------------------------------------ COSE_Key ----

// KeyNode builds a COSE_Key map from labelled entries.
type KeyEntry struct {
	Label *Node
	Value *Node
}

func KeyMap(es []KeyEntry) *Node {
	var kids []*Node
	for _, e := range es {
		kids = append(kids, e.Label, e.Value)
	}
	return refcbor.NMap(kids...)
}

// ValidKeys draws valid COSE_Key encodings: EC2 on the three curves (public
// and private), OKP Ed25519, symmetric and custom key types.
func ValidKeys(r *mon.Rand) [][]KeyEntry {
	var out [][]KeyEntry
	i := func(v int64) *Node { return refcbor.NInt(v) }
	decorate := func(es []KeyEntry) []KeyEntry {
		if r.Bool() {
			es = append(es, KeyEntry{i(2), refcbor.NBstr(BytesValue(r))})
		}
		if r.Bool() {
			es = append(es, KeyEntry{i(4), refcbor.NArr(i(1), i(2))})
		}
		if r.Intn(3) == 0 {
			es = append(es, KeyEntry{i(5), refcbor.NBstr(r.Bytes(8))})
		}
		if r.Intn(3) == 0 {
			es = append(es, KeyEntry{refcbor.NTstr("custom"), WireValue(r, 1, false)})
		}
		return es
	}
	for ci, c := range []elliptic.Curve{elliptic.P256(), elliptic.P384(), elliptic.P521()} {
		k := ECKey(c, r)
		size := (c.Params().BitSize + 7) / 8
		fill := func(v *big.Int) *Node { return refcbor.NBstr(v.FillBytes(make([]byte, size))) }
		alg := []int64{-7, -35, -36}[ci]
		pub := []KeyEntry{{i(1), i(2)}, {i(-1), i(int64(ci + 1))}, {i(-2), fill(k.X)}, {i(-3), fill(k.Y)}}
		priv := append(append([]KeyEntry{}, pub...), KeyEntry{i(-4), fill(k.D)})
		withAlg := append(append([]KeyEntry{}, priv...), KeyEntry{i(3), i(alg)})
		out = append(out, decorate(pub), decorate(priv), decorate(withAlg))
	}
	ed := EdKey(r)
	okpPub := []KeyEntry{{i(1), i(1)}, {i(-1), i(6)}, {i(-2), refcbor.NBstr(ed[32:])}}
	okpPriv := append(append([]KeyEntry{}, okpPub...), KeyEntry{i(-4), refcbor.NBstr(ed[:32])})
	okpAlg := append(append([]KeyEntry{}, okpPriv...), KeyEntry{i(3), i(-8)})
	out = append(out, decorate(okpPub), decorate(okpPriv), decorate(okpAlg))
	out = append(out, decorate([]KeyEntry{{i(1), i(4)}, {i(-1), refcbor.NBstr(r.Bytes(16))}}))
	out = append(out, decorate([]KeyEntry{{i(1), i(99)}, {i(-1), refcbor.NTstr("anything")}, {i(-70), WireValue(r, 1, false)}}))
	out = append(out, decorate([]KeyEntry{{i(1), i(1)}, {i(-1), i(7)}, {i(-2), refcbor.NBstr(r.Bytes(57))}}))
	return out
}

// KeyValueZoo is the set of replacement values for the key mutation grid:
// every CBOR type and the length classes that matter for coordinates.
func KeyValueZoo(r *mon.Rand) []*Node {
	z := []*Node{
		refcbor.NInt(0), refcbor.NInt(1), refcbor.NInt(2), refcbor.NInt(3), refcbor.NInt(4), refcbor.NInt(5), refcbor.NInt(6), refcbor.NInt(7), refcbor.NInt(8),
		refcbor.NInt(-1), refcbor.NInt(-7), refcbor.NInt(-8), refcbor.NInt(-35), refcbor.NInt(-36), refcbor.NInt(-37), refcbor.NInt(99), refcbor.NInt(1 << 40),
		{Major: refcbor.Uint, Arg: 1 << 63}, {Major: refcbor.Nint, Arg: 1 << 63}, {Major: refcbor.Uint, Arg: ^uint64(0)},
		refcbor.NTstr(""), refcbor.NTstr("a"), refcbor.NTstr("sign"), refcbor.NTstr("verify"), refcbor.NTstr("P-256"),
		refcbor.NNull(), refcbor.NUndef(), refcbor.NBool(true), refcbor.NBool(false), refcbor.NFloat64(1), refcbor.NFloat16Bits(0x7e00), refcbor.NSimple(99),
		refcbor.NArr(), refcbor.NArr(refcbor.NInt(1)), refcbor.NArr(refcbor.NInt(2)), refcbor.NArr(refcbor.NTstr("sign"), refcbor.NTstr("verify")),
		refcbor.NArr(refcbor.NInt(1), refcbor.NInt(2), refcbor.NInt(3)), refcbor.NArr(refcbor.NTstr("bogus")), refcbor.NArr(refcbor.NBstr([]byte{1})), refcbor.NArr(refcbor.NNull()),
		refcbor.NArr(refcbor.NInt(0), refcbor.NInt(255), refcbor.NInt(7)), refcbor.NArr(refcbor.NArr()), refcbor.NArr(refcbor.NFloat64(1)),
		refcbor.NMap(), refcbor.NMap(refcbor.NInt(1), refcbor.NInt(2)),
		refcbor.NTag(2, refcbor.NBstr([]byte{1, 2})), refcbor.NTag(1, refcbor.NInt(5)), refcbor.NTag(999, refcbor.NInt(1)),
	}
	for _, n := range []int{0, 1, 16, 31, 32, 33, 47, 48, 49, 56, 57, 58, 64, 65, 66, 67, 130} {
		z = append(z, refcbor.NBstr(r.Bytes(n)))
		if n == 0 {
			z[len(z)-1] = refcbor.NBstr([]byte{})
		}
	}
	return z
}
