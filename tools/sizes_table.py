#!/usr/bin/env python3
"""Regenerate the measured-sizes table of DESIGN.md section 7.1 from evidence/*.json
(between <!-- sizes-table-begin --> and <!-- sizes-table-end -->)."""
import json, glob, os, re
root = os.path.join(os.path.dirname(__file__), "..")
rows = []
for f in sorted(glob.glob(os.path.join(root, "evidence", "C*.json"))):
    e = json.load(open(f)); c = e["coverage"]
    ev = sorted(c.get("events", {}).items(), key=lambda kv: -kv[1])[:4]
    evs = "; ".join("%s %s" % (k, format(v, ",").replace(",", " ")) for k, v in ev)
    rows.append("| %s | %s | %s | %s | %s | %.0f s |" % (e["property_id"], e["tier"], format(c["evaluations"], ",").replace(",", " "),
                format(c["distinct_nontrivial"], ",").replace(",", " "), evs, e["wall_s"]))
table = "| id | tier | oracle evaluations | distinct non-trivial classes | most frequent monitored events | wall |\n|---|---|---|---|---|---|\n" + "\n".join(rows)
p = os.path.join(root, "DESIGN.md"); s = open(p).read()
s = re.sub(r"<!-- sizes-table-begin -->.*?<!-- sizes-table-end -->", "<!-- sizes-table-begin -->\n" + table + "\n<!-- sizes-table-end -->", s, flags=re.S)
open(p, "w").write(s)
print("sizes table with", len(rows), "rows")
