#!/bin/bash
# tools/sweep.sh <tier> <seed>...   run every check at the given seeds without touching committed evidence
TIER="$1"; shift
for s in "$@"; do
  out=/tmp/sweep-$TIER-$s; mkdir -p $out
  VERIF_SEED=$s VERIF_OUT=$out "$(dirname "$0")/../run" all "$TIER" > $out/log 2>&1
  echo "seed $s: $(grep -c '^HELD' $out/log) held, $(grep -c '^VIOLATION' $out/log) violations, $(grep -c '^INCONCLUSIVE\|^HARNESS-ERROR' $out/log) inconclusive/harness"
  grep -E '^(VIOLATION|INCONCLUSIVE|HARNESS-ERROR)' $out/log | head -5
done
