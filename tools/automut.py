#!/usr/bin/env python3
"""Systematic (syntactic) mutation of the library as a measure of bite.

usage: automut.py <out.jsonl> [--jobs N] [--max M] [--files a.go,b.go] [--resume]

For every mutation site (relational / logical operator swaps and negated conditions on the non-test
source lines of /repo HEAD) a scratch copy under /tmp/am/<n> is mutated, compiled and run through the
pinned suite. Mutants the suite kills are only counted. Every *surviving* mutant is then offered to the
quick tier of the checks (fastest first, stopping at the first VIOLATION); the verdict per mutant is
appended to <out.jsonl>. Nothing in /repo or /verif/evidence is touched; scratch copies and their build
output are removed after each mutant.
"""
import hashlib, json, os, re, shutil, subprocess, sys, time
from concurrent.futures import ThreadPoolExecutor

ENV = dict(os.environ, GOFLAGS="-mod=mod", GOPROXY="off", GOSUMDB="off", GOTOOLCHAIN="local")
VERIF = os.environ.get("AUTOMUT_VERIF") or os.path.abspath(os.path.join(os.path.dirname(__file__), ".."))  # AUTOMUT_VERIF: a frozen copy of /verif to run the checks from
ORDER = "C04 C13 C12 C20 C02 C17 C16 C01 C07 C10 C11 C19 C14 C08 C09 C05 C15 C03 C06 C18".split()

OPS = [(r"(?<![=!<>])==(?!=)", "!="), (r"!=", "=="), (r"(?<![<\-])<(?![<=\-])", "<="), (r"(?<![>\-=])>(?![>=])", ">="),
       (r"<=", "<"), (r">=", ">"), (r"&&", "||"), (r"\|\|", "&&")]


def sites2(files):
    """Second operator set: swallowed errors, dropped negations, flipped boolean results, deleted statements."""
    out = []
    for f in files:
        lines = open(os.path.join("/repo", f)).read().split("\n")
        for i, line in enumerate(lines):
            code = line.split("//")[0].rstrip()
            st = code.strip()
            if not st or st.startswith(("import", "package", '"', "*", "/*")):
                continue
            m = re.match(r"^(\s*return (?:.*, )?)(errors\.New\(.*\)|fmt\.Errorf\(.*\)|Err[A-Za-z0-9]+|err[A-Za-z0-9]*)$", code)
            if m:
                out.append((f, i, line, m.group(1) + "nil", "swallow-error"))
            m = re.match(r"^(\s*(?:if|} else if) )!([A-Za-z_][\w\.]*(?:\(.*\))?) \{$", code)
            if m:
                out.append((f, i, line, m.group(1) + m.group(2) + " {", "drop-negation"))
            m = re.match(r"^(\s*return (?:.*, )?)(true|false)$", code)
            if m:
                out.append((f, i, line, m.group(1) + ("false" if m.group(2) == "true" else "true"), "flip-bool-result"))
            if re.match(r"^[A-Za-z_][\w\.\[\]\*]*(\(.*\)| [-+|&]?= .*)$", st) and not st.startswith(("return", "if ", "for ", "switch", "case", "defer", "go ", "var ", "func", "type ", "default", "panic")) and ":=" not in st and not st.endswith(("{", ",", "(")):
                out.append((f, i, line, re.match(r"^\s*", line).group(0) + "// deleted: " + st, "delete-statement"))
    return out


def sites3(files):
    """Third operator set: every decimal integer literal off by one (n+1, and n-1 for n > 0), boolean literals
    outside return statements flipped, `break` <-> `continue`."""
    out = []
    for f in files:
        lines = open(os.path.join("/repo", f)).read().split("\n")
        in_block_comment = False
        in_const = False
        for i, line in enumerate(lines):
            code = line.split("//")[0]
            if "/*" in code:
                in_block_comment = True
            if in_block_comment:
                if "*/" in line:
                    in_block_comment = False
                continue
            st = code.strip()
            if not st or st.startswith(("import", "package", '"')):
                continue
            masked = re.sub(r'"(\\.|[^"\\])*"', lambda m: '"' + "_" * (len(m.group(0)) - 2) + '"', code)
            masked = re.sub(r"'(\\.|[^'\\])*'", lambda m: "'" + "_" * (len(m.group(0)) - 2) + "'", masked)
            masked = re.sub(r"`[^`]*`", lambda m: "`" + "_" * (len(m.group(0)) - 2) + "`", masked)
            for m in re.finditer(r"(?<![\w\.])(\d+)(?![\w\.])", masked):
                n = int(m.group(1))
                if m.group(1).startswith("0") and len(m.group(1)) > 1:
                    continue
                for d in ((1, -1) if n > 0 else (1,)):
                    new = line[:m.start()] + str(n + d) + line[m.end():]
                    out.append((f, i, line, new, "int%+d" % d))
            if not st.startswith("return"):
                for m in re.finditer(r"(?<![\w\.])(true|false)(?![\w])", masked):
                    new = line[:m.start()] + ("false" if m.group(1) == "true" else "true") + line[m.end():]
                    out.append((f, i, line, new, "flip-bool-literal"))
            if st == "break":
                out.append((f, i, line, line.replace("break", "continue"), "break->continue"))
            if st == "continue":
                out.append((f, i, line, line.replace("continue", "break"), "continue->break"))
    return out


def sites(files):
    out = []
    for f in files:
        lines = open(os.path.join("/repo", f)).read().split("\n")
        in_block_comment = False
        for i, line in enumerate(lines):
            code = line.split("//")[0]
            if "/*" in code:
                in_block_comment = True
            if in_block_comment:
                if "*/" in line:
                    in_block_comment = False
                continue
            if not code.strip() or code.strip().startswith(("import", "package", '"')):
                continue
            # operators outside string literals only
            masked = re.sub(r'"(\\.|[^"\\])*"', lambda m: '"' + "_" * (len(m.group(0)) - 2) + '"', code)
            masked = re.sub(r"'(\\.|[^'\\])*'", lambda m: "'" + "_" * (len(m.group(0)) - 2) + "'", masked)
            for pat, rep in OPS:
                for m in re.finditer(pat, masked):
                    new = line[:m.start()] + rep + line[m.end():]
                    out.append((f, i, line, new, "%s->%s" % (m.group(0), rep)))
            m = re.match(r"^(\s*)(if|} else if) (.+) \{\s*$", code)
            # (a single comparison is already covered by the operator swaps)
            if m and ";" not in m.group(3) and (re.search(r"&&|\|\|", m.group(3)) or not re.search(r"==|!=|<|>", m.group(3))):
                new = "%s%s !(%s) {" % (m.group(1), m.group(2), m.group(3))
                out.append((f, i, line, new, "negate-condition"))
    return out


def sh(cmd, cwd=None, timeout=1800, env=ENV):
    try:
        p = subprocess.run(cmd, shell=True, cwd=cwd, env=env, capture_output=True, text=True, timeout=timeout)
        return p.returncode, p.stdout + p.stderr
    except subprocess.TimeoutExpired:
        return 124, "timeout"


def one(idx, site, workers):
    f, ln, old, new, op = site
    root = "/tmp/am/%d" % idx
    repo = root + "/repo"
    shutil.rmtree(root, ignore_errors=True)
    os.makedirs(repo)
    os.makedirs(root + "/out")
    res = {"n": idx, "file": f, "line": ln + 1, "op": op, "old": old.strip(), "new": new.strip()}
    try:
        sh("git -C /repo archive HEAD | tar -x -C %s" % repo)
        p = os.path.join(repo, f)
        lines = open(p).read().split("\n")
        assert lines[ln] == old
        lines[ln] = new
        open(p, "w").write("\n".join(lines))
        rc, out = sh("go build ./...", cwd=repo, timeout=300)
        if rc != 0:
            res["status"] = "does-not-compile"
            return res
        rc, out = sh("go test -vet=off -count=1 ./...", cwd=repo, timeout=600)
        if rc != 0:
            res["status"] = "killed-by-suite"
            return res
        res["status"] = "survives-suite"
        env = dict(ENV, VERIF_REPO=repo, VERIF_OUT=root + "/out", VERIF_WORKERS=str(workers))
        for cid in ORDER:
            t0 = time.time()
            rc, out = sh("%s/run %s quick" % (VERIF, cid), env=env, timeout=1500)
            if "VIOLATION property=" + cid in out:
                first = [l for l in out.split("\n") if l.strip() and not l.startswith(("==", "   event", "VIOLATION"))]
                res.update(caught_by=cid, witness=(first[0].strip()[:240] if first else ""), wall_s=round(time.time() - t0, 1))
                break
            if rc not in (0, 1):
                res.setdefault("non_held", []).append("%s rc=%d %s" % (cid, rc, out.strip().split("\n")[-1][:120]))
        else:
            res["caught_by"] = None
        return res
    finally:
        suffix = hashlib.md5(repo.encode()).hexdigest()[:8]
        shutil.rmtree(root, ignore_errors=True)
        shutil.rmtree("%s/harness/.alt.%s" % (VERIF, suffix), ignore_errors=True)
        for b in ("vcheck", "vcheck-race"):
            try:
                os.remove("%s/harness/bin/%s.%s" % (VERIF, b, suffix))
            except OSError:
                pass
        try:
            os.remove("%s/harness/bin/build.%s.log" % (VERIF, suffix))
        except OSError:
            pass


def main():
    out_path = sys.argv[1]
    args = sys.argv[2:]
    jobs = int(args[args.index("--jobs") + 1]) if "--jobs" in args else 4
    mx = int(args[args.index("--max") + 1]) if "--max" in args else 0
    files = sorted(f for f in os.listdir("/repo") if f.endswith(".go") and not f.endswith("_test.go"))
    if "--files" in args:
        files = args[args.index("--files") + 1].split(",")
    all_sites = sites3(files) if "--ops3" in args else (sites2(files) if "--ops2" in args else sites(files))
    if "--covered" in args:
        # keep only sites on lines the checks' workload executes (coverage profile of the quick tier):
        # a mutant on a line nothing runs cannot be observed by any check and is known from the
        # coverage reading already
        prof = args[args.index("--covered") + 1]
        covered = set()
        for l in open(prof):
            m = re.match(r".*/([a-z0-9_]+\.go):(\d+)\.\d+,(\d+)\.\d+ \d+ (\d+)$", l.strip())
            if m and int(m.group(4)) > 0:
                for ln in range(int(m.group(2)), int(m.group(3)) + 1):
                    covered.add((m.group(1), ln))
        before = len(all_sites)
        all_sites = [x for x in all_sites if (x[0], x[1] + 1) in covered]
        print("coverage filter: %d of %d sites are on executed lines" % (len(all_sites), before), flush=True)
    done = set()
    if "--resume" in args and os.path.exists(out_path):
        for l in open(out_path):
            done.add(json.loads(l)["n"])
    # a deterministic spread over the files: every k-th site when --max is given
    idxs = list(range(len(all_sites)))
    if mx and len(idxs) > mx:
        step = len(idxs) / float(mx)
        idxs = sorted(set(int(i * step) for i in range(mx)))
    idxs = [i for i in idxs if i not in done]
    if "--rerun-survivors" in args:
        # only the sites an earlier run (same flags) recorded as surviving the suite
        prev = args[args.index("--rerun-survivors") + 1]
        want = set(json.loads(l)["n"] for l in open(prev) if json.loads(l)["status"] == "survives-suite")
        idxs = sorted(want)
    print("sites: %d total, %d to run, %d jobs" % (len(all_sites), len(idxs), jobs), flush=True)
    workers = max(2, 16 // jobs)
    with ThreadPoolExecutor(jobs) as ex, open(out_path, "a") as fo:
        for res in ex.map(lambda i: one(i, all_sites[i], workers), idxs):
            fo.write(json.dumps(res) + "\n")
            fo.flush()
            print("%5d %-14s %-28s %-16s %s" % (res["n"], res["file"] + ":" + str(res["line"]), res["op"], res["status"], res.get("caught_by", "")), flush=True)


if __name__ == "__main__":
    main()
