#!/usr/bin/env python3
"""Regenerates /verif/MANIFEST.json from the table below (kept valid at all times)."""
import json, os, sys
HERE = os.path.dirname(os.path.dirname(os.path.abspath(__file__)))

# id -> (level category, technique, level text, level note, design ref)
CHECKS = {
 "C02": ("exploration", "runtime monitor: recording spy Signer/Verifier + byte-equality oracle against an independent Sig_structure builder",
         "Every ToBeSigned the library hands to a caller-supplied signer/verifier during the seeded workload (constructed and reference-encoded wire messages, all head widths, size boundaries, all COSE_Sign positions) is compared byte for byte with a reference built from the wire bytes; held on the executions observed, not a proof.",
         "trusted: refcbor/refcose (validated against RFC 8949 appendix A, the 18 COSE conformance vectors' tbsHex and three RFC 9338 example structures), Go stdlib", "DESIGN.md section 4 C02"),
 "C01": ("exploration", "runtime monitor: chains of real API calls (sign, verify, marshal, unmarshal, detach, re-attach) with each step's error as oracle",
         "Seeded chains over every structure kind, all 7 algorithms (also via COSE_Key), header/payload/external boundary classes and constructed/decoded/reference-encoded parents; any step failing after a successful signing call is a violation. Held on the chains executed.",
         "trusted: Go stdlib crypto and crypto/rand; the generator only builds messages of the supported data model (DESIGN.md section 3)", "DESIGN.md section 4 C01"),
 "C03": ("exploration", "runtime monitor: differential oracle - library Verify verdict vs independent reference verdict (own Sig_structure from the same wire bytes + stdlib primitive) on mutated wire messages; forgery corollary monitor",
         "Every decodable mutant of validly signed messages of every kind (all single-bit flips of small messages, byte edits, structural faults, semantic edits, transplants across messages/contexts, ECDSA encodings, other external data/keys) gets the library verdict compared with the reference verdict in both directions. Held on the mutants executed.",
         "trusted: refcbor/refcose (self-test against conformance vectors), crypto/ecdsa, crypto/rsa, crypto/ed25519 verification primitives (shared with the library)", "DESIGN.md section 4 C03, appendix A.3"),
}
REASON_NOT_BUILT = "check not built yet in this round; no claim is made (see DESIGN.md build order)"

props = [json.loads(l)["id"] for l in open(os.path.join(HERE, "properties.jsonl"))]
checks, na = [], []
for pid in props:
    if pid in CHECKS:
        cat, tech, text, note, ref = CHECKS[pid]
        checks.append({
            "property_id": pid,
            "quick_cmd": "./run %s quick" % pid,
            "thorough_cmd": "./run %s thorough" % pid,
            "evidence_file": "/verif/evidence/%s.json" % pid,
            "replay_cmd_template": "./run %s quick --replay {path}" % pid,
            "engine": "vcheck",
            "level_claimed": {"category": cat, "text": text, "design_ref": ref},
            "level_note": note,
            "technique": tech,
        })
    else:
        na.append({"property_id": pid, "reason": REASON_NOT_BUILT})
m = {
 "version": 1,
 "setup_cmd": "./run setup",
 "hooks": {
   "guard": "verif",
   "enable": "harness binaries are built with `go build -tags verif` against /repo via a go.mod replace directive; no hook was needed (every property is observable at the public API), so the tag currently guards nothing in /repo",
   "baseline_off_cmd": "cd /repo && GOFLAGS=-mod=mod GOPROXY=off GOSUMDB=off GOTOOLCHAIN=local go test -json -vet=off -count=1 -timeout 25m ./...",
   "source_commits": [],
   "add_only": True,
 },
 "engines": [
   {"name": "vcheck", "path": "/verif/harness", "serves_properties": sorted(CHECKS),
    "kind_free_text": "Go harness: seeded hostile workloads driving the real library through its public API under runtime monitors (recording spy signers/verifiers, deep-hash snapshots, child-process liveness watchdog, Go race detector) with oracles from independent reference models (refcbor/refcose/refcrypto)"}
 ],
 "checks": checks,
 "not_applicable": na,
 "notes": "Technique family: runtime monitoring and sanitizers. Genuine defects repaired in /repo as `fix:` commits are listed in /verif/known_findings.json. `./run <ID> <tier>` rebuilds the harness from /repo's working tree every time.",
}
json.dump(m, open(os.path.join(HERE, "MANIFEST.json"), "w"), indent=1)
print("MANIFEST.json: %d checks, %d not claimed" % (len(checks), len(na)))
