#!/usr/bin/env python3
"""Regenerates /verif/MANIFEST.json from the table below (kept valid at all times)."""
import json, os, sys
HERE = os.path.dirname(os.path.dirname(os.path.abspath(__file__)))

# workload classes added after rounds 14-18 of seeded changes (DESIGN.md section 7.4b)
LATER = {
 "C01": " Later additions: the message returned by VerifyHashEnvelope verifies and serialises again; one kid in several signer slots; signing again after a later signer failed and the payload was corrected.",
 "C02": " Later additions: received messages signed again are emitted with the protected bytes that were signed; signers kept from one received COSE_Sign while the variable receives the next; a refused verification changes nothing about the next one; RawProtected replaced after decoding; protected headers of 64 KiB / 16 MiB with every head width.",
 "C03": " Later additions: hash envelopes naming registered hash algorithms the library has no digest length for.",
 "C04": " Later additions: an algorithm mismatch combined with a second defect still yields the mismatch error; two different alg values under two Go spellings of label 1 let nothing proceed.",
 "C05": " Later additions: integer label 0 vs the empty text label in crit; a later COSE_Sign signer sharing protected bytes with an earlier one with the IV pair split across its buckets.",
 "C06": " Later additions: integers at the ends of their ranges in every selecting position, CWT claims of every registered shape incl. the confirmation claim, envelope rules reached through an accepting verifier.",
 "C07": " Later additions: repeated identical COSE_Signature entries; alg in the unprotected bucket of layers signed with external data; the IV (or Partial IV) repeated under the same label in the other bucket.",
 "C08": " Later additions: received messages signed again (emitted protected bytes = signed = received); the objects inside one received message encode identically on every decode; a kid / Base IV that is present and empty stays present through the key round trip.",
 "C09": " Later additions: with only the outer raw unprotected bytes discarded, the countersignature layers below come out byte-identical; every array head of a message in every wider spelling, the prediction keeps the sender's structure heads; countersignature chains of depth 4-8.",
 "C10": " Later additions: VerifyCountersign0 with no signature argument fails also when the parent's header carries a valid abbreviated countersignature; embedding structs, pointer chains, pointers to interfaces and defined types over the parent structs are refused; parent signatures whose bytes read as CBOR themselves; received parents whose signatures, signature or payload were removed afterwards are refused.",
 "C11": " Later additions: verifiers whose Go type has extra methods (KeyID, Kid, Public, ...); signer layers received separately with a wide protected head attached to a local body.",
 "C12": " Later additions: hand-made raw unprotected bytes whose values break general header rules; locations of white space only; digit-only content types; registered hash ids without a length rule; text that is not UTF-8 (open finding F4).",
 "C13": " Later additions: CBOR simple values in every int-or-text position; integer label 0 vs the empty text label and digit-string labels in crit; IV and Partial IV in different layers of one message; texts with more than one slash are not type/subtype strings.",
 "C14": " Later additions: a key-derived signer keeps signing with its key after the Key variable was re-used, wiped or cleared; extra parameters under small negative labels; public points whose x lies between the group order and the field prime.",
 "C15": " Later additions: digit-string text labels instead of and next to the integer labels with conflicting values; SEC1 points carried in x.",
 "C16": " Later additions: key objects given a key of another curve after the signer/verifier was first used; a valid signature followed or preceded by whole further fields; valid signatures inside CBOR / DER / length-prefix framing are refused.",
 "C17": " Later additions: RSA moduli of 8192-16384 bits; keys that cannot be asked for their public half with unsupported algorithms; RSA: every other PS verifier of the same key refuses, whichever digest it is offered.",
 "C18": " Later additions: countersignatures attached to decoded messages afterwards; hand-assembled keys with an integer curve; shared messages whose RawProtected is not one byte string; URL objects as x5u; keys with int-typed parameter labels; short coordinates held in slices with spare capacity.",
 "C19": " Later additions: structurally fine, semantically odd inputs (typ naming another structure, x5t not matching x5chain, ...) decoded into used destinations.",
 "C20": " Later additions: received objects (both raw buckets present) re-signed by failing signers must not serialise; signers whose SignDigest behaves differently from Sign; SignHashEnvelope with a working signer and inputs a later step objects to; every single-call fault under seven header shapes (retained raw bytes, no alg, nil maps).",
}
# id -> (level category, technique, level text, level note, design ref)
CHECKS = {
 "C02": ("exploration", "runtime monitor: recording spy Signer/Verifier + byte-equality oracle against an independent Sig_structure builder",
         "Every ToBeSigned the library hands to a caller-supplied signer/verifier during the seeded workload (constructed and reference-encoded wire messages, all head widths, size boundaries, all COSE_Sign positions) is compared byte for byte with a reference built from the wire bytes; held on the executions observed, not a proof.",
         "trusted: refcbor/refcose (validated against RFC 8949 appendix A, the 18 COSE conformance vectors' tbsHex and three RFC 9338 example structures), Go stdlib", "DESIGN.md section 4 C02"),
 "C01": ("exploration", "runtime monitor: chains of real API calls (sign, verify, marshal, unmarshal, detach, re-attach) with each step's error as oracle",
         "Seeded chains over every structure kind, all 7 algorithms (also via COSE_Key), header/payload/external boundary classes and constructed/decoded/reference-encoded parents; any step failing after a successful signing call is a violation. Held on the chains executed.",
         "trusted: Go stdlib crypto and crypto/rand; the generator only builds messages of the supported data model (DESIGN.md section 3)", "DESIGN.md section 4 C01"),
 "C03": ("exploration", "runtime monitor: differential oracle - library Verify verdict vs independent reference verdict (own Sig_structure from the same wire bytes + stdlib primitive) on mutated wire messages; forgery corollary monitor",
         "Every decodable mutant of validly signed messages of every kind (all single-bit flips of small messages, byte edits, structural faults, semantic edits, transplants across messages/contexts, ECDSA encodings, other external data/keys) gets the library verdict compared with the reference verdict in both directions. Held on the mutants executed.",
         "trusted: refcbor/refcose (self-test against conformance vectors), crypto/ecdsa, crypto/rsa, crypto/ed25519 verification primitives (shared with the library)", "DESIGN.md section 4 C03, appendix A.3"),
 "C04": ("exploration", "runtime monitor: call log of spy Signer/Verifier + errors.Is on the returned error + independent parse of the recorded ToBeSigned and of the emitted message",
         "The grid structure x alg-header kind x label spelling x key algorithm x external data x raw/parsed/decoded form is enumerated completely (about 170k sign/verify evaluations); in each cell the key call is either required and observed or forbidden and absent, mismatches must be ErrAlgorithmMismatch, and an injected alg must be inside the signed and the emitted protected bytes. Includes reuse of one Headers value through UnmarshalFromRaw.",
         "trusted: refcbor parse of recorded bytes; raw protected bytes that disagree with the parsed map are outside the property", "DESIGN.md section 4 C04"),
 "C10": ("exploration", "runtime monitor: recording spy Signer/Verifier vs reference Countersign_structure (byte equality) + real-key Verify verdicts on mutated parents + refusal grid",
         "Structure bytes for 4 parent kinds x pointer/value x full/abbreviated x constructed/decoded/non-canonical parents are compared with the RFC 9338 reference; real-key countersignatures must survive changes of the parent's unprotected headers and must not survive any change of protected bytes, payload, signature, external data, nor replay as message signature or as the other countersignature form; unsigned/payload-less/unsupported parents must be refused.",
         "trusted: refcose CountersignStructure (pinned by three cose-wg example structures), stdlib crypto; both sign_protected layouts of CounterSignature0 tolerated", "DESIGN.md section 4 C10"),
 "C11": ("exploration", "runtime monitor: SignMessage Sign/Verify/Marshal/Unmarshal results vs reference conjunction per index computed from the wire bytes; positional spy verifiers; failing spy signers",
         "For n = 1..6 signers with mixed real keys every subset of corrupted and of emptied signatures and every verifier arrangement (transpositions, rotation, missing, surplus, wrong key per index) is enumerated, constructed and decoded, and for 18 sizes n = 7..100 every single position is corrupted, emptied, given a wrong key, a refusing and a crashing verifier; library verdict must equal the reference verdict in both directions; spy verifiers must each see their own signer's Sig_structure; zero/empty signatures can be neither encoded nor decoded.",
         "trusted: refcose/refcrypto reference verdict; signers are well-behaved (error or non-empty signature)", "DESIGN.md section 4 C11"),
 "C20": ("fault_enumeration", "fault injection through the public API (fault-injecting Signer/Verifier/io.Reader implementations) + inspection of return values, message state and emitted bytes after every fault vector",
         "Every assignment of {ok, error, error-with-bytes, empty signature (nil / zero-length), Temporary()/Timeout() error, wrapped deadline error, EOF with partial bytes} to each key call of all signing entry points (8^n vectors for COSE_Sign n<=4), of {ok, ErrVerification, other error, panic} to each verifier call (plain and digest-capable verifiers), the 7 real built-in signers under failing/short/one-byte entropy readers and over misbehaving opaque crypto.Signer keys, and signing of already signed objects are enumerated; an error must be returned, no bytes returned, nothing stored in the failing slot, nothing half-signed serialisable, no empty signature emitted, verifier errors propagated.",
         "trusted: refcbor parse of emitted bytes; Go 1.23 stdlib consults the supplied entropy reader (measured: the monitor records reader calls)", "DESIGN.md section 4 C20"),
 "C05": ("exploration", "runtime monitor: accept/refuse result of the 7 decoders on structure-aware mutants; one-directional differential oracle accepted => well-formed per an independent reference grammar; cross-kind refusal",
         "Valid encodings of all shapes (reference encoder, all encoder choices, nested countersignatures) receive single and double structural faults at every kind of CBOR tree position, targeted splices (IV across buckets, crit, null/[]/[null] countersignatures, duplicate keys re-spelt with another width, trailing bytes inside the protected bstr) and byte havoc; every mutant the library accepts must satisfy the reference grammar; no decoder may accept another kind's valid encoding.",
         "trusted: refcbor/refcose WellFormed (appendix A.1/A.2), deliberately no stricter than the property text: tag 55799 is transparent, duplicate detection excludes NaN keys, the stand-alone unprotected-bucket decoder is judged with tags looked through", "DESIGN.md section 4 C05"),
 "C06": ("exploration", "runtime monitor: liveness of isolated child processes (recover around each call, cursor file, stall watchdog with solo re-confirmation) over hostile inputs to all 9 decoding entry points and their follow-up operations",
         "About 550k seeded inputs (structural/byte mutants of valid messages, the COSE_Key mutation grid, label x value grids, media-type-shaped texts, every 1- and 2-byte input, random bytes, regression inputs; nil receivers) go to every decoding entry point in child processes; every accepted value is re-encoded, verified, countersigned, its nested countersignatures exercised, keys converted and used. Recovered panics, runtime fatal errors and confirmed stalls are violations; the watchdog alone never decides.",
         "trusted: Go runtime crash reporting; a stall counts only if it repeats alone for 120 s", "DESIGN.md section 4 C06"),
 "C07": ("exploration", "runtime monitor: accept + verify results of the library on messages produced and signed by an independent reference implementation (reference encoder choices, reference Sig_structure / Countersign_structure, stdlib crypto)",
         "Conforming Sign1/Untagged/COSE_Sign/Signature/Countersignature messages with nested countersignatures (single/list, depth <= 3) are written by refcbor with every encoder choice a peer may make and signed over those wire bytes; the library must decode, verify every signature and nested countersignature from the decoded value, and the decoded plain header values must match the reference tree.",
         "trusted: refcbor/refcose/refcrypto; documented limits of DESIGN.md section 3 delimit 'conforming'", "DESIGN.md section 4 C07"),
 "C08": ("exploration", "runtime monitor: repetition oracle (16x in-process, 2 freshly started child processes compared by SHA-256), refcbor canonical-form predicates on every output and every protected content, spy-recorded signed bytes vs emitted bytes, aliasing snapshot, closure through the real decoders",
         "Every encoder and Sign helper is run over seeded values of the Go-side data model with adversarial key sets; outputs must be byte-stable within and across processes, deterministic CBOR at every layer, identical to the signed protected bytes, unaffected by later encodes, and decode to an equivalent value.",
         "trusted: refcbor IsCanonical (self-test on RFC 8949 appendix A), refcose GoToNode equivalence; values restricted to the supported model", "DESIGN.md section 4 C08"),
 "C09": ("exploration", "runtime monitor: re-encoding compared byte-for-byte with a prediction computed from the input by the reference parser; real Verify before/after; decode/encode cycles; fixed-point oracle with raw bytes discarded",
         "Accepted wire messages (reference-signed with all encoder choices and nested countersignatures, plus accepted structural mutants) are decoded and re-encoded: both header buckets of every layer must be reproduced verbatim, signatures must still verify, 5 cycles must be stable, and the encoding obtained after discarding raw bytes must be a fixed point of decode/encode.",
         "trusted: refcbor spans (raw item boundaries), prediction rules of appendix A.4", "DESIGN.md section 4 C09"),
 "C12": ("exploration", "runtime monitor: SignHashEnvelope output parsed by the reference parser and closed through the real VerifyHashEnvelope; deep-hash snapshot of caller maps; two-sided differential of VerifyHashEnvelope against the reference envelope rules on reference-signed envelopes",
         "Producer: 20k seeded base headers with governed labels preset under any spelling/type/bucket, raw buckets, all hash algorithms and digest lengths - every produced envelope must obey the rules, carry the given values, be accepted with exactly those values, and leave the caller's maps untouched. Verifier: the complete placement x type grid of the four governed labels (about 34k validly signed envelopes) plus digest-length/detached/untagged/external variants - a message is returned iff the rules hold.",
         "trusted: refcose HashEnvelopeRules (appendix A.5), reference signer; a label preset by the caller counts as given", "DESIGN.md section 4 C12"),
 "C13": ("exploration", "runtime monitor: three-way agreement oracle between the encoder verdict (any Go integer spelling), the decoder verdict and the reference RFC 9052 section 3.1 rules, per grid cell, through both bucket codecs and every message type",
         "The grid label x value kind x bucket x direction x 10 Go spellings, all IV/Partial IV placements, crit combinations (present, absent, other bucket, wrapping values such as 260 vs int8 4, text labels, non-label entries) and duplicate labels under different spellings is enumerated completely; encode, decode and the rules must agree in every cell, also when the header set is carried by Sign1/Untagged/COSE_Sign (body and signature layers)/Signature/Countersignature and nested countersignatures.",
         "trusted: refcose HeaderRulesGo/HeaderRulesWire (appendix A.2), cross-checked against each other in every cell", "DESIGN.md section 4 C13"),
 "C14": ("exploration", "runtime monitor: Equal on stdlib keys after the full conversion chain (in memory and through the wire), coordinate lengths read from the serialised key by the reference parser, real sign/verify through Key.Signer/Key.Verifier",
         "ECDSA keys on the three curves with forced boundary classes (x, y, d with 1-2 (3 in thorough) leading zero bytes found by scalar-multiplication search, extreme d, the x = 0 points) and Ed25519 keys, with and without kid/key_ops/base IV/extra parameters, go through NewKeyFrom* -> MarshalCBOR -> UnmarshalCBOR -> PrivateKey/PublicKey/Signer/Verifier; keys must be Equal, serialised coordinates exactly field-sized, signatures valid under the counterpart verifier and the stdlib.",
         "trusted: crypto/elliptic scalar multiplication, ecdsa/ed25519 Equal and Verify, refcbor", "DESIGN.md section 4 C14"),
 "C15": ("exploration", "runtime monitor: one-directional oracle accepted => key rules (reference, on the wire tree), re-encoding fixed-point oracle, and Signer()/Verifier() gate predicate evaluated against wire facts and hand-built values",
         "The complete wire grid kty x crv x alg x key_ops x presence/length class of x, y, d (about 1.7 M keys built from real points, incl. text algorithms and Brainpool / unassigned curves), structural/byte mutants of valid keys, and the grid of hand-built Key values: every accepted key must satisfy the consistency rules and re-encode to a canonical fixed point; Signer()/Verifier() may succeed only with the needed material, with key_ops (when present) permitting the operation, for asymmetric supported keys, and always for the algorithm the curve fixes.",
         "trusted: refcose KeyRules (appendix A.6); tags are looked through (the key decoder is tag-tolerant and the property is silent on tags)", "DESIGN.md section 4 C15"),
 "C16": ("exploration", "runtime monitor: signer output compared with an independent fixed-width encoder for stub-chosen ASN.1 (r,s) and for native signatures; verifier verdicts on manufactured signatures against the oracle 'exactly 2n bytes holding an (r,s) that crypto/ecdsa accepts'",
         "Generic path: all byte lengths of r and s (top bit set/clear) on the three curves, including DER encodings that are exactly 2n long; native path: thousands of real signatures incl. measured leading-zero cases; verifier: reference signatures with chosen nonces (0/1/2 leading zero bytes in r and/or s, s in {1, 255, n-1, n/2}) accepted as-is and refused with ErrVerification in DER / stripped / extended / truncated / swapped / out-of-range forms and at every length 0..2n+4.",
         "trusted: crypto/ecdsa.Verify as definition of validity; refcrypto nonce-controlled signer (self-tested against ecdsa.Verify)", "DESIGN.md section 4 C16"),
 "C17": ("exploration", "runtime monitor: NewSigner/NewVerifier outcomes, error identities and reported algorithms against a reference decision table; 4-way Sign/SignDigest x Verify/VerifyDigest equivalence and cross-hash refusal with shared signers under 16 concurrent workers",
         "The complete matrix of 31 algorithm ids x about 60 key kinds (RSA 1024/2047/2048/2049/2055/3072/4096 and public exponents 3..2^31-1, four curves, invalid points, Ed25519, foreign crypto.Signer types, wrong Go types) is enumerated for both constructors; for every RSA/ECDSA algorithm x key, signatures from both signing entry points must verify through both verification entry points and the stdlib, and under no other hash.",
         "trusted: reference decision table written from the property text; stdlib verification", "DESIGN.md section 4 C17"),
 "C18": ("exploration", "Go race detector (child binary built with -race, GORACE halt_on_error=0, reports de-duplicated by top frames) over a 32-goroutine stress workload on shared objects + comparison of every concurrent result with the sequential one + deep-hash snapshot monitor around every read-path call",
         "Sequential half: for about 250 shared objects of every kind/algorithm (constructed with three alg spellings, and decoded) the deep hash of message, headers, buffers, external data and verifier must be identical before and after every read-path operation. Concurrent half: the same objects are hammered by 32 goroutines released by a barrier (about 50k operations, about 39k measured as overlapping on the same object) and shared signers sign distinct messages; no race report, no runtime abort, no result different from sequential execution.",
         "trusted: Go race detector and runtime; only interleavings the stress run produced were observed (happens-before analysis makes the race verdict timing-independent for code both goroutines executed)", "DESIGN.md section 4 C18"),
 "C19": ("exploration", "runtime monitor: deep-hash comparison of destination values across decode histories (used vs fresh destination, before vs after a failing decode) and after overwriting input and output buffers",
         "For the 7 message/signature/countersignature/header-bucket decoders, 3000 histories each of 2-6 decodes into one variable mix valid inputs of different shapes with inputs failing at every stage; a failing decode must leave the destination bit-identical, a successful one must equal a fresh decode, and scribbling 0xFF over the exact-capacity input buffer or over returned encodings must change neither the value, its re-encoding nor its Verify verdict.",
         "trusted: reflect-based deep hash (exported and unexported fields, capacity tails)", "DESIGN.md section 4 C19"),
}
REASON_NOT_BUILT = "check not built yet in this round; no claim is made (see DESIGN.md build order)"

props = [json.loads(l)["id"] for l in open(os.path.join(HERE, "properties.jsonl"))]
checks, na = [], []
for pid in props:
    if pid in CHECKS:
        cat, tech, text, note, ref = CHECKS[pid]
        text += LATER.get(pid, "")
        checks.append({
            "property_id": pid,
            "quick_cmd": "./run %s quick" % pid,
            "thorough_cmd": "./run %s thorough" % pid,
            "evidence_file": "/verif/evidence/%s.json" % pid,
            "replay_cmd_template": "./run %s quick --replay {path}" % pid,
            "engine": "vcheck",
            "level_claimed": {"category": cat, "text": text, "design_ref": ref},
            "level_note": note,
            "technique": tech,
        })
    else:
        na.append({"property_id": pid, "reason": REASON_NOT_BUILT})
m = {
 "version": 1,
 "setup_cmd": "./run setup",
 "hooks": {
   "guard": "verif",
   "enable": "harness binaries are built with `go build -tags verif` against /repo via a go.mod replace directive; no hook was needed (every property is observable at the public API), so the tag currently guards nothing in /repo",
   "baseline_off_cmd": "cd /repo && GOFLAGS=-mod=mod GOPROXY=off GOSUMDB=off GOTOOLCHAIN=local go test -json -vet=off -count=1 -timeout 25m ./...",
   "source_commits": [],
   "add_only": True,
 },
 "engines": [
   {"name": "vcheck", "path": "/verif/harness", "serves_properties": sorted(CHECKS),
    "kind_free_text": "Go harness: seeded hostile workloads driving the real library through its public API under runtime monitors (recording spy signers/verifiers, deep-hash snapshots, child-process liveness watchdog, Go race detector) with oracles from independent reference models (refcbor/refcose/refcrypto)"}
 ],
 "checks": checks,
 "not_applicable": na,
 "notes": "Technique family: runtime monitoring and sanitizers. Genuine defects repaired in /repo as `fix:` commits are listed in /verif/known_findings.json. `./run <ID> <tier>` rebuilds the harness from /repo's working tree every time.",
}
json.dump(m, open(os.path.join(HERE, "MANIFEST.json"), "w"), indent=1)
print("MANIFEST.json: %d checks, %d not claimed" % (len(checks), len(na)))
