#!/bin/bash
# tools/mutant.sh <patch.diff> <ID> [<ID>...]
# Applies a patch to a scratch copy of /repo (outside /repo and /verif), checks that the pinned
# suite still passes there, runs the given checks (quick tier) against the copy and reports
# whether each raised a VIOLATION. Nothing in /repo or /verif/evidence is touched.
set -u
PATCH="$(readlink -f "$1")"; shift
NAME="$(basename "$(dirname "$PATCH")")-$(basename "$PATCH" .diff)"
SCR="/tmp/mut/$NAME"
export GOFLAGS=-mod=mod GOPROXY=off GOSUMDB=off GOTOOLCHAIN=local
rm -rf "$SCR"; mkdir -p "$SCR/repo" "$SCR/out"
git -C /repo archive HEAD | tar -x -C "$SCR/repo"
if ! (cd "$SCR/repo" && git apply --whitespace=nowarn "$PATCH" 2>"$SCR/apply.log" || patch -p1 -s < "$PATCH" >>"$SCR/apply.log" 2>&1); then
  echo "MUTANT $NAME: patch does not apply"; cat "$SCR/apply.log"; rm -rf "$SCR"; exit 2
fi
if [ "${SKIP_SUITE:-0}" != 1 ]; then
  if ! (cd "$SCR/repo" && go test -vet=off -count=1 ./... >"$SCR/suite.log" 2>&1); then
    echo "MUTANT $NAME: pinned suite FAILS with the patch (not an interesting mutant)"; tail -5 "$SCR/suite.log"; rm -rf "$SCR"; exit 2
  fi
fi
rc=0
for ID in "$@"; do
  VERIF_REPO="$SCR/repo" VERIF_OUT="$SCR/out" "$(dirname "$0")/../run" "$ID" ${MUT_TIER:-quick} >"$SCR/$ID.log" 2>&1
  code=$?
  if grep -q "^VIOLATION property=$ID" "$SCR/$ID.log"; then
    echo "MUTANT $NAME: $ID CAUGHT (exit $code): $(grep -m1 -B1 "^VIOLATION" "$SCR/$ID.log" | head -1 | cut -c1-200)"
  else
    echo "MUTANT $NAME: $ID MISSED (exit $code): $(tail -1 "$SCR/$ID.log" | cut -c1-160)"; rc=1
  fi
done
[ "${KEEP:-0}" = 1 ] || rm -rf "$SCR" /verif/harness/.alt.* /verif/harness/bin/vcheck.* /verif/harness/bin/vcheck-race.* /verif/harness/bin/build.*.log
exit $rc
