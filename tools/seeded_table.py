#!/usr/bin/env python3
"""Renders /verif/seeded/*/meta.json as the markdown table of DESIGN.md section 7.4."""
import json, glob, os, re, sys
rows = []
for f in sorted(glob.glob('/verif/seeded/*/meta.json')):
    m = json.load(open(f))
    demo = {True: "yes", False: "NO", None: "n/a"}[m.get("demonstration_confirmed")]
    rows.append("| %s | %s | %s | %s | %s | %s |" % (m["id"], m["property"], m["what"].replace("|", "/"), m["needs_to_manifest"].replace("|", "/"), ", ".join(m["caught_by"]) or "-", ", ".join(m["missed_by"]) or "-"))
n = len(rows)
sub = sum(1 for f in glob.glob('/verif/seeded/*/meta.json') if json.load(open(f))["source"].startswith("independent"))
text = """%d confirmed changes are kept under `/verif/seeded/<id>/` (`patch.diff`, the
demonstration where one exists, `meta.json` with what was run). %d were written
by independent sub-agents that were given only the text of one property and a
scratch worktree (never anything from /verif); the `own-*` ones exercise
monitors no sub-agent change happened to need (watchdog, fatal-error
attribution, race-detector-only), and the `D*-revert` ones undo one repaired
defect each. For every entry I confirmed in a scratch copy that the patch
applies and builds, that the unedited pinned suite still passes with it (except
`own-hang` / `own-stackoverflow`, whose whole point is to hang/crash), that the
demonstration fails with it and passes without it, and then ran the listed
checks (quick tier, seed 1) against the patched copy with
`tools/seed_import.py`. "caught by" lists the checks that printed a VIOLATION
line; no check is listed under "missed by" for its own property.

| id | property | change | needs | caught by | run but silent |
|---|---|---|---|---|---|
%s
""" % (n, sub, "\n".join(rows))
p = '/verif/DESIGN.md'
s = open(p).read()
if 'SEEDED_TABLE_PLACEHOLDER' in s:
    s = s.replace('SEEDED_TABLE_PLACEHOLDER', '<!-- seeded-table-begin -->\n' + text + '<!-- seeded-table-end -->')
else:
    s = re.sub(r'<!-- seeded-table-begin -->.*<!-- seeded-table-end -->', lambda _: '<!-- seeded-table-begin -->\n' + text + '<!-- seeded-table-end -->', s, flags=re.S)
open(p, 'w').write(s)
print("table with %d rows" % n)
