#!/usr/bin/env python3
"""Validate a seeded breaking change and record it under /verif/seeded/<id>/.

usage: seed_import.py <src_dir> <variant> <seed_id> <property> <checks,comma> [--no-demo]

Steps (all on scratch copies under /tmp/seedval, removed afterwards):
  1. the patch applies to a copy of /repo HEAD, builds, and the pinned suite passes with it;
  2. the demonstration fails with the patch and passes without it;
  3. the listed checks are run against the patched copy (quick tier) and their verdicts recorded.
Writes patch.diff, the demonstration and meta.json.
"""
import json, os, shutil, subprocess, sys, time

ENV = dict(os.environ, GOFLAGS="-mod=mod", GOPROXY="off", GOSUMDB="off", GOTOOLCHAIN="local")
DESCR = json.load(open(os.path.join(os.path.dirname(__file__), "seed_descriptions.json")))


def sh(cmd, cwd=None, timeout=1500, env=ENV):
    p = subprocess.run(cmd, shell=True, cwd=cwd, env=env, capture_output=True, text=True, timeout=timeout)
    return p.returncode, (p.stdout + p.stderr)


def fresh(dst):
    shutil.rmtree(dst, ignore_errors=True)
    os.makedirs(dst)
    rc, out = sh("git -C /repo archive HEAD | tar -x -C %s" % dst)
    assert rc == 0, out


def main():
    src, variant, sid, prop, checks = sys.argv[1:6]
    no_demo = "--no-demo" in sys.argv
    checks = [c for c in checks.split(",") if c]
    patch = os.path.join(src, variant + ".diff")
    demo = os.path.join(src, "demo_%s_test.go" % variant)
    work = "/tmp/seedval/" + sid
    ran = []
    meta = {"id": sid, "property": prop, "source": "independent sub-agent given only the property text" if not sid.startswith(("own-", "D")) else "own (written while validating the monitors)",
            "what": DESCR.get(sid, {}).get("what", ""), "needs_to_manifest": DESCR.get(sid, {}).get("needs", "")}
    head = subprocess.check_output(["git", "-C", "/repo", "rev-parse", "--short", "HEAD"], text=True).strip()
    meta["repo_head"] = head
    # 1. applies + suite
    fresh(work + "/patched")
    rc, out = sh("git apply --whitespace=nowarn %s || patch -p1 -s < %s" % (patch, patch), cwd=work + "/patched")
    if rc != 0:
        print("SEED %s: patch does not apply: %s" % (sid, out[-300:]))
        shutil.rmtree(work, ignore_errors=True)
        return 2
    rc, out = sh("go build ./... && go test -vet=off -count=1 ./...", cwd=work + "/patched")
    ran.append({"cmd": "go build ./... && go test -vet=off -count=1 ./...  (patched copy)", "result": "pass" if rc == 0 else "FAIL", "tail": out[-200:]})
    if rc != 0:
        print("SEED %s: pinned suite fails with the patch" % sid)
        if "--allow-suite-fail" not in sys.argv:
            shutil.rmtree(work, ignore_errors=True)
            return 2
    # 2. demonstration
    if not no_demo and os.path.exists(demo):
        shutil.copy(demo, work + "/patched/zz_demo_test.go")
        rc1, out1 = sh("go test -vet=off -count=1 -run 'Demo|demo|Seed|C[0-9][0-9]' . ", cwd=work + "/patched")
        # run the whole demo file: find its test names
        names = [l.split("(")[0].replace("func ", "").strip() for l in open(demo) if l.startswith("func Test")]
        pat = "^(" + "|".join(names) + ")$"
        rc1, out1 = sh("go test -vet=off -count=1 -run '%s' ." % pat, cwd=work + "/patched")
        fresh(work + "/clean")
        shutil.copy(demo, work + "/clean/zz_demo_test.go")
        rc2, out2 = sh("go test -vet=off -count=1 -run '%s' ." % pat, cwd=work + "/clean")
        ran.append({"cmd": "go test -run '%s' .  (demonstration, patched copy)" % pat, "result": "fails" if rc1 != 0 else "PASSES (unexpected)", "tail": out1[-300:]})
        ran.append({"cmd": "go test -run '%s' .  (demonstration, clean copy)" % pat, "result": "passes" if rc2 == 0 else "FAILS (unexpected)", "tail": out2[-300:]})
        meta["demonstration_confirmed"] = (rc1 != 0 and rc2 == 0)
        os.remove(work + "/patched/zz_demo_test.go")
    else:
        meta["demonstration_confirmed"] = None
    # 3. checks
    caught, missed = [], []
    for cid in checks:
        t0 = time.time()
        env = dict(ENV, VERIF_REPO=work + "/patched", VERIF_OUT=work + "/out")
        rc, out = sh("/verif/run %s quick" % cid, env=env, timeout=3000)
        viol = [l for l in out.splitlines() if l.startswith("VIOLATION property=%s" % cid)]
        first = ""
        lines = out.splitlines()
        for i, l in enumerate(lines):
            if l.startswith("VIOLATION") and i > 0:
                first = lines[i - 1].strip()[:300]
                break
        ran.append({"cmd": "VERIF_REPO=<patched copy> ./run %s quick" % cid, "result": "VIOLATION (exit %d)" % rc if viol else "no violation (exit %d)" % rc, "first_violation": first, "wall_s": round(time.time() - t0, 1)})
        (caught if viol else missed).append(cid)
    meta["caught_by"], meta["missed_by"], meta["ran"] = caught, missed, ran
    dst = "/verif/seeded/" + sid
    os.makedirs(dst, exist_ok=True)
    shutil.copy(patch, dst + "/patch.diff")
    if os.path.exists(demo) and not no_demo:
        shutil.copy(demo, dst + "/demo_test.go")
    json.dump(meta, open(dst + "/meta.json", "w"), indent=1)
    shutil.rmtree(work, ignore_errors=True)
    for d in os.listdir("/verif/harness"):
        if d.startswith(".alt."):
            shutil.rmtree("/verif/harness/" + d, ignore_errors=True)
    for f in os.listdir("/verif/harness/bin"):
        if f.startswith(("vcheck.", "vcheck-race.", "build.")):
            os.remove("/verif/harness/bin/" + f)
    print("SEED %s (%s): suite ok, demo confirmed=%s, caught by %s, missed by %s" % (sid, prop, meta["demonstration_confirmed"], caught, missed))
    return 0


if __name__ == "__main__":
    sys.exit(main())
