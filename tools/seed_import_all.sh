#!/bin/bash
cd /verif
run() { timeout 3000 python3 tools/seed_import.py "$@" 2>&1 | tail -1; }
while read c var checks; do
  [ -z "$c" ] && continue
  run /tmp/seed17/$c $var R17-$c-$var $c $checks
done
echo IMPORT17-DONE
